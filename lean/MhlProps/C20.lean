/-
C20 — The background update check can never change or stall a command.

About `MhlModel.Updater` (ascmhl/cli/update.py + the click result callback): main thread ∥ daemon checker thread ∥
update server with an abstract clock.  Everything below holds for EVERY command `cmd`, EVERY server behaviour `srv`
(quick / late / newer / older / pre-release / dev / malformed / connection refused / other exception / never answers)
and EVERY reachable state, i.e. every finite interleaving.  The inductive invariant is
`MhlProps.UpdaterLemmas.Inv` (MhlProps/Proofs/UpdaterLemmas.lean).

Item 3 (`bounded_delay`) holds at full strength because the only clock advances after the command finished are the two
join steps, both bounded by `joinTimeoutMs` (`Step.tick` is enabled only in `start` / `running`).
-/
import MhlProps.Proofs.UpdaterLemmas

namespace MhlProps.C20
open MhlModel.Updater MhlProps.UpdaterLemmas

variable {cmd : Cmd} {srv : ServerBehaviour} {s : State}

/-! ### 1. exit code -/

/-- the exit code of the process is the command's own exit code; before the exit there is none -/
theorem exit_preserved (h : Reach cmd srv s) :
    (s.mainPc = .exited → s.exitCode = some cmd.exitCode) ∧ (s.mainPc ≠ .exited → s.exitCode = none) := by
  have inv := inv_reach h
  refine ⟨fun he => (inv.exited he).1, fun hne => ?_⟩
  cases hpc : s.mainPc with
  | start => exact (inv.start hpc).2.1
  | running => exact (inv.running hpc).2.1
  | joining => exact (inv.joining hpc).2.2.1
  | reading => exact (inv.reading hpc).2.2.1
  | printing => exact (inv.printing hpc).2.2.1
  | exited => exact absurd hpc hne

/-! ### 2. standard output -/

/-- at every moment stdout is: nothing yet, the command's output, or the command's output plus the one notice -/
theorem stdout_cases (h : Reach cmd srv s) :
    s.stdout = [] ∨ s.stdout = cmd.stdout ∨ s.stdout = cmd.stdout ++ [notice] := by
  have inv := inv_reach h
  cases hpc : s.mainPc with
  | start => exact .inl (inv.start hpc).1
  | running => exact .inl (inv.running hpc).1
  | joining => exact .inr (.inl (inv.joining hpc).2.1)
  | reading => exact .inr (.inl (inv.reading hpc).2.1)
  | printing => exact .inr (.inl (inv.printing hpc).2.1)
  | exited =>
    rcases (inv.exited hpc).2.2.2 with ⟨_, h2, _⟩ | ⟨_, h2⟩
    · exact .inr (.inl h2)
    · cases hs : s.seenNeedsUpdate <;> simp [hs] at h2
      · exact .inr (.inl h2)
      · exact .inr (.inr h2)

/-- at exit stdout is the command's output, possibly followed by the one update notice; a command that raised never
gets the notice (the result callback is not run) -/
theorem stdout_preserved (h : Reach cmd srv s) (he : s.mainPc = .exited) :
    (s.stdout = cmd.stdout ∨ s.stdout = cmd.stdout ++ [notice]) ∧
    (cmd.normalReturn = false → s.stdout = cmd.stdout) := by
  have inv := inv_reach h
  rcases (inv.exited he).2.2.2 with ⟨hn, h2, _⟩ | ⟨hn, h2⟩
  · exact ⟨.inl h2, fun _ => h2⟩
  · refine ⟨?_, fun hf => by simp [hn] at hf⟩
    cases hs : s.seenNeedsUpdate <;> simp [hs] at h2
    · exact .inl h2
    · exact .inr h2

/-- the two alternatives of `stdout_preserved` exclude each other -/
theorem stdout_ne_with_notice (l : List String) : l ≠ l ++ [notice] := by
  intro h
  have := congrArg List.length h
  simp at this

/-! ### 3. bounded delay -/

/-- the join is entered at the instant the command finishes and no time passes in `joining` without the main
thread moving -/
theorem joining_clock (h : Reach cmd srv s) (hj : s.mainPc = .joining) : s.now = s.joinStart :=
  (inv_reach h).joining hj |>.2.2.2.2

/-- `updater.join(timeout=1)` ALWAYS returns within the bound, whatever the server does (also `srv = .never`, also a
dead checker): every step that leaves `joining` ends at a clock reading ≤ joinStart + joinTimeoutMs. -/
theorem join_returns_in_time {s' : State} (h : Reach cmd srv s) (hj : s.mainPc = .joining)
    (st : Step cmd srv s s') (hm : s'.mainPc ≠ .joining) :
    s'.mainPc = .reading ∧ s'.joinStart = s.joinStart ∧ s'.now ≤ s.joinStart + joinTimeoutMs := by
  have hc := joining_clock h hj
  cases st <;> simp_all <;> omega

/-- a command that raised exits at the very instant it finished: the update check costs it nothing -/
theorem bounded_delay_raises (h : Reach cmd srv s) (he : s.mainPc = .exited) (hn : cmd.normalReturn = false) :
    s.exitTime = s.joinStart := by
  rcases ((inv_reach h).exited he).2.2.2 with ⟨_, _, _, h4⟩ | ⟨ht, _⟩
  · exact h4
  · simp [hn] at ht

/-- ITEM 3: the process exits at most `joinTimeoutMs` after the command finished, whatever the server does — in
particular when it never answers (`srv = .never`) and when the checker died -/
theorem bounded_delay (h : Reach cmd srv s) (he : s.mainPc = .exited) :
    s.exitTime ≤ s.joinStart + joinTimeoutMs :=
  ((inv_reach h).exited he).2.2.1

/-- the same bound holds for the clock at every moment after the join returned -/
theorem bounded_delay_after_join (h : Reach cmd srv s)
    (hp : s.mainPc = .reading ∨ s.mainPc = .printing ∨ s.mainPc = .exited) :
    s.now ≤ s.joinStart + joinTimeoutMs := by
  have inv := inv_reach h
  rcases hp with hp | hp | hp
  · exact (inv.reading hp).2.2.2.2
  · exact (inv.printing hp).2.2.2
  · have := inv.exited hp
    omega

/-! ### 4. the notice -/

/-- whenever the flag read by the main thread is set, the checker had ALREADY stored a strictly newer, non-pre-release,
non-dev version (so the store happened before the read), and that version is what the server replied -/
theorem seen_implies_stored (h : Reach cmd srv s) (hs : s.seenNeedsUpdate = true) :
    s.latest = some ⟨true, false, false⟩ ∧ s.chkPc = .done ∧ srv = .reply true false false ∧
    (s.mainPc = .printing ∨ s.mainPc = .exited) := by
  have inv := inv_reach h
  have hn := inv.seen hs
  cases hl : s.latest with
  | none => simp [hl] at hn
  | some l =>
    rw [hl, needsUpdate_some] at hn
    obtain ⟨h1, h2, h3⟩ := hn
    have hsrv := inv.latest l hl
    rw [h1, h2, h3] at hsrv
    have hl' : l = ⟨true, false, false⟩ := by cases l; simp_all
    refine ⟨by rw [hl'], ?_, hsrv, ?_⟩
    · cases hc : s.chkPc <;> first | rfl | (have := inv.latestDone (by simp [hc]); simp [hl] at this)
    · cases hpc : s.mainPc with
      | start => have := (inv.start hpc).2.2.1; simp [hs] at this
      | running => have := (inv.running hpc).2.2; simp [hs] at this
      | joining => have := (inv.joining hpc).2.2.2.1; simp [hs] at this
      | reading => have := (inv.reading hpc).2.2.2.1; simp [hs] at this
      | printing => simp
      | exited => simp

/-- the notice is printed only after a normally returning command and only if the server replied with a strictly
newer, non-pre-release, non-dev version — which had been stored by the checker before the main thread read it -/
theorem notice_only_if_newer (h : Reach cmd srv s) (he : s.mainPc = .exited)
    (hn : s.stdout = cmd.stdout ++ [notice]) :
    cmd.normalReturn = true ∧ (∃ p d, srv = .reply true p d ∧ p = false ∧ d = false) ∧
    s.seenNeedsUpdate = true ∧ s.latest = some ⟨true, false, false⟩ ∧ s.chkPc = .done := by
  have inv := inv_reach h
  rcases (inv.exited he).2.2.2 with ⟨_, h2, _⟩ | ⟨ht, h2⟩
  · exact absurd (h2.symm.trans hn) (stdout_ne_with_notice _)
  · cases hs : s.seenNeedsUpdate with
    | false =>
      simp [hs] at h2
      exact absurd (h2.symm.trans hn) (stdout_ne_with_notice _)
    | true =>
      obtain ⟨h3, h4, h5, _⟩ := seen_implies_stored h hs
      exact ⟨ht, ⟨false, false, h5, rfl, rfl⟩, rfl, h3, h4⟩

/-- `latest` is only ever what the server replied -/
theorem latest_only_from_reply (h : Reach cmd srv s) (n p d : Bool) (hl : s.latest = some ⟨n, p, d⟩) :
    srv = .reply n p d :=
  (inv_reach h).latest _ hl

/-- so for every server behaviour other than `reply true false false` no run prints the notice -/
theorem no_notice_unless_newer (h : Reach cmd srv s) (he : s.mainPc = .exited) (hsrv : srv ≠ .reply true false false) :
    s.stdout = cmd.stdout := by
  rcases (stdout_preserved h he).1 with h1 | h1
  · exact h1
  · obtain ⟨_, ⟨p, d, h2, rfl, rfl⟩, _⟩ := notice_only_if_newer h he h1
    exact absurd h2 hsrv

/-! ### 5. the main thread is never blocked -/

/-- in every state (reachable or not) in which the process has not exited the MAIN thread has an enabled step, and it
changes its program counter: not blocked by a silent server, not blocked by a dead checker -/
theorem main_can_move (cmd : Cmd) (srv : ServerBehaviour) (s : State) (hne : s.mainPc ≠ .exited) :
    ∃ s', Step cmd srv s s' ∧ s'.mainPc ≠ s.mainPc := by
  cases hpc : s.mainPc with
  | start => exact ⟨_, .mainStart s hpc, by simp⟩
  | running =>
    cases hn : cmd.normalReturn with
    | true => exact ⟨_, .mainCommandNormal s 0 hpc hn, by simp⟩
    | false => exact ⟨_, .mainCommandRaises s 0 hpc hn, by simp⟩
  | joining => exact ⟨_, .mainJoinTimeout s hpc, by simp⟩
  | reading => exact ⟨_, .mainRead s hpc, by simp⟩
  | printing => exact ⟨_, .mainFinish s hpc, by simp⟩
  | exited => exact absurd hpc hne

theorem no_deadlock (_h : Reach cmd srv s) (hne : s.mainPc ≠ .exited) :
    ∃ s', Step cmd srv s s' ∧ s'.mainPc ≠ s.mainPc :=
  main_can_move cmd srv s hne

/-- measure of the main thread's remaining work -/
def mainRank : MainPc → Nat
  | .start => 5 | .running => 4 | .joining => 3 | .reading => 2 | .printing => 1 | .exited => 0

/-- every step either leaves the main thread where it is or moves it strictly forward: it never loops, so at most 5
main steps lead to the exit -/
theorem main_progress {s' : State} (st : Step cmd srv s s') :
    s'.mainPc = s.mainPc ∨ mainRank s'.mainPc < mainRank s.mainPc := by
  cases st <;> simp_all [mainRank]

/-! ### 6. exits are reachable (non-vacuity), and the race is real -/

/-- for every command and every server there is a run that exits: the main thread alone
(start · command · join-timeout · read · finish, or start · command raises) -/
theorem exit_reachable (cmd : Cmd) (srv : ServerBehaviour) :
    ∃ s, Reach cmd srv s ∧ s.mainPc = .exited ∧ s.stdout = cmd.stdout ∧ s.exitCode = some cmd.exitCode := by
  have r0 : Reach cmd srv {} := .init
  have r1 := Reach.step _ _ r0 (.mainStart _ rfl)
  cases hn : cmd.normalReturn with
  | false =>
    have r2 := Reach.step _ _ r1 (.mainCommandRaises _ 0 rfl hn)
    exact ⟨_, r2, rfl, by simp, rfl⟩
  | true =>
    have r2 := Reach.step _ _ r1 (.mainCommandNormal _ 0 rfl hn)
    have r3 := Reach.step _ _ r2 (.mainJoinTimeout _ rfl)
    have r4 := Reach.step _ _ r3 (.mainRead _ rfl)
    have r5 := Reach.step _ _ r4 (.mainFinish _ rfl)
    exact ⟨_, r5, rfl, by simp [needsUpdate], rfl⟩

/-- newer release on the server, checker faster than the command: the run
start · reply · store · command · join(thread done) · read · finish exits WITH the notice -/
theorem exit_reachable_with_notice (cmd : Cmd) (hn : cmd.normalReturn = true) :
    ∃ s, Reach cmd (.reply true false false) s ∧ s.mainPc = .exited ∧ s.stdout = cmd.stdout ++ [notice] ∧
      s.exitCode = some cmd.exitCode := by
  have r0 : Reach cmd (.reply true false false) {} := .init
  have r1 := Reach.step _ _ r0 (.mainStart _ rfl)
  have r2 := Reach.step _ _ r1 (.chkReply _ true false false rfl rfl)
  have r3 := Reach.step _ _ r2 (.chkStore _ true false false rfl rfl)
  have r4 := Reach.step _ _ r3 (.mainCommandNormal _ 0 rfl hn)
  have r5 := Reach.step _ _ r4 (.mainJoinThreadDone _ 0 rfl (.inl rfl) (by simp))
  have r6 := Reach.step _ _ r5 (.mainRead _ rfl)
  have r7 := Reach.step _ _ r6 (.mainFinish _ rfl)
  exact ⟨_, r7, rfl, by simp [needsUpdate], rfl⟩

/-- same server, same command, but the checker's store comes after the main thread's read: the run
start · reply · command · join-timeout · read · STORE · finish exits WITHOUT the notice although `latest` holds the
newer version at exit — the race between the store and the read is real (and harmless) -/
theorem exit_reachable_without_notice (cmd : Cmd) (hn : cmd.normalReturn = true) :
    ∃ s, Reach cmd (.reply true false false) s ∧ s.mainPc = .exited ∧ s.stdout = cmd.stdout ∧
      s.latest = some ⟨true, false, false⟩ ∧ s.exitCode = some cmd.exitCode := by
  have r0 : Reach cmd (.reply true false false) {} := .init
  have r1 := Reach.step _ _ r0 (.mainStart _ rfl)
  have r2 := Reach.step _ _ r1 (.chkReply _ true false false rfl rfl)
  have r3 := Reach.step _ _ r2 (.mainCommandNormal _ 0 rfl hn)
  have r4 := Reach.step _ _ r3 (.mainJoinTimeout _ rfl)
  have r5 := Reach.step _ _ r4 (.mainRead _ rfl)
  have r6 := Reach.step _ _ r5 (.chkStore _ true false false rfl rfl)
  have r7 := Reach.step _ _ r6 (.mainFinish _ rfl)
  exact ⟨_, r7, rfl, by simp [needsUpdate], rfl, rfl⟩

/-! ### 7. stdout / stderr separation -/

/-- every line on stdout is one of the command's own lines or the notice; stderr only ever holds checker tracebacks,
and only when the checker died of a malformed answer or a non-Request exception -/
theorem stderr_only_from_checker (h : Reach cmd srv s) :
    (∀ x ∈ s.stdout, x ∈ cmd.stdout ∨ x = notice) ∧
    (∀ x ∈ s.stderr, x = traceback) ∧
    (s.stderr ≠ [] → s.chkPc = .dead ∧ (srv = .garbage ∨ srv = .otherException)) := by
  have inv := inv_reach h
  refine ⟨fun x hx => ?_, inv.stderrOnly, fun hne => ⟨inv.stderrDead hne, inv.dead (inv.stderrDead hne)⟩⟩
  rcases stdout_cases h with h1 | h1 | h1 <;> rw [h1] at hx
  · simp at hx
  · exact .inl hx
  · simpa using hx

theorem notice_ne_traceback : notice ≠ traceback := by decide

/-- the checker's traceback never shows up on stdout (unless the command itself printed that very line) -/
theorem traceback_not_on_stdout (h : Reach cmd srv s) (hc : traceback ∉ cmd.stdout) :
    traceback ∉ s.stdout := by
  intro hx
  rcases (stderr_only_from_checker h).1 _ hx with h1 | h1
  · exact hc h1
  · exact notice_ne_traceback h1.symm

/-- the exit code and stdout do not depend on the server at all when it does not offer a newer release, and in every
case the exit code does not: two runs of the same command against different servers -/
theorem exit_independent_of_server {srv₁ srv₂ : ServerBehaviour} {s₁ s₂ : State}
    (h₁ : Reach cmd srv₁ s₁) (h₂ : Reach cmd srv₂ s₂) (e₁ : s₁.mainPc = .exited) (e₂ : s₂.mainPc = .exited) :
    s₁.exitCode = s₂.exitCode ∧ (s₁.stdout = s₂.stdout ∨ s₁.stdout = s₂.stdout ++ [notice] ∨
      s₂.stdout = s₁.stdout ++ [notice]) := by
  refine ⟨by rw [(exit_preserved h₁).1 e₁, (exit_preserved h₂).1 e₂], ?_⟩
  rcases (stdout_preserved h₁ e₁).1 with a | a <;> rcases (stdout_preserved h₂ e₂).1 with b | b <;> simp [a, b]

/-! ### non-vacuity on concrete values -/

/-- a verify command that fails (exit 12), server never answers: hypotheses of 1–4 and 7 hold on a concrete run -/
example : ∃ s, Reach ⟨12, false, ["ERROR: hash mismatch"]⟩ .never s ∧ s.mainPc = .exited ∧
    s.exitCode = some 12 ∧ s.stdout = ["ERROR: hash mismatch"] ∧ s.exitTime = s.joinStart := by
  obtain ⟨s, hr, he, ho, hc⟩ := exit_reachable ⟨12, false, ["ERROR: hash mismatch"]⟩ .never
  exact ⟨s, hr, he, hc, ho, bounded_delay_raises hr he rfl⟩

/-- a successful command against a server offering a newer release: the hypotheses of `notice_only_if_newer` are
satisfiable -/
example : ∃ s, Reach ⟨0, true, ["created a.mhl"]⟩ (.reply true false false) s ∧ s.mainPc = .exited ∧
    s.stdout = (⟨0, true, ["created a.mhl"]⟩ : Cmd).stdout ++ [notice] := by
  obtain ⟨s, hr, he, ho, _⟩ := exit_reachable_with_notice ⟨0, true, ["created a.mhl"]⟩ rfl
  exact ⟨s, hr, he, ho⟩

/-- the checker dies of a malformed answer: traceback on stderr, stdout and exit code untouched -/
example : ∃ s, Reach ⟨0, true, ["ok"]⟩ .garbage s ∧ s.mainPc = .exited ∧ s.stderr = [traceback] ∧
    s.stdout = ["ok"] ∧ s.exitCode = some 0 ∧ s.chkPc = .dead := by
  have r0 : Reach ⟨0, true, ["ok"]⟩ .garbage {} := .init
  have r1 := Reach.step _ _ r0 (.mainStart _ rfl)
  have r2 := Reach.step _ _ r1 (.chkGarbage _ rfl rfl)
  have r3 := Reach.step _ _ r2 (.mainCommandNormal _ 7 rfl rfl)
  have r4 := Reach.step _ _ r3 (.mainJoinThreadDone _ 3 rfl (.inr rfl) (by decide))
  have r5 := Reach.step _ _ r4 (.mainRead _ rfl)
  have r6 := Reach.step _ _ r5 (.mainFinish _ rfl)
  exact ⟨_, r6, rfl, rfl, rfl, rfl, rfl⟩

/-- a run against a server that never answers exits exactly at the join bound: `bounded_delay` is tight -/
example : ∃ s, Reach ⟨0, true, ["ok"]⟩ .never s ∧ s.mainPc = .exited ∧ s.joinStart = 40 ∧
    s.exitTime = s.joinStart + joinTimeoutMs := by
  have r0 : Reach ⟨0, true, ["ok"]⟩ .never {} := .init
  have r1 := Reach.step _ _ r0 (.mainStart _ rfl)
  have r2 := Reach.step _ _ r1 (.tick _ 15 (.inr rfl))
  have r3 := Reach.step _ _ r2 (.mainCommandNormal _ 25 rfl rfl)
  have r4 := Reach.step _ _ r3 (.mainJoinTimeout _ rfl)
  have r5 := Reach.step _ _ r4 (.mainRead _ rfl)
  have r6 := Reach.step _ _ r5 (.mainFinish _ rfl)
  exact ⟨_, r6, rfl, by decide, by decide⟩

end MhlProps.C20
