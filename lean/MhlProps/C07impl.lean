/-
C07 (refinement) — the directory hashes that `create` RECORDS are the ones the compositional definition specifies.

`create` computes directory hashes the way the tool does: one fold (`createVisit`) over the post-order traversal;
for every visited folder a context `DirCtx` per format is filled with the digests of the visible children in sorted
order — the digest of a file comes out of `sealFile`, the hashes of a sub-folder are popped from the association list
`dirHashes`, where the visit of the sub-folder left them — and the folder's own hashes are appended to `dirHashes`
and recorded in the session (`appendDirHashes`).

The specification `nodeHashes` (MhlModel/DirHash.lean) is a structural recursion over the tree.

Proved here, for every tree, every ignore test, every list of formats, every history, arbitrary `H` and `D`:

  * `sealFile_result_digest`        what a file contributes: for every requested format `f` the result list of
                                    `sealFile` has, under the key `f`, the digest `H f content`;
  * `createVisit_fold_dirHashes_general`
                                    THE REFINEMENT THEOREM: the fold over the traversal of a directory `d` found at
                                    `here`, started from ANY state `st` whose `dirHashes` has no key at or below
                                    `here`, appends exactly `(here, spec hashes of d)` to `st.dirHashes`
                                    (formats: the requested ones without repetitions = `ctxKeys fmts`);
  * `createVisit_fold_dirHashes`    the same for duplicate-free `fmts` (then `ctxKeys fmts = fmts`), in the form asked;
  * `createVisit_fold_independent`  the appended entry does not depend on the starting state;
  * `create_root_dirHashes`, `create_root_hash_is_spec`, `create_root_record`
                                    for `createFolder`: after the traversal `dirHashes` is the single entry for `[]`
                                    with the specified hashes; the last session operation is
                                    `appendDirHashes rootHist _ [] (spec hashes)`; and the root record of the root
                                    history's list in the session is a directory record whose entries end with the
                                    specified (format, content hash, structure hash) entries.

No hypothesis on `H`, `D`, the matcher or the history is needed; what IS needed is that sibling names are distinct in
`d` (a file system guarantees it; `fileContent` and `Node.at?` look a child up by name) and that `d` is the node found
at `here` below the root (files are read through the root: `fileContent t (here ++ [name])`).
-/
import MhlProps.Proofs.DirHashImplLemmas

namespace MhlProps.C07impl
open MhlModel

/-- the `dirHashes` value the specification assigns to the node `d` located at `here`: for each format, the content
hash and the structure hash of `nodeHashes` -/
def specHashes (env : Env) (hit : RelPath → Bool) (fmts : List String) (here : RelPath) (d : Node) :
    List (String × String × String) :=
  fmts.map fun f => (f, (nodeHashes env.H env.D f hit here d).1, (nodeHashes env.H env.D f hit here d).2)

/-! ### 1. what a file contributes -/

/-- `seal_file_path` returns, for every requested format, the digest of the file's current content in that format —
whatever the history records for the file (verified, failed, new, original) and whatever the session holds.  This is
the digest `createVisit` puts into the folder's contexts. -/
theorem sealFile_result_digest (H : HashFn) (rootHist : Hist) (s : Session) (file : RelPath) (content : Bytes)
    (requested : List String) (f : String) (hf : f ∈ requested) :
    ∃ ok, (sealFile H rootHist s file content requested).2.find? (fun x => x.1 == f) = some (f, H f content, ok) :=
  sealFile_res_find H rootHist s file content requested f hf

/-- the same at the level of `sealEntries`: every requested format is a key of the result list, and every entry of
the result list carries `dig` of its format -/
theorem sealEntries_result (gens : List LGen) (p : String) (dig : String → String) (req : List String) :
    (∀ f ∈ req, ∃ ok, (f, dig f, ok) ∈ (sealEntries gens p dig req).2) ∧
    (∀ x ∈ (sealEntries gens p dig req).2, x.2.1 = dig x.1) :=
  ⟨fun f hf => sealEntries_res_mem gens p dig req f hf, sealEntries_res_shape gens p dig req⟩

/-! ### 2. the refinement theorem -/

/-- REFINEMENT (general form, no assumption on `fmts`).  `d` is a directory found at `here` below the root `t`, with
distinct sibling names everywhere in `d`; `st` is ANY state whose `dirHashes` has no key at or below `here`.  Then the
fold of `createVisit` over the traversal of `d` appends to `dirHashes` exactly one entry: `here` with the hashes
`nodeHashes` specifies, for each requested format (repetitions dropped). -/
theorem createVisit_fold_dirHashes_general (env : Env) (t : Node) (rootHist : Hist) (fmts : List String)
    (hit : RelPath → Bool) (here : RelPath) (d : Node) (st : CreateState)
    (hdir : d.isDir = true) (hat : t.at? here = some d) (hnd : d.NamesDistinct)
    (hst : ∀ x ∈ st.dirHashes, ¬ here <+: x.1) :
    ((traverse hit here d).foldl (createVisit env t rootHist fmts false) st).dirHashes =
      st.dirHashes ++ [(here, specHashes env hit (ctxKeys fmts) here d)] :=
  foldl_createVisit_dirHashes env t rootHist fmts hit d hdir here st hat hnd hst

/-- REFINEMENT, as asked: duplicate-free formats. -/
theorem createVisit_fold_dirHashes (env : Env) (t : Node) (rootHist : Hist) (fmts : List String)
    (hit : RelPath → Bool) (here : RelPath) (d : Node) (st : CreateState)
    (hfm : fmts.Nodup) (hdir : d.isDir = true) (hat : t.at? here = some d) (hnd : d.NamesDistinct)
    (hst : ∀ x ∈ st.dirHashes, ¬ here <+: x.1) :
    ((traverse hit here d).foldl (createVisit env t rootHist fmts false) st).dirHashes =
      st.dirHashes ++ [(here, fmts.map fun f =>
        (f, (nodeHashes env.H env.D f hit here d).1, (nodeHashes env.H env.D f hit here d).2))] := by
  have := createVisit_fold_dirHashes_general env t rootHist fmts hit here d st hdir hat hnd hst
  rwa [ctxKeys_of_nodup fmts hfm] at this

/-- the entry that is appended depends on nothing in the starting state (session, counters, found paths, the other
entries of `dirHashes`), and not on the history either -/
theorem createVisit_fold_independent (env : Env) (t : Node) (rootHist rootHist' : Hist) (fmts : List String)
    (hit : RelPath → Bool) (here : RelPath) (d : Node) (st st' : CreateState)
    (hdir : d.isDir = true) (hat : t.at? here = some d) (hnd : d.NamesDistinct)
    (hst : ∀ x ∈ st.dirHashes, ¬ here <+: x.1) (hst' : ∀ x ∈ st'.dirHashes, ¬ here <+: x.1) :
    ((traverse hit here d).foldl (createVisit env t rootHist fmts false) st).dirHashes.drop st.dirHashes.length =
    ((traverse hit here d).foldl (createVisit env t rootHist' fmts false) st').dirHashes.drop st'.dirHashes.length := by
  rw [createVisit_fold_dirHashes_general env t rootHist fmts hit here d st hdir hat hnd hst,
    createVisit_fold_dirHashes_general env t rootHist' fmts hit here d st' hdir hat hnd hst']
  simp

/-- the formats that get directory hashes are exactly the requested ones -/
theorem mem_ctxKeys_iff (fmts : List String) (f : String) : f ∈ ctxKeys fmts ↔ f ∈ fmts := mem_ctxKeys fmts f

/-- … and for every requested format the recorded pair can be read off the entry -/
theorem specHashes_find (env : Env) (hit : RelPath → Bool) (fmts : List String) (here : RelPath) (d : Node)
    (f : String) (hf : f ∈ fmts) :
    (specHashes env hit (ctxKeys fmts) here d).find? (fun x => x.1 == f) =
      some (f, (nodeHashes env.H env.D f hit here d).1, (nodeHashes env.H env.D f hit here d).2) :=
  find?_keyed (ctxKeys fmts)
    (fun f => ((nodeHashes env.H env.D f hit here d).1, (nodeHashes env.H env.D f hit here d).2)) f
    ((mem_ctxKeys fmts f).2 hf)

/-! ### 3. `create` on a folder -/

/-- the state `createFolder` reaches after the traversal (the `st` of its definition) -/
def createFinalState (env : Env) (t : Node) (o : CreateOpts) (rootHist : Hist) : CreateState :=
  let patterns := setPatterns (latestIgnore rootHist.gens) o.ignoreCli o.ignoreFile
  (traverse (env.hit patterns) [] t).foldl (createVisit env t rootHist (isort strLe o.formats) o.noDirHashes)
    { session := { patterns := patterns } }

/-- the ignore test `createFolder` uses -/
def createHit (env : Env) (o : CreateOpts) (rootHist : Hist) : RelPath → Bool :=
  env.hit (setPatterns (latestIgnore rootHist.gens) o.ignoreCli o.ignoreFile)

/-- `createFinalState` IS the state of `createFolder`: without rename detection the session that is committed and the
counters that are reported are those of `createFinalState` -/
theorem createFolder_uses_finalState (env : Env) (t : Node) (o : CreateOpts) (rootHist : Hist)
    (hl : loadHistory t = .ok rootHist) (hdr : o.detectRenaming = false) :
    createFolder env t o =
      let st := createFinalState env t o rootHist
      let hit := createHit env o rootHist
      let notFound := (expectedPaths rootHist).filter fun p => !st.found.contains p
      let missingHist : List RelPath := match rootHist.gens.getLast? with
        | none => []
        | some g => g.gen.refs.filterMap fun ref =>
            let p := (splitPath ref).dropLast.dropLast
            match t.at? p with
            | some n => if n.hist.isSome then none else some p
            | none => some p
      match commit rootHist st.session env.rootName env.stamp "in-place" with
      | .error e => { err := some e }
      | .ok written =>
        let missing := missingAfter hit notFound
        { err := createExit st.failed missing missingHist,
          report := { mismatch := st.mismatch, missing := missing.map posix, renamed := [] },
          written := written } := by
  unfold createFolder
  rw [hl]
  simp only [hdr]
  rfl

/-- after the traversal of `create` on a folder, `dirHashes` consists of the single entry for the root folder, and it
carries the specified hashes of the whole tree for every requested format -/
theorem create_root_dirHashes (env : Env) (t : Node) (o : CreateOpts) (rootHist : Hist)
    (hno : o.noDirHashes = false) (hdir : t.isDir = true) (hnd : t.NamesDistinct) :
    (createFinalState env t o rootHist).dirHashes =
      [([], specHashes env (createHit env o rootHist) (ctxKeys (isort strLe o.formats)) [] t)] := by
  unfold createFinalState
  simp only [hno]
  rw [createVisit_fold_dirHashes_general env t rootHist (isort strLe o.formats) _ [] t _ hdir rfl hnd
    (by simp)]
  rfl

/-- COROLLARY: the hashes `create` holds for the root folder when the traversal ends — the value `verify -dh` style
look-ups (`alookup []`) see, and the value handed to `appendDirHashes` for the root record — are the specified ones:
for every requested format `f`, the content hash and the structure hash of `nodeHashes … [] t`. -/
theorem create_root_hash_is_spec (env : Env) (t : Node) (o : CreateOpts) (rootHist : Hist)
    (hno : o.noDirHashes = false) (hdir : t.isDir = true) (hnd : t.NamesDistinct)
    (f : String) (hf : f ∈ o.formats) :
    ((alookup ([] : RelPath) (createFinalState env t o rootHist).dirHashes).getD []).find? (fun x => x.1 == f) =
      some (f, (nodeHashes env.H env.D f (createHit env o rootHist) [] t).1,
               (nodeHashes env.H env.D f (createHit env o rootHist) [] t).2) := by
  rw [create_root_dirHashes env t o rootHist hno hdir hnd]
  simp only [alookup, if_true, Option.getD_some]
  exact specHashes_find env _ _ [] t f ((mem_isort strLe o.formats f).2 hf)

/-- the session side: the LAST operation on the session is `appendDirHashes rootHist _ [] hashes` with `hashes` the
specified ones, and hence the list of the root history in the session has a root record, flagged as a directory, whose
entries END with the specified (format, content hash, structure hash) entries.  (That they are ALL its entries needs
that nothing else writes the record "." of the root history's list — a statement about `route` / `parentRoot` on
loaded histories that is not proved here.) -/
theorem create_root_record (env : Env) (t : Node) (o : CreateOpts) (rootHist : Hist)
    (hno : o.noDirHashes = false) (hdir : t.isDir = true) (hnd : t.NamesDistinct) :
    let spec := specHashes env (createHit env o rootHist) (ctxKeys (isort strLe o.formats)) [] t
    (∃ s', (createFinalState env t o rootHist).session = appendDirHashes rootHist s' [] spec) ∧
    ∃ r, ((createFinalState env t o rootHist).session.get rootHist.root).rootRec = some r ∧ r.isDir = true ∧
      ∃ pre, r.entries = pre ++ dirEntries spec := by
  intro spec
  have hdh := create_root_dirHashes env t o rootHist hno hdir hnd
  have hsess : ∃ s', (createFinalState env t o rootHist).session = appendDirHashes rootHist s' [] spec := by
    cases t with
    | file n c => simp [Node.isDir] at hdir
    | dir n cs h =>
      unfold createFinalState at hdh ⊢
      simp only [hno] at hdh ⊢
      rw [traverse_dir_nodes, List.foldl_append, List.foldl_cons, List.foldl_nil] at hdh ⊢
      obtain ⟨s', pre, hs, h1, h2⟩ := createVisit_session env (.dir n cs h) rootHist (isort strLe o.formats)
        ((List.flatMap (fun c => traverse (env.hit (setPatterns (latestIgnore rootHist.gens) o.ignoreCli
          o.ignoreFile)) ([] ++ [c.name]) c) (visNodes (env.hit (setPatterns (latestIgnore rootHist.gens)
          o.ignoreCli o.ignoreFile)) [] cs)).foldl
          (createVisit env (.dir n cs h) rootHist (isort strLe o.formats) false)
          { session := { patterns := setPatterns (latestIgnore rootHist.gens) o.ignoreCli o.ignoreFile } })
        ⟨[], (visNodes (env.hit (setPatterns (latestIgnore rootHist.gens) o.ignoreCli o.ignoreFile)) [] cs).map
          fun c => (c.name, c.isDir)⟩
      rw [h2] at hdh
      have hlast := congrArg List.getLast? hdh
      simp only [List.getLast?_append, List.getLast?_singleton, Option.some_or, Option.some.injEq,
        Prod.mk.injEq, true_and] at hlast
      exact ⟨s', by rw [h1, hlast]⟩
  refine ⟨hsess, ?_⟩
  obtain ⟨s', hs'⟩ := hsess
  rw [hs']
  exact appendDirHashes_root_record rootHist s' spec

/-- `create` without `-sf` IS `createFolder` -/
theorem create_eq_createFolder (env : Env) (t : Node) (o : CreateOpts) (hsf : o.singleFiles = []) :
    create env t o = createFolder env t o := by
  simp [create, hsf]

/-! ### non-vacuity -/

section Examples

/-- a tree with a nested folder, an ignored file, an ignored folder with content and an empty folder -/
def exTree : Node :=
  .dir "root"
    [ .file "b.txt" [1],
      .dir "sub" [.file "x" [], .dir ".git" [.file "cfg" []] none, .dir "deep" [.file "y" [2]] none] none,
      .dir "A" [] none,
      .file ".DS_Store" [] ] none

def exHit (p : RelPath) : Bool := p.getLast? == some ".DS_Store" || p.getLast? == some ".git"

theorem exTree_distinct : exTree.NamesDistinct := by
  simp [exTree, Node.NamesDistinct, Node.NamesDistinctKids, Node.name]

/-- the hypotheses of the refinement theorem hold at the root of `exTree`, for two formats and the empty state … -/
example (env : Env) (rootHist : Hist) :
    ((traverse exHit [] exTree).foldl (createVisit env exTree rootHist ["md5", "xxh64"] false)
        { session := {} }).dirHashes =
      [([], [("md5", (nodeHashes env.H env.D "md5" exHit [] exTree).1, (nodeHashes env.H env.D "md5" exHit [] exTree).2),
             ("xxh64", (nodeHashes env.H env.D "xxh64" exHit [] exTree).1,
                       (nodeHashes env.H env.D "xxh64" exHit [] exTree).2)])] :=
  createVisit_fold_dirHashes env exTree rootHist ["md5", "xxh64"] exHit [] exTree { session := {} }
    (by decide) rfl rfl exTree_distinct (by simp)

/-- … and at the nested folder `sub`, from a state that already holds the hashes of an unrelated folder -/
example (env : Env) (rootHist : Hist) (junk : List (String × String × String)) :
    ((traverse exHit ["sub"]
        (.dir "sub" [.file "x" [], .dir ".git" [.file "cfg" []] none, .dir "deep" [.file "y" [2]] none] none)).foldl
        (createVisit env exTree rootHist ["md5"] false)
        { session := {}, dirHashes := [(["A"], junk)] }).dirHashes =
      [(["A"], junk),
       (["sub"], [("md5",
          (nodeHashes env.H env.D "md5" exHit ["sub"]
            (.dir "sub" [.file "x" [], .dir ".git" [.file "cfg" []] none, .dir "deep" [.file "y" [2]] none] none)).1,
          (nodeHashes env.H env.D "md5" exHit ["sub"]
            (.dir "sub" [.file "x" [], .dir ".git" [.file "cfg" []] none, .dir "deep" [.file "y" [2]] none] none)).2)])] :=
  createVisit_fold_dirHashes env exTree rootHist ["md5"] exHit ["sub"] _ _
    (by decide) rfl (by simp [exTree, Node.at?, findChild, Node.name])
    (by simp [Node.NamesDistinct, Node.NamesDistinctKids, Node.name])
    (by intro x hx; simp only [List.mem_singleton] at hx; subst hx; show ¬ ["sub"] <+: ["A"]; decide)

/-- the hypothesis on the starting state is NEEDED: a stale entry for a sub-folder in the starting state is picked up
(`alookup` takes the first entry) instead of the hashes the traversal just computed.  Tree: `r/s/` (empty `s`);
the stale entry claims content hash "STALE" for `s`; the content list of `r` then is `["STALE"]`. -/
example :
    let env : Env := { H := fun _ b => toString b.length, D := fun _ s => some s.toUTF8.toList,
                       hit := fun _ _ => false, rootName := "r" }
    let t : Node := .dir "r" [.dir "s" [] none] none
    ((traverse (fun _ => false) [] t).foldl (createVisit env t (.mk [] [] [] false []) ["md5"] false)
        { session := {}, dirHashes := [(["s"], [("md5", "STALE", "STALE")])] }).dirHashes ≠
      [(["s"], [("md5", "STALE", "STALE")])] ++
        [([], [("md5", (nodeHashes env.H env.D "md5" (fun _ => false) [] t).1,
                       (nodeHashes env.H env.D "md5" (fun _ => false) [] t).2)])] := by
  decide

/-- distinct sibling names are NEEDED: with two entries of the same name the tool-shaped computation reads the first
one twice (`fileContent` goes through the path), the structural specification reads each node -/
example :
    let env : Env :=
      { H := fun _ b => String.singleton (Char.ofNat (97 + (b.foldl (fun a u => 3 * a + u.toNat + 1) 0) % 26)),
        D := fun _ s => some (s.toList.map fun ch => ch.toNat.toUInt8), hit := fun _ _ => false, rootName := "r" }
    let t : Node := .dir "r" [.file "a" [1], .file "a" [2]] none
    ((traverse (fun _ => false) [] t).foldl (createVisit env t (.mk [] [] [] false []) ["md5"] false)
        { session := {} }).dirHashes ≠
      [([], [("md5", (nodeHashes env.H env.D "md5" (fun _ => false) [] t).1,
                     (nodeHashes env.H env.D "md5" (fun _ => false) [] t).2)])] := by
  decide

/-- `createFolder`: formats given with a repetition and unsorted — the root entry has one pair per format, sorted -/
example (env : Env) (rootHist : Hist) :
    (createFinalState env exTree { formats := ["xxh64", "md5", "xxh64"] } rootHist).dirHashes =
      [([], specHashes env (createHit env { formats := ["xxh64", "md5", "xxh64"] } rootHist)
        ["md5", "xxh64"] [] exTree)] := by
  have := create_root_dirHashes env exTree { formats := ["xxh64", "md5", "xxh64"] } rootHist rfl rfl exTree_distinct
  have hk : ctxKeys (isort strLe ["xxh64", "md5", "xxh64"]) = ["md5", "xxh64"] := by decide
  rwa [hk] at this

end Examples

end MhlProps.C07impl
