/-
C17 — Renamed files keep their identity when rename detection is on.

About `MhlModel.expectedOfGens` (`set_of_expected_file_paths` of one history), `recordedName` (the look-up name of a
possibly renamed file in verify / diff) and `detectRenames` (`create -dr`).  Records carry `prev : Option String`, the
previous path of a renamed file.

  1. `expected_drops_previous`: one generation step — a path is expected after generation `g` iff it was expected
     before and is not the previous path of a record of `g`, or it is the path of a record of `g`.
  2. `renamed_away_not_expected` (general: a path renamed away in generation `g` and not recorded again in `g` or
     later is not expected), `recorded_expected` (a path recorded and not renamed away later is expected),
     `rename_chain_expected` (a→b then b→c, the former defect D12: a and b are not expected, c is), and the concrete
     `rename_chain_example` with "a.txt", "b.txt", "c.txt".
  3. `recordedName_id`, `recordedName_step`, `recordedName_chain_example`.
  4. `expected_nodup`.
  5. `detectRenames_found_subset`, `detectRenames_no_new(_full)`, `detectRenames_no_missing(_full)`.

Helper lemmas are in this file (`expStep`, `mem_expStep`, `nameStep`, …).  `splitPath` is `String.splitOn`, which does
not reduce in the kernel; `split_lit` evaluates it on literals by unrolling, and `expectedOfGensWith` lets `decide`
evaluate `expectedOfGens` on concrete generations.
-/
import MhlModel.Commands
import MhlProps.Proofs.SealLemmas

namespace MhlProps.C17
open MhlModel

/-! ### helpers: one generation step of `expectedOfGens` -/

/-- the previous paths of the renamed records of a generation, relative to the command root -/
def prevPaths (root : RelPath) (g : LGen) : List RelPath :=
  g.gen.records.filterMap fun r => r.prev.map fun p => root ++ splitPath p

/-- one generation step of `set_of_expected_file_paths` -/
def expStep (root : RelPath) (acc : List RelPath) (g : LGen) : List RelPath :=
  g.gen.records.foldl (fun a r => appendNew a (root ++ splitPath r.path))
    (acc.filter fun p => !(prevPaths root g).contains p)

theorem expectedOfGens_eq_foldl (root : RelPath) (gens : List LGen) :
    expectedOfGens root gens = gens.foldl (expStep root) [] := rfl

theorem expectedOfGens_append (root : RelPath) (gens₁ gens₂ : List LGen) :
    expectedOfGens root (gens₁ ++ gens₂) = gens₂.foldl (expStep root) (expectedOfGens root gens₁) := by
  rw [expectedOfGens_eq_foldl, List.foldl_append]; rfl

theorem expectedOfGens_snoc (root : RelPath) (gens : List LGen) (g : LGen) :
    expectedOfGens root (gens ++ [g]) = expStep root (expectedOfGens root gens) g := by
  rw [expectedOfGens_append]; rfl

theorem mem_prevPaths (root : RelPath) (g : LGen) (q : RelPath) :
    q ∈ prevPaths root g ↔ ∃ r ∈ g.gen.records, ∃ p, r.prev = some p ∧ q = root ++ splitPath p := by
  simp only [prevPaths, List.mem_filterMap, Option.map_eq_some_iff]
  constructor
  · rintro ⟨r, hr, p, hp, rfl⟩; exact ⟨r, hr, p, hp, rfl⟩
  · rintro ⟨r, hr, p, hp, rfl⟩; exact ⟨r, hr, p, hp, rfl⟩

theorem mem_expStep (root : RelPath) (acc : List RelPath) (g : LGen) (q : RelPath) :
    q ∈ expStep root acc g ↔
      (q ∈ acc ∧ q ∉ prevPaths root g) ∨ ∃ r ∈ g.gen.records, q = root ++ splitPath r.path := by
  unfold expStep
  rw [mem_foldl_appendNew]
  simp only [List.mem_filter, Bool.not_eq_true', List.contains_eq_mem, decide_eq_false_iff_not]
  constructor
  · rintro (h | ⟨r, hr, rfl⟩)
    · exact Or.inl h
    · exact Or.inr ⟨r, hr, rfl⟩
  · rintro (h | ⟨r, hr, rfl⟩)
    · exact Or.inl h
    · exact Or.inr ⟨r, hr, rfl⟩

/-! ### 1. one generation step -/

theorem expected_drops_previous (root : RelPath) (gens : List LGen) (g : LGen) (q : RelPath) :
    q ∈ expectedOfGens root (gens ++ [g]) ↔
      (q ∈ expectedOfGens root gens ∧
          ¬ ∃ r ∈ g.gen.records, ∃ p, r.prev = some p ∧ q = root ++ splitPath p) ∨
        ∃ r ∈ g.gen.records, q = root ++ splitPath r.path := by
  rw [expectedOfGens_snoc, mem_expStep, mem_prevPaths]

/-! ### 4. no duplicates -/

theorem expStep_nodup (root : RelPath) (acc : List RelPath) (g : LGen) (h : acc.Nodup) :
    (expStep root acc g).Nodup :=
  nodup_foldl_appendNew _ _ _ (h.filter _)

theorem expected_nodup (root : RelPath) (gens : List LGen) : (expectedOfGens root gens).Nodup := by
  rw [expectedOfGens_eq_foldl]
  suffices h : ∀ acc : List RelPath, acc.Nodup → (gens.foldl (expStep root) acc).Nodup from h [] List.nodup_nil
  induction gens with
  | nil => intro acc h; exact h
  | cons g gs ih => intro acc h; exact ih _ (expStep_nodup root acc g h)

/-! ### 2. rename chains -/

/-- a path that is not in the list stays out as long as no later generation records it -/
theorem not_mem_foldl_expStep (root : RelPath) (q : RelPath) (gens : List LGen) :
    ∀ acc : List RelPath, q ∉ acc →
      (∀ g ∈ gens, ∀ r ∈ g.gen.records, root ++ splitPath r.path ≠ q) →
      q ∉ gens.foldl (expStep root) acc := by
  induction gens with
  | nil => intro acc h _; exact h
  | cons g gs ih =>
    intro acc h hno
    refine ih _ ?_ (fun g' hg' => hno g' (List.mem_cons_of_mem _ hg'))
    rw [mem_expStep]
    rintro (⟨h', -⟩ | ⟨r, hr, rfl⟩)
    · exact h h'
    · exact hno g (by simp) r hr rfl

/-- a path that is in the list stays in as long as no later generation renames it away -/
theorem mem_foldl_expStep (root : RelPath) (q : RelPath) (gens : List LGen) :
    ∀ acc : List RelPath, q ∈ acc → (∀ g ∈ gens, q ∉ prevPaths root g) → q ∈ gens.foldl (expStep root) acc := by
  induction gens with
  | nil => intro acc h _; exact h
  | cons g gs ih =>
    intro acc h hno
    refine ih _ ?_ (fun g' hg' => hno g' (List.mem_cons_of_mem _ hg'))
    rw [mem_expStep]
    exact Or.inl ⟨h, hno g (by simp)⟩

/-- GENERAL LEMMA: a path renamed away in generation `g` (it is the previous path of a record of `g`) and not recorded
again in `g` or later is not expected — whatever happened before `g` -/
theorem renamed_away_not_expected (root : RelPath) (gens₁ : List LGen) (g : LGen) (gens₂ : List LGen) (q : RelPath)
    (hprev : q ∈ prevPaths root g)
    (hnot : ∀ g' ∈ g :: gens₂, ∀ r ∈ g'.gen.records, root ++ splitPath r.path ≠ q) :
    q ∉ expectedOfGens root (gens₁ ++ g :: gens₂) := by
  rw [expectedOfGens_append, List.foldl_cons]
  refine not_mem_foldl_expStep root q gens₂ _ ?_ (fun g' hg' => hnot g' (List.mem_cons_of_mem _ hg'))
  rw [mem_expStep]
  rintro (⟨-, h⟩ | ⟨r, hr, rfl⟩)
  · exact h hprev
  · exact hnot g (by simp) r hr rfl

/-- the counterpart: a path recorded in generation `g` and not renamed away later is expected -/
theorem recorded_expected (root : RelPath) (gens₁ : List LGen) (g : LGen) (gens₂ : List LGen) (r : Record)
    (hr : r ∈ g.gen.records) (hkeep : ∀ g' ∈ gens₂, root ++ splitPath r.path ∉ prevPaths root g') :
    root ++ splitPath r.path ∈ expectedOfGens root (gens₁ ++ g :: gens₂) := by
  rw [expectedOfGens_append, List.foldl_cons]
  refine mem_foldl_expStep root _ gens₂ _ ?_ hkeep
  rw [mem_expStep]
  exact Or.inr ⟨r, hr, rfl⟩

/-- the former defect D12 (a→b in one generation, b→c in the next): after `g1` (records `a`), `g2` (records `b` with
previous path `a`), `g3` (records `c` with previous path `b`), with arbitrary other records that do not record the
names `a` (in `g2`, `g3`) and `b` (in `g3`) again, and arbitrary generations before: `a` and `b` are not expected, `c`
is. -/
theorem rename_chain_expected (root : RelPath) (gens₀ : List LGen) (g1 g2 g3 : LGen) (a b c : String)
    (h2 : ∃ r ∈ g2.gen.records, r.path = b ∧ r.prev = some a)
    (h3 : ∃ r ∈ g3.gen.records, r.path = c ∧ r.prev = some b)
    (ha : ∀ r ∈ g2.gen.records ++ g3.gen.records, splitPath r.path ≠ splitPath a)
    (hb : ∀ r ∈ g3.gen.records, splitPath r.path ≠ splitPath b) :
    root ++ splitPath a ∉ expectedOfGens root (gens₀ ++ [g1, g2, g3]) ∧
    root ++ splitPath b ∉ expectedOfGens root (gens₀ ++ [g1, g2, g3]) ∧
    root ++ splitPath c ∈ expectedOfGens root (gens₀ ++ [g1, g2, g3]) := by
  obtain ⟨r2, hr2, hp2, hv2⟩ := h2
  obtain ⟨r3, hr3, hp3, hv3⟩ := h3
  refine ⟨?_, ?_, ?_⟩
  · have := renamed_away_not_expected root (gens₀ ++ [g1]) g2 [g3] (root ++ splitPath a)
      ((mem_prevPaths _ _ _).2 ⟨r2, hr2, a, hv2, rfl⟩) (by
        intro g' hg' r hr heq
        have hr' : r ∈ g2.gen.records ++ g3.gen.records := by
          simp only [List.mem_cons, List.not_mem_nil, or_false] at hg'
          rcases hg' with rfl | rfl <;> simp [hr]
        exact ha r hr' (List.append_cancel_left heq))
    simpa using this
  · have := renamed_away_not_expected root (gens₀ ++ [g1, g2]) g3 [] (root ++ splitPath b)
      ((mem_prevPaths _ _ _).2 ⟨r3, hr3, b, hv3, rfl⟩) (by
        intro g' hg' r hr heq
        simp only [List.mem_cons, List.not_mem_nil, or_false] at hg'
        subst hg'
        exact hb r hr (List.append_cancel_left heq))
    simpa using this
  · have := recorded_expected root (gens₀ ++ [g1, g2]) g3 [] r3 hr3 (by simp)
    rw [hp3] at this
    simpa using this

/-! ### concrete paths

`splitPath` is `String.splitOn`, which is defined by well-founded recursion and does not reduce in the kernel; its
value on a literal is obtained by unrolling `String.splitOnAux` step by step. -/

macro "split_lit" : tactic =>
  `(tactic| (unfold MhlModel.splitPath String.splitOn
             simp +decide only [ite_false, ite_true]
             repeat (unfold String.splitOnAux; simp +decide only [ite_false, ite_true])))

theorem splitPath_a : splitPath "a.txt" = ["a.txt"] := by split_lit
theorem splitPath_b : splitPath "b.txt" = ["b.txt"] := by split_lit
theorem splitPath_c : splitPath "c.txt" = ["c.txt"] := by split_lit
theorem splitPath_nested : splitPath "A/b.txt" = ["A", "b.txt"] := by split_lit

/-- `expectedOfGens` with the path splitter as a parameter (`expectedOfGens = expectedOfGensWith splitPath`), so that
concrete instances can be evaluated by `decide` with a splitter that agrees with `splitPath` on the paths that occur -/
def expectedOfGensWith (split : String → RelPath) (root : RelPath) (gens : List LGen) : List RelPath :=
  gens.foldl (fun acc g =>
    let prevs := g.gen.records.filterMap fun r => r.prev.map fun p => root ++ split p
    let acc := acc.filter fun p => !prevs.contains p
    g.gen.records.foldl (fun a r => appendNew a (root ++ split r.path)) acc) []

theorem expectedOfGens_eq_with (root : RelPath) (gens : List LGen) :
    expectedOfGens root gens = expectedOfGensWith splitPath root gens := rfl

theorem foldl_congr_mem {α β : Type} {f g : β → α → β} (l : List α) (h : ∀ b, ∀ a ∈ l, f b a = g b a) (init : β) :
    l.foldl f init = l.foldl g init := by
  induction l generalizing init with
  | nil => rfl
  | cons x xs ih =>
    rw [List.foldl_cons, List.foldl_cons, h init x (by simp)]
    exact ih (fun b a ha => h b a (List.mem_cons_of_mem _ ha)) _

theorem filterMap_congr_mem {α β : Type} {f g : α → Option β} (l : List α) (h : ∀ a ∈ l, f a = g a) :
    l.filterMap f = l.filterMap g := by
  induction l with
  | nil => rfl
  | cons x xs ih =>
    rw [List.filterMap_cons, List.filterMap_cons, h x (by simp),
      ih (fun a ha => h a (List.mem_cons_of_mem _ ha))]

theorem expectedOfGensWith_congr (split₁ split₂ : String → RelPath) (root : RelPath) (gens : List LGen)
    (h : ∀ g ∈ gens, ∀ r ∈ g.gen.records,
      split₁ r.path = split₂ r.path ∧ ∀ p, r.prev = some p → split₁ p = split₂ p) :
    expectedOfGensWith split₁ root gens = expectedOfGensWith split₂ root gens := by
  unfold expectedOfGensWith
  apply foldl_congr_mem
  intro acc g hg
  have h1 : (g.gen.records.filterMap fun r => r.prev.map fun p => root ++ split₁ p) =
      (g.gen.records.filterMap fun r => r.prev.map fun p => root ++ split₂ p) := by
    apply filterMap_congr_mem
    intro r hr
    cases hp : r.prev with
    | none => rfl
    | some p => simp [(h g hg r hr).2 p hp]
  simp only [h1]
  apply foldl_congr_mem
  intro a r hr
  rw [(h g hg r hr).1]

/-- the D12 scenario: a.txt is sealed, renamed to b.txt (detected), renamed to c.txt (detected) -/
def e : Entry := { fmt := "md5", digest := "00", action := "original" }
def g1 : LGen := ⟨1, { fileName := "0001.mhl", records := [{ path := "a.txt", entries := [e] }] }⟩
def g2 : LGen := ⟨2, { fileName := "0002.mhl", records := [{ path := "b.txt", prev := some "a.txt", entries := [e] }] }⟩
def g3 : LGen := ⟨3, { fileName := "0003.mhl", records := [{ path := "c.txt", prev := some "b.txt", entries := [e] }] }⟩

/-- only the last name of the file is expected to exist -/
theorem rename_chain_example : expectedOfGens [] [g1, g2, g3] = [["c.txt"]] := by
  rw [expectedOfGens_eq_with, expectedOfGensWith_congr splitPath (fun s => [s])]
  · decide
  · simp [g1, g2, g3, splitPath_a, splitPath_b, splitPath_c]

example : expectedOfGens [] [g1] = [["a.txt"]] ∧ expectedOfGens [] [g1, g2] = [["b.txt"]] := by
  constructor <;>
  · rw [expectedOfGens_eq_with, expectedOfGensWith_congr splitPath (fun s => [s])]
    · decide
    · simp [g1, g2, splitPath_a, splitPath_b]

/-- `rename_chain_expected` applies to it (non-vacuity of its hypotheses) -/
example : [] ++ splitPath "a.txt" ∉ expectedOfGens [] ([] ++ [g1, g2, g3]) ∧
    [] ++ splitPath "b.txt" ∉ expectedOfGens [] ([] ++ [g1, g2, g3]) ∧
    [] ++ splitPath "c.txt" ∈ expectedOfGens [] ([] ++ [g1, g2, g3]) :=
  rename_chain_expected [] [] g1 g2 g3 "a.txt" "b.txt" "c.txt"
    ⟨_, List.mem_singleton.2 rfl, rfl, rfl⟩ ⟨_, List.mem_singleton.2 rfl, rfl, rfl⟩
    (by simp [g2, g3, splitPath_a, splitPath_b, splitPath_c])
    (by simp [g3, splitPath_b, splitPath_c])

/-! ### 3. the recorded name of a renamed file -/

/-- one generation step of `recordedName` -/
def nameStep (p : String) (g : LGen) : String :=
  match g.gen.records.find? (fun r => r.path == p) with
  | some r => r.prev.getD p
  | none => p

theorem recordedName_eq_foldl (gens : List LGen) (q : String) : recordedName gens q = gens.foldl nameStep q := rfl

theorem recordedName_append (gens₁ gens₂ : List LGen) (q : String) :
    recordedName (gens₁ ++ gens₂) q = recordedName gens₂ (recordedName gens₁ q) := by
  simp only [recordedName_eq_foldl, List.foldl_append]

theorem recordedName_cons (g : LGen) (gens : List LGen) (q : String) :
    recordedName (g :: gens) q = recordedName gens (nameStep q g) := rfl

theorem nameStep_id (g : LGen) (q : String) (h : ∀ r ∈ g.gen.records, r.path = q → r.prev = none) :
    nameStep q g = q := by
  unfold nameStep
  split
  · next r hf =>
    have hr := List.mem_of_find?_eq_some hf
    have hp : r.path = q := by simpa using List.find?_some hf
    rw [h r hr hp]; rfl
  · rfl

/-- a path none of whose records carries a previous path is looked up under its own name -/
theorem recordedName_id (gens : List LGen) (q : String)
    (h : ∀ g ∈ gens, ∀ r ∈ g.gen.records, r.path = q → r.prev = none) : recordedName gens q = q := by
  induction gens with
  | nil => rfl
  | cons g gs ih =>
    rw [recordedName_cons, nameStep_id g q (h g (by simp))]
    exact ih (fun g' hg' => h g' (List.mem_cons_of_mem _ hg'))

/-- a generation in which (every / the) record of `q` carries the previous path `p` maps `q` to `p` -/
theorem nameStep_renamed (g : LGen) (q p : String) (hex : ∃ r ∈ g.gen.records, r.path = q)
    (h : ∀ r ∈ g.gen.records, r.path = q → r.prev = some p) : nameStep q g = p := by
  unfold nameStep
  split
  · next r hf =>
    have hr := List.mem_of_find?_eq_some hf
    have hp : r.path = q := by simpa using List.find?_some hf
    rw [h r hr hp]; rfl
  · next hf =>
    obtain ⟨r, hr, hp⟩ := hex
    rw [List.find?_eq_none] at hf
    exact absurd (by simpa using hp) (hf r hr)

/-- The file is looked up under the name it had when it was last recorded under another name.
Side conditions: before `g` no record of `q` carries a previous path (e.g. `q` is not recorded at all), in `g` the
records of `q` (there is one) carry the previous path `p`, and AFTER `g` no record of `p` carries a previous path
(e.g. `p` is not recorded again; the fold runs forward through the generations, so a rename of `p` itself that was
recorded BEFORE `g` is not followed — `recordedName_chain_example`). -/
theorem recordedName_step (gens₁ : List LGen) (g : LGen) (gens₂ : List LGen) (q p : String)
    (h₁ : ∀ g' ∈ gens₁, ∀ r ∈ g'.gen.records, r.path = q → r.prev = none)
    (hex : ∃ r ∈ g.gen.records, r.path = q)
    (hg : ∀ r ∈ g.gen.records, r.path = q → r.prev = some p)
    (h₂ : ∀ g' ∈ gens₂, ∀ r ∈ g'.gen.records, r.path = p → r.prev = none) :
    recordedName (gens₁ ++ g :: gens₂) q = p := by
  rw [recordedName_append, recordedName_id gens₁ q h₁, recordedName_cons, nameStep_renamed g q p hex hg,
    recordedName_id gens₂ p h₂]

/-- in the chain a→b→c the current name c.txt is looked up as b.txt (its name in the previous generation), the name
b.txt as a.txt, and a.txt as itself -/
theorem recordedName_chain_example :
    recordedName [g1, g2, g3] "c.txt" = "b.txt" ∧ recordedName [g1, g2, g3] "b.txt" = "a.txt" ∧
      recordedName [g1, g2, g3] "a.txt" = "a.txt" := by decide

example : recordedName ([g1, g2] ++ g3 :: []) "c.txt" = "b.txt" :=
  recordedName_step [g1, g2] g3 [] "c.txt" "b.txt" (by decide) (by decide) (by decide) (by decide)

/-- and the original digest is found under that name -/
example : (findOriginal [g1, g2, g3] (recordedName [g1, g2, g3] "c.txt")).isSome = true := by decide

/-! ### 5. rename detection only takes not-found paths off the missing list -/

theorem foldl_invariant {α β : Type} (P : β → Prop) (f : β → α → β) (l : List α)
    (h : ∀ b, ∀ a ∈ l, P b → P (f b a)) (init : β) (h0 : P init) : P (l.foldl f init) := by
  induction l generalizing init with
  | nil => exact h0
  | cons x xs ih =>
    exact ih (fun b a ha => h b a (List.mem_cons_of_mem _ ha)) _ (h init x (by simp) h0)

theorem detectRenames_found_subset (env : Env) (t : Node) (rootHist : Hist) (s : Session)
    (newPaths notFound : List RelPath) :
    ∀ p ∈ (detectRenames env t rootHist s newPaths notFound).2.1, p ∈ notFound := by
  unfold detectRenames
  apply foldl_invariant (fun acc : Session × List RelPath × List (String × String) => ∀ p ∈ acc.2.1, p ∈ notFound)
  · intro acc np _ hacc
    apply foldl_invariant
      (fun acc : Session × List RelPath × List (String × String) => ∀ p ∈ acc.2.1, p ∈ notFound)
    · intro acc nf hnf hacc
      obtain ⟨s, foundOld, ren⟩ := acc
      have hnew : ∀ p ∈ appendNew foundOld nf, p ∈ notFound := by
        intro p hp
        rcases (mem_appendNew _ _ _).1 hp with hp | rfl
        · exact hacc p hp
        · exact hnf
      dsimp only
      repeat' split
      all_goals first | exact hacc | exact hnew
    · exact hacc
  · simp

/-- without new files nothing is taken off the missing list (and the session is untouched, no rename is reported) -/
theorem detectRenames_no_new_full (env : Env) (t : Node) (rootHist : Hist) (s : Session) (notFound : List RelPath) :
    detectRenames env t rootHist s [] notFound = (s, [], []) := rfl

theorem detectRenames_no_new (env : Env) (t : Node) (rootHist : Hist) (s : Session) (notFound : List RelPath) :
    (detectRenames env t rootHist s [] notFound).2.1 = [] := rfl

/-- without missing files likewise -/
theorem detectRenames_no_missing_full (env : Env) (t : Node) (rootHist : Hist) (s : Session)
    (newPaths : List RelPath) : detectRenames env t rootHist s newPaths [] = (s, [], []) := by
  unfold detectRenames
  simp only [List.foldl_nil]
  induction newPaths with
  | nil => rfl
  | cons np nps ih => exact ih

theorem detectRenames_no_missing (env : Env) (t : Node) (rootHist : Hist) (s : Session) (newPaths : List RelPath) :
    (detectRenames env t rootHist s newPaths []).2.1 = [] := by
  rw [detectRenames_no_missing_full]

/-- non-vacuity: a.txt was sealed (generation `g1`), the tree holds the same bytes as b.txt; the detection takes
a.txt off the missing list, reports the rename and sets the previous path of the new record -/
def exEnv : Env :=
  { H := fun _ c => if c = [1] then "00" else "ff", D := fun _ _ => none, hit := fun _ _ => false, rootName := "root" }
def exTree : Node := .dir "root" [.file "b.txt" [1]] none
def exHist : Hist := .mk [] [g1] [] true []
def exSession : Session := { lists := [{ root := [], records := [{ path := "b.txt", entries := [e] }] }] }

example : (detectRenames exEnv exTree exHist exSession [["b.txt"]] [["a.txt"], ["gone.txt"]]).2 =
    ([["a.txt"]], [("a.txt", "b.txt")]) := by decide

example : ((detectRenames exEnv exTree exHist exSession [["b.txt"]] [["a.txt"]]).1.lists.map
    fun l => l.records.map fun r => (r.path, r.prev)) = [[("b.txt", some "a.txt")]] := by decide

end MhlProps.C17
