/-
C02rec — C02 lifted from "visited" to "recorded", for a tree with ONE history (no nested histories).

The generation folder-mode `create` writes for the root history has exactly one record for every visible entry and
no record for anything else; every file record carries the digests of the file's current content, in every
requested format unless a check against the history failed.

Setting: `rootHist.children = []` (no nested histories) and `rootHist.root = []`; sibling names distinct
(`Node.NamesDistinct`); every name in the tree free of '/' and different from "." (`Node.NamesOk`, needed for the
POSIX text of a path to identify the path); at least one requested format.

The helper lemmas are in MhlProps/Proofs/CreateLemmas.lean.
-/
import MhlProps.Proofs.CreateLemmas
import MhlProps.Proofs.LoadLemmas

namespace MhlProps.C02rec
open MhlModel

/-! ### 1. routing without nested histories -/

theorem allDescendants_flat (rootHist : Hist) (hc : rootHist.children = []) : allDescendants rootHist = [] :=
  MhlModel.allDescendants_flat rootHist hc

/-- with no nested histories every path is routed to the root history unchanged -/
theorem route_flat (rootHist : Hist) (hc : rootHist.children = []) (p : RelPath) :
    route rootHist p = (rootHist, p) :=
  MhlModel.route_flat rootHist hc p

/-- `posix` is injective on lists of well-formed names (no '/', not ".") -/
theorem posix_injective {p q : RelPath} (hp : ∀ s ∈ p, NameOk s) (hq : ∀ s ∈ q, NameOk s)
    (h : posix p = posix q) : p = q :=
  posix_inj hp hq h

/-- both conditions on names are needed -/
example : posix ["a/b"] = posix ["a", "b"] ∧ posix ["."] = posix [] := by decide

/-! ### 2. the session after the traversal -/

/-- the session after folding `createVisit` over a traversal, from the empty session: its (only) list holds the
records of `recItems` of the traversal, in that order -/
theorem createFold_session (env : Env) (t : Node) (rootHist : Hist) (hc : rootHist.children = [])
    (hr : rootHist.root = []) (hd : t.NamesDistinct) (hn : t.NamesOk) (fmts : List String) (hf : fmts ≠ [])
    (noDir : Bool) (pats : List String) (hit : RelPath → Bool) :
    let s := ((traverse hit [] t).foldl (createVisit env t rootHist fmts noDir)
      { session := { patterns := pats } }).session
    s.Flat ∧ s.patterns = pats ∧ (recItems (traverse hit [] t) ≠ [] → s.lists ≠ []) ∧
      ListFor env t rootHist fmts (s.get []) (recItems (traverse hit [] t)) := by
  intro s
  have h0 := createFold_sessFor env t rootHist hc hr fmts pats hf noDir (traverse hit [] t)
    { session := { patterns := pats } } [] (sessFor_empty env t rootHist fmts pats)
  rw [List.nil_append] at h0
  exact h0 (recItems_keysOk hit t hd hn)

/-- the items that get a record in `records` are, up to order, the visible paths -/
theorem nonRoot_recItems_perm (hit : RelPath → Bool) (t : Node) :
    (nonRoot (recItems (traverse hit [] t))).Perm (visiblePaths hit t) := by
  have hperm := recItems_perm hit t []
  rw [← visiblePaths_eq] at hperm
  have h1 := hperm.filter fun x => !x.1.isEmpty
  have h2 : (visiblePaths hit t ++ if t.isDir = true then [(([] : RelPath), true)] else []).filter
      (fun x => !x.1.isEmpty) = visiblePaths hit t := by
    rw [List.filter_append]
    have ha : (visiblePaths hit t).filter (fun x => !x.1.isEmpty) = visiblePaths hit t := by
      rw [List.filter_eq_self]
      intro x hx
      obtain ⟨p, d⟩ := x
      have := (C02.visible_relative hit t p d hx).2.1
      cases p with
      | nil => exact absurd rfl this
      | cons a as => rfl
    rw [ha]
    split <;> simp
  rw [h2] at h1
  exact h1

/-- `createVisit_records`: the session after folding `createVisit` over `traverse hit [] t` from the empty session
with the given patterns.

* it keeps the patterns and has at most one list, rooted at `[]` (exactly one when `t` is a folder);
* the records of that list are, in the order `recItems` (per yielded folder: its files in listing order, then the
  folder itself), the records `RecFor` describes: path = POSIX text, `isDir` = the visited is_dir flag, no previous
  path; a file record has the content length as size and exactly the entries `sealEntries` returns; a folder
  record has no size and entries without action;
* as (path, is_dir) pairs the records are a permutation of the visible paths, and the paths are duplicate-free;
* the root folder is recorded as the root record ".". -/
theorem createVisit_records (env : Env) (t : Node) (rootHist : Hist) (hc : rootHist.children = [])
    (hr : rootHist.root = []) (hd : t.NamesDistinct) (hn : t.NamesOk) (fmts : List String) (hf : fmts ≠ [])
    (noDir : Bool) (pats : List String) (hit : RelPath → Bool) :
    let s := ((traverse hit [] t).foldl (createVisit env t rootHist fmts noDir)
      { session := { patterns := pats } }).session
    let nl := s.get []
    s.patterns = pats ∧ (s.lists = [] ∨ s.lists = [nl]) ∧ nl.root = [] ∧
    List.Forall₂ (RecFor env t rootHist fmts) (nonRoot (recItems (traverse hit [] t))) nl.records ∧
    (nl.records.map fun r => (r.path, r.isDir)).Perm ((visiblePaths hit t).map fun x => (posix x.1, x.2)) ∧
    (nl.records.map (·.path)).Nodup ∧
    (∀ p, (p, false) ∈ visiblePaths hit t → ∃ r ∈ nl.records, r.path = posix p ∧ r.isDir = false ∧
        r.prev = none ∧ r.size = some (fileContent t p).length ∧
        r.entries = (sealEntries rootHist.gens (posix p) (fun f => env.H f (fileContent t p)) fmts).1) ∧
    (t.isDir = true → s.lists = [nl] ∧ ∃ r, nl.rootRec = some r ∧ r.path = "." ∧ r.isDir = true) := by
  intro s nl
  obtain ⟨hflat, hpat, hne, hlist⟩ := createFold_session env t rootHist hc hr hd hn fmts hf noDir pats hit
  have hlists : s.lists = [] ∨ s.lists = [nl] := by
    rcases hflat with h | ⟨nl0, h, hr0⟩
    · exact Or.inl h
    · right
      rw [h, show nl = nl0 from Session.get_single _ _ h hr0]
  have hpairs : (nl.records.map fun r => (r.path, r.isDir)) =
      (nonRoot (recItems (traverse hit [] t))).map fun x => (posix x.1, x.2) := by
    have := hlist.2.1
    generalize nonRoot (recItems (traverse hit [] t)) = M at this
    generalize nl.records = rs at this
    induction this with
    | nil => rfl
    | cons hrf _ ih => simp [hrf.1, hrf.2.1, ih]
  have hperm := nonRoot_recItems_perm hit t
  refine ⟨hpat, hlists, hlist.1, hlist.2.1, ?_, ?_, ?_, ?_⟩
  · rw [hpairs]
    exact hperm.map _
  · rw [hlist.paths, (hperm.map fun x => posix x.1).nodup_iff]
    exact visible_keys_nodup hit t hd hn
  · intro p hp
    have hmem : (p, false) ∈ nonRoot (recItems (traverse hit [] t)) := hperm.mem_iff.2 hp
    have := hlist.2.1
    generalize nonRoot (recItems (traverse hit [] t)) = M at this hmem
    generalize nl.records = rs at this
    induction this with
    | nil => cases hmem
    | cons hrf _ ih =>
      rcases List.mem_cons.1 hmem with hx | hx
      · subst hx
        exact ⟨_, List.mem_cons_self, hrf.1, hrf.2.1, hrf.2.2.1, (hrf.2.2.2.1 rfl).1, (hrf.2.2.2.1 rfl).2⟩
      · obtain ⟨r, hr1, hr2⟩ := ih hx
        exact ⟨r, List.mem_cons_of_mem _ hr1, hr2⟩
  · intro hdir
    have hroot : (([] : RelPath), true) ∈ recItems (traverse hit [] t) := by
      rw [(recItems_perm hit t []).mem_iff, hdir]
      simp
    obtain ⟨r, hr1, hr2⟩ := hlist.2.2.2 hroot
    refine ⟨?_, r, hr1, (hlist.2.2.1 r hr1).1, hr2⟩
    rcases hlists with h | h
    · exact absurd h (hne (List.ne_nil_of_mem hroot))
    · exact h

/-! ### 3. the generation `create` writes -/

/-- the matcher of a folder-mode `create` run -/
def cHit (env : Env) (rootHist : Hist) (o : CreateOpts) : RelPath → Bool :=
  env.hit (setPatterns (latestIgnore rootHist.gens) o.ignoreCli o.ignoreFile)

/-- the session folder-mode `create` commits (without `-dr`) -/
def cSession (env : Env) (t : Node) (rootHist : Hist) (o : CreateOpts) : Session :=
  ((traverse (cHit env rootHist o) [] t).foldl
    (createVisit env t rootHist (isort strLe o.formats) o.noDirHashes)
    { session := { patterns := setPatterns (latestIgnore rootHist.gens) o.ignoreCli o.ignoreFile } }).session

/-- what `createFolder` writes is what the commit of that session returns (nothing if the commit aborts) -/
theorem createFolder_written (env : Env) (t : Node) (o : CreateOpts) (rootHist : Hist)
    (hl : loadHistory t = .ok rootHist) (hdr : o.detectRenaming = false) :
    (createFolder env t o).written =
      match commit rootHist (cSession env t rootHist o) env.rootName env.stamp "in-place" with
      | .ok ws => ws
      | .error _ => [] := by
  unfold createFolder
  simp only [hl, hdr, Bool.false_eq_true, if_false]
  unfold cSession cHit
  generalize commit rootHist _ env.rootName env.stamp "in-place" none = c
  cases c <;> rfl

theorem loadHistory_root (t : Node) (rootHist : Hist) (hl : loadHistory t = .ok rootHist) : rootHist.root = [] := by
  obtain ⟨kids, -, rfl⟩ := loadHistory_ok_eq t rootHist hl
  unfold buildHist
  split <;> rfl

/-- the generation written by a folder-mode `create` on a tree whose only history is the one at the root.

If `createFolder` (no `-dr`) writes `[w]`, then
* `w` is the generation of the root history;
* the record paths are duplicate-free;
* as (path, is_dir) pairs the records are a permutation of the visible paths (POSIX text, visited is_dir flag); in
  particular a text is a record path iff it is the text of a visible path;
* no record for an ignored path (one of whose non-empty prefixes the patterns match), from `C02.ignored_nowhere`;
* the record of a visible file `p` is a file record with the content length as size whose entries are (a reordering,
  the entries are sorted by format, of) what `sealEntries` returned with `new` turned into `verified`; each entry's
  digest is `env.H e.fmt (fileContent t p)`; and if no entry is `failed`, every requested format occurs. -/
theorem create_records_exact (env : Env) (t : Node) (o : CreateOpts) (rootHist : Hist)
    (hl : loadHistory t = .ok rootHist) (hc : rootHist.children = []) (hd : t.NamesDistinct) (hn : t.NamesOk)
    (hf : o.formats ≠ []) (hdr : o.detectRenaming = false) (w : Written)
    (hw : (createFolder env t o).written = [w]) :
    w.histRoot = [] ∧
    (w.gen.records.map (·.path)).Nodup ∧
    (w.gen.records.map fun r => (r.path, r.isDir)).Perm
      ((visiblePaths (cHit env rootHist o) t).map fun x => (posix x.1, x.2)) ∧
    (∀ s, s ∈ w.gen.records.map (·.path) ↔ ∃ x ∈ visiblePaths (cHit env rootHist o) t, posix x.1 = s) ∧
    (∀ (p : RelPath) (k : Nat), (∀ s ∈ p, NameOk s) → 0 < k → k ≤ p.length →
        cHit env rootHist o (p.take k) = true → posix p ∉ w.gen.records.map (·.path)) ∧
    (∀ p, (p, false) ∈ visiblePaths (cHit env rootHist o) t →
      ∃ r ∈ w.gen.records, r.path = posix p ∧ r.isDir = false ∧ r.prev = none ∧
        r.size = some (fileContent t p).length ∧
        r.entries.Perm ((sealEntries rootHist.gens (posix p) (fun f => env.H f (fileContent t p))
          (isort strLe o.formats)).1.map relabel) ∧
        (∀ e ∈ r.entries, e.digest = env.H e.fmt (fileContent t p)) ∧
        ((∀ e ∈ r.entries, e.action ≠ "failed") → ∀ f ∈ o.formats, ∃ e ∈ r.entries, e.fmt = f)) := by
  have hr := loadHistory_root t rootHist hl
  have hfm : isort strLe o.formats ≠ [] := by
    intro h0
    have := length_isort strLe o.formats
    rw [h0] at this
    exact hf (List.length_eq_zero_iff.1 this.symm)
  -- the commit returned `[w]`, so `w` is what `writeOne` made of the session's list
  have hwr := createFolder_written env t o rootHist hl hdr
  rw [hw] at hwr
  cases hcm : commit rootHist (cSession env t rootHist o) env.rootName env.stamp "in-place" with
  | error e => rw [hcm] at hwr; cases hwr
  | ok ws =>
    rw [hcm] at hwr
    simp only at hwr
    subst hwr
    rcases commit_flat rootHist hc _ _ _ _ _ _ hcm with ⟨h0, -⟩ | ⟨w', hw', hone⟩
    · cases h0
    · simp only [List.cons.injEq, and_true] at hw'
      subst hw'
      obtain ⟨hroot, hrecs, -⟩ := writeOne_records _ _ _ _ _ _ _ _ _ hone
      rw [hr] at hroot hrecs
      obtain ⟨-, -, -, -, hperm, hnodup, hfiles, -⟩ :=
        createVisit_records env t rootHist hc hr hd hn (isort strLe o.formats) hfm o.noDirHashes
          (setPatterns (latestIgnore rootHist.gens) o.ignoreCli o.ignoreFile) (cHit env rootHist o)
      change (((cSession env t rootHist o).get []).records.map (fun r => (r.path, r.isDir))).Perm _ at hperm
      change (((cSession env t rootHist o).get []).records.map (·.path)).Nodup at hnodup
      change ∀ p, _ → ∃ r ∈ ((cSession env t rootHist o).get []).records, _ at hfiles
      have hpaths : w.gen.records.map (·.path) = ((cSession env t rootHist o).get []).records.map (·.path) := by
        rw [hrecs, List.map_map]
        apply List.map_congr_left
        intro r _
        exact finalRec_path r
      have hpairs : (w.gen.records.map fun r => (r.path, r.isDir)) =
          ((cSession env t rootHist o).get []).records.map fun r => (r.path, r.isDir) := by
        rw [hrecs, List.map_map]
        apply List.map_congr_left
        intro r _
        simp [finalRec_path, finalRec_isDir]
      have hmem : ∀ s, s ∈ w.gen.records.map (·.path) ↔
          ∃ x ∈ visiblePaths (cHit env rootHist o) t, posix x.1 = s := by
        intro s
        have h1 : s ∈ w.gen.records.map (·.path) ↔
            s ∈ (w.gen.records.map fun r => (r.path, r.isDir)).map (·.1) := by
          simp [List.map_map, Function.comp_def]
        rw [h1, hpairs, (hperm.map (·.1)).mem_iff]
        simp only [List.map_map, List.mem_map, Function.comp]
      refine ⟨hroot, by rw [hpaths]; exact hnodup, by rw [hpairs]; exact hperm, hmem, ?_, ?_⟩
      · intro p k hpok hk0 hk hhit hin
        obtain ⟨x, hx, hxp⟩ := (hmem _).1 hin
        have hxe : x.1 = p := posix_inj (visible_names_ok _ t hn x hx).2 hpok hxp
        obtain ⟨q, d⟩ := x
        simp only at hxe
        subst hxe
        exact C02.ignored_nowhere _ t q d k hk0 hk hhit hx
      · intro p hp
        obtain ⟨r, hrm, hpath, hdir, hprev, hsize, hents⟩ := hfiles p hp
        have hperm' : (finalRec r).entries.Perm
            ((sealEntries rootHist.gens (posix p) (fun f => env.H f (fileContent t p))
              (isort strLe o.formats)).1.map relabel) := by
          rw [← hents]; exact finalRec_entries r
        refine ⟨finalRec r, by rw [hrecs]; exact List.mem_map_of_mem hrm, by rw [finalRec_path, hpath],
          by rw [finalRec_isDir, hdir], by rw [finalRec_prev, hprev], by rw [finalRec_size, hsize], hperm', ?_, ?_⟩
        · intro e he
          obtain ⟨e0, he0, rfl⟩ := List.mem_map.1 (hperm'.mem_iff.1 he)
          rw [relabel_digest, relabel_fmt]
          exact sealEntries_digest _ _ _ _ e0 he0
        · intro hnf f hfreq
          have hnf0 : ∀ e ∈ (sealEntries rootHist.gens (posix p) (fun f => env.H f (fileContent t p))
              (isort strLe o.formats)).1, e.action ≠ "failed" := by
            intro e0 he0 hfail
            exact hnf (relabel e0) (hperm'.mem_iff.2 (List.mem_map_of_mem he0)) ((relabel_failed e0).2 hfail)
          obtain ⟨e0, he0, hfmt⟩ := sealEntries_requested _ _ _ _ hnf0 f ((mem_isort strLe o.formats f).2 hfreq)
          exact ⟨relabel e0, hperm'.mem_iff.2 (List.mem_map_of_mem he0), by rw [relabel_fmt, hfmt]⟩

/-- the same for the command `create` without `-sf`, with the flatness hypothesis stated on the tree: no `ascmhl`
folder below the root (`noNested`), and the history loads -/
theorem create_records_exact_tree (env : Env) (t : Node) (o : CreateOpts) (rootHist : Hist)
    (hsf : o.singleFiles = []) (hl : loadHistory t = .ok rootHist) (hflat : noNested t = true)
    (hd : t.NamesDistinct) (hn : t.NamesOk) (hf : o.formats ≠ []) (hdr : o.detectRenaming = false) (w : Written)
    (hw : (create env t o).written = [w]) :
    w.histRoot = [] ∧
    (w.gen.records.map (·.path)).Nodup ∧
    (w.gen.records.map fun r => (r.path, r.isDir)).Perm
      ((visiblePaths (cHit env rootHist o) t).map fun x => (posix x.1, x.2)) ∧
    (∀ s, s ∈ w.gen.records.map (·.path) ↔ ∃ x ∈ visiblePaths (cHit env rootHist o) t, posix x.1 = s) ∧
    (∀ (p : RelPath) (k : Nat), (∀ s ∈ p, NameOk s) → 0 < k → k ≤ p.length →
        cHit env rootHist o (p.take k) = true → posix p ∉ w.gen.records.map (·.path)) ∧
    (∀ p, (p, false) ∈ visiblePaths (cHit env rootHist o) t →
      ∃ r ∈ w.gen.records, r.path = posix p ∧ r.isDir = false ∧ r.prev = none ∧
        r.size = some (fileContent t p).length ∧
        r.entries.Perm ((sealEntries rootHist.gens (posix p) (fun f => env.H f (fileContent t p))
          (isort strLe o.formats)).1.map relabel) ∧
        (∀ e ∈ r.entries, e.digest = env.H e.fmt (fileContent t p)) ∧
        ((∀ e ∈ r.entries, e.action ≠ "failed") → ∀ f ∈ o.formats, ∃ e ∈ r.entries, e.fmt = f)) := by
  have hcr : create env t o = createFolder env t o := by
    unfold create
    simp [hsf]
  rw [hcr] at hw
  exact create_records_exact env t o rootHist hl (loadHistory_flat t hflat rootHist hl).1 hd hn hf hdr w hw

/-! ### the facts about `sealEntries` used above, stated on their own -/

/-- the requested formats are among the formats digests are computed for -/
theorem requested_subset_formatsToGenerate (existing requested : List String) :
    ∀ f ∈ requested, f ∈ formatsToGenerate existing requested :=
  requested_subset_toGen existing requested

/-- every entry `seal_file_path` appends carries the digest of the current content in its format -/
theorem sealEntries_digest_correct (gens : List LGen) (p : String) (dig : String → String) (req : List String) :
    ∀ e ∈ (sealEntries gens p dig req).1, e.digest = dig e.fmt :=
  sealEntries_digest gens p dig req

/-- when nothing failed, every requested format is recorded -/
theorem sealEntries_all_requested (gens : List LGen) (p : String) (dig : String → String) (req : List String)
    (hnf : ∀ e ∈ (sealEntries gens p dig req).1, e.action ≠ "failed") :
    ∀ f ∈ req, ∃ e ∈ (sealEntries gens p dig req).1, e.fmt = f :=
  sealEntries_requested gens p dig req hnf

/-- with at least one requested format a file always gets entries (hence a record) -/
theorem sealEntries_nonempty (gens : List LGen) (p : String) (dig : String → String) (req : List String)
    (hreq : req ≠ []) : (sealEntries gens p dig req).1 ≠ [] :=
  sealEntries_ne_nil gens p dig req hreq

/-- "unless a check failed" cannot be dropped: after a failed check the new format is not recorded -/
example : ((sealEntries [⟨1, { fileName := "", records := [{ path := "a", entries :=
      [{ fmt := "md5", digest := "old", action := "original" }] }] }⟩]
      "a" (fun _ => "new") ["md5", "sha1"]).1.map fun e => (e.fmt, e.action)) = [("md5", "failed")] := by
  decide

/-! ### non-vacuity -/

/-- a tree with an ignored file, a sub-folder with a file and an ignored folder with content; no history yet -/
def exTree : Node :=
  .dir "root"
    [ .file "b.txt" [1],
      .dir "sub" [.file "x" [], .dir ".git" [.file "cfg" []] none] none,
      .file ".DS_Store" [] ] none

/-- toy parameters: the "digest" is the format name and the content length -/
def exEnv : Env :=
  { H := fun f c => f ++ ":" ++ toString c.length, D := fun _ _ => some [],
    hit := fun _ p => p.getLast? == some ".DS_Store" || p.getLast? == some ".git", rootName := "root" }

def exOpts : CreateOpts := { formats := ["xxh64", "md5"] }

/-- the `ascmhl` folder after the first `create` -/
def exStore : HistStore := (createFolder exEnv exTree exOpts).written.foldl HistStore.add {}

/-- the tree after the first `create`, with `b.txt` altered and a file `new` added -/
def exTree2 : Node :=
  .dir "root"
    [ .file "b.txt" [1, 2],
      .file "new" [],
      .dir "sub" [.file "x" [], .dir ".git" [.file "cfg" []] none] none,
      .file ".DS_Store" [] ] (some exStore)

/-- its loaded history -/
def exHist2 : Hist :=
  match loadHistory exTree2 with
  | .ok h => h
  | .error _ => .mk [] [] [] false []

def exOpts2 : CreateOpts := { formats := ["sha1", "md5"] }

/-- the hypotheses of `create_records_exact_tree` hold for the first run … -/
example : exOpts.singleFiles = [] ∧ loadHistory exTree = .ok (.mk [] [] [] false []) ∧ noNested exTree = true ∧
    exTree.NamesOk ∧ exOpts.formats ≠ [] ∧ exOpts.detectRenaming = false ∧
    (create exEnv exTree exOpts).written.length = 1 :=
  ⟨rfl, rfl, rfl, by decide, by decide, rfl, by decide +kernel⟩

example : exTree.NamesDistinct := by
  simp [exTree, Node.NamesDistinct, Node.NamesDistinctKids, Node.name]

/-- … and what it writes: a folder's record is made before its parent's files are recorded -/
example : ((create exEnv exTree exOpts).written.map fun w =>
      w.gen.records.map fun r => (r.path, r.isDir, r.entries.map fun e => (e.fmt, e.action))) =
    [[("sub/x", false, [("md5", "original"), ("xxh64", "original")]),
      ("sub", true, [("md5", ""), ("xxh64", "")]),
      ("b.txt", false, [("md5", "original"), ("xxh64", "original")])]] := by
  decide +kernel

example : (visiblePaths (cHit exEnv (.mk [] [] [] false []) exOpts) exTree).map (fun x => (posix x.1, x.2)) =
    [("sub/x", false), ("b.txt", false), ("sub", true)] := by
  decide +kernel

/-- the hypotheses also hold for a second run over an existing generation, with an altered file … -/
theorem exHist2_loaded : loadHistory exTree2 = .ok exHist2 := by
  have h : (match loadHistory exTree2 with | .ok _ => true | .error _ => false) = true := by decide +kernel
  unfold exHist2
  cases hl : loadHistory exTree2 with
  | ok x => rfl
  | error e => rw [hl] at h; cases h

example : loadHistory exTree2 = .ok exHist2 ∧ exHist2.children = [] ∧ exHist2.gens.length = 1 ∧
    noNested exTree2 = true ∧ exTree2.NamesOk ∧ (create exEnv exTree2 exOpts2).written.length = 1 :=
  ⟨exHist2_loaded, (loadHistory_flat exTree2 (by rfl) exHist2 exHist2_loaded).1, by decide +kernel, by rfl,
    by decide +kernel, by decide +kernel⟩

theorem exTree2_distinct : exTree2.NamesDistinct := by
  simp [exTree2, Node.NamesDistinct, Node.NamesDistinctKids, Node.name]

/-- `create_records_exact_tree` applied to the second run -/
example : ∃ w, (create exEnv exTree2 exOpts2).written = [w] ∧ w.histRoot = [] ∧
    (w.gen.records.map (·.path)).Nodup ∧
    ∀ s, s ∈ w.gen.records.map (·.path) ↔ ∃ x ∈ visiblePaths (cHit exEnv exHist2 exOpts2) exTree2, posix x.1 = s := by
  have hlen : (create exEnv exTree2 exOpts2).written.length = 1 := by decide +kernel
  obtain ⟨w, hw⟩ := List.length_eq_one_iff.1 hlen
  have h := create_records_exact_tree exEnv exTree2 exOpts2 exHist2 rfl exHist2_loaded (by rfl) exTree2_distinct
    (by decide +kernel) (by decide) rfl w hw
  exact ⟨w, hw, h.1, h.2.1, h.2.2.2.1⟩

/-- … where the altered file keeps its failed entry and does NOT get the requested new format, the unaltered file
gets the new format (as `verified`), and the new file gets both as `original` -/
example : ((create exEnv exTree2 exOpts2).written.map fun w =>
      w.gen.records.map fun r => (r.path, r.entries.map fun e => (e.fmt, e.action))) =
    [[("sub/x", [("md5", "verified"), ("sha1", "verified")]), ("sub", [("md5", ""), ("sha1", "")]),
      ("b.txt", [("md5", "failed")]), ("new", [("md5", "original"), ("sha1", "original")])]] := by
  decide +kernel

end MhlProps.C02rec
