/-
The path glue of the command line (`MhlModel/Paths.lean`, a mirror of CPython's `posixpath`): how the ROOT argument
and the `-sf` arguments become history-relative POSIX paths.

1. `normComps_idem`, `normpath_idem`      normalising twice is normalising once (components and strings)
2. `normComps_clean`                      shape of a normalised component list
3. `relComps_below`, `historyRelative_below`   a file below the root gets a relative path that neither escapes
                                          the root nor is absolute (clause of C02)
4. `relComps_roundtrip`, `historyRelative_roundtrip`   root joined with the relative path leads back to the file
5. `sf_spelling_irrelevant`, `sfOfCreate_abs`   the spelling of a `-sf` argument does not matter
6. `sfOfCreate_vs_verify` (examples), `sfOfCreate_eq_sfOfVerify_dot`, `sfOfCreate_eq_sfOfVerify_cwd`
                                          `create` and `verify` resolve a relative `-sf` differently unless the
                                          working directory is the root

Helper lemmas: `MhlProps/Proofs/PathLemmas.lean`.
-/
import MhlProps.Proofs.PathLemmas

namespace MhlModel.Paths

/-! ### 1. idempotence -/

/-- normalising a normalised component list changes nothing (absolute and relative) -/
theorem normComps_idem (isabs : Bool) (l : List String) :
    normComps isabs (normComps isabs l) = normComps isabs l :=
  normComps_of_ok _ (normComps_ok isabs l)

/-- `normpath (normpath s) = normpath s`, for every string (also for the `//`-prefixed ones, which keep their two
slashes: `normpath "//a" = "//a"`).  The split/join round trip it rests on is `splitSlash_joinSlash`. -/
theorem normpath_idem (s : String) : normpath (normpath s) = normpath s := normpath_idem' s

example : normpath "//a" = "//a" ∧ normpath "///a" = "/a" ∧ normpath "//" = "//" ∧ normpath "//.." = "//" := by decide
example : normpath "a/b/../../../c" = "../c" ∧ normpath (normpath "a/b/../../../c") = "../c" := by decide
example : normComps false ["a", "", ".", "b", "..", "..", "..", "c"] = ["..", "c"] := by decide
example : normComps true ["", "a", "..", "..", "c"] = ["c"] := by decide

/-! ### 2. shape of the result -/

/-- The normalised component list is `replicate k ".." ++ rest` where `rest` has no `""`, `"."`, `".."`; for an
absolute path `k = 0`. -/
theorem normComps_clean (isabs : Bool) (l : List String) :
    ∃ k rest, normComps isabs l = List.replicate k ".." ++ rest ∧ (∀ x ∈ rest, Clean x) ∧
      (isabs = true → k = 0) := by
  simpa using stackOK_shape (normComps_ok isabs l)

/-- no empty and no `.` component -/
theorem normComps_no_empty_dot (isabs : Bool) (l : List String) :
    "" ∉ normComps isabs l ∧ "." ∉ normComps isabs l := by
  have := stackOK_ne_empty (normComps_ok isabs l)
  exact ⟨fun h => (this "" (by simpa using h)).1 rfl, fun h => (this "." (by simpa using h)).2 rfl⟩

/-- an absolute path has no `..` component after normalisation -/
theorem normComps_abs_no_dotdot (l : List String) : ".." ∉ normComps true l := by
  intro h
  exact (stackOK_abs_clean (normComps_ok true l) ".." (by simpa using h)).2.2 rfl

/-- every component of the result is a component of the input -/
theorem normComps_mem (isabs : Bool) (l : List String) (x : String) (h : x ∈ normComps isabs l) : x ∈ l :=
  normComps_subset h

example : normComps false ["..", "a", "..", "..", "b"] = List.replicate 2 ".." ++ ["b"] := by decide

/-! ### 3. a file below the root -/

/-- If `start` is a prefix of `path`, the relative component list is the rest of `path`. -/
theorem relComps_below (start r : List String) : relComps start (start ++ r) = r := by
  simp [relComps, commonPrefixLen_append]

/-- ... so for normalised absolute lists it has no `""`, `"."`, `".."` component: the relative path does not escape
the root and is not absolute. -/
theorem relComps_below_clean (start r : List String) (hp : ∀ x ∈ start ++ r, Clean x) :
    ∀ x ∈ relComps start (start ++ r), Clean x := by
  rw [relComps_below]
  intro x hx
  exact hp x (by simp [hx])

example : relComps ["vol", "card"] ["vol", "card", "A", "x.mov"] = ["A", "x.mov"] := by decide
example : relComps ["vol", "card"] ["vol", "other", "x.mov"] = ["..", "other", "x.mov"] := by decide

/-! ### 4. round trip -/

/-- Joining the root with the relative path leads back to the file (normalised absolute component lists; no
prefix hypothesis). -/
theorem relComps_roundtrip (start path : List String) (hs : ∀ x ∈ start, Clean x) (hp : ∀ x ∈ path, Clean x) :
    normComps true (start ++ relComps start path) = path := by
  have key : ∀ i, start.take i = path.take i →
      (List.foldl (normStep true) []
        (start ++ (List.replicate (start.length - i) ".." ++ path.drop i))).reverse = path := by
    intro i htake
    have hstart : start = start.take i ++ start.drop i := (List.take_append_drop i start).symm
    have hlen : start.length - i = (start.drop i).reverse.length := by simp
    have hcl1 : ∀ x ∈ start.take i, Clean x := fun x hx => hs x (List.mem_of_mem_take hx)
    have hcl2 : ∀ x ∈ start.drop i, Clean x := fun x hx => hs x (List.mem_of_mem_drop hx)
    have hcl3 : ∀ x ∈ path.drop i, Clean x := fun x hx => hp x (List.mem_of_mem_drop hx)
    have hcl2' : ∀ x ∈ (start.drop i).reverse, Clean x := fun x hx => hcl2 x (by simpa using hx)
    rw [hlen]
    conv => lhs; arg 1; arg 3; arg 1; rw [hstart]
    simp only [List.foldl_append, List.append_assoc]
    rw [foldl_normStep_clean _ _ hcl1, foldl_normStep_clean _ _ hcl2,
      foldl_normStep_dots (isabs := true) (start.drop i).reverse ((start.take i).reverse ++ []) hcl2',
      foldl_normStep_clean _ _ hcl3]
    simp only [List.append_nil, List.reverse_append, List.reverse_reverse]
    rw [htake, List.take_append_drop]
  exact key _ (commonPrefixLen_take start path)

example : normComps true (["vol", "card"] ++ relComps ["vol", "card"] ["vol", "other", "x.mov"]) =
    ["vol", "other", "x.mov"] := by decide

/-! ### 3'/4'. the same at the string level -/

/-- `"."` for the empty list, else the components joined: the last line of `posixpath.relpath` -/
def renderRel (rel : List String) : String := if rel = [] then "." else joinSlash rel

/-- What `historyRelative` computes, for an absolute working directory: both arguments are already absolute and
normalised, so the inner `abspath` calls of `relpath` change nothing. -/
theorem historyRelative_eq (cwd root file : String) (hc : isAbs cwd = true) :
    historyRelative cwd root file =
      renderRel (relComps (pieces (abspath cwd root)) (pieces (abspath cwd file))) := by
  unfold historyRelative relpath
  simp only [abspath_ne_empty, if_false, abspath_abspath _ _ hc, renderRel]

theorem isAbs_renderRel (rel : List String) (h : Comps rel) : isAbs (renderRel rel) = false := by
  unfold renderRel
  split
  · decide
  · cases hb : isAbs (joinSlash rel) with
    | false => rfl
    | true =>
      have := (isAbs_iff_lead _).1 hb
      rw [toList_joinSlash, lead_joinC_comps rel h] at this
      exact absurd rfl this

theorem splitSlash_renderRel (rel : List String) (h : Comps rel) :
    splitSlash (renderRel rel) = if rel = [] then ["."] else rel := by
  unfold renderRel
  split
  · decide
  · rename_i hne
    exact splitSlash_joinSlash rel hne (fun p hp => (h p hp).2)

theorem comps_of_clean_noslash (l : List String) (h1 : ∀ x ∈ l, Clean x) (h2 : ∀ x ∈ l, '/' ∉ x.toList) :
    Comps l := fun p hp => ⟨(h1 p hp).1, h2 p hp⟩

theorem pieces_noslash (s : String) : ∀ x ∈ pieces s, '/' ∉ x.toList := by
  intro x hx
  exact noslash_of_mem_splitSlash (List.mem_filter.1 hx).1

theorem relComps_subset (start path : List String) : ∀ x ∈ relComps start path, x = ".." ∨ x ∈ path := by
  intro x hx
  simp only [relComps, List.mem_append, List.mem_replicate] at hx
  rcases hx with hx | hx
  · exact .inl hx.2
  · exact .inr (List.mem_of_mem_drop hx)

theorem comps_relComps_pieces (cwd root file : String) (hc : isAbs cwd = true) :
    Comps (relComps (pieces (abspath cwd root)) (pieces (abspath cwd file))) := by
  intro p hp
  rcases relComps_subset _ _ p hp with h | h
  · subst h; decide
  · exact ⟨(pieces_abspath_clean cwd file hc p h).1, pieces_noslash _ p h⟩

/-- the history-relative path is never absolute -/
theorem historyRelative_not_abs (cwd root file : String) (hc : isAbs cwd = true) :
    isAbs (historyRelative cwd root file) = false := by
  rw [historyRelative_eq _ _ _ hc]
  exact isAbs_renderRel _ (comps_relComps_pieces cwd root file hc)

/-- A file below the root (the component list of the root is a prefix of that of the file): the components of the
history-relative path are exactly the remaining components `r` (`["."]` for the root itself); none of them is `""`,
`"."` or `".."`, and the path is not absolute: the path does not escape the root. -/
theorem historyRelative_below (cwd root file : String) (r : List String) (hc : isAbs cwd = true)
    (hpre : pieces (abspath cwd file) = pieces (abspath cwd root) ++ r) :
    splitSlash (historyRelative cwd root file) = (if r = [] then ["."] else r) ∧
      (∀ x ∈ r, Clean x) ∧ isAbs (historyRelative cwd root file) = false := by
  have hcl : ∀ x ∈ r, Clean x := fun x hx =>
    pieces_abspath_clean cwd file hc x (by rw [hpre]; simp [hx])
  refine ⟨?_, hcl, historyRelative_not_abs cwd root file hc⟩
  have hcomps := comps_relComps_pieces cwd root file hc
  rw [historyRelative_eq _ _ _ hc, splitSlash_renderRel _ hcomps, hpre, relComps_below]

example : historyRelative "/vol" "card" "/vol/x/../card//A/./x.mov" = "A/x.mov" := by decide +kernel
example : historyRelative "/vol" "card" "card" = "." := by decide
example : historyRelative "/vol" "card" "other/x.mov" = "../other/x.mov" := by decide +kernel

/-- the stack of a normalised absolute path is its list of nonempty pieces -/
theorem stackOf_abspath (cwd s : String) (hc : isAbs cwd = true) : stackOf (abspath cwd s) = pieces (abspath cwd s) := by
  have habs := isAbs_abspath cwd s hc
  unfold abspath at habs ⊢
  rw [isAbs_normpath] at habs
  rw [stackOf_normpath, pieces_normpath_abs _ habs, stackOf]
  have : (initialSlashes (if isAbs s = true then s else joinPath cwd s) != 0) = true := by
    simpa using (isAbs_iff_initialSlashes _).1 habs
  rw [this]

/-- Joining the (absolute) root with the history-relative path and normalising leads back to the (absolute) file,
provided both have the same number of initial slashes. -/
theorem historyRelative_roundtrip (cwd root file : String) (hc : isAbs cwd = true)
    (hsl : initialSlashes (abspath cwd root) = initialSlashes (abspath cwd file)) :
    normpath (joinPath (abspath cwd root) (historyRelative cwd root file)) = abspath cwd file := by
  have hrel := historyRelative_not_abs cwd root file hc
  have hcomps := comps_relComps_pieces cwd root file hc
  have hR := pieces_abspath_clean cwd root hc
  have hF := pieces_abspath_clean cwd file hc
  have habsR : (initialSlashes (abspath cwd root) != 0) = true := by
    simpa using (isAbs_iff_initialSlashes _).1 (isAbs_abspath cwd root hc)
  have hfile : abspath cwd file = render (initialSlashes (abspath cwd file)) (stackOf (abspath cwd file)) := by
    conv => lhs; rw [← abspath_abspath cwd file hc, abspath_of_isAbs _ _ (isAbs_abspath cwd file hc), normpath_eq]
  rw [normpath_eq, initialSlashes_joinPath _ _ hrel, stackOf_joinPath _ _ hrel, hfile, hsl]
  refine congrArg (render _) ?_
  rw [← hsl, habsR, stackOf_abspath _ _ hc, stackOf_abspath _ _ hc, historyRelative_eq _ _ _ hc,
    splitSlash_renderRel _ hcomps]
  have hrt := relComps_roundtrip _ _ hR hF
  rw [normComps, List.foldl_append, foldl_normStep_clean _ _ hR, List.append_nil] at hrt
  split
  · rename_i h0
    rw [h0] at hrt
    simpa [normStep] using hrt
  · exact hrt

example : normpath (joinPath (abspath "/vol" "card") (historyRelative "/vol" "card" "other/x.mov")) =
    "/vol/other/x.mov" := by decide +kernel

/-- Without the hypothesis on the initial slashes the string-level round trip is FALSE (`relpath` ignores the
difference between `//a` and `/a`, as CPython does). -/
example : historyRelative "/" "//a" "/a/b" = "b" ∧
    normpath (joinPath (abspath "/" "//a") (historyRelative "/" "//a" "/a/b")) = "//a/b" ∧
    abspath "/" "/a/b" = "/a/b" := by decide +kernel

/-! ### 5. the spelling of a `-sf` argument -/

/-- two spellings of the same file give the same history-relative path -/
theorem sf_spelling_irrelevant (cwd root f₁ f₂ : String) (h : abspath cwd f₁ = abspath cwd f₂) :
    historyRelative cwd root f₁ = historyRelative cwd root f₂ := by
  unfold historyRelative; rw [h]

/-- `create`: a relative `-sf` and the corresponding absolute spelling agree -/
theorem sfOfCreate_abs (cwd root sf : String) (hc : isAbs cwd = true) (hsf : isAbs sf = false) :
    sfOfCreate cwd root sf = sfOfCreate cwd root (abspath cwd sf) := by
  have h1 : isAbs (joinPath cwd sf) = true := isAbs_joinPath cwd sf hc
  have h2 : isAbs (abspath cwd sf) = true := isAbs_abspath cwd sf hc
  unfold sfOfCreate
  simp only [hsf, h2, if_true, Bool.false_eq_true, if_false]
  apply sf_spelling_irrelevant
  rw [abspath_abspath _ _ hc, abspath_of_isAbs _ _ h1]
  simp [abspath, hsf]

/-- the same for `verify` when ROOT is absolute (a relative `-sf` is resolved against ROOT) -/
theorem sfOfVerify_abs (cwd root sf : String) (hr : isAbs root = true)
    (hsf : isAbs sf = false) :
    sfOfVerify cwd root sf = sfOfVerify cwd root (abspath root sf) := by
  have h1 : isAbs (joinPath root sf) = true := isAbs_joinPath root sf hr
  have h2 : isAbs (abspath root sf) = true := isAbs_abspath root sf hr
  unfold sfOfVerify
  simp only [hsf, h2, hr, if_true, Bool.false_eq_true, if_false]
  apply sf_spelling_irrelevant
  rw [abspath_of_isAbs _ _ h1, abspath_of_isAbs _ _ h2]
  simp [abspath, hsf, normpath_idem]

example : sfOfCreate "/vol" "card" "card/./A//x.mov" = "A/x.mov" ∧
    sfOfCreate "/vol" "card" "/vol/card/A/x.mov" = "A/x.mov" := by decide +kernel

/-! ### 6. `create` and `verify` resolve a relative `-sf` differently -/

/-- With the working directory `/vol` and ROOT `card`, the argument `-sf card/a.mov` names
`/vol/card/a.mov` for `create` but `/vol/card/card/a.mov` for `verify` -/
theorem sfOfCreate_vs_verify : sfOfCreate "/vol" "card" "card/a.mov" = "a.mov" ∧
    sfOfVerify "/vol" "card" "card/a.mov" = "card/a.mov" := by decide +kernel

/-- ... and `-sf a.mov` names `/vol/a.mov`, OUTSIDE the root, for `create` -/
example : sfOfCreate "/vol" "card" "a.mov" = "../a.mov" ∧ sfOfVerify "/vol" "card" "a.mov" = "a.mov" := by
  decide +kernel

/-- an absolute `-sf` means the same for both commands -/
theorem sfOfCreate_eq_sfOfVerify_of_abs (cwd root sf : String) (hsf : isAbs sf = true) :
    sfOfCreate cwd root sf = sfOfVerify cwd root sf := by
  simp [sfOfCreate, sfOfVerify, hsf]

/-- the two commands agree when ROOT is given as `.` -/
theorem sfOfCreate_eq_sfOfVerify_dot (cwd sf : String) (hc : isAbs cwd = true) :
    sfOfCreate cwd "." sf = sfOfVerify cwd "." sf := by
  cases hsf : isAbs sf
  · have hdot : isAbs "." = false := by decide
    have h1 : isAbs (joinPath cwd sf) = true := isAbs_joinPath cwd sf hc
    have h2 : isAbs (joinPath (joinPath cwd ".") sf) = true := isAbs_joinPath _ sf (isAbs_joinPath cwd "." hc)
    unfold sfOfCreate sfOfVerify
    simp only [hsf, hdot, Bool.false_eq_true, if_false]
    apply sf_spelling_irrelevant
    rw [abspath_of_isAbs _ _ h1, abspath_of_isAbs _ _ h2]
    exact (((PEq_joinPath_dot cwd).joinPath sf).normpath_eq).symm
  · exact sfOfCreate_eq_sfOfVerify_of_abs cwd "." sf hsf

/-- the two commands agree when the working directory is the root (`cwd = abspath root`, however ROOT is spelled) -/
theorem sfOfCreate_eq_sfOfVerify_cwd (cwd root sf : String) (hc : isAbs cwd = true)
    (hroot : cwd = abspath cwd root) :
    sfOfCreate cwd root sf = sfOfVerify cwd root sf := by
  cases hsf : isAbs sf
  · have hA : isAbs (if isAbs root = true then root else joinPath cwd root) = true := by
      rw [← isAbs_normpath]; unfold abspath at hroot; rw [← hroot]; exact hc
    have h1 : isAbs (joinPath cwd sf) = true := isAbs_joinPath cwd sf hc
    have h2 := isAbs_joinPath _ sf hA
    unfold sfOfCreate sfOfVerify
    simp only [hsf, Bool.false_eq_true, if_false]
    apply sf_spelling_irrelevant
    rw [abspath_of_isAbs _ _ h1, abspath_of_isAbs _ _ h2, ← normpath_joinPath_normpath (if isAbs root = true then root else joinPath cwd root) sf]
    unfold abspath at hroot
    rw [← hroot]
  · exact sfOfCreate_eq_sfOfVerify_of_abs cwd root sf hsf

example : sfOfCreate "/vol/card" "../card" "A/x.mov" = "A/x.mov" ∧
    sfOfVerify "/vol/card" "../card" "A/x.mov" = "A/x.mov" := by decide +kernel

end MhlModel.Paths
