/-
C17detect — functional correctness of rename detection (`create -dr`), property C17:

  "a file moved or renamed without change of content is recorded under the new path with a reference to the
   previous path, is not reported missing, and later verify / diff / create accept the tree"

Setting of 1–3: a FLAT history (`rootHist.children = []`) and a session whose lists are keyed by root
(`Session.RootsNodup`, an invariant of `touch` / `put`; it is NEEDED: `Session.put` overwrites every list with the
given root, see `put_needs_distinct_roots`).  Helper lemmas are in MhlProps/Proofs/RenameLemmas.lean, where the
anonymous pieces of the double loop get names:

  holderOf s np          the record of the new path `np` in the session (with its list)
  newDigest env t s np f the digest the loop compares for `np` in format `f`: the one the record of this run
                         carries in `f`, else `env.H f (content of np)`
  matchesB … s np nf     the first entry recorded for `nf` has the digest `newDigest … np` of its format
  setPrevOf s np old     set the previous path of the record(s) of `np`
  renamePairs            the pairs (np, nf) that match, in loop order (np outer, nf inner)

  0. `detectRenames_exact`              the three components of the result, as folds over `renamePairs`
  1. `detectRenames_sound`              a reported rename has equal digests
  2. `detectRenames_complete`, `detectRenames_found_iff`, `detectRenames_prev`, `detectRenames_prev_unique`
  3. `detectRenames_preserves_records`  nothing but `prev` fields changes

Setting of 4–5: C03e2e's `Setting env rn cs o` (a tree without history, sealed by a first `create`; generation `w`)
and ONE file moved.  The move is `MhlModel.moveFile` (remove the node at `pa/na`, add a file node `nb` with the
same content to the folder `pb`), hypotheses `MoveOk`; `moveFile_moved` (RenameLemmas) shows that it gives a
`Moved` pair of trees, the abstract description the `_moved` theorems work with.

  4. `rename_e2e` (`rename_e2e_moved`)  `create -dr`: exit 0, nothing missing, renamed = [(a, b)], generation 2 whose
     record of b has `prev = a` and one `original` entry per requested format; then verify and diff exit 0 with empty
     reports.  `rename_e2e_reseal` (`reseal_after_rename`): a further `create` exits 0 and writes generation 3.
  5. `move_without_dr` (`move_without_dr_create`, `move_without_dr_verify`): without `-dr` create ends with exit 10
     naming a; verify reports new = [b], missing = [a] (exit 21), diff the same (exit 10).

  6. (D19: the detection iterates `sorted(not_found_paths)`, it used to iterate a set)
     `detectRenames_order_independent` (nested histories allowed): if for every new path at most one not-found path
     matches, the whole result of `detectRenames` is the same for any two orders of the not-found paths;
     `detectRenames_sorted`, `createFolder_dr_order_independent`; `order_matters`: without the hypothesis the previous
     path recorded is the LAST matching element of the list.

FINDING (`duplicate_hides_deletion`): the uniqueness hypothesis the task asks for is NOT needed for a single move
(one missing path, one new path: one candidate pair).  It matters when two not-found paths carry the same first
digest: both are linked to the one new path, both are taken off the missing list (a DELETED duplicate is not
reported), the record keeps the LAST candidate (since D19: in the sorted order of the path strings) as previous path,
and a later `verify` reports the other one missing.

The last section evaluates the whole pipeline on a concrete tree by `decide +kernel`.
-/
import MhlProps.Proofs.RenameLemmas
import MhlProps.C03e2e

namespace MhlProps.C17detect
open MhlModel

/-! ### 0. the double loop, exactly -/

/-- the result of `detectRenames` on a flat history: with `ps = renamePairs …` (the matching pairs in loop order,
matching judged on the session GIVEN to the loop — earlier hits do not influence later comparisons), the session is
`setPrevOf` run over `ps`, the found-again list is the duplicate-free list of the old paths of `ps`, and the
reported renames are exactly `ps` as (old, new) texts, in that order. -/
theorem detectRenames_exact (env : Env) (t : Node) (rootHist : Hist) (hc : rootHist.children = [])
    (s : Session) (hs : s.RootsNodup) (newPaths notFound : List RelPath) :
    (detectRenames env t rootHist s newPaths notFound).1 =
        (renamePairs env t rootHist.gens s newPaths notFound).foldl (fun s x => setPrevOf s x.1 (posix x.2)) s ∧
    (detectRenames env t rootHist s newPaths notFound).2.1 =
        (renamePairs env t rootHist.gens s newPaths notFound).foldl (fun a x => appendNew a x.2) [] ∧
    (detectRenames env t rootHist s newPaths notFound).2.2 =
        (renamePairs env t rootHist.gens s newPaths notFound).map fun x => (posix x.2, posix x.1) := by
  rw [detectRenames_pairs env t rootHist hc s hs]
  exact ⟨rfl, rfl, by simp [applyPairs]⟩

theorem mem_renamePairs (env : Env) (t : Node) (gens : List LGen) (s : Session) (newPaths notFound : List RelPath)
    (np nf : RelPath) :
    (np, nf) ∈ renamePairs env t gens s newPaths notFound ↔
      np ∈ newPaths ∧ nf ∈ notFound ∧ matchesB env t gens s np nf = true := by
  unfold renamePairs
  simp only [List.mem_flatMap, List.mem_map, List.mem_filter, Prod.mk.injEq]
  constructor
  · rintro ⟨np', hnp', nf', ⟨hnf', hm⟩, rfl, rfl⟩
    exact ⟨hnp', hnf', hm⟩
  · rintro ⟨h1, h2, h3⟩
    exact ⟨np, h1, nf, ⟨h2, h3⟩, rfl, rfl⟩

/-- `matchesB` spelled out -/
theorem matchesB_iff (env : Env) (t : Node) (gens : List LGen) (s : Session) (np nf : RelPath) :
    matchesB env t gens s np nf = true ↔
      ∃ oldE, findFirstAny gens (posix nf) = some oldE ∧ newDigest env t s np oldE.fmt = some oldE.digest := by
  unfold matchesB
  cases findFirstAny gens (posix nf) with
  | none => simp
  | some e => simp

/-- `newDigest` spelled out: the new path has a record in the session (first list, in insertion order, whose root
is a prefix of the path and that knows the rest of the path), and the digest is the one that record carries in the
format, or — if it carries none in that format — the digest of the content of the FILE at the new path -/
theorem newDigest_eq_some_iff (env : Env) (t : Node) (s : Session) (np : RelPath) (fmt d : String) :
    newDigest env t s np fmt = some d ↔
      ∃ l r, holderOf s np = some (l, r) ∧
        ((∃ e, r.entries.find? (fun e => e.fmt == fmt) = some e ∧ e.digest = d) ∨
         (r.entries.find? (fun e => e.fmt == fmt) = none ∧ ∃ nm c, t.at? np = some (.file nm c) ∧ env.H fmt c = d)) := by
  unfold newDigest holderEntries digestFor
  cases hh : holderOf s np with
  | none => simp
  | some x =>
    obtain ⟨l, r⟩ := x
    simp only [Option.map_some, Option.bind_some, Option.some.injEq, Prod.mk.injEq, exists_and_left]
    cases hf : r.entries.find? (fun e => e.fmt == fmt) with
    | some e =>
      simp only [Option.some.injEq]
      constructor
      · intro h; exact ⟨l, r, ⟨rfl, rfl⟩, Or.inl ⟨e, by simpa using hf, h⟩⟩
      · rintro ⟨l', r', ⟨rfl, rfl⟩, h | h⟩
        · obtain ⟨e', he', hd⟩ := h
          rw [hf] at he'
          cases he'
          exact hd
        · rw [hf] at h
          cases h.1
    | none =>
      constructor
      · intro h
        refine ⟨l, r, ⟨rfl, rfl⟩, Or.inr ⟨hf, ?_⟩⟩
        cases hat : t.at? np with
        | none => rw [hat] at h; cases h
        | some n =>
          rw [hat] at h
          cases n with
          | dir _ _ _ => cases h
          | file nm c => exact ⟨nm, c, rfl, by simpa using h⟩
      · rintro ⟨l', r', ⟨rfl, rfl⟩, h | h⟩
        · obtain ⟨e', he', -⟩ := h
          rw [hf] at he'
          cases he'
        · obtain ⟨-, nm, c, hat, hd⟩ := h
          rw [hat]
          simp [hd]

/-! ### 1. soundness -/

/-- 1. `detectRenames_sound`: never a rename without equal digests.  Every reported pair (old, new) is the text of a
not-found path and of a new path; the history has a first entry `oldE` for the old path, and the digest of the new
path in `oldE.fmt` (from its record of this run if that has the format, else computed from the file) IS
`oldE.digest`. -/
theorem detectRenames_sound (env : Env) (t : Node) (rootHist : Hist) (hc : rootHist.children = [])
    (s : Session) (hs : s.RootsNodup) (newPaths notFound : List RelPath) (old new : String)
    (h : (old, new) ∈ (detectRenames env t rootHist s newPaths notFound).2.2) :
    ∃ np ∈ newPaths, ∃ nf ∈ notFound, ∃ oldE, old = posix nf ∧ new = posix np ∧
      findFirstAny rootHist.gens (posix nf) = some oldE ∧
      newDigest env t s np oldE.fmt = some oldE.digest := by
  rw [(detectRenames_exact env t rootHist hc s hs newPaths notFound).2.2, List.mem_map] at h
  obtain ⟨⟨np, nf⟩, hmem, heq⟩ := h
  obtain ⟨h1, h2, h3⟩ := (mem_renamePairs _ _ _ _ _ _ _ _).1 hmem
  obtain ⟨oldE, hE, hd⟩ := (matchesB_iff _ _ _ _ _ _).1 h3
  simp only [Prod.mk.injEq] at heq
  exact ⟨np, h1, nf, h2, oldE, heq.1.symm, heq.2.symm, hE, hd⟩

/-- the same with the digest spelled out (the statement of the task) -/
theorem detectRenames_sound' (env : Env) (t : Node) (rootHist : Hist) (hc : rootHist.children = [])
    (s : Session) (hs : s.RootsNodup) (newPaths notFound : List RelPath) (old new : String)
    (h : (old, new) ∈ (detectRenames env t rootHist s newPaths notFound).2.2) :
    ∃ np ∈ newPaths, ∃ nf ∈ notFound, ∃ oldE l r, old = posix nf ∧ new = posix np ∧
      findFirstAny rootHist.gens (posix nf) = some oldE ∧ holderOf s np = some (l, r) ∧
      ((∃ e, r.entries.find? (fun e => e.fmt == oldE.fmt) = some e ∧ e.digest = oldE.digest) ∨
       (r.entries.find? (fun e => e.fmt == oldE.fmt) = none ∧
          ∃ nm c, t.at? np = some (.file nm c) ∧ env.H oldE.fmt c = oldE.digest)) := by
  obtain ⟨np, h1, nf, h2, oldE, h3, h4, h5, h6⟩ := detectRenames_sound env t rootHist hc s hs newPaths notFound old new h
  obtain ⟨l, r, h7, h8⟩ := (newDigest_eq_some_iff _ _ _ _ _ _).1 h6
  exact ⟨np, h1, nf, h2, oldE, l, r, h3, h4, h5, h7, h8⟩

/-- the found-again paths are exactly the not-found paths that match some new path -/
theorem detectRenames_found_iff (env : Env) (t : Node) (rootHist : Hist) (hc : rootHist.children = [])
    (s : Session) (hs : s.RootsNodup) (newPaths notFound : List RelPath) (nf : RelPath) :
    nf ∈ (detectRenames env t rootHist s newPaths notFound).2.1 ↔
      nf ∈ notFound ∧ ∃ np ∈ newPaths, matchesB env t rootHist.gens s np nf = true := by
  rw [(detectRenames_exact env t rootHist hc s hs newPaths notFound).2.1,
    mem_foldl_appendNew (fun x : RelPath × RelPath => x.2)]
  simp only [List.not_mem_nil, false_or]
  constructor
  · rintro ⟨⟨np, nf'⟩, hmem, rfl⟩
    obtain ⟨h1, h2, h3⟩ := (mem_renamePairs _ _ _ _ _ _ _ _).1 hmem
    exact ⟨h2, np, h1, h3⟩
  · rintro ⟨h2, np, h1, h3⟩
    exact ⟨(np, nf), (mem_renamePairs _ _ _ _ _ _ _ _).2 ⟨h1, h2, h3⟩, rfl⟩

/-! ### 3. nothing but `prev` changes -/

/-- 3. `detectRenames_preserves_records`: the session after the loop differs from the one before in `prev` fields
of records only: erasing those gives the same session.  Spelled out: same pattern list, same lists in the same
order with the same roots and root records, and in every list the same records in the same order with the same
path, is-directory flag, size and entries. -/
theorem detectRenames_preserves_records (env : Env) (t : Node) (rootHist : Hist) (hc : rootHist.children = [])
    (s : Session) (hs : s.RootsNodup) (newPaths notFound : List RelPath) :
    let s' := (detectRenames env t rootHist s newPaths notFound).1
    eraseSess s' = eraseSess s ∧
    s'.patterns = s.patterns ∧
    s'.lists.length = s.lists.length ∧
    s'.lists.map (·.root) = s.lists.map (·.root) ∧
    s'.lists.map (·.rootRec) = s.lists.map (·.rootRec) ∧
    s'.lists.map (fun l => l.records.map fun r => (r.path, r.isDir, r.size, r.entries)) =
      s.lists.map (fun l => l.records.map fun r => (r.path, r.isDir, r.size, r.entries)) ∧
    s'.RootsNodup := by
  intro s'
  have he : eraseSess s' = eraseSess s := by
    show eraseSess (detectRenames env t rootHist s newPaths notFound).1 = _
    rw [(detectRenames_exact env t rootHist hc s hs newPaths notFound).1]
    exact eraseSess_foldl_setPrevOf _ s hs
  have h1 : ∀ x : Session, (eraseSess x).patterns = x.patterns := fun _ => rfl
  have h2 : ∀ x : Session, (eraseSess x).lists.map (·.root) = x.lists.map (·.root) := eraseSess_roots
  have h3 : ∀ x : Session, (eraseSess x).lists.map (·.rootRec) = x.lists.map (·.rootRec) := by
    intro x; simp [eraseSess, eraseList, List.map_map, Function.comp_def]
  have h4 : ∀ x : Session,
      (eraseSess x).lists.map (fun l => l.records.map fun r => (r.path, r.isDir, r.size, r.entries)) =
      x.lists.map (fun l => l.records.map fun r => (r.path, r.isDir, r.size, r.entries)) := by
    intro x; simp [eraseSess, eraseList, eraseRec, List.map_map, Function.comp_def]
  have hroots : s'.lists.map (·.root) = s.lists.map (·.root) := by rw [← h2, he, h2]
  refine ⟨he, by rw [← h1, he, h1], ?_, hroots, by rw [← h3, he, h3], by rw [← h4, he, h4],
    rootsNodup_of_erase he hs⟩
  have := congrArg List.length hroots
  simpa using this

/-! ### 2. completeness -/

/-- 2a. `detectRenames_complete`: a new path and a not-found path whose first recorded entry has the digest of the
new path in its format ARE reported as a rename, and the not-found path is taken off the missing list — for EVERY
such pair (several old paths may be linked to one new path and vice versa). -/
theorem detectRenames_complete (env : Env) (t : Node) (rootHist : Hist) (hc : rootHist.children = [])
    (s : Session) (hs : s.RootsNodup) (newPaths notFound : List RelPath) (np nf : RelPath) (oldE : Entry)
    (hnp : np ∈ newPaths) (hnf : nf ∈ notFound) (hE : findFirstAny rootHist.gens (posix nf) = some oldE)
    (hd : newDigest env t s np oldE.fmt = some oldE.digest) :
    (posix nf, posix np) ∈ (detectRenames env t rootHist s newPaths notFound).2.2 ∧
    nf ∈ (detectRenames env t rootHist s newPaths notFound).2.1 := by
  have hm : matchesB env t rootHist.gens s np nf = true := (matchesB_iff _ _ _ _ _ _).2 ⟨oldE, hE, hd⟩
  refine ⟨?_, (detectRenames_found_iff env t rootHist hc s hs newPaths notFound nf).2 ⟨hnf, np, hnp, hm⟩⟩
  rw [(detectRenames_exact env t rootHist hc s hs newPaths notFound).2.2, List.mem_map]
  exact ⟨(np, nf), (mem_renamePairs _ _ _ _ _ _ _ _).2 ⟨hnp, hnf, hm⟩, rfl⟩

/-- 2b. `detectRenames_prev`: what the loop leaves in the `prev` field of the record of a new path `np` (an ordinary
record: the rest of the path below the list root is not "."; on a flat history the root record is never touched).
With `ps` the matching pairs in loop order, it is the old path of the LAST pair of `ps` whose new path has the same
holder key (list root, record path) as `np`; the record's own previous path if there is no such pair.  Everything
else in the record is unchanged. -/
theorem detectRenames_prev (env : Env) (t : Node) (rootHist : Hist) (hc : rootHist.children = [])
    (s : Session) (hs : s.RootsNodup) (newPaths notFound : List RelPath) (np : RelPath) (l : NewList) (r : Record)
    (hh : holderOf s np = some (l, r)) (hk : posix (np.drop l.root.length) ≠ ".") :
    ∃ l', holderOf (detectRenames env t rootHist s newPaths notFound).1 np =
        some (l', { r with prev := (renamePairs env t rootHist.gens s newPaths notFound).foldl (fun acc x =>
          if holderKey s x.1 = holderKey s np then some (posix x.2) else acc) r.prev }) ∧
      l'.root = l.root := by
  rw [(detectRenames_exact env t rootHist hc s hs newPaths notFound).1]
  exact holderOf_foldl_setPrev _ s hs np l r hh hk

/-- 2c. `detectRenames_prev_unique`: if `np` is the only new path WITH A MATCH that has its holder key (true when
the session has the single list of the root history and the new paths are made of well-formed names,
`holderKey_inj_single`), the record of `np` ends up with
`prev = some (posix nfLast)` where `nfLast` is the LAST not-found path (in `notFound` order) that matches `np`:
the last one wins, although all matching ones are taken off the missing list (`detectRenames_complete`). -/
theorem detectRenames_prev_unique (env : Env) (t : Node) (rootHist : Hist) (hc : rootHist.children = [])
    (s : Session) (hs : s.RootsNodup) (newPaths notFound : List RelPath) (np : RelPath) (l : NewList) (r : Record)
    (hh : holderOf s np = some (l, r)) (hk : posix (np.drop l.root.length) ≠ ".") (hnp : np ∈ newPaths)
    (nfLast : RelPath)
    (hlast : (notFound.filter (matchesB env t rootHist.gens s np)).getLast? = some nfLast)
    (huniq : ∀ np' ∈ newPaths, (∃ nf ∈ notFound, matchesB env t rootHist.gens s np' nf = true) →
      holderKey s np' = holderKey s np → np' = np) :
    ∃ l', holderOf (detectRenames env t rootHist s newPaths notFound).1 np =
        some (l', { r with prev := some (posix nfLast) }) ∧ l'.root = l.root := by
  obtain ⟨l', h1, h2⟩ := detectRenames_prev env t rootHist hc s hs newPaths notFound np l r hh hk
  refine ⟨l', ?_, h2⟩
  rw [h1]
  unfold renamePairs
  rw [foldl_prev_renamePairs (holderKey s) (matchesB env t rootHist.gens s) newPaths notFound np nfLast hlast huniq]
  simp [hnp]

/-- in particular: exactly one not-found path matches `np` -/
theorem detectRenames_prev_single (env : Env) (t : Node) (rootHist : Hist) (hc : rootHist.children = [])
    (s : Session) (hs : s.RootsNodup) (newPaths notFound : List RelPath) (np nf : RelPath) (l : NewList) (r : Record)
    (hh : holderOf s np = some (l, r)) (hk : posix (np.drop l.root.length) ≠ ".") (hnp : np ∈ newPaths)
    (hone : notFound.filter (matchesB env t rootHist.gens s np) = [nf])
    (huniq : ∀ np' ∈ newPaths, (∃ nf ∈ notFound, matchesB env t rootHist.gens s np' nf = true) →
      holderKey s np' = holderKey s np → np' = np) :
    ∃ l', holderOf (detectRenames env t rootHist s newPaths notFound).1 np =
        some (l', { r with prev := some (posix nf) }) ∧ l'.root = l.root :=
  detectRenames_prev_unique env t rootHist hc s hs newPaths notFound np l r hh hk hnp nf (by rw [hone]; rfl) huniq

/-- a new path without any match keeps its record untouched (as long as no matched new path shares its key) -/
theorem detectRenames_prev_untouched (env : Env) (t : Node) (rootHist : Hist) (hc : rootHist.children = [])
    (s : Session) (hs : s.RootsNodup) (newPaths notFound : List RelPath) (np : RelPath) (l : NewList) (r : Record)
    (hh : holderOf s np = some (l, r)) (hk : posix (np.drop l.root.length) ≠ ".")
    (hno : ∀ x ∈ renamePairs env t rootHist.gens s newPaths notFound, holderKey s x.1 ≠ holderKey s np) :
    ∃ l', holderOf (detectRenames env t rootHist s newPaths notFound).1 np = some (l', r) ∧ l'.root = l.root := by
  obtain ⟨l', h1, h2⟩ := detectRenames_prev env t rootHist hc s hs newPaths notFound np l r hh hk
  refine ⟨l', ?_, h2⟩
  rw [h1]
  have : ∀ (ps : List (RelPath × RelPath)) (i : Option String), (∀ x ∈ ps, holderKey s x.1 ≠ holderKey s np) →
      ps.foldl (fun acc x => if holderKey s x.1 = holderKey s np then some (posix x.2) else acc) i = i := by
    intro ps
    induction ps with
    | nil => intro i _; rfl
    | cons p ps ih =>
      intro i h
      rw [List.foldl_cons, if_neg (h p (by simp))]
      exact ih i (fun x hx => h x (by simp [hx]))
  rw [this _ _ hno]

/-! ### non-vacuity of 1–3 -/

section examples
open MhlProps.C17

/-- two old names with the same first digest, one new file with that digest, one new file with another digest -/
def g1' : LGen := ⟨1, { fileName := "0001.mhl", records :=
  [{ path := "a.txt", entries := [C17.e] }, { path := "a2.txt", entries := [C17.e] },
   { path := "z.txt", entries := [{ fmt := "md5", digest := "77", action := "original" }] }] }⟩
def exHist2 : Hist := .mk [] [g1'] [] true []
def exTree2 : Node := .dir "root" [.file "b.txt" [1], .file "c.txt" [2]] none
/-- the record of c.txt carries no md5 digest: it is computed from the file -/
def exSession2 : Session := { lists := [{ root := [], records :=
  [{ path := "b.txt", entries := [C17.e] }, { path := "c.txt", entries := [{ fmt := "sha1", digest := "ff" }] }] }] }

theorem exSession2_ok : exSession2.RootsNodup := by unfold Session.RootsNodup; decide

/-- without the uniqueness of the digest BOTH old names are linked to the new file: both are taken off the missing
list, both pairs are reported, and the record of b.txt keeps the LAST one as previous path -/
example : (detectRenames exEnv exTree2 exHist2 exSession2 [["b.txt"], ["c.txt"]] [["a.txt"], ["z.txt"], ["a2.txt"]]).2 =
    ([["a.txt"], ["a2.txt"]], [("a.txt", "b.txt"), ("a2.txt", "b.txt")]) := by decide

example : ((detectRenames exEnv exTree2 exHist2 exSession2 [["b.txt"], ["c.txt"]]
      [["a.txt"], ["z.txt"], ["a2.txt"]]).1.lists.map fun l => l.records.map fun r => (r.path, r.prev)) =
    [[("b.txt", some "a2.txt"), ("c.txt", none)]] := by decide

/-- the hypotheses of `detectRenames_prev_unique` hold there with `nfLast = a2.txt` -/
example : exHist2.children = [] ∧
    (∃ l, holderOf exSession2 ["b.txt"] = some (l, { path := "b.txt", entries := [C17.e] }) ∧
      posix ((["b.txt"] : RelPath).drop l.root.length) ≠ ".") ∧
    ([["a.txt"], ["z.txt"], ["a2.txt"]].filter (matchesB exEnv exTree2 exHist2.gens exSession2 ["b.txt"])).getLast? =
      some ["a2.txt"] ∧
    (∀ np' ∈ [["b.txt"], ["c.txt"]],
      (∃ nf ∈ [["a.txt"], ["z.txt"], ["a2.txt"]], matchesB exEnv exTree2 exHist2.gens exSession2 np' nf = true) →
      holderKey exSession2 np' = holderKey exSession2 ["b.txt"] → np' = ["b.txt"]) := by
  refine ⟨rfl, ⟨_, rfl, by decide⟩, by decide, by decide⟩

/-- … and those of `detectRenames_sound` / `detectRenames_complete` on the pair (a.txt, b.txt) -/
example : (("a.txt", "b.txt") ∈ (detectRenames exEnv exTree2 exHist2 exSession2 [["b.txt"], ["c.txt"]]
      [["a.txt"], ["z.txt"], ["a2.txt"]]).2.2) ∧
    findFirstAny exHist2.gens (posix ["a.txt"]) = some C17.e ∧
    newDigest exEnv exTree2 exSession2 ["b.txt"] C17.e.fmt = some C17.e.digest := by
  refine ⟨by decide, by decide, by decide⟩

/-- a digest computed from the file (the record of c.txt has no md5 entry): z.txt ↦ c.txt when the content fits -/
example : (detectRenames { exEnv with H := fun _ c => if c = [2] then "77" else "ff" } exTree2 exHist2 exSession2
      [["c.txt"]] [["z.txt"]]).2 = ([["z.txt"]], [("z.txt", "c.txt")]) := by decide

/-- `Session.put` overwrites EVERY list with the root of the given one: on a session with two lists of the same
root the loop does change more than `prev` fields, so `RootsNodup` cannot be dropped from 3. -/
theorem put_needs_distinct_roots :
    let s : Session := { lists := [{ root := [], records := [{ path := "x" }] },
                                   { root := [], records := [{ path := "b.txt", entries := [C17.e] }] }] }
    ((detectRenames exEnv C17.exTree C17.exHist s [["b.txt"]] [["a.txt"]]).1.lists.map fun l =>
      l.records.map (·.path)) = [["b.txt"], ["b.txt"]] := by decide

end examples

/-! ### 4. end to end: seal, move one file, `create -dr`, verify / diff -/

section e2e
open MhlProps.C03e2e MhlProps.C02rec MhlProps.C04

variable {env : Env} {rn : String} {cs cs2 : List Node} {o : CreateOpts} {a b : RelPath} {c : Bytes}

/-- the sealed tree of C03e2e's setting after the move: the children `cs2`, the `ascmhl` folder with generation 1 -/
def movedTree (rn : String) (cs2 : List Node) (w : Written) : Node := .dir rn cs2 (some (firstStore w))

/-- the history of the moved tree is the sealed one, and a second `create` sees it through the matcher of the
first -/
theorem movedTree_facts (hS : Setting env rn cs o) (w : Written)
    (hw : (createFolder env (.dir rn cs none) o).written = [w]) (hM : Moved (hit0 env o) rn cs cs2 a b c) :
    loadHistory (movedTree rn cs2 w) = .ok (sealedHist w) ∧
    (movedTree rn cs2 w).NamesDistinct ∧ (movedTree rn cs2 w).NamesOk ∧ (movedTree rn cs2 w).isDir = true ∧
    (∀ hit, visiblePaths hit (movedTree rn cs2 w) = visiblePaths hit (.dir rn cs2 none)) ∧
    (∀ p, fileContent (movedTree rn cs2 w) p = fileContent (.dir rn cs2 none) p) := by
  obtain ⟨-, hnum, hstate, hparse, -⟩ := written_facts hS w hw
  refine ⟨?_, ?_, ?_, rfl, fun hit => visiblePaths_root_hist _ _ _ _ _, fun p => fileContent_root_hist _ _ _ _ _⟩
  · unfold movedTree
    rw [loadHistory_firstStore rn cs2 hM.flat w 1 hparse hstate, hnum]
    rfl
  · exact (Node.namesDistinct_dir _ _ _).2 ((Node.namesDistinct_dir _ _ _).1 hM.distinct)
  · intro s hs
    exact hM.namesOk s ((Node.mem_descNames_dir _ _ _ _).2 ((Node.mem_descNames_dir _ _ _ _).1 hs))

/-- the new path is unknown to the sealed generation -/
theorem dst_unknown (hS : Setting env rn cs o) (w : Written)
    (hw : (createFolder env (.dir rn cs none) o).written = [w]) (hM : Moved (hit0 env o) rn cs cs2 a b c) :
    posix b ∉ w.gen.records.map (·.path) ∧ posix b ≠ "." ∧ w.gen.find (posix b) = none := by
  obtain ⟨-, -, -, -, -, -, hsg⟩ := written_facts hS w hw
  obtain ⟨hne, hbok⟩ := visible_names_ok _ _ hM.namesOk _ hM.dstVisible
  have hdot : posix b ≠ "." := fun h => hne ((posix_eq_dot hbok).1 h)
  have hnot : posix b ∉ w.gen.records.map (·.path) := by
    intro hin
    obtain ⟨⟨q, d⟩, hx, hxs⟩ := (hsg.paths (posix b)).1 hin
    have : q = b := posix_inj (visible_names_ok _ _ hS.namesOk _ hx).2 hbok hxs
    subst this
    exact hM.dstFresh d hx
  exact ⟨hnot, hdot, hsg.find_none _ hdot hnot⟩

/-- the `create -dr` run on the moved tree -/
theorem rename_run (hS : Setting env rn cs o) (w : Written)
    (hw : (createFolder env (.dir rn cs none) o).written = [w]) (hM : Moved (hit0 env o) rn cs cs2 a b c)
    (o₂ : CreateOpts) (hf₂ : o₂.formats ≠ []) (hdr₂ : o₂.detectRenaming = true)
    (hcli : ∀ x ∈ o₂.ignoreCli, x ∈ setPatterns none o.ignoreCli o.ignoreFile)
    (hfile : ∀ x ∈ o₂.ignoreFile, x ∈ setPatterns none o.ignoreCli o.ignoreFile) :
    ∃ w₂, (createFolder env (movedTree rn cs2 w) o₂).err = none ∧
      (createFolder env (movedTree rn cs2 w) o₂).written = [w₂] ∧
      (createFolder env (movedTree rn cs2 w) o₂).report.mismatch = [] ∧
      (createFolder env (movedTree rn cs2 w) o₂).report.missing = [] ∧
      (createFolder env (movedTree rn cs2 w) o₂).report.renamed = [(posix a, posix b)] ∧
      w₂.histRoot = [] ∧ w₂.number = 2 ∧ w₂.gen.state = .ok ∧ parseGenName w₂.gen.fileName = some 2 ∧
      w₂.gen.ignore = pats o ∧
      RenamedGen (hit0 env o) (.dir rn cs2 none) a b w₂.gen ∧ w₂.gen.refs = [] ∧
      (∀ p, (p, false) ∈ visiblePaths (hit0 env o) (.dir rn cs2 none) → ∀ r ∈ w₂.gen.records, r.path = posix p →
        ∀ e ∈ r.entries, e.digest = env.H e.fmt (fileContent (.dir rn cs2 none) p)) ∧
      ∃ r ∈ w₂.gen.records, r.path = posix b ∧ r.prev = some (posix a) ∧ r.isDir = false ∧
        r.size = some c.length ∧
        (∀ e ∈ r.entries, e.action = "original" ∧ e.digest = env.H e.fmt c) ∧
        (∀ f ∈ o₂.formats, ∃ e ∈ r.entries, e.fmt = f) := by
  obtain ⟨-, -, -, -, hrefs, hign, hsg⟩ := written_facts hS w hw
  obtain ⟨hl2, hd2, hn2, hdir2, hvisT, hcontT⟩ := movedTree_facts hS w hw hM
  obtain ⟨hnot, hdot, hfn⟩ := dst_unknown hS w hw hM
  have hhit := sealed_ignore_stable_create hS w hw o₂ hcli hfile
  have hvis : visiblePaths (cHit env (sealedHist w) o₂) (movedTree rn cs2 w) =
      visiblePaths (hit0 env o) (.dir rn cs2 none) := by rw [hhit, hvisT]
  have hbvis : (b, false) ∈ visiblePaths (cHit env (sealedHist w) o₂) (movedTree rn cs2 w) := by
    rw [hvis]; exact hM.dstVisible
  have hgens : (sealedHist w).gens = [⟨1, w.gen⟩] := rfl
  have hunknown : ∀ g ∈ (sealedHist w).gens, g.gen.find (posix b) = none := by
    intro g hg
    rw [hgens, List.mem_singleton] at hg
    subst hg
    exact hfn
  obtain ⟨w₂, h1, h2, h3, h4, h5, hw₂, hrecs⟩ := createFolder_dr_single env (movedTree rn cs2 w) o₂ (sealedHist w)
    hl2 rfl hd2 hn2 hf₂ hdr₂ hdir2 a b
    (by
      intro p hp
      rw [hvis] at hp
      rw [hcontT]
      by_cases hpb : p = b
      · subst hpb
        intro fmt e he
        simp [findFirstOfFormat, hgens, hfn] at he
      · have hp0 : (p, false) ∈ visiblePaths (hit0 env o) (.dir rn cs none) ∧ p ≠ a := by
          rcases (hM.vis p false).1 hp with h | ⟨h, -⟩
          · exact h
          · exact absurd h hpb
        rw [hM.content p hp0.1 hp0.2]
        exact hsg.firstOk hS.namesOk 1 p hp0.1)
    hbvis
    (by
      intro p d hp
      rw [hvis] at hp
      unfold sealedHist
      rw [isNewPath_single]
      constructor
      · intro hnp
        by_contra hpb
        have hp0 : (p, d) ∈ visiblePaths (hit0 env o) (.dir rn cs none) := by
          rcases (hM.vis p d).1 hp with h | ⟨h, -⟩
          · exact h.1
          · exact absurd h hpb
        exact hnp ((hsg.paths (posix p)).2 ⟨(p, d), hp0, rfl⟩)
      · rintro rfl
        exact hnot)
    (hsg.expected_of_visible hS.namesOk 1 _ _ a false hM.srcVisible)
    (by intro d; rw [hvis]; exact hM.srcGone d)
    (by
      intro p hp hpa
      obtain ⟨d, hd⟩ := hsg.expected hS.namesOk 1 _ _ p hp
      exact ⟨d, by rw [hvis]; exact (hM.vis p d).2 (Or.inl ⟨hd, hpa⟩)⟩)
    (mkOrig env (fileContent (.dir rn cs none) a) (firstFormat o.formats))
    (hsg.findFirstAny_cons hS.namesOk hS.formats 1 [] a hM.srcVisible)
    (by simp only [mkOrig]; rw [hcontT, hM.dstContent, hM.srcContent])
    (by
      intro g hg
      have : g = ⟨1, w.gen⟩ := by
        simp [sealedHist, Hist.gens] at hg
        exact hg.symm
      rw [this]
      exact hrefs)
  obtain ⟨hnum, hroot, hname⟩ := MhlProps.C06.writeOne_number _ _ _ _ _ _ _ _ hw₂
  obtain ⟨hstate, -, -⟩ := MhlProps.C06.writeOne_state _ _ _ _ _ _ _ _ _ hw₂
  have hnum2 : w₂.number = 2 := by rw [hnum]; rfl
  have hroot2 : w₂.histRoot = [] := hroot
  have hparse2 : parseGenName w₂.gen.fileName = some 2 := by
    rw [hname, hnum2]
    exact MhlProps.C06.parseGenName_genFileName 2 _ _ hS.rootName hS.stamp
  -- the pattern list
  have hlat : latestIgnore (sealedHist w).gens = some (pats o) := by
    simp [latestIgnore, sealedHist, Hist.gens, hign]
  have hfm₂ : isort strLe o₂.formats ≠ [] := by
    intro h0
    have := length_isort strLe o₂.formats
    rw [h0] at this
    exact hf₂ (List.length_eq_zero_iff.1 this.symm)
  have hpat : (cSession env (movedTree rn cs2 w) (sealedHist w) o₂).patterns = pats o := by
    have := (createVisit_records env (movedTree rn cs2 w) (sealedHist w) rfl rfl hd2 hn2 (isort strLe o₂.formats)
      hfm₂ o₂.noDirHashes (setPatterns (latestIgnore (sealedHist w).gens) o₂.ignoreCli o₂.ignoreFile)
      (cHit env (sealedHist w) o₂)).1
    change (cSession env (movedTree rn cs2 w) (sealedHist w) o₂).patterns = _ at this
    rw [this, hlat]
    exact setPatterns_some_own (pats o) _ _ (setPatterns_fresh_ne_nil _ _)
      (MhlProps.C12.setPatterns_nodup _ _ _) hcli hfile
  have hign2 : w₂.gen.ignore = pats o := by
    rw [MhlProps.C12.written_ignore _ _ _ _ _ _ _ _ _ hw₂, hlat]
    show setPatterns (some (pats o)) (cSession env (movedTree rn cs2 w) (sealedHist w) o₂).patterns [] = pats o
    rw [hpat]
    exact setPatterns_some_own (pats o) _ _ (setPatterns_fresh_ne_nil _ _)
      (MhlProps.C12.setPatterns_nodup _ _ _) (fun _ h => h) (by simp)
  obtain ⟨hrg, r, hrm, hr1, hr2, hr3, hr4, hr5, hr6⟩ := renamedGen_of_run env (movedTree rn cs2 w) o₂ (sealedHist w)
    rfl rfl hd2 hn2 hf₂ a b hbvis hunknown w₂.gen hrecs
  have hcb : fileContent (movedTree rn cs2 w) b = c := by rw [hcontT, hM.dstContent]
  rw [hcb] at hr4 hr5
  refine ⟨w₂, h1, h2, h3, h4, h5, hroot2, hnum2, hstate, hparse2, hign2, ?_, writeOne_refs_nil _ _ _ _ _ _ _ _ hw₂,
    ?_, r, hrm, hr1, hr2, hr3, hr4, hr5, hr6⟩
  · rw [hhit] at hrg
    exact ⟨hrg.nodup, fun s => by rw [hrg.paths s, hvisT], hrg.prevB, hrg.prevOther⟩
  · intro p hp r' hr' hrp e he
    rw [← hcontT]
    exact run_digests env (movedTree rn cs2 w) o₂ (sealedHist w) rfl rfl hd2 hn2 hf₂ _ _ w₂.gen hrecs p
      (by rw [hvis]; exact hp) r' hr' hrp e he

/-- the moved tree with generation 2 written into its `ascmhl` folder -/
def renamedTree (rn : String) (cs2 : List Node) (w w₂ : Written) : Node :=
  .dir rn cs2 (some ((firstStore w).add w₂))

/-- the history it loads as -/
def renamedHist (w w₂ : Written) : Hist :=
  .mk [] [⟨1, w.gen⟩, ⟨2, w₂.gen⟩] [⟨w.number, w.gen.fileName⟩, ⟨w₂.number, w₂.gen.fileName⟩] true []

/-- verify (`hashing = true`) and diff (`hashing = false`) on the moved tree once the rename is recorded in
generation 2 (a `RenamedGen` with the pattern list of the first run): exit code 0, nothing reported -/
theorem verifyOrDiff_after_rename (hS : Setting env rn cs o) (w : Written)
    (hw : (createFolder env (.dir rn cs none) o).written = [w]) (hM : Moved (hit0 env o) rn cs cs2 a b c)
    (w₂ : Written) (hstate2 : w₂.gen.state = .ok) (hparse2 : parseGenName w₂.gen.fileName = some 2)
    (hign2 : w₂.gen.ignore = pats o) (hrg : RenamedGen (hit0 env o) (.dir rn cs2 none) a b w₂.gen)
    (hashing : Bool) :
    loadHistory (renamedTree rn cs2 w w₂) = .ok (renamedHist w w₂) ∧
    (verifyOrDiff env (renamedTree rn cs2 w w₂) {} hashing none).err = none ∧
    (verifyOrDiff env (renamedTree rn cs2 w w₂) {} hashing none).exitCode = 0 ∧
    (verifyOrDiff env (renamedTree rn cs2 w w₂) {} hashing none).report.mismatch = [] ∧
    (verifyOrDiff env (renamedTree rn cs2 w w₂) {} hashing none).report.new = [] ∧
    (verifyOrDiff env (renamedTree rn cs2 w w₂) {} hashing none).report.missing = [] := by
  obtain ⟨-, -, hstate, hparse, -, -, hsg⟩ := written_facts hS w hw
  have hl3 : loadHistory (renamedTree rn cs2 w w₂) = .ok (renamedHist w w₂) :=
    loadHistory_secondStore rn cs2 hM.flat w w₂ hparse hstate hparse2 hstate2
  have hhit : vHit env (renamedHist w w₂) {} = hit0 env o := by
    unfold vHit
    have hlat : latestIgnore (renamedHist w w₂).gens = some (pats o) := by
      simp [latestIgnore, renamedHist, Hist.gens, hign2]
    rw [show ({} : VerifyOpts).ignoreCli = [] from rfl, show ({} : VerifyOpts).ignoreFile = [] from rfl, hlat]
    rw [setPatterns_some_own (pats o) [] [] (setPatterns_fresh_ne_nil _ _)
      (MhlProps.C12.setPatterns_nodup _ _ _) (by simp) (by simp)]
  have hvis : visiblePaths (vHit env (renamedHist w w₂) {}) (renamedTree rn cs2 w w₂) =
      visiblePaths (hit0 env o) (.dir rn cs2 none) := by
    rw [hhit]
    exact visiblePaths_root_hist _ _ _ _ _
  refine ⟨hl3, ?_⟩
  apply MhlProps.C03.clean_exit_zero env _ {} hashing (renamedHist w w₂) hl3 (by simp [renamedHist, Hist.gens]) rfl
  · intro p hp
    rw [hvis] at hp
    unfold renamedHist
    rw [judge_after_rename hM hS.namesOk hS.formats hsg hrg _ _ (renamedTree rn cs2 w w₂) hashing p hp
      (fileContent_root_hist rn cs2 _ none p)]
    exact ⟨by decide, by decide⟩
  · intro p hp
    left
    rw [hvis]
    exact expected_after_rename hM hS.namesOk hsg hrg _ _ p hp

/-- 4. `rename_e2e_moved`: END TO END for ONE moved file.  Start from C03e2e's setting (a tree without history
sealed by a first `create`, generation `w`), let the children become `cs2` where the visible file `a` (content
`c`) has been moved to the fresh, not ignored path `b` (`Moved`; `moveFile_moved` builds such `cs2` with the
model's tree operations).  Then `create -dr` (any non-empty format list, with or without directory hashes)

* ends with exit code 0, reports no missing file, no mismatch, and exactly the rename `(a, b)`;
* writes generation 2, whose record for `b` carries `previousPath = a`, the size, and ONE `original` ENTRY PER
  REQUESTED FORMAT with the digest of the content (the new path has no history, so `append_file_hash` takes the
  digests as originals — the link to the first generation is the previous path alone); no other record carries a
  previous path;
* and on the tree with that generation written, `verify` and `diff` end with exit code 0 and empty reports
  (the file at `b` is looked up under `a`, `recordedName`, and `a` is no longer expected, `expectedPaths`).

No hypothesis on other files having a different digest is needed: with one path missing and one path new there is
one candidate pair (see `duplicate_hides_deletion` for what happens with two). -/
theorem rename_e2e_moved (hS : Setting env rn cs o) (w : Written)
    (hw : (createFolder env (.dir rn cs none) o).written = [w]) (hM : Moved (hit0 env o) rn cs cs2 a b c)
    (o₂ : CreateOpts) (hf₂ : o₂.formats ≠ []) (hdr₂ : o₂.detectRenaming = true)
    (hcli : ∀ x ∈ o₂.ignoreCli, x ∈ setPatterns none o.ignoreCli o.ignoreFile)
    (hfile : ∀ x ∈ o₂.ignoreFile, x ∈ setPatterns none o.ignoreCli o.ignoreFile) :
    (createFolder env (movedTree rn cs2 w) o₂).err = none ∧
    (createFolder env (movedTree rn cs2 w) o₂).exitCode = 0 ∧
    (createFolder env (movedTree rn cs2 w) o₂).report.missing = [] ∧
    (createFolder env (movedTree rn cs2 w) o₂).report.mismatch = [] ∧
    (createFolder env (movedTree rn cs2 w) o₂).report.renamed = [(posix a, posix b)] ∧
    ∃ w₂, (createFolder env (movedTree rn cs2 w) o₂).written = [w₂] ∧ w₂.histRoot = [] ∧ w₂.number = 2 ∧
      (∃ r ∈ w₂.gen.records, r.path = posix b ∧ r.prev = some (posix a) ∧ r.isDir = false ∧
        r.size = some c.length ∧
        (∀ e ∈ r.entries, e.action = "original" ∧ e.digest = env.H e.fmt c) ∧
        (∀ f ∈ o₂.formats, ∃ e ∈ r.entries, e.fmt = f)) ∧
      (∀ r ∈ w₂.gen.records, r.path ≠ posix b → r.prev = none) ∧
      applyWritten (movedTree rn cs2 w) (createFolder env (movedTree rn cs2 w) o₂).written =
        renamedTree rn cs2 w w₂ ∧
      loadHistory (renamedTree rn cs2 w w₂) = .ok (renamedHist w w₂) ∧
      (verify env (renamedTree rn cs2 w w₂) {}).err = none ∧
      (verify env (renamedTree rn cs2 w w₂) {}).exitCode = 0 ∧
      (verify env (renamedTree rn cs2 w w₂) {}).report.mismatch = [] ∧
      (verify env (renamedTree rn cs2 w w₂) {}).report.new = [] ∧
      (verify env (renamedTree rn cs2 w w₂) {}).report.missing = [] ∧
      (diff env (renamedTree rn cs2 w w₂) {}).err = none ∧
      (diff env (renamedTree rn cs2 w w₂) {}).exitCode = 0 ∧
      (diff env (renamedTree rn cs2 w w₂) {}).report.new = [] ∧
      (diff env (renamedTree rn cs2 w w₂) {}).report.missing = [] := by
  obtain ⟨w₂, h1, h2, h3, h4, h5, hroot2, hnum2, hstate2, hparse2, hign2, hrg, -, -, hrec⟩ :=
    rename_run hS w hw hM o₂ hf₂ hdr₂ hcli hfile
  obtain ⟨hl3, a1, a2, a3, a4, a5⟩ := verifyOrDiff_after_rename hS w hw hM w₂ hstate2 hparse2 hign2 hrg true
  obtain ⟨-, b1, b2, -, b4, b5⟩ := verifyOrDiff_after_rename hS w hw hM w₂ hstate2 hparse2 hign2 hrg false
  refine ⟨h1, ?_, h4, h3, h5, w₂, h2, hroot2, hnum2, hrec, hrg.prevOther, ?_, hl3, a1, a2, a3, a4, a5, b1, b2, b4, b5⟩
  · unfold Outcome.exitCode; rw [h1]
  · rw [h2]
    unfold movedTree renamedTree
    rw [applyWritten_root rn cs2 _ w₂ hroot2]
    rfl

/-- 4'. `reseal_after_rename`: "… and later create accepts the tree".  After `create -dr` recorded the rename and
its generation was written, a further folder-mode `create` (any non-empty format list, no `-dr` needed) ends with
exit code 0, reports nothing missing / mismatching and writes generation 3: every file — the moved one included —
is verified against the digests recorded for its CURRENT path, the old path is no longer expected. -/
theorem reseal_after_rename (hS : Setting env rn cs o) (w : Written)
    (hw : (createFolder env (.dir rn cs none) o).written = [w]) (hM : Moved (hit0 env o) rn cs cs2 a b c)
    (o₂ : CreateOpts) (hf₂ : o₂.formats ≠ []) (hdr₂ : o₂.detectRenaming = true)
    (hcli : ∀ x ∈ o₂.ignoreCli, x ∈ setPatterns none o.ignoreCli o.ignoreFile)
    (hfile : ∀ x ∈ o₂.ignoreFile, x ∈ setPatterns none o.ignoreCli o.ignoreFile)
    (o₃ : CreateOpts) (hf₃ : o₃.formats ≠ []) (hdr₃ : o₃.detectRenaming = false)
    (hcli₃ : ∀ x ∈ o₃.ignoreCli, x ∈ setPatterns none o.ignoreCli o.ignoreFile)
    (hfile₃ : ∀ x ∈ o₃.ignoreFile, x ∈ setPatterns none o.ignoreCli o.ignoreFile) :
    ∃ w₂, (createFolder env (movedTree rn cs2 w) o₂).written = [w₂] ∧
      (createFolder env (renamedTree rn cs2 w w₂) o₃).err = none ∧
      (createFolder env (renamedTree rn cs2 w w₂) o₃).exitCode = 0 ∧
      (createFolder env (renamedTree rn cs2 w w₂) o₃).report.mismatch = [] ∧
      (createFolder env (renamedTree rn cs2 w w₂) o₃).report.missing = [] ∧
      ∃ w₃, (createFolder env (renamedTree rn cs2 w w₂) o₃).written = [w₃] ∧ w₃.histRoot = [] ∧ w₃.number = 3 := by
  obtain ⟨-, -, hstate, hparse, -, -, hsg⟩ := written_facts hS w hw
  obtain ⟨w₂, -, h2, -, -, -, -, -, hstate2, hparse2, hign2, hrg, hrefs2, hdig, -⟩ :=
    rename_run hS w hw hM o₂ hf₂ hdr₂ hcli hfile
  have hl3 : loadHistory (renamedTree rn cs2 w w₂) = .ok (renamedHist w w₂) :=
    loadHistory_secondStore rn cs2 hM.flat w w₂ hparse hstate hparse2 hstate2
  have hhit : cHit env (renamedHist w w₂) o₃ = hit0 env o := by
    unfold cHit
    have hlat : latestIgnore (renamedHist w w₂).gens = some (pats o) := by
      simp [latestIgnore, renamedHist, Hist.gens, hign2]
    rw [hlat, setPatterns_some_own (pats o) _ _ (setPatterns_fresh_ne_nil _ _)
      (MhlProps.C12.setPatterns_nodup _ _ _) hcli₃ hfile₃]
  have hvis : visiblePaths (cHit env (renamedHist w w₂) o₃) (renamedTree rn cs2 w w₂) =
      visiblePaths (hit0 env o) (.dir rn cs2 none) := by
    rw [hhit]
    exact visiblePaths_root_hist _ _ _ _ _
  have hd3 : (renamedTree rn cs2 w w₂).NamesDistinct :=
    (Node.namesDistinct_dir _ _ _).2 ((Node.namesDistinct_dir _ _ _).1 hM.distinct)
  have hn3 : (renamedTree rn cs2 w w₂).NamesOk := by
    intro s hs
    exact hM.namesOk s ((Node.mem_descNames_dir _ _ _ _).2 ((Node.mem_descNames_dir _ _ _ _).1 hs))
  obtain ⟨w₃, e1, e2, e3, e4, -, hw₃⟩ := createFolder_flat_ok env (renamedTree rn cs2 w w₂) o₃ (renamedHist w w₂) hl3
    rfl hd3 hn3 hf₃ hdr₃ rfl
    (by
      intro p hp
      rw [hvis] at hp
      have hc3 : fileContent (renamedTree rn cs2 w w₂) p = fileContent (.dir rn cs2 none) p :=
        fileContent_root_hist _ _ _ _ _
      rw [hc3]
      exact firstOk_after_rename hM hS.namesOk hsg hrg hdig p hp)
    (by
      intro p hp
      left
      rw [hvis]
      exact expected_after_rename hM hS.namesOk hsg hrg _ _ p hp)
    (by
      intro g hg
      have : g = ⟨2, w₂.gen⟩ := by
        simp [renamedHist, Hist.gens] at hg
        exact hg.symm
      rw [this]
      exact hrefs2)
  obtain ⟨hnum, hroot, -⟩ := MhlProps.C06.writeOne_number _ _ _ _ _ _ _ _ hw₃
  refine ⟨w₂, h2, e1, ?_, e3, e4, w₃, e2, hroot, ?_⟩
  · unfold Outcome.exitCode; rw [e1]
  · rw [hnum]; rfl

/-! ### 5. the same move without `-dr` -/

/-- the old path is not ignored -/
theorem src_not_hit (hM : Moved (hit0 env o) rn cs cs2 a b c) : hitAbove (hit0 env o) a = false :=
  MhlProps.C03.hitAbove_false_of_visible _ _ a false hM.srcVisible

/-- what verify / diff / create (all without rename detection) see on the moved tree: exactly `a` is missing -/
theorem moved_missing (hS : Setting env rn cs o) (w : Written)
    (hw : (createFolder env (.dir rn cs none) o).written = [w]) (hM : Moved (hit0 env o) rn cs cs2 a b c)
    (F : List RelPath) (hF : F = (visiblePaths (hit0 env o) (.dir rn cs2 none)).map (·.1)) :
    missingAfter (hit0 env o) ((expectedPaths (sealedHist w)).filter fun p => !F.contains p) = [a] := by
  obtain ⟨-, -, -, -, -, -, hsg⟩ := written_facts hS w hw
  subst hF
  apply missing_single _ _ _ _ (expectedPaths_nodup _)
    (hsg.expected_of_visible hS.namesOk 1 _ _ a false hM.srcVisible)
  · intro hin
    obtain ⟨⟨p, d⟩, hpd, rfl⟩ := List.mem_map.1 hin
    exact hM.srcGone d hpd
  · exact src_not_hit hM
  · intro p hp hpa
    obtain ⟨d, hd⟩ := hsg.expected hS.namesOk 1 _ _ p hp
    exact List.mem_map.2 ⟨(p, d), (hM.vis p d).2 (Or.inl ⟨hd, hpa⟩), rfl⟩

/-- 5a. `move_without_dr_create`: without `-dr` the same move makes folder-mode `create` end with
`CompletenessCheckFailedException` (exit code 10) naming `a` (the generation is written all the same, the new path
in it as a new file with `original` digests and NO previous path) -/
theorem move_without_dr_create (hS : Setting env rn cs o) (w : Written)
    (hw : (createFolder env (.dir rn cs none) o).written = [w]) (hM : Moved (hit0 env o) rn cs cs2 a b c)
    (o₂ : CreateOpts) (hf₂ : o₂.formats ≠ []) (hdr₂ : o₂.detectRenaming = false)
    (hcli : ∀ x ∈ o₂.ignoreCli, x ∈ setPatterns none o.ignoreCli o.ignoreFile)
    (hfile : ∀ x ∈ o₂.ignoreFile, x ∈ setPatterns none o.ignoreCli o.ignoreFile) :
    (createFolder env (movedTree rn cs2 w) o₂).err = some errMissingFiles ∧
    (createFolder env (movedTree rn cs2 w) o₂).exitCode = 10 ∧
    (createFolder env (movedTree rn cs2 w) o₂).report.missing = [posix a] ∧
    (createFolder env (movedTree rn cs2 w) o₂).report.mismatch = [] ∧
    (createFolder env (movedTree rn cs2 w) o₂).report.renamed = [] ∧
    ∃ w₂, (createFolder env (movedTree rn cs2 w) o₂).written = [w₂] := by
  obtain ⟨-, -, -, -, hrefs, -, hsg⟩ := written_facts hS w hw
  obtain ⟨hl2, hd2, hn2, hdir2, hvisT, hcontT⟩ := movedTree_facts hS w hw hM
  obtain ⟨hnot, hdot, hfn⟩ := dst_unknown hS w hw hM
  have hhit := sealed_ignore_stable_create hS w hw o₂ hcli hfile
  have hvis : visiblePaths (cHit env (sealedHist w) o₂) (movedTree rn cs2 w) =
      visiblePaths (hit0 env o) (.dir rn cs2 none) := by rw [hhit, hvisT]
  have hgens : (sealedHist w).gens = [⟨1, w.gen⟩] := rfl
  obtain ⟨w₂, heq⟩ := createFolder_flat_outcome env (movedTree rn cs2 w) o₂ (sealedHist w) hl2 rfl hd2 hn2 hf₂ hdr₂
    hdir2
    (by
      intro p hp
      rw [hvis] at hp
      rw [hcontT]
      by_cases hpb : p = b
      · subst hpb
        intro fmt e he
        simp [findFirstOfFormat, hgens, hfn] at he
      · have hp0 : (p, false) ∈ visiblePaths (hit0 env o) (.dir rn cs none) ∧ p ≠ a := by
          rcases (hM.vis p false).1 hp with h | ⟨h, -⟩
          · exact h
          · exact absurd h hpb
        rw [hM.content p hp0.1 hp0.2]
        exact hsg.firstOk hS.namesOk 1 p hp0.1)
    (by
      intro g hg
      have : g = ⟨1, w.gen⟩ := by
        simp [sealedHist, Hist.gens] at hg
        exact hg.symm
      rw [this]
      exact hrefs)
  have hmiss : cMissing env (movedTree rn cs2 w) (sealedHist w) o₂ = [a] := by
    unfold cMissing
    rw [hhit]
    exact moved_missing hS w hw hM _ (by rw [cState_found, hvis])
  rw [heq, hmiss]
  have herr : createExit 0 [a] [] = some errMissingFiles := by
    rw [MhlProps.C03.create_missing_10 _ _ (by simp), errMissingFiles_eq]
  refine ⟨herr, ?_, rfl, rfl, rfl, w₂, rfl⟩
  unfold Outcome.exitCode
  simp only [herr, errMissingFiles_eq]

/-- 5b. `move_without_dr_verify`: on the moved tree (generation 1 only) `verify` reports `b` as new and `a` as
missing, no mismatch, and ends with `NewFilesFoundException` (exit code 21: new files rank above missing ones);
`diff` reports the same two and ends with exit code 10 (missing files rank above new ones there) -/
theorem move_without_dr_verify (hS : Setting env rn cs o) (w : Written)
    (hw : (createFolder env (.dir rn cs none) o).written = [w]) (hM : Moved (hit0 env o) rn cs cs2 a b c)
    (hashing : Bool) :
    (verifyOrDiff env (movedTree rn cs2 w) {} hashing none).report.new = [posix b] ∧
    (verifyOrDiff env (movedTree rn cs2 w) {} hashing none).report.missing = [posix a] ∧
    (verifyOrDiff env (movedTree rn cs2 w) {} hashing none).report.mismatch = [] ∧
    (verifyOrDiff env (movedTree rn cs2 w) {} hashing none).exitCode = if hashing then 21 else 10 := by
  obtain ⟨-, -, -, -, -, -, hsg⟩ := written_facts hS w hw
  obtain ⟨hl2, hd2, hn2, hdir2, hvisT, hcontT⟩ := movedTree_facts hS w hw hM
  obtain ⟨hnot, hdot, hfn⟩ := dst_unknown hS w hw hM
  obtain ⟨-, -, hhit, -⟩ := sealed_ignore_stable hS w hw
  have hvis : visiblePaths (vHit env (sealedHist w) {}) (movedTree rn cs2 w) =
      visiblePaths (hit0 env o) (.dir rn cs2 none) := by rw [hhit, hvisT]
  have hjudge : ∀ q, (q, false) ∈ visiblePaths (hit0 env o) (.dir rn cs2 none) →
      judgeFile env (movedTree rn cs2 w) (sealedHist w) hashing q = if q = b then .new else .ok := by
    intro q hq
    by_cases hqb : q = b
    · subst hqb
      unfold judgeFile sealedHist
      rw [MhlModel.route_flat _ rfl q]
      simp only [Hist.gens, hsg.recordedName_eq, findOriginal, List.findSome?_cons, hfn, List.findSome?_nil, if_true]
    · have hq0 : (q, false) ∈ visiblePaths (hit0 env o) (.dir rn cs none) ∧ q ≠ a := by
        rcases (hM.vis q false).1 hq with h | ⟨h, -⟩
        · exact h
        · exact absurd h hqb
      unfold sealedHist
      rw [hsg.judgeFile_eq hS.namesOk hS.formats _ _ _ _ _ _ hq0.1, hcontT, hM.content q hq0.1 hq0.2]
      simp [hqb]
  have hcons : ∀ q, q ∈ vConsidered env (movedTree rn cs2 w) (sealedHist w) {} ↔
      (q, false) ∈ visiblePaths (hit0 env o) (.dir rn cs2 none) := by
    intro q
    rw [mem_vConsidered, hvis]
    simp
  have hnd : (vConsidered env (movedTree rn cs2 w) (sealedHist w) {}).Nodup := by
    unfold vConsidered vFiles
    rw [hvis]
    exact List.Nodup.sublist List.filter_sublist (visibleFiles_nodup _ _ hM.distinct hM.namesOk)
  have hnews : vNews env (movedTree rn cs2 w) (sealedHist w) {} hashing = [b] := by
    unfold vNews
    apply filter_eq_singleton _ _ _ hnd ((hcons b).2 hM.dstVisible)
    intro q hq
    rw [hjudge q ((hcons q).1 hq)]
    by_cases hqb : q = b <;> simp [hqb]
  have hmism : vMism env (movedTree rn cs2 w) (sealedHist w) {} hashing = [] := by
    apply List.eq_nil_iff_forall_not_mem.2
    intro q hq
    obtain ⟨hq1, hq2⟩ := (mem_vMism _ _ _ _ _ _).1 hq
    rw [hjudge q ((hcons q).1 hq1)] at hq2
    by_cases hqb : q = b <;> simp [hqb] at hq2
  have hmiss : vMissing env (movedTree rn cs2 w) (sealedHist w) {} = [a] := by
    unfold vMissing
    rw [hhit]
    exact moved_missing hS w hw hM _ (by unfold vFound; rw [hvis])
  rw [verifyOrDiff_eq _ _ _ _ (sealedHist w) hl2 (sealedHist_gens_ne w), hnews, hmism, hmiss]
  refine ⟨rfl, rfl, rfl, ?_⟩
  cases hashing <;> simp [Outcome.exitCode, verifyExit, diffExit, errNewFiles_eq, errMissingFiles_eq]

/-! ### 4 and 5 with the move made by the model's tree operations -/

/-- the freshly sealed tree of the setting with the file `pa/na` moved to `pb/nb` (`MhlModel.moveFile`: the node is
removed from the folder `pa`, a file node `nb` with the same content is added to the folder `pb`) -/
def movedSealed (env : Env) (rn : String) (cs : List Node) (o : CreateOpts) (pa : RelPath) (na : String)
    (pb : RelPath) (nb : String) : Node :=
  moveFile (sealedTree env rn cs o) pa na pb nb (fileContent (.dir rn cs none) (pa ++ [na]))

/-- the hypotheses on the move: the source is a visible file; the destination folder is the root or a visible
folder; the new name is well-formed ('/'-free, not "."); nothing is at the destination yet; the destination is not
ignored -/
structure MoveOk (env : Env) (rn : String) (cs : List Node) (o : CreateOpts) (pa : RelPath) (na : String)
    (pb : RelPath) (nb : String) : Prop where
  src : (pa ++ [na], false) ∈ visiblePaths (hit0 env o) (.dir rn cs none)
  dstFolder : pb = [] ∨ (pb, true) ∈ visiblePaths (hit0 env o) (.dir rn cs none)
  name : NameOk nb
  fresh : (Node.dir rn cs none).at? (pb ++ [nb]) = none
  notIgnored : hit0 env o (pb ++ [nb]) = false

theorem movedSealed_eq (hS : Setting env rn cs o) (w : Written)
    (hw : (createFolder env (.dir rn cs none) o).written = [w]) (pa : RelPath) (na : String) (pb : RelPath)
    (nb : String) :
    movedSealed env rn cs o pa na pb nb =
      movedTree rn (movedKids cs pa na pb nb (fileContent (.dir rn cs none) (pa ++ [na]))) w := by
  unfold movedSealed movedTree
  rw [sealedTree_eq hS w hw, moveFile_dir]

theorem moveOk_moved (hS : Setting env rn cs o) {pa : RelPath} {na : String} {pb : RelPath} {nb : String}
    (hmv : MoveOk env rn cs o pa na pb nb) :
    Moved (hit0 env o) rn cs (movedKids cs pa na pb nb (fileContent (.dir rn cs none) (pa ++ [na])))
      (pa ++ [na]) (pb ++ [nb]) (fileContent (.dir rn cs none) (pa ++ [na])) :=
  moveFile_moved (hit0 env o) rn cs pa na pb nb hS.flat hS.distinct hS.namesOk hmv.src hmv.dstFolder hmv.name
    hmv.fresh hmv.notIgnored

/-- 4. `rename_e2e`: seal a tree, move ONE file with the model's tree operations (same folder or another visible
folder, new name fresh and not ignored), run `create -dr`, write the generation back, run `verify` and `diff`.
See `rename_e2e_moved` for the reading of the conclusion. -/
theorem rename_e2e (hS : Setting env rn cs o) (pa : RelPath) (na : String) (pb : RelPath) (nb : String)
    (hmv : MoveOk env rn cs o pa na pb nb)
    (o₂ : CreateOpts) (hf₂ : o₂.formats ≠ []) (hdr₂ : o₂.detectRenaming = true)
    (hcli : ∀ x ∈ o₂.ignoreCli, x ∈ setPatterns none o.ignoreCli o.ignoreFile)
    (hfile : ∀ x ∈ o₂.ignoreFile, x ∈ setPatterns none o.ignoreCli o.ignoreFile) :
    (createFolder env (movedSealed env rn cs o pa na pb nb) o₂).err = none ∧
    (createFolder env (movedSealed env rn cs o pa na pb nb) o₂).exitCode = 0 ∧
    (createFolder env (movedSealed env rn cs o pa na pb nb) o₂).report.missing = [] ∧
    (createFolder env (movedSealed env rn cs o pa na pb nb) o₂).report.mismatch = [] ∧
    (createFolder env (movedSealed env rn cs o pa na pb nb) o₂).report.renamed =
      [(posix (pa ++ [na]), posix (pb ++ [nb]))] ∧
    (∃ w₂, (createFolder env (movedSealed env rn cs o pa na pb nb) o₂).written = [w₂] ∧ w₂.histRoot = [] ∧
      w₂.number = 2 ∧
      (∃ r ∈ w₂.gen.records, r.path = posix (pb ++ [nb]) ∧ r.prev = some (posix (pa ++ [na])) ∧ r.isDir = false ∧
        r.size = some (fileContent (.dir rn cs none) (pa ++ [na])).length ∧
        (∀ e ∈ r.entries, e.action = "original" ∧
          e.digest = env.H e.fmt (fileContent (.dir rn cs none) (pa ++ [na]))) ∧
        (∀ f ∈ o₂.formats, ∃ e ∈ r.entries, e.fmt = f)) ∧
      (∀ r ∈ w₂.gen.records, r.path ≠ posix (pb ++ [nb]) → r.prev = none)) ∧
    (let t3 := applyWritten (movedSealed env rn cs o pa na pb nb)
        (createFolder env (movedSealed env rn cs o pa na pb nb) o₂).written
     (verify env t3 {}).err = none ∧ (verify env t3 {}).exitCode = 0 ∧
     (verify env t3 {}).report.mismatch = [] ∧ (verify env t3 {}).report.new = [] ∧
     (verify env t3 {}).report.missing = [] ∧
     (diff env t3 {}).err = none ∧ (diff env t3 {}).exitCode = 0 ∧
     (diff env t3 {}).report.new = [] ∧ (diff env t3 {}).report.missing = []) := by
  obtain ⟨w, -, hw, -⟩ := first_seal_core hS
  rw [movedSealed_eq hS w hw]
  obtain ⟨h1, h2, h3, h4, h5, w₂, h6, h7, h8, h9, h10, h11, h12, v1, v2, v3, v4, v5, d1, d2, d3, d4⟩ :=
    rename_e2e_moved hS w hw (moveOk_moved hS hmv) o₂ hf₂ hdr₂ hcli hfile
  refine ⟨h1, h2, h3, h4, h5, ⟨w₂, h6, h7, h8, h9, h10⟩, ?_⟩
  simp only [h11]
  exact ⟨v1, v2, v3, v4, v5, d1, d2, d3, d4⟩

/-- 4'. with the move made by the tree operations: a further `create` on the tree with generation 2 written back
ends with exit code 0 and writes generation 3 -/
theorem rename_e2e_reseal (hS : Setting env rn cs o) (pa : RelPath) (na : String) (pb : RelPath) (nb : String)
    (hmv : MoveOk env rn cs o pa na pb nb)
    (o₂ : CreateOpts) (hf₂ : o₂.formats ≠ []) (hdr₂ : o₂.detectRenaming = true)
    (hcli : ∀ x ∈ o₂.ignoreCli, x ∈ setPatterns none o.ignoreCli o.ignoreFile)
    (hfile : ∀ x ∈ o₂.ignoreFile, x ∈ setPatterns none o.ignoreCli o.ignoreFile)
    (o₃ : CreateOpts) (hf₃ : o₃.formats ≠ []) (hdr₃ : o₃.detectRenaming = false)
    (hcli₃ : ∀ x ∈ o₃.ignoreCli, x ∈ setPatterns none o.ignoreCli o.ignoreFile)
    (hfile₃ : ∀ x ∈ o₃.ignoreFile, x ∈ setPatterns none o.ignoreCli o.ignoreFile) :
    let t3 := applyWritten (movedSealed env rn cs o pa na pb nb)
        (createFolder env (movedSealed env rn cs o pa na pb nb) o₂).written
    (createFolder env t3 o₃).err = none ∧ (createFolder env t3 o₃).exitCode = 0 ∧
    (createFolder env t3 o₃).report.mismatch = [] ∧ (createFolder env t3 o₃).report.missing = [] ∧
    ∃ w₃, (createFolder env t3 o₃).written = [w₃] ∧ w₃.histRoot = [] ∧ w₃.number = 3 := by
  obtain ⟨w, -, hw, -⟩ := first_seal_core hS
  rw [movedSealed_eq hS w hw]
  have hM := moveOk_moved hS hmv
  obtain ⟨w₂, h2, e1, e2, e3, e4, w₃, e5, e6, e7⟩ :=
    reseal_after_rename hS w hw hM o₂ hf₂ hdr₂ hcli hfile o₃ hf₃ hdr₃ hcli₃ hfile₃
  obtain ⟨-, -, -, -, -, w₂', h6, -, -, -, -, h11, -⟩ := rename_e2e_moved hS w hw hM o₂ hf₂ hdr₂ hcli hfile
  have : w₂' = w₂ := by
    rw [h2] at h6
    simpa using h6.symm
  subst this
  simp only [h11]
  exact ⟨e1, e2, e3, e4, w₃, e5, e6, e7⟩

/-- 5. `move_without_dr`: the same move WITHOUT `-dr`: folder-mode `create` ends with
`CompletenessCheckFailedException` (exit code 10) naming the old path; `verify` on the moved tree reports the new
path as new and the old one as missing (exit code 21), and so does `diff` (exit code 10) -/
theorem move_without_dr (hS : Setting env rn cs o) (pa : RelPath) (na : String) (pb : RelPath) (nb : String)
    (hmv : MoveOk env rn cs o pa na pb nb)
    (o₂ : CreateOpts) (hf₂ : o₂.formats ≠ []) (hdr₂ : o₂.detectRenaming = false)
    (hcli : ∀ x ∈ o₂.ignoreCli, x ∈ setPatterns none o.ignoreCli o.ignoreFile)
    (hfile : ∀ x ∈ o₂.ignoreFile, x ∈ setPatterns none o.ignoreCli o.ignoreFile) :
    (createFolder env (movedSealed env rn cs o pa na pb nb) o₂).err = some errMissingFiles ∧
    (createFolder env (movedSealed env rn cs o pa na pb nb) o₂).exitCode = 10 ∧
    (createFolder env (movedSealed env rn cs o pa na pb nb) o₂).report.missing = [posix (pa ++ [na])] ∧
    (createFolder env (movedSealed env rn cs o pa na pb nb) o₂).report.renamed = [] ∧
    (verify env (movedSealed env rn cs o pa na pb nb) {}).report.new = [posix (pb ++ [nb])] ∧
    (verify env (movedSealed env rn cs o pa na pb nb) {}).report.missing = [posix (pa ++ [na])] ∧
    (verify env (movedSealed env rn cs o pa na pb nb) {}).report.mismatch = [] ∧
    (verify env (movedSealed env rn cs o pa na pb nb) {}).exitCode = 21 ∧
    (diff env (movedSealed env rn cs o pa na pb nb) {}).report.new = [posix (pb ++ [nb])] ∧
    (diff env (movedSealed env rn cs o pa na pb nb) {}).report.missing = [posix (pa ++ [na])] ∧
    (diff env (movedSealed env rn cs o pa na pb nb) {}).exitCode = 10 := by
  obtain ⟨w, -, hw, -⟩ := first_seal_core hS
  rw [movedSealed_eq hS w hw]
  have hM := moveOk_moved hS hmv
  obtain ⟨c1, c2, c3, -, c5, -⟩ := move_without_dr_create hS w hw hM o₂ hf₂ hdr₂ hcli hfile
  obtain ⟨v1, v2, v3, v4⟩ := move_without_dr_verify hS w hw hM true
  obtain ⟨d1, d2, -, d4⟩ := move_without_dr_verify hS w hw hM false
  exact ⟨c1, c2, c3, c5, v1, v2, v3, v4, d1, d2, d4⟩

end e2e


/-! ### non-vacuity of 4 and 5, and an independent evaluation of the whole pipeline

The tree of C03e2e (`b.txt`, `a.txt`, `sub/x`, two ignored files; formats xxh64 + md5; toy digest = format name and
content length), sealed, then `a.txt` moved to `sub/a2.txt`.  `splitPath` (`String.splitOn`) does not reduce in the
kernel; the evaluations rewrite it to the evaluable `splitPathL` (`splitPath_eq_splitPathL`) and then run
`decide +kernel` through `loadHistory`, the traversal, sealing, `detectRenames`, `commit`, `applyWritten`,
`verifyOrDiff`. -/

section pipeline
open MhlProps.C03e2e

theorem exMoveOk : MoveOk exEnv "root" exKids exOpts [] "a.txt" ["sub"] "a2.txt" where
  src := by decide +kernel
  dstFolder := Or.inr (by decide +kernel)
  name := by decide
  fresh := by decide +kernel
  notIgnored := by decide +kernel

/-- the sealed example tree with `a.txt` moved to `sub/a2.txt` -/
def exMoved : Node := movedSealed exEnv "root" exKids exOpts [] "a.txt" ["sub"] "a2.txt"

def exDr : CreateOpts := { exOpts with detectRenaming := true }

/-- the tree operations did what they should -/
example : exMoved.children.map (fun n => (n.name, n.isDir, n.children.map (·.name))) =
    [("b.txt", false, []), ("sub", true, ["x", "a2.txt"]), ("skip.tmp", false, []), (".DS_Store", false, [])] ∧
    fileContent exMoved ["sub", "a2.txt"] = [1, 2] := by decide +kernel

/-- 4. through the theorem -/
example : (createFolder exEnv exMoved exDr).exitCode = 0 ∧ (createFolder exEnv exMoved exDr).report.missing = [] ∧
    (createFolder exEnv exMoved exDr).report.renamed = [("a.txt", "sub/a2.txt")] := by
  obtain ⟨-, h2, h3, -, h5, -⟩ := rename_e2e exSetting [] "a.txt" ["sub"] "a2.txt" exMoveOk exDr (by decide) rfl
    (MhlProps.C12.setPatterns_contains_new _ _ _).1 (MhlProps.C12.setPatterns_contains_new _ _ _).2
  exact ⟨h2, h3, h5⟩

/-- 4. evaluated: the `create -dr` run … -/
theorem ex_run : (createFolder exEnv exMoved exDr).err = none ∧
    (createFolder exEnv exMoved exDr).report.missing = [] ∧
    (createFolder exEnv exMoved exDr).report.mismatch = [] ∧
    (createFolder exEnv exMoved exDr).report.renamed = [("a.txt", "sub/a2.txt")] ∧
    ((createFolder exEnv exMoved exDr).written.map fun w => (w.histRoot, w.number)) = [([], 2)] ∧
    ((createFolder exEnv exMoved exDr).written.map fun w => w.gen.records.map fun r => (r.path, r.prev)) =
      [[("sub/a2.txt", some "a.txt"), ("sub/x", none), ("sub", none), ("b.txt", none)]] ∧
    ((createFolder exEnv exMoved exDr).written.map fun w =>
      w.gen.records.map fun r => r.entries.map fun e => (e.digest, e.action)) =
      [[[("md5:2", "original"), ("xxh64:2", "original")], [("md5:1", "verified"), ("xxh64:1", "verified")],
        [("md5:0", ""), ("xxh64:0", "")], [("md5:1", "verified"), ("xxh64:1", "verified")]]] := by
  unfold createFolder expectedPaths expectedOfGens
  rw [splitPath_eq_splitPathL]
  decide +kernel

/-- … the generation written back, then `verify` and `diff`: exit code 0, nothing reported -/
def exRenamed : Node := applyWritten exMoved (createFolder exEnv exMoved exDr).written

theorem ex_verify : (verify exEnv exRenamed {}).exitCode = 0 ∧ (verify exEnv exRenamed {}).report.mismatch = [] ∧
    (verify exEnv exRenamed {}).report.new = [] ∧ (verify exEnv exRenamed {}).report.missing = [] ∧
    (diff exEnv exRenamed {}).exitCode = 0 ∧ (diff exEnv exRenamed {}).report.new = [] ∧
    (diff exEnv exRenamed {}).report.missing = [] := by
  unfold exRenamed diff verify verifyOrDiff createFolder expectedPaths expectedOfGens
  rw [splitPath_eq_splitPathL]
  decide +kernel

/-- … and a further `create` (no `-dr`) accepts the tree: exit code 0, generation 3 -/
theorem ex_third : (createFolder exEnv exRenamed exOpts).exitCode = 0 ∧
    (createFolder exEnv exRenamed exOpts).report.missing = [] ∧
    ((createFolder exEnv exRenamed exOpts).written.map fun w => w.number) = [3] := by
  unfold exRenamed createFolder expectedPaths expectedOfGens
  rw [splitPath_eq_splitPathL]
  decide +kernel

/-- 5. without `-dr`, through the theorem and evaluated -/
example : (createFolder exEnv exMoved exOpts).exitCode = 10 ∧
    (createFolder exEnv exMoved exOpts).report.missing = ["a.txt"] ∧
    (verify exEnv exMoved {}).report.new = ["sub/a2.txt"] ∧ (verify exEnv exMoved {}).report.missing = ["a.txt"] := by
  obtain ⟨-, c2, c3, -, v1, v2, -⟩ := move_without_dr exSetting [] "a.txt" ["sub"] "a2.txt" exMoveOk exOpts
    (by decide) rfl (MhlProps.C12.setPatterns_contains_new _ _ _).1 (MhlProps.C12.setPatterns_contains_new _ _ _).2
  exact ⟨c2, c3, v1, v2⟩

theorem ex_without_dr : (createFolder exEnv exMoved exOpts).err = some (.exit 10) ∧
    (createFolder exEnv exMoved exOpts).report.missing = ["a.txt"] ∧
    (createFolder exEnv exMoved exOpts).report.renamed = [] ∧
    (verify exEnv exMoved {}).exitCode = 21 ∧ (verify exEnv exMoved {}).report.new = ["sub/a2.txt"] ∧
    (verify exEnv exMoved {}).report.missing = ["a.txt"] ∧ (verify exEnv exMoved {}).report.mismatch = [] ∧
    (diff exEnv exMoved {}).exitCode = 10 := by
  unfold diff verify verifyOrDiff createFolder expectedPaths expectedOfGens
  rw [splitPath_eq_splitPathL]
  decide +kernel

/-- a rename within the same folder (the root), through the theorem -/
example : (createFolder exEnv (movedSealed exEnv "root" exKids exOpts [] "a.txt" [] "z.txt") exDr).report.renamed =
    [("a.txt", "z.txt")] :=
  (rename_e2e exSetting [] "a.txt" [] "z.txt"
    ⟨by decide +kernel, Or.inl rfl, by decide, by decide +kernel, by decide +kernel⟩ exDr (by decide) rfl
    (MhlProps.C12.setPatterns_contains_new _ _ _).1 (MhlProps.C12.setPatterns_contains_new _ _ _).2).2.2.2.2.1

/-- WITHOUT UNIQUENESS OF THE DIGEST two candidates are both linked — and a deletion is hidden.  `sub/x` and `b.txt`
have the same digest (the toy digest sees the length; with a real digest: two copies of one file).  `sub/x` is
renamed to `sub/y` and `b.txt` is DELETED.  `create -dr` links BOTH old names to `sub/y`: exit code 0, nothing
reported missing (the deletion of `b.txt` goes unnoticed), two renames reported, and the record of `sub/y` keeps the
LAST candidate IN THE SORTED ORDER OF THE PATH STRINGS as previous path.  The tree is then NOT accepted later:
`verify` ends with exit code 10.

D19 (the detection iterates `sorted(not_found_paths)`): the concrete result CHANGED.  The not-found list is
`[sub/x, b.txt]` (order of the recorded generation); it is now visited as `[b.txt, sub/x]`.  Before D19 this example
read
    report.renamed = [("sub/x", "sub/y"), ("b.txt", "sub/y")]
    written records = [[("sub/y", some "b.txt"), ("sub", none), ("a.txt", none)]]     -- the wrong candidate
    verify … report.missing = ["sub/x"]
now the renames are reported in sorted order, the last candidate is `sub/x` (here, by the luck of the names, the right
one), and the later `verify` drops `sub/x` from the expected paths and misses `b.txt`. -/
def exDup : Node :=
  Node.updateAt (removeChild "b.txt") (movedSealed exEnv "root" exKids exOpts ["sub"] "x" ["sub"] "y") []

theorem duplicate_hides_deletion :
    (createFolder exEnv exDup exDr).err = none ∧ (createFolder exEnv exDup exDr).report.missing = [] ∧
    (createFolder exEnv exDup exDr).report.renamed = [("b.txt", "sub/y"), ("sub/x", "sub/y")] ∧
    ((createFolder exEnv exDup exDr).written.map fun w => w.gen.records.map fun r => (r.path, r.prev)) =
      [[("sub/y", some "sub/x"), ("sub", none), ("a.txt", none)]] ∧
    (verify exEnv (applyWritten exDup (createFolder exEnv exDup exDr).written) {}).exitCode = 10 ∧
    (verify exEnv (applyWritten exDup (createFolder exEnv exDup exDr).written) {}).report.missing = ["b.txt"] ∧
    -- without `-dr` both are reported
    (createFolder exEnv exDup exOpts).report.missing = ["sub/x", "b.txt"] := by
  unfold verify verifyOrDiff createFolder expectedPaths expectedOfGens
  rw [splitPath_eq_splitPathL]
  decide +kernel

end pipeline

/-! ### 6. (D19) the order of the not-found paths

`create -dr` used to iterate a Python SET of not-found paths (any order); it now iterates `sorted(not_found_paths)`
(`createFolder` hands `isort pathLe notFound` to `detectRenames`).  Under the hypothesis of the property (the
candidates are unambiguous: for every new path AT MOST ONE not-found path matches) the order never mattered; without
it the order decides which candidate is recorded as previous path (`order_matters`) — the defect that was repaired.
Nested histories are allowed here (`matchesG` routes the not-found path to the history that owns it; on a flat history
it is `matchesB`, `matchesG_flat`); the session has to be keyed by root, as everywhere in this file. -/

section order
open MhlProps.C02rec MhlProps.C04

/-- `detectRenames_order_independent`: if for every new path at most one of the not-found paths matches (the test of
the loop, `matchesG_iff`: the first entry recorded for the old path has the digest of the new record's entry in that
format, or of `env.H fmt content`), then for any two orders `nf₁`, `nf₂` of the not-found paths the detection gives
the same session, the same paths found again and the same renames — the whole triple is EQUAL. -/
theorem detectRenames_order_independent (env : Env) (t : Node) (rootHist : Hist) (s : Session) (hs : s.RootsNodup)
    (newPaths nf₁ nf₂ : List RelPath) (hp : nf₁.Perm nf₂)
    (hu : ∀ np ∈ newPaths, ∀ a ∈ nf₁, ∀ b ∈ nf₁, matchesG env t rootHist s np a = true →
      matchesG env t rootHist s np b = true → a = b) :
    detectRenames env t rootHist s newPaths nf₁ = detectRenames env t rootHist s newPaths nf₂ :=
  detectRenames_notFound_perm env t rootHist s hs newPaths nf₁ nf₂ hp hu

/-- the same in the suggested form: two duplicate-free lists with the same elements; same session, same SET of old
paths found again (and the same renames) -/
theorem detectRenames_order_independent' (env : Env) (t : Node) (rootHist : Hist) (s : Session) (hs : s.RootsNodup)
    (newPaths nf₁ nf₂ : List RelPath) (hn₁ : nf₁.Nodup) (hn₂ : nf₂.Nodup) (hmem : ∀ x, x ∈ nf₁ ↔ x ∈ nf₂)
    (hu : ∀ np ∈ newPaths, ∀ a ∈ nf₁, ∀ b ∈ nf₁, matchesG env t rootHist s np a = true →
      matchesG env t rootHist s np b = true → a = b) :
    (detectRenames env t rootHist s newPaths nf₁).1 = (detectRenames env t rootHist s newPaths nf₂).1 ∧
    (∀ x, x ∈ (detectRenames env t rootHist s newPaths nf₁).2.1 ↔
      x ∈ (detectRenames env t rootHist s newPaths nf₂).2.1) ∧
    (detectRenames env t rootHist s newPaths nf₁).2.2 = (detectRenames env t rootHist s newPaths nf₂).2.2 := by
  rw [detectRenames_order_independent env t rootHist s hs newPaths nf₁ nf₂
    ((List.perm_ext_iff_of_nodup hn₁ hn₂).2 hmem) hu]
  exact ⟨rfl, fun _ => Iff.rfl, rfl⟩

/-- on a flat history, with the test `matchesB` of 1–3 -/
theorem detectRenames_order_independent_flat (env : Env) (t : Node) (rootHist : Hist) (hc : rootHist.children = [])
    (s : Session) (hs : s.RootsNodup) (newPaths nf₁ nf₂ : List RelPath) (hp : nf₁.Perm nf₂)
    (hu : ∀ np ∈ newPaths, ∀ a ∈ nf₁, ∀ b ∈ nf₁, matchesB env t rootHist.gens s np a = true →
      matchesB env t rootHist.gens s np b = true → a = b) :
    detectRenames env t rootHist s newPaths nf₁ = detectRenames env t rootHist s newPaths nf₂ :=
  detectRenames_order_independent env t rootHist s hs newPaths nf₁ nf₂ hp fun np hnp a ha b hb h1 h2 =>
    hu np hnp a ha b hb (matchesG_flat env t rootHist hc s np a ▸ h1) (matchesG_flat env t rootHist hc s np b ▸ h2)

/-- sorting the not-found paths (by any test `le`) changes nothing when the candidates are unambiguous -/
theorem detectRenames_sorted (env : Env) (t : Node) (rootHist : Hist) (s : Session) (hs : s.RootsNodup)
    (le : RelPath → RelPath → Bool) (newPaths notFound : List RelPath)
    (hu : ∀ np ∈ newPaths, ∀ a ∈ notFound, ∀ b ∈ notFound, matchesG env t rootHist s np a = true →
      matchesG env t rootHist s np b = true → a = b) :
    detectRenames env t rootHist s newPaths (isort le notFound) = detectRenames env t rootHist s newPaths notFound :=
  (detectRenames_order_independent env t rootHist s hs newPaths notFound (isort le notFound)
    (isort_perm le notFound).symm hu).symm

/-- folder-mode `create -dr` as a whole: when the candidates are unambiguous, the outcome is the one computed with
the not-found paths visited in ANY order `nf'` -/
theorem createFolder_dr_order_independent (env : Env) (t : Node) (o : CreateOpts) (rootHist : Hist)
    (hl : loadHistory t = .ok rootHist) (hdr : o.detectRenaming = true)
    (hs : (cState env t rootHist o).session.RootsNodup)
    (nf' : List RelPath) (hp : nf'.Perm (cNotFound env t rootHist o))
    (hu : ∀ np ∈ (cState env t rootHist o).newPaths, ∀ a ∈ nf', ∀ b ∈ nf',
      matchesG env t rootHist (cState env t rootHist o).session np a = true →
      matchesG env t rootHist (cState env t rootHist o).session np b = true → a = b) :
    createFolder env t o =
      match commit rootHist (detectRenames env t rootHist (cState env t rootHist o).session
          (cState env t rootHist o).newPaths nf').1 env.rootName env.stamp "in-place" with
      | .error e => { err := some e }
      | .ok written =>
        let fo := (detectRenames env t rootHist (cState env t rootHist o).session
          (cState env t rootHist o).newPaths nf').2.1
        let missing := missingAfter (cHit env rootHist o) ((cNotFound env t rootHist o).filter fun p => !fo.contains p)
        { err := createExit (cState env t rootHist o).failed missing (cMissingHist t rootHist),
          report := { mismatch := (cState env t rootHist o).mismatch,
                      missing := missing.map posix,
                      renamed := (detectRenames env t rootHist (cState env t rootHist o).session
                        (cState env t rootHist o).newPaths nf').2.2 },
          written := written } := by
  have hdet := detectRenames_order_independent env t rootHist _ hs (cState env t rootHist o).newPaths nf'
    (cNotFoundSorted env t rootHist o) (hp.trans (isort_perm _ _).symm) hu
  rw [hdet]
  unfold createFolder
  simp only [hl, hdr, if_true]
  rfl

end order

/-! #### the witness: without the hypothesis the order matters

`a.txt` and `a2.txt` carry the same first digest, the new file `b.txt` has it too (the example of 1–3).  The record
of `b.txt` gets the LAST matching element of the list as previous path: `a2.txt` for the list `[a.txt, z.txt, a2.txt]`,
`a.txt` for the list `[a2.txt, z.txt, a.txt]`; the renames are reported in list order.  With a Python set the order of
the list was arbitrary (it could change from run to run); `sorted` makes it `[a.txt, a2.txt, z.txt]`. -/

section witness
open MhlProps.C17

theorem order_matters :
    ((detectRenames exEnv exTree2 exHist2 exSession2 [["b.txt"]] [["a.txt"], ["z.txt"], ["a2.txt"]]).1.lists.map
      fun l => l.records.map fun r => (r.path, r.prev)) = [[("b.txt", some "a2.txt"), ("c.txt", none)]] ∧
    ((detectRenames exEnv exTree2 exHist2 exSession2 [["b.txt"]] [["a2.txt"], ["z.txt"], ["a.txt"]]).1.lists.map
      fun l => l.records.map fun r => (r.path, r.prev)) = [[("b.txt", some "a.txt"), ("c.txt", none)]] ∧
    (detectRenames exEnv exTree2 exHist2 exSession2 [["b.txt"]] [["a.txt"], ["z.txt"], ["a2.txt"]]).2.2 =
      [("a.txt", "b.txt"), ("a2.txt", "b.txt")] ∧
    (detectRenames exEnv exTree2 exHist2 exSession2 [["b.txt"]] [["a2.txt"], ["z.txt"], ["a.txt"]]).2.2 =
      [("a2.txt", "b.txt"), ("a.txt", "b.txt")] ∧
    -- the two lists are orders of the same set, and the hypothesis of `detectRenames_order_independent` fails
    ([["a.txt"], ["z.txt"], ["a2.txt"]] : List RelPath).Perm [["a2.txt"], ["z.txt"], ["a.txt"]] ∧
    matchesG exEnv exTree2 exHist2 exSession2 ["b.txt"] ["a.txt"] = true ∧
    matchesG exEnv exTree2 exHist2 exSession2 ["b.txt"] ["a2.txt"] = true := by
  refine ⟨by decide, by decide, by decide, by decide, by decide, by decide, by decide⟩

/-- the detection's sessions for the two orders are different -/
theorem order_matters_ne :
    (detectRenames exEnv exTree2 exHist2 exSession2 [["b.txt"]] [["a.txt"], ["z.txt"], ["a2.txt"]]).1.lists.map
      (fun l => l.records.map fun r => r.prev) ≠
    (detectRenames exEnv exTree2 exHist2 exSession2 [["b.txt"]] [["a2.txt"], ["z.txt"], ["a.txt"]]).1.lists.map
      (fun l => l.records.map fun r => r.prev) := by decide

/-- the order `createFolder` now uses: both lists are visited as `[a.txt, a2.txt, z.txt]`, so `a2.txt` is recorded -/
example : isort pathLe [["a2.txt"], ["z.txt"], ["a.txt"]] = [["a.txt"], ["a2.txt"], ["z.txt"]] ∧
    isort pathLe [["a.txt"], ["z.txt"], ["a2.txt"]] = [["a.txt"], ["a2.txt"], ["z.txt"]] ∧
    ((detectRenames exEnv exTree2 exHist2 exSession2 [["b.txt"]]
      (isort pathLe [["a2.txt"], ["z.txt"], ["a.txt"]])).1.lists.map
      fun l => l.records.map fun r => (r.path, r.prev)) = [[("b.txt", some "a2.txt"), ("c.txt", none)]] := by
  refine ⟨by decide, by decide, by decide⟩

/-- non-vacuity of `detectRenames_order_independent`: with `a2.txt` out of the way the hypothesis holds -/
example : (∀ np ∈ ([["b.txt"], ["c.txt"]] : List RelPath), ∀ a ∈ ([["a.txt"], ["z.txt"]] : List RelPath),
      ∀ b ∈ ([["a.txt"], ["z.txt"]] : List RelPath), matchesG exEnv exTree2 exHist2 exSession2 np a = true →
      matchesG exEnv exTree2 exHist2 exSession2 np b = true → a = b) ∧
    detectRenames exEnv exTree2 exHist2 exSession2 [["b.txt"], ["c.txt"]] [["a.txt"], ["z.txt"]] =
      detectRenames exEnv exTree2 exHist2 exSession2 [["b.txt"], ["c.txt"]] [["z.txt"], ["a.txt"]] := by
  have h : ∀ np ∈ ([["b.txt"], ["c.txt"]] : List RelPath), ∀ a ∈ ([["a.txt"], ["z.txt"]] : List RelPath),
      ∀ b ∈ ([["a.txt"], ["z.txt"]] : List RelPath), matchesG exEnv exTree2 exHist2 exSession2 np a = true →
      matchesG exEnv exTree2 exHist2 exSession2 np b = true → a = b := by decide
  exact ⟨h, detectRenames_order_independent _ _ _ _ exSession2_ok _ _ _ (by decide) h⟩

end witness

end MhlProps.C17detect

/-! ### axioms -/

#print axioms MhlProps.C17detect.detectRenames_exact
#print axioms MhlProps.C17detect.detectRenames_sound
#print axioms MhlProps.C17detect.detectRenames_sound'
#print axioms MhlProps.C17detect.detectRenames_found_iff
#print axioms MhlProps.C17detect.detectRenames_complete
#print axioms MhlProps.C17detect.detectRenames_prev
#print axioms MhlProps.C17detect.detectRenames_prev_unique
#print axioms MhlProps.C17detect.detectRenames_prev_single
#print axioms MhlProps.C17detect.detectRenames_prev_untouched
#print axioms MhlProps.C17detect.detectRenames_preserves_records
#print axioms MhlProps.C17detect.put_needs_distinct_roots
#print axioms MhlProps.C17detect.detectRenames_order_independent
#print axioms MhlProps.C17detect.detectRenames_order_independent'
#print axioms MhlProps.C17detect.detectRenames_order_independent_flat
#print axioms MhlProps.C17detect.detectRenames_sorted
#print axioms MhlProps.C17detect.createFolder_dr_order_independent
#print axioms MhlProps.C17detect.order_matters
#print axioms MhlProps.C17detect.order_matters_ne
#print axioms MhlProps.C17detect.rename_run
#print axioms MhlProps.C17detect.verifyOrDiff_after_rename
#print axioms MhlProps.C17detect.rename_e2e_moved
#print axioms MhlProps.C17detect.reseal_after_rename
#print axioms MhlProps.C17detect.move_without_dr_create
#print axioms MhlProps.C17detect.move_without_dr_verify
#print axioms MhlProps.C17detect.rename_e2e
#print axioms MhlProps.C17detect.rename_e2e_reseal
#print axioms MhlProps.C17detect.move_without_dr
#print axioms MhlModel.moveFile_moved
#print axioms MhlModel.detectRenames_pairs
#print axioms MhlModel.createFolder_dr_single
#print axioms MhlProps.C17detect.exMoveOk
#print axioms MhlProps.C17detect.ex_run
#print axioms MhlProps.C17detect.ex_verify
#print axioms MhlProps.C17detect.ex_third
#print axioms MhlProps.C17detect.ex_without_dr
#print axioms MhlProps.C17detect.duplicate_hides_deletion
