/-
C02sf — the `-sf` half of C02: with `create -sf` the new generation(s) hold records for exactly the named files (or all
files beneath a named folder) and for nothing else; every file record carries the file's path relative to its history
root and a correct digest in every requested format.

About `MhlModel.createSingleFiles` (commands.py `create_for_single_files_subcommand`), `filesBelow`, `sealFile`,
`commit`.  Nested histories are allowed, to any depth.

Setting: `loadHistory t = .ok rootHist`, `t.NamesDistinct`, `t.NamesOk`, `o.formats ≠ []`, `o.singleFiles ≠ []` (only
needed to read `create` as `createSingleFiles`), and for 3–5 the commit went through:
`commit rootHist (sfSession env t rootHist o) env.rootName env.stamp "in-place" = .ok ws`.

`targets env t rootHist o` is the list the model folds `sealFile` over (`createSingleFiles_folds`), `sfSession` the
session it commits.  `owner rootHist p` / `relIn rootHist p` (C08part): the root folder of the deepest history whose
root is a prefix of `p`, and `p` relative to it.

RESULT IN SHORT.  1 (`sf_targets_spec`) and the record-kind half of 5 (`sf_no_dir_records`) hold as stated.
2, 3, 4 and the root-hash half of 5 are FALSE of the model in the stated setting; they hold under ONE further
hypothesis on the named paths, `SfOk t o.singleFiles` (MhlProps/Proofs/SingleFileLemmas.lean):
  (a) a named path that does NOT resolve in the tree consists of names that can be path components (no '/', not ".")
      — `t.NamesOk` says this only for names that are in the tree; the model seals a named path that is not on disk
      as a file with EMPTY content, under whatever text `posix` makes of it;
  (b) the root path `[]` is only named when the root is a folder — the model admits a tree that is a single file; then
      `-sf []` seals the root itself under the path ".", i.e. as the ROOT record of the list, and `commit` writes its
      entries as `<roothash>`.
Both are necessary: `sf_root_hash_false_without_wf` (b), `sf_root_hash_false_bad_name`,
`sf_exact_false_bad_names` (a) are evaluated counterexamples.  The theorems that need `SfOk` carry the suffix
`_partial`; `SfOk.of_names` derives it from "every named path is made of well-formed names and the root is a folder".

1. `sf_targets_spec`            membership in `targets`; `targets_nodup`; `sf_missing_named_path`: a named path that is
                                not in the tree IS a target and is sealed with empty content
2. `sf_session_exact_partial`   the session after the fold: one file record per target, in the list of its owner, under
                                its path relative to the owner, with the `sealEntries` entries; nothing else
3. `sf_written_exact_partial`   2 through `commit`; carriers have no records; which histories are written
4. `sf_digests_correct_partial` the entries of the written record of a target
5. `sf_no_dir_records`, `sf_no_root_hash_partial`, `sf_no_dir_hashes_partial`

The helper lemmas are in MhlProps/Proofs/SingleFileLemmas.lean.
-/
import MhlProps.Proofs.SingleFileLemmas

namespace MhlProps.C02sf
open MhlModel MhlProps.C02rec MhlProps.C08part

/-! ### 0. the list `createSingleFiles` folds over, and the session it commits -/

/-- the targets of `create -sf`: for every named path in order — if it is a folder of the tree, the files the
traversal that starts AT that folder yields (patterns matched relative to the root), else the path itself; a path
already in the list is skipped -/
def targets (env : Env) (t : Node) (rootHist : Hist) (o : CreateOpts) : List RelPath :=
  sfTargets (cHit env rootHist o) t o.singleFiles

/-- the session `create -sf` commits: `sealFile` folded over the targets from the empty session -/
def sfSession (env : Env) (t : Node) (rootHist : Hist) (o : CreateOpts) : Session :=
  sfFold env t rootHist (isort strLe o.formats) { patterns := sfPats rootHist o } (targets env t rootHist o)

/-- the failure counter and the mismatch list of the run (success is judged on the first format only) -/
def sfCounters (env : Env) (t : Node) (rootHist : Hist) (o : CreateOpts) : Nat × List String :=
  ((targets env t rootHist o).foldl
    (sfStep env t rootHist (isort strLe o.formats) ((isort strLe o.formats).headD ""))
    (({ patterns := sfPats rootHist o } : Session), 0, [])).2

/-- `targets` is literally the first fold of `createSingleFiles` -/
theorem targets_eq (env : Env) (t : Node) (rootHist : Hist) (o : CreateOpts) :
    targets env t rootHist o =
      o.singleFiles.foldl (fun acc p =>
        match t.at? p with
        | some (.dir _ _ _) =>
          (filesBelow (env.hit (setPatterns (latestIgnore rootHist.gens) o.ignoreCli o.ignoreFile)) t p).foldl
            appendNew acc
        | _ => appendNew acc p) [] := rfl

/-- `sfSession` is literally `sealFile` folded over the targets -/
theorem sfSession_eq (env : Env) (t : Node) (rootHist : Hist) (o : CreateOpts) :
    sfSession env t rootHist o =
      (targets env t rootHist o).foldl
        (fun s p => (sealFile env.H rootHist s p (fileContent t p) (isort strLe o.formats)).1)
        ({ patterns := setPatterns (latestIgnore rootHist.gens) o.ignoreCli o.ignoreFile } : Session) := rfl

/-- **`createSingleFiles` folds `sealFile` over exactly `targets`** and commits the resulting session -/
theorem createSingleFiles_folds (env : Env) (t : Node) (o : CreateOpts) (rootHist : Hist)
    (hl : loadHistory t = .ok rootHist) :
    createSingleFiles env t o =
      match commit rootHist (sfSession env t rootHist o) env.rootName env.stamp "in-place" with
      | .error e => { err := some e }
      | .ok written =>
        { err := if (sfCounters env t rootHist o).1 > 0 then some errVerifyFailed else none,
          report := { mismatch := (sfCounters env t rootHist o).2 }, written := written } := by
  rw [createSingleFiles_eq env t o rootHist hl]
  dsimp only
  rw [sfStep_fold_fst]
  rfl

/-- what `create -sf` writes is what the commit of that session returned -/
theorem sf_written (env : Env) (t : Node) (o : CreateOpts) (rootHist : Hist) (hl : loadHistory t = .ok rootHist)
    (ws : List Written)
    (hcm : commit rootHist (sfSession env t rootHist o) env.rootName env.stamp "in-place" = .ok ws) :
    (createSingleFiles env t o).written = ws ∧ (o.singleFiles ≠ [] → (create env t o).written = ws) := by
  have h1 : (createSingleFiles env t o).written = ws := by
    rw [createSingleFiles_folds env t o rootHist hl, hcm]
  refine ⟨h1, fun hne => ?_⟩
  unfold create
  rw [if_neg (by simpa using hne)]
  exact h1

/-- … and nothing when the commit is refused -/
theorem sf_written_error (env : Env) (t : Node) (o : CreateOpts) (rootHist : Hist)
    (hl : loadHistory t = .ok rootHist) (e : Err)
    (hcm : commit rootHist (sfSession env t rootHist o) env.rootName env.stamp "in-place" = .error e) :
    createSingleFiles env t o = { err := some e } := by
  rw [createSingleFiles_folds env t o rootHist hl, hcm]

/-! ### 1. the targets -/

/-- **sf_targets_spec.**  `p` is a target iff
* `p` is a named path that is NOT a folder of the tree — a file of the tree, or a path that does not resolve at all —, or
* some named path `d` is a folder of the tree and `p = d ++ q` is a FILE of the tree strictly below `d` none of whose
  prefixes LONGER than `d` is matched by the patterns (matched as root-relative paths; `d` itself and the folders above
  it are not tested: naming an ignored folder seals its visible files). -/
theorem sf_targets_spec (env : Env) (t : Node) (rootHist : Hist) (o : CreateOpts) (hd : t.NamesDistinct)
    (p : RelPath) :
    p ∈ targets env t rootHist o ↔
      (p ∈ o.singleFiles ∧ ∀ n, t.at? p = some n → n.isDir = false) ∨
      ∃ d ∈ o.singleFiles, ∃ n, t.at? d = some n ∧ n.isDir = true ∧ ∃ q, q ≠ [] ∧ p = d ++ q ∧
        (∃ c, t.at? p = some c ∧ c.isDir = false) ∧
        ∀ k, d.length < k → k ≤ p.length → cHit env rootHist o (p.take k) = false := by
  unfold targets
  rw [mem_sfTargets]
  constructor
  · rintro (h | ⟨d, hdm, ⟨n, hn, hnd⟩, hf⟩)
    · exact Or.inl h
    · obtain ⟨n', hn', q, hq, hpq, hc, hk⟩ := (mem_filesBelow_iff _ t hd d p).1 hf
      exact Or.inr ⟨d, hdm, n, hn, hnd, q, hq, hpq, hc, hk⟩
  · rintro (h | ⟨d, hdm, n, hn, hnd, q, hq, hpq, hc, hk⟩)
    · exact Or.inl h
    · exact Or.inr ⟨d, hdm, ⟨n, hn, hnd⟩, (mem_filesBelow_iff _ t hd d p).2 ⟨n, hn, q, hq, hpq, hc, hk⟩⟩

/-- the same with the traversal: the files below a named folder `d` are the files `traverse hit d n` yields for the
node `n` at `d` -/
theorem sf_targets_spec_traverse (env : Env) (t : Node) (rootHist : Hist) (o : CreateOpts) (p : RelPath) :
    p ∈ targets env t rootHist o ↔
      (p ∈ o.singleFiles ∧ ∀ n, t.at? p = some n → n.isDir = false) ∨
      ∃ d ∈ o.singleFiles, ∃ n, t.at? d = some n ∧ n.isDir = true ∧
        ∃ v ∈ traverse (cHit env rootHist o) d n, ∃ c ∈ v.children, c.2 = false ∧ p = v.folder ++ [c.1] := by
  unfold targets
  rw [mem_sfTargets]
  constructor
  · rintro (h | ⟨d, hdm, ⟨n, hn, hnd⟩, hf⟩)
    · exact Or.inl h
    · obtain ⟨n', hn', hv⟩ := (mem_filesBelow _ t d p).1 hf
      rw [hn] at hn'
      cases hn'
      simp only [visFrom, visitPaths, List.mem_flatMap, List.mem_map] at hv
      obtain ⟨v, hv, c, hc, hpc⟩ := hv
      obtain ⟨h1, h2⟩ := Prod.mk.inj hpc
      exact Or.inr ⟨d, hdm, n, hn, hnd, v, hv, c, hc, h2, h1.symm⟩
  · rintro (h | ⟨d, hdm, n, hn, hnd, v, hv, c, hc, hc2, rfl⟩)
    · exact Or.inl h
    · refine Or.inr ⟨d, hdm, ⟨n, hn, hnd⟩, (mem_filesBelow _ t d _).2 ⟨n, hn, ?_⟩⟩
      simp only [visFrom, visitPaths, List.mem_flatMap, List.mem_map]
      exact ⟨v, hv, c, hc, by rw [hc2]⟩

/-- no path is sealed twice -/
theorem targets_nodup (env : Env) (t : Node) (rootHist : Hist) (o : CreateOpts) :
    (targets env t rootHist o).Nodup :=
  sfTargets_nodup _ t o.singleFiles

/-- a target is never a folder of the tree (a named folder is not sealed itself), and a target that was not named
itself is a file of the tree -/
theorem targets_files (env : Env) (t : Node) (rootHist : Hist) (o : CreateOpts) (hd : t.NamesDistinct)
    (p : RelPath) (hp : p ∈ targets env t rootHist o) :
    (∀ n, t.at? p = some n → n.isDir = false) ∧
      (p ∈ o.singleFiles ∨ ∃ c, t.at? p = some c ∧ c.isDir = false) := by
  obtain ⟨h1, h2⟩ := sfTargets_shape _ t hd o.singleFiles p hp
  refine ⟨h1, ?_⟩
  rcases h2 with h | ⟨-, c, hc⟩
  · exact Or.inl h
  · exact Or.inr ⟨c, hc, h1 c hc⟩

/-- **what the model does with a named path that does not exist in the tree**: it IS a target, and what `sealFile`
is given as its content is the empty byte string (so, by 2, it gets a file record with size 0 and the digests of the
empty content; the tool itself would fail on `os.path.getsize`) -/
theorem sf_missing_named_path (env : Env) (t : Node) (rootHist : Hist) (o : CreateOpts) (p : RelPath)
    (hp : p ∈ o.singleFiles) (hat : t.at? p = none) :
    p ∈ targets env t rootHist o ∧ fileContent t p = [] := by
  refine ⟨(mem_sfTargets _ t _ p).2 (Or.inl ⟨hp, ?_⟩), ?_⟩
  · intro n hn; rw [hat] at hn; cases hn
  · unfold fileContent; rw [hat]

/-- a named folder contributes nothing but files below it; in particular an empty or entirely ignored folder
contributes nothing -/
theorem sf_named_folder (env : Env) (t : Node) (rootHist : Hist) (o : CreateOpts) (hd : t.NamesDistinct)
    (d : RelPath) (n : Node) (hn : t.at? d = some n) (hnd : n.isDir = true) :
    d ∉ targets env t rootHist o := by
  intro h
  have := (targets_files env t rootHist o hd d h).1 n hn
  rw [hnd] at this
  cases this

/-! ### the well-formedness of the named paths -/

theorem SfOk.of_names {t : Node} {named : List RelPath} (h1 : ∀ p ∈ named, ∀ n ∈ p, NameOk n)
    (h2 : [] ∈ named → t.isDir = true) : SfOk t named :=
  ⟨fun p hp _ => h1 p hp, h2⟩

theorem SfOk.of_dir {t : Node} {named : List RelPath} (h1 : ∀ p ∈ named, ∀ n ∈ p, NameOk n)
    (h2 : t.isDir = true) : SfOk t named :=
  ⟨fun p hp _ => h1 p hp, fun _ => h2⟩

/-- when every named path resolves in a tree that is a folder, nothing is to be assumed -/
theorem SfOk.of_on_disk {t : Node} {named : List RelPath} (h1 : ∀ p ∈ named, ∃ n, t.at? p = some n)
    (h2 : t.isDir = true) : SfOk t named := by
  refine ⟨fun p hp hat => ?_, fun _ => h2⟩
  obtain ⟨n, hn⟩ := h1 p hp
  rw [hat] at hn
  cases hn

/-! ### 2. the session after the fold -/

section session
variable (env : Env) (t : Node) (o : CreateOpts) (rootHist : Hist) (hl : loadHistory t = .ok rootHist)
  (hd : t.NamesDistinct) (hn : t.NamesOk) (hf : o.formats ≠ []) (hwf : SfOk t o.singleFiles)
include hl hd hn hf hwf

theorem sf_facts :
    HistOK t rootHist ∧ ItemsOk rootHist ((targets env t rootHist o).map fun p => (p, false)) ∧
      SInv env t rootHist (isort strLe o.formats) (sfPats rootHist o) (sfSession env t rootHist o)
        ((targets env t rootHist o).map fun p => (p, false)) := by
  have hg := loadHistory_histOK t rootHist hl hd
  obtain ⟨h1, h2⟩ := sfFold_final (env := env) (sfPats rootHist o) hg (isort_ne_nil hf) (cHit env rootHist o) hd hn
    o.singleFiles hwf
  exact ⟨hg, h1, h2⟩

/-
FULL STATEMENT (false without `hwf`, see `sf_exact_false_bad_names` / `sf_root_hash_false_without_wf`): the same with
the hypotheses `hl hd hn hf` only.
EXTRA HYPOTHESIS: `hwf : SfOk t o.singleFiles`.  Why: `sealFile` files the record of a target `p` under the TEXT
`posix (relIn rootHist p)`.  For a named path that is not on disk nothing in the setting makes that text identify the
path (`["a/b"]` and `["a", "b"]` share a record, which then gets the entries twice; `["."]` and, for a root that is a
file, `[]` have the text "." and are filed as the ROOT record).
-/
/-- **sf_session_exact** (under `SfOk`).  After the fold the session keeps the patterns, its lists have pairwise
different roots and each list pairwise different record paths, and
* for every target `p`: the list of `owner rootHist p` is in the session and has a record for `p` under
  `posix (relIn rootHist p)` — a FILE record, no previous path, the length of the content as size (0 for a path that is
  not on disk) and exactly the entries `sealEntries` returns for the content against the generations of THAT history;
* NOTHING ELSE: every record of every list is the record of a target — it sits in the list of the target's owner
  under the target's path relative to the owner (so `l.root ++ splitPath r.path` is the target) and is a file record;
  no list has a root record; every list belongs to the owner of some target. -/
theorem sf_session_exact_partial :
    let s := sfSession env t rootHist o
    s.patterns = setPatterns (latestIgnore rootHist.gens) o.ignoreCli o.ignoreFile ∧
    (s.lists.map (·.root)).Nodup ∧ (∀ l ∈ s.lists, (l.records.map (·.path)).Nodup) ∧
    (∀ p ∈ targets env t rootHist o,
      ∃ l ∈ s.lists, l.root = owner rootHist p ∧ ∃ r ∈ l.records,
        r.path = posix (relIn rootHist p) ∧ r.isDir = false ∧ r.prev = none ∧
        r.size = some (fileContent t p).length ∧
        r.entries = (sealEntries (route rootHist p).1.gens (posix (relIn rootHist p))
          (fun f => env.H f (fileContent t p)) (isort strLe o.formats)).1) ∧
    (∀ l ∈ s.lists, ∀ r ∈ l.records, ∃ p ∈ targets env t rootHist o,
        l.root = owner rootHist p ∧ r.path = posix (relIn rootHist p) ∧ l.root ++ splitPath r.path = p ∧
        r.isDir = false) ∧
    (∀ l ∈ s.lists, l.rootRec = none) ∧
    (∀ l ∈ s.lists, ∃ p ∈ targets env t rootHist o, l.root = owner rootHist p) := by
  intro s
  obtain ⟨hg, hok, hs⟩ := sf_facts env t o rootHist hl hd hn hf hwf
  have hget : ∀ l ∈ s.lists, s.get l.root = l := fun l hlm => Session.get_of_mem _ hs.core.nodup hlm
  refine ⟨hs.core.pats, hs.core.nodup, ?_, ?_, ?_, ?_, ?_⟩
  · intro l hlm
    rw [← hget l hlm]
    exact hs.core.paths _
  · intro p hp
    obtain ⟨hroots, r, hr, hrest⟩ := hs.files p (List.mem_map.2 ⟨p, hp, rfl⟩)
    exact ⟨_, Session.get_mem _ hroots, Session.get_root _ _, r, hr, hrest⟩
  · intro l hlm r hr
    rw [← hget l hlm] at hr
    obtain ⟨x, hx, q, -, hq, hqx, hdir, hj⟩ := hs.core.recs _ r hr
    obtain ⟨p, hp, rfl⟩ := List.mem_map.1 hx
    have hown : l.root = owner rootHist p := by
      rcases hj with hj | ⟨h1, -⟩
      · exact hj
      · cases h1
    have hqr : q = relIn rootHist p := by
      have h3 := owner_append hg p
      simp only at hqx
      rw [hown] at hqx
      exact List.append_cancel_left (hqx.trans h3.symm)
    have hqn : ∀ n ∈ q, NameOk n := fun n hnq => hok.names _ hx n (mem_of_append_eq hqx n hnq)
    refine ⟨p, hp, hown, by rw [hq, hqr], ?_, hdir⟩
    rw [hq, splitPath_posix hqn]
    exact hqx
  · intro l hlm
    rw [← hget l hlm]
    cases hrr : (s.get l.root).rootRec with
    | none => rfl
    | some rr =>
      have := hs.core.rootRecs _ rr hrr
      obtain ⟨p, -, hp⟩ := List.mem_map.1 this
      cases hp
  · intro l hlm
    have hR : l.root ∈ s.roots := List.mem_map_of_mem hlm
    rcases sfFold_roots (env := env) (t := t) (g := rootHist) (isort_ne_nil hf) (targets env t rootHist o)
      { patterns := sfPats rootHist o } l.root hR with h | ⟨p, hp, h⟩
    · simp [Session.roots] at h
    · exact ⟨p, hp, h⟩

/-- a named path that is not on disk has, in the session, a file record of size 0 with the digests of the EMPTY
content -/
theorem sf_missing_sealed_empty_partial (p : RelPath) (hp : p ∈ o.singleFiles) (hat : t.at? p = none) :
    ∃ l ∈ (sfSession env t rootHist o).lists, l.root = owner rootHist p ∧ ∃ r ∈ l.records,
      r.path = posix (relIn rootHist p) ∧ r.isDir = false ∧ r.size = some 0 ∧
      r.entries = (sealEntries (route rootHist p).1.gens (posix (relIn rootHist p))
        (fun f => env.H f []) (isort strLe o.formats)).1 := by
  obtain ⟨hpt, hc⟩ := sf_missing_named_path env t rootHist o p hp hat
  obtain ⟨l, hlm, hlr, r, hr, h1, h2, -, h4, h5⟩ :=
    (sf_session_exact_partial env t o rootHist hl hd hn hf hwf).2.2.2.1 p hpt
  rw [hc] at h4 h5
  exact ⟨l, hlm, hlr, r, hr, h1, h2, h4, h5⟩

end session

/-! ### 3. through the commit -/

section written
variable (env : Env) (t : Node) (o : CreateOpts) (rootHist : Hist) (hl : loadHistory t = .ok rootHist)
  (hd : t.NamesDistinct) (hn : t.NamesOk) (hf : o.formats ≠ []) (hwf : SfOk t o.singleFiles) (ws : List Written)
  (hcm : commit rootHist (sfSession env t rootHist o) env.rootName env.stamp "in-place" = .ok ws)
include hl hd hn hf hwf hcm

omit hcm in
/-- which lists the session has: exactly those of the owners of the targets -/
theorem sf_roots_iff (R : RelPath) :
    R ∈ (sfSession env t rootHist o).roots ↔ ∃ p ∈ targets env t rootHist o, owner rootHist p = R := by
  obtain ⟨hg, hok, hs⟩ := sf_facts env t o rootHist hl hd hn hf hwf
  constructor
  · intro hR
    rcases sfFold_roots (env := env) (t := t) (g := rootHist) (isort_ne_nil hf) (targets env t rootHist o)
      { patterns := sfPats rootHist o } R hR with h | ⟨p, hp, h⟩
    · simp [Session.roots] at h
    · exact ⟨p, hp, h.symm⟩
  · rintro ⟨p, hp, rfl⟩
    exact (hs.files p (List.mem_map.2 ⟨p, hp, rfl⟩)).1

/-
FULL STATEMENT (false without `hwf`): the same with the hypotheses `hl hd hn hf hcm` only.
EXTRA HYPOTHESIS: `hwf : SfOk t o.singleFiles`, for the reason given at `sf_session_exact_partial`.
-/
/-- **sf_written_exact** (under `SfOk`).  The generations `create -sf` writes have pairwise different history roots
and each has pairwise different record paths, and
* every target `p` is recorded in the generation of its owner (which is therefore written), under
  `posix (relIn rootHist p)`: a file record, the content length as size, the entries a reordering (sorted by format) of
  the relabelled `sealEntries` against the OWNER's generations;
* every record of every written generation is the record of a target, in the generation of the target's owner, under the
  target's path relative to the owner — hence each target is recorded ONCE (the record paths of a generation are
  pairwise different, and a record that denotes `p` is the one above) and nothing but targets is recorded;
* no written generation has a root hash;
* a generation written for a history that owns no target (a reference carrier) has NO records;
* which histories are written: exactly the owners of targets and their ancestors — in the tree of histories
  (`(route rootHist p).1 ∈ h :: allDescendants h`) or, equivalently, by folder (`h.root <+: owner rootHist p`); a
  history that is neither is not written. -/
theorem sf_written_exact_partial :
    (ws.map (·.histRoot)).Nodup ∧ (∀ w ∈ ws, (w.gen.records.map (·.path)).Nodup) ∧
    (∀ p ∈ targets env t rootHist o,
      ∃ w ∈ ws, w.histRoot = owner rootHist p ∧ ∃ r ∈ w.gen.records,
        r.path = posix (relIn rootHist p) ∧ r.isDir = false ∧ r.prev = none ∧
        r.size = some (fileContent t p).length ∧
        r.entries.Perm ((sealEntries (route rootHist p).1.gens (posix (relIn rootHist p))
          (fun f => env.H f (fileContent t p)) (isort strLe o.formats)).1.map relabel)) ∧
    (∀ w ∈ ws, ∀ r ∈ w.gen.records, ∃ p ∈ targets env t rootHist o,
        w.histRoot = owner rootHist p ∧ r.path = posix (relIn rootHist p) ∧ w.histRoot ++ splitPath r.path = p ∧
        r.isDir = false) ∧
    (∀ w ∈ ws, w.gen.rootHash = none) ∧
    (∀ w ∈ ws, (∀ p ∈ targets env t rootHist o, owner rootHist p ≠ w.histRoot) → w.gen.records = []) ∧
    (∀ h ∈ walkPost rootHist, ((∃ w ∈ ws, w.histRoot = h.root) ↔
        ∃ p ∈ targets env t rootHist o, (route rootHist p).1 ∈ h :: allDescendants h)) ∧
    (∀ h ∈ walkPost rootHist, ((∃ w ∈ ws, w.histRoot = h.root) ↔
        ∃ p ∈ targets env t rootHist o, h.root <+: owner rootHist p)) := by
  obtain ⟨hg, hok, hs⟩ := sf_facts env t o rootHist hl hd hn hf hwf
  obtain ⟨-, hnd, hpaths, hfiles, hsound, hroot, -⟩ := sf_session_exact_partial env t o rootHist hl hd hn hf hwf
  have hroots := sf_roots_iff env t o rootHist hl hd hn hf hwf
  -- the record list of the generation written for `h` is the finalised list of `h` in the session
  have hrec : ∀ w ∈ ws, ∀ r ∈ w.gen.records, ∃ l ∈ (sfSession env t rootHist o).lists, l.root = w.histRoot ∧
      ∃ r0 ∈ l.records, r = finalRec r0 := by
    intro w hw r hr
    obtain ⟨h, -, hroot', hrecs, -⟩ := commit_records hcm hw
    rw [hrecs] at hr
    obtain ⟨r0, hr0, rfl⟩ := List.mem_map.1 hr
    by_cases hin : h.root ∈ (sfSession env t rootHist o).roots
    · exact ⟨_, Session.get_mem _ hin, by rw [Session.get_root, hroot'], r0, hr0, rfl⟩
    · rw [Session.get_not_mem _ hin] at hr0
      cases hr0
  -- the tree form of "written"
  have htree : ∀ h ∈ walkPost rootHist, ((∃ w ∈ ws, w.histRoot = h.root) ↔
      ∃ p ∈ targets env t rootHist o, (route rootHist p).1 ∈ h :: allDescendants h) := by
    intro h hh
    have hall : h ∈ rootHist.all := (mem_walkPost _ _).1 hh
    rw [commit_written_tree_iff hg _ _ _ _ _ hcm h hall]
    constructor
    · rintro ⟨x, hx, hxr⟩
      obtain ⟨p, hp, hpo⟩ := (hroots x.root).1 hxr
      have : (route rootHist p).1 = x :=
        mem_all_root_inj hg.nodup (route_mem hg p) (all_trans rootHist hall hx) hpo
      exact ⟨p, hp, by rw [this]; exact hx⟩
    · rintro ⟨p, hp, hx⟩
      exact ⟨_, hx, (hroots _).2 ⟨p, hp, rfl⟩⟩
  refine ⟨commit_roots_nodup hg _ _ _ _ _ hcm, ?_, ?_, ?_, ?_, ?_, htree, ?_⟩
  · intro w hw
    obtain ⟨h, -, -, hrecs, -⟩ := commit_records hcm hw
    rw [hrecs, List.map_map]
    have : ((·.path) ∘ finalRec) = fun r : Record => r.path := by
      funext r; exact finalRec_path r
    rw [this]
    exact hs.core.paths _
  · intro p hp
    obtain ⟨l, hlm, hlr, r, hr, h1, h2, h3, h4, h5⟩ := hfiles p hp
    have hR : owner rootHist p ∈ (sfSession env t rootHist o).roots := by
      rw [← hlr]; exact List.mem_map_of_mem hlm
    obtain ⟨w, hw, hwr⟩ := (commit_written_iff hg _ _ _ _ _ hcm _
      ((mem_walkPost _ _).2 (route_mem hg p))).2 (Or.inl hR)
    obtain ⟨h', -, hroot', hrecs, -⟩ := commit_records hcm hw
    have hget : (sfSession env t rootHist o).get h'.root = l := by
      rw [← hroot', hwr]
      have := Session.get_of_mem _ hnd hlm
      rw [hlr] at this
      exact this
    refine ⟨w, hw, hwr, finalRec r, ?_, by rw [finalRec_path, h1], by rw [finalRec_isDir, h2],
      by rw [finalRec_prev, h3], by rw [finalRec_size, h4], ?_⟩
    · rw [hrecs, hget]; exact List.mem_map_of_mem hr
    · rw [← h5]; exact finalRec_entries r
  · intro w hw r hr
    obtain ⟨l, hlm, hlr, r0, hr0, rfl⟩ := hrec w hw r hr
    obtain ⟨p, hp, h1, h2, h3, h4⟩ := hsound l hlm r0 hr0
    exact ⟨p, hp, by rw [← hlr, h1], by rw [finalRec_path, h2], by rw [finalRec_path, ← hlr]; exact h3,
      by rw [finalRec_isDir, h4]⟩
  · intro w hw
    obtain ⟨h, -, -, -, hrh⟩ := commit_records hcm hw
    rw [hrh]
    by_cases hin : h.root ∈ (sfSession env t rootHist o).roots
    · rw [hroot _ (Session.get_mem _ hin)]; rfl
    · rw [Session.get_not_mem _ hin]; rfl
  · intro w hw hno
    cases hrs : w.gen.records with
    | nil => rfl
    | cons r rs =>
      exfalso
      obtain ⟨l, hlm, hlr, -⟩ := hrec w hw r (by rw [hrs]; exact List.mem_cons_self)
      obtain ⟨p, hp, hpo⟩ := (hroots l.root).1 (List.mem_map_of_mem hlm)
      exact hno p hp (hpo.trans hlr)
  · intro h hh
    have hall : h ∈ rootHist.all := (mem_walkPost _ _).1 hh
    rw [htree h hh]
    constructor
    · rintro ⟨p, hp, hx⟩
      exact ⟨p, hp, all_root_prefix h (fun y hy c hc => (hg.child y (all_trans rootHist hall hy) c hc).1) _ hx⟩
    · rintro ⟨p, hp, hpre⟩
      exact ⟨p, hp, mem_all_of_prefix hg _ _ rfl (route_mem hg p) h hall hpre⟩

/-- each target once, spelled out: a record of a written generation that denotes the target `p` is THE record of `p`
in the generation of `p`'s owner -/
theorem sf_written_once_partial (p : RelPath) (hp : p ∈ targets env t rootHist o) :
    ∀ w ∈ ws, ∀ r ∈ w.gen.records, w.histRoot ++ splitPath r.path = p →
      w.histRoot = owner rootHist p ∧ r.path = posix (relIn rootHist p) ∧ r.isDir = false := by
  intro w hw r hr hden
  obtain ⟨p', -, h1, h2, h3, h4⟩ :=
    (sf_written_exact_partial env t o rootHist hl hd hn hf hwf ws hcm).2.2.2.1 w hw r hr
  have : p' = p := h3.symm.trans hden
  subst this
  exact ⟨h1, h2, h4⟩

/-! ### 4. the digests -/

/-
FULL STATEMENT (false without `hwf`): the same with the hypotheses `hl hd hn hf hcm` only.
EXTRA HYPOTHESIS: `hwf : SfOk t o.singleFiles` — without it the record of a target may hold the entries of another
target as well (`sf_exact_false_bad_names`: two `original` entries of the same format).
-/
/-- **sf_digests_correct** (under `SfOk`).  The written record `r` of a target `p` (it exists, in the generation of
`p`'s owner, under `posix (relIn rootHist p)`), with `gens` the generations of the owner, `path` that text and
`dig f = env.H f (fileContent t p)`:
* every entry carries the digest of the content in its format, there is at most one entry per format, and the
  entries are sorted by format;
* NO EARLIER RECORD (`find path = none` in every generation of the owner): the entries are exactly one `original`
  entry per requested format (a format requested twice counts once) with digest `env.H fmt content`;
* RECORDED (C04): with an `original` on record, an entry in an already recorded format is `verified` iff the digest
  equals the FIRST recorded digest of that format, else `failed`; an entry in a format new for the file is `verified`
  and is only there when no entry failed;
* when no entry failed every requested format is there; an unaltered file (`C04.FirstOk`) has no failed entry. -/
theorem sf_digests_correct_partial (p : RelPath) (hp : p ∈ targets env t rootHist o) :
    ∃ w ∈ ws, w.histRoot = owner rootHist p ∧ ∃ r ∈ w.gen.records, r.path = posix (relIn rootHist p) ∧
      (∀ e ∈ r.entries, e.digest = env.H e.fmt (fileContent t p)) ∧
      (r.entries.map (·.fmt)).Nodup ∧
      r.entries.Pairwise (fun a b => strLe a.fmt b.fmt = true) ∧
      ((∀ g ∈ (route rootHist p).1.gens, g.gen.find (posix (relIn rootHist p)) = none) →
        r.entries.Perm ((o.formats.foldl appendNew []).map fun f =>
          ({ fmt := f, digest := env.H f (fileContent t p), action := "original" } : Entry))) ∧
      (∀ o0, findOriginal (route rootHist p).1.gens (posix (relIn rootHist p)) = some o0 →
        (∀ e ∈ r.entries, ∀ e1,
          findFirstOfFormat (route rootHist p).1.gens (posix (relIn rootHist p)) e.fmt = some e1 →
            (e.action = "verified" ↔ env.H e.fmt (fileContent t p) = e1.digest) ∧
            (e.action = "failed" ↔ env.H e.fmt (fileContent t p) ≠ e1.digest)) ∧
        (∀ e ∈ r.entries, findFirstOfFormat (route rootHist p).1.gens (posix (relIn rootHist p)) e.fmt = none →
          e.action = "verified" ∧ ∀ e' ∈ r.entries, e'.action ≠ "failed")) ∧
      ((∀ e ∈ r.entries, e.action ≠ "failed") → ∀ f ∈ o.formats, ∃ e ∈ r.entries, e.fmt = f) ∧
      (C04.FirstOk (fun f => env.H f (fileContent t p)) (route rootHist p).1.gens (posix (relIn rootHist p)) →
        ∀ e ∈ r.entries, e.action ≠ "failed") := by
  obtain ⟨hg, -, -⟩ := sf_facts env t o rootHist hl hd hn hf hwf
  obtain ⟨w, hw, hwr, r, hr, h1, h2, -, -, h5⟩ :=
    (sf_written_exact_partial env t o rootHist hl hd hn hf hwf ws hcm).2.2.1 p hp
  obtain ⟨hdig, hrec, hreq, hok⟩ := written_entries_spec _ _ _ _ r.entries h5
  -- sortedness: `r` is the finalised form of a file record of the session
  have hsorted : r.entries.Pairwise (fun a b => strLe a.fmt b.fmt = true) := by
    obtain ⟨h, -, -, hrecs, -⟩ := commit_records hcm hw
    rw [hrecs] at hr
    obtain ⟨r0, -, rfl⟩ := List.mem_map.1 hr
    rw [finalRec_isDir] at h2
    exact finalRec_sorted r0 h2
  refine ⟨w, hw, hwr, r, hr, h1, hdig, written_fmts_nodup _ _ _ _ _ h5, hsorted, ?_, hrec, ?_, hok⟩
  · intro hfresh
    rw [sealEntries_fresh _ _ _ _ hfresh, List.map_map] at h5
    refine h5.trans ?_
    have hrel : (relabel ∘ fun f => ({ fmt := f, digest := env.H f (fileContent t p), action := "original" } : Entry))
        = fun f => ({ fmt := f, digest := env.H f (fileContent t p), action := "original" } : Entry) := by
      funext f
      simp [relabel]
    rw [hrel]
    refine List.Perm.map _ ?_
    rw [List.perm_ext_iff_of_nodup (dedup_spec _).1 (dedup_spec _).1]
    intro f
    rw [(dedup_spec _).2, (dedup_spec _).2, mem_isort]
  · intro hnf f hfm
    exact hreq hnf f ((mem_isort strLe o.formats f).2 hfm)

end written

/-! ### 5. no directory records, no root hash -/

/-- **no directory record, ever**: whatever is named (no hypothesis at all — not even that the history loads), every
record of every generation `createSingleFiles` writes is a file record -/
theorem sf_no_dir_records (env : Env) (t : Node) (o : CreateOpts) :
    ∀ w ∈ (createSingleFiles env t o).written, ∀ r ∈ w.gen.records, r.isDir = false := by
  intro w hw r hr
  cases hl : loadHistory t with
  | error e =>
    have : createSingleFiles env t o = { err := some e } := by simp [createSingleFiles, hl]
    rw [this] at hw
    cases hw
  | ok rootHist =>
    cases hcm : commit rootHist (sfSession env t rootHist o) env.rootName env.stamp "in-place" with
    | error e =>
      rw [sf_written_error env t o rootHist hl e hcm] at hw
      cases hw
    | ok ws =>
      rw [(sf_written env t o rootHist hl ws hcm).1] at hw
      obtain ⟨h, -, -, hrecs, -⟩ := commit_records hcm hw
      rw [hrecs] at hr
      obtain ⟨r0, hr0, rfl⟩ := List.mem_map.1 hr
      rw [finalRec_isDir]
      have hfo : (sfSession env t rootHist o).FilesOnly :=
        sfFold_filesOnly env t rootHist _ _ _ (by intro l hl'; simp at hl')
      exact hfo.get _ r0 hr0

/-
FULL STATEMENT (FALSE, `sf_root_hash_false_without_wf`, `sf_root_hash_false_bad_name`):
  ∀ w ∈ (createSingleFiles env t o).written, w.gen.rootHash = none      in the setting `hl hd hn hf`.
EXTRA HYPOTHESIS: `hwf : SfOk t o.singleFiles` — a target whose path relative to its owner has the text "." is filed as
the ROOT record, and `commit` writes the entries of the root record as root hash.
-/
/-- no root hash (under `SfOk`) -/
theorem sf_no_root_hash_partial (env : Env) (t : Node) (o : CreateOpts) (rootHist : Hist)
    (hl : loadHistory t = .ok rootHist) (hd : t.NamesDistinct) (hn : t.NamesOk) (hf : o.formats ≠ [])
    (hwf : SfOk t o.singleFiles) :
    ∀ w ∈ (createSingleFiles env t o).written, w.gen.rootHash = none := by
  intro w hw
  cases hcm : commit rootHist (sfSession env t rootHist o) env.rootName env.stamp "in-place" with
  | error e =>
    rw [sf_written_error env t o rootHist hl e hcm] at hw
    cases hw
  | ok ws =>
    rw [(sf_written env t o rootHist hl ws hcm).1] at hw
    exact (sf_written_exact_partial env t o rootHist hl hd hn hf hwf ws hcm).2.2.2.2.1 w hw

/-- **sf_no_dir_hashes** (under `SfOk`): no written generation of `create -sf` contains a directory record or a root
hash.  The first half needs no hypothesis (`sf_no_dir_records`). -/
theorem sf_no_dir_hashes_partial (env : Env) (t : Node) (o : CreateOpts) (rootHist : Hist)
    (hl : loadHistory t = .ok rootHist) (hd : t.NamesDistinct) (hn : t.NamesOk) (hf : o.formats ≠ [])
    (hsf : o.singleFiles ≠ []) (hwf : SfOk t o.singleFiles) :
    ∀ w ∈ (create env t o).written, (∀ r ∈ w.gen.records, r.isDir = false) ∧ w.gen.rootHash = none := by
  have hcr : create env t o = createSingleFiles env t o := by
    unfold create
    rw [if_neg (by simpa using hsf)]
  rw [hcr]
  exact fun w hw => ⟨sf_no_dir_records env t o w hw, sf_no_root_hash_partial env t o rootHist hl hd hn hf hwf w hw⟩

/-! ### the statements of 2–5 are FALSE without `SfOk`: evaluated counterexamples -/

section Counterexamples

/-- (b) a tree that is a single file, `-sf []`: every hypothesis of the stated setting holds … -/
example : loadHistory (.file "f" [1]) = .ok (.mk [] [] [] false []) ∧ (Node.file "f" [1]).NamesDistinct ∧
    (Node.file "f" [1]).NamesOk ∧ ¬ SfOk (.file "f" [1]) [[]] := by
  refine ⟨rfl, trivial, by decide, fun h => ?_⟩
  have := h.2 (by simp)
  cases this

/-- … and the generation written has NO record and a ROOT HASH: the file was sealed as the root record "." -/
theorem sf_root_hash_false_without_wf :
    ¬ ∀ w ∈ (create nestEnv (.file "f" [1]) { formats := ["md5"], singleFiles := [[]] }).written,
      w.gen.rootHash = none := by
  decide +kernel

set_option synthInstance.maxSize 100000 in
example : ((create nestEnv (.file "f" [1]) { formats := ["md5"], singleFiles := [[]] }).written.map fun w =>
      (w.histRoot, w.gen.records.length, w.gen.rootHash.isSome,
        (w.gen.rootHash.getD []).map fun e => (e.fmt, e.digest, e.action))) =
    [([], 0, true, [("md5", "md5:1", "original")])] := by decide +kernel

/-- (a) a named path that is not on disk and whose one name is ".": sealed (empty content) as the root record too -/
theorem sf_root_hash_false_bad_name :
    ¬ ∀ w ∈ (create nestEnv (.dir "root" [] none) { formats := ["md5"], singleFiles := [["."]] }).written,
      w.gen.rootHash = none := by
  decide +kernel

/-- (a) two named paths that are not on disk and have the same POSIX text: both are targets … -/
example : targets nestEnv (.dir "root" [] none) (.mk [] [] [] false [])
    { formats := ["md5"], singleFiles := [["a/b"], ["a", "b"]] } = [["a/b"], ["a", "b"]] := by decide +kernel

/-- … but there is ONE record, holding the entries of both: no record has the entries `sealEntries` returns for its
target (clause 3 of `sf_written_exact` fails, and so does the "at most one entry per format" of `sf_digests_correct`,
which is what is negated here, literally, for this run) -/
theorem sf_exact_false_bad_names :
    ¬ ∀ p ∈ targets nestEnv (.dir "root" [] none) (.mk [] [] [] false [])
          { formats := ["md5"], singleFiles := [["a/b"], ["a", "b"]] },
        ∃ w ∈ (create nestEnv (.dir "root" [] none)
          { formats := ["md5"], singleFiles := [["a/b"], ["a", "b"]] }).written,
        w.histRoot = owner (.mk [] [] [] false []) p ∧ ∃ r ∈ w.gen.records,
          r.path = posix (relIn (.mk [] [] [] false []) p) ∧ (r.entries.map (·.fmt)).Nodup := by
  decide +kernel

/-- the setting holds for that run -/
example : loadHistory (.dir "root" [] none) = .ok (.mk [] [] [] false []) ∧
    (Node.dir "root" [] none).NamesOk ∧ ¬ SfOk (.dir "root" [] none) [["a/b"], ["a", "b"]] := by
  refine ⟨rfl, by decide, fun h => ?_⟩
  have := h.1 ["a/b"] (by simp) rfl "a/b" (by simp)
  revert this
  decide

example : ((create nestEnv (.dir "root" [] none) { formats := ["md5"], singleFiles := [["a/b"], ["a", "b"]] }).written.map
      fun w => w.gen.records.map fun r => (r.path, r.entries.map fun e => (e.fmt, e.action))) =
    [[("a/b", [("md5", "original"), ("md5", "original")])]] := by decide +kernel

end Counterexamples

/-! ### non-vacuity: a nested history at `A/` (and one at `B/` that is not touched), `create -sf top.txt -sf A/x.txt -sf sub` -/

section Examples

/-- before any run: `A/` and `B/` hold an (empty) `ascmhl` folder; `sub/` has two files, one of them ignored -/
def sfTree0 : Node :=
  .dir "root"
    [ .file "top.txt" [1],
      .file "other.txt" [9, 9],
      .dir "A" [ .file "x.txt" [1, 2], .file "y.txt" [3] ] (some {}),
      .dir "B" [ .file "z.txt" [7] ] (some {}),
      .dir "sub" [ .file "keep.txt" [1, 2, 3], .file ".DS_Store" [] ] none ] none

def sfOpts : CreateOpts := { formats := ["md5"], singleFiles := [["top.txt"], ["A", "x.txt"], ["sub"]] }

set_option synthInstance.maxSize 100000 in
/-- the first run, on the fresh tree, evaluated through the whole pipeline: `A/x.txt` in the generation of `A` under
`x.txt`; `top.txt` and `sub/keep.txt` (not `sub/.DS_Store`, not `other.txt`, not `A/y.txt`) in the generation of the
root, which references the one of `A`; no directory record, no root hash; `B` is not written -/
example : ((create nestEnv sfTree0 sfOpts).written.map fun w =>
      (w.histRoot, w.number,
        w.gen.records.map (fun r => (r.path, r.isDir, r.entries.map fun e => (e.fmt, e.digest, e.action))),
        w.gen.rootHash.isSome, w.gen.refs)) =
    [ (["A"], 1, [("x.txt", false, [("md5", "md5:2", "original")])], false, []),
      ([], 1, [("top.txt", false, [("md5", "md5:1", "original")]),
               ("sub/keep.txt", false, [("md5", "md5:3", "original")])], false,
        ["A/ascmhl/0001_A_1970-01-01_000000Z.mhl"]) ] := by decide +kernel

/-- after a folder-mode `create`: every history has one generation recording all its files -/
def sfTree : Node := applyWritten sfTree0 (create nestEnv sfTree0 { formats := ["md5"] }).written

def sfHist : Hist :=
  match loadHistory sfTree with
  | .ok h => h
  | .error _ => .mk [] [] [] false []

theorem sfHist_loaded : loadHistory sfTree = .ok sfHist := by
  have h : (match loadHistory sfTree with | .ok _ => true | .error _ => false) = true := by decide +kernel
  unfold sfHist
  cases hl : loadHistory sfTree with
  | ok x => rfl
  | error e => rw [hl] at h; cases h

example : (walkPost sfHist).map (fun h => (h.root, h.gens.map (·.number))) =
    [(["A"], [1]), (["B"], [1]), ([], [1])] := by decide +kernel

/-- the second run: another format, a named path that is not on disk, a path named twice -/
def sfOpts2 : CreateOpts :=
  { formats := ["sha1", "md5"],
    singleFiles := [["top.txt"], ["A", "x.txt"], ["sub"], ["ghost.txt"], ["top.txt"]] }

theorem sfTree_distinct : sfTree.NamesDistinct := namesDistinctB_sound _ (by decide +kernel)
theorem sfTree_namesOk : sfTree.NamesOk := by decide +kernel
theorem sfOpts2_wf : SfOk sfTree sfOpts2.singleFiles := SfOk.of_dir (by decide) (by decide +kernel)

theorem sf_commit : ∃ ws, commit sfHist (sfSession nestEnv sfTree sfHist sfOpts2) nestEnv.rootName nestEnv.stamp
    "in-place" = .ok ws ∧ ws.length = 2 := by
  have h : (match commit sfHist (sfSession nestEnv sfTree sfHist sfOpts2) nestEnv.rootName nestEnv.stamp "in-place" with
      | .ok ws => ws.length | .error _ => 0) = 2 := by decide +kernel
  cases hc : commit sfHist (sfSession nestEnv sfTree sfHist sfOpts2) nestEnv.rootName nestEnv.stamp "in-place" with
  | ok ws => rw [hc] at h; exact ⟨ws, rfl, h⟩
  | error e => rw [hc] at h; cases h

/-- all hypotheses of the theorems hold for the second run -/
example : loadHistory sfTree = .ok sfHist ∧ sfTree.NamesDistinct ∧ sfTree.NamesOk ∧ sfOpts2.formats ≠ [] ∧
    sfOpts2.singleFiles ≠ [] ∧ SfOk sfTree sfOpts2.singleFiles ∧
    ∃ ws, commit sfHist (sfSession nestEnv sfTree sfHist sfOpts2) nestEnv.rootName nestEnv.stamp "in-place" = .ok ws :=
  ⟨sfHist_loaded, sfTree_distinct, sfTree_namesOk, by decide, by decide, sfOpts2_wf, by
    obtain ⟨ws, h, -⟩ := sf_commit; exact ⟨ws, h⟩⟩

/-- the targets: the named folder `sub` gives its one visible file, the path named twice is there once, the path
that is not on disk is there -/
example : targets nestEnv sfTree sfHist sfOpts2 =
    [["top.txt"], ["A", "x.txt"], ["sub", "keep.txt"], ["ghost.txt"]] := by decide +kernel

example : (owner sfHist ["A", "x.txt"], relIn sfHist ["A", "x.txt"]) = (["A"], ["x.txt"]) ∧
    (owner sfHist ["sub", "keep.txt"], relIn sfHist ["sub", "keep.txt"]) = ([], ["sub", "keep.txt"]) ∧
    (owner sfHist ["ghost.txt"], relIn sfHist ["ghost.txt"]) = ([], ["ghost.txt"]) := by decide +kernel

set_option synthInstance.maxSize 100000 in
/-- what the second run writes: the recorded files are verified in the recorded format and get the new one; the
path that is not on disk is sealed as an empty file (size 0, `original`); `B` is not written -/
example : ((create nestEnv sfTree sfOpts2).written.map fun w =>
      (w.histRoot, w.number,
        w.gen.records.map (fun r => (r.path, r.isDir, r.entries.map fun e => (e.fmt, e.digest, e.action))),
        w.gen.rootHash.isSome, w.gen.refs)) =
    [ (["A"], 2, [("x.txt", false, [("md5", "md5:2", "verified"), ("sha1", "sha1:2", "verified")])], false, []),
      ([], 2, [("top.txt", false, [("md5", "md5:1", "verified"), ("sha1", "sha1:1", "verified")]),
               ("sub/keep.txt", false, [("md5", "md5:3", "verified"), ("sha1", "sha1:3", "verified")]),
               ("ghost.txt", false, [("md5", "md5:0", "original"), ("sha1", "sha1:0", "original")])], false,
        ["A/ascmhl/0002_A_1970-01-01_000000Z.mhl"]) ] := by decide +kernel

/-- the sizes: the content lengths; 0 for the path that is not on disk -/
example : ((create nestEnv sfTree sfOpts2).written.map fun w => w.gen.records.map (·.size)) =
    [[some 2], [some 1, some 3, some 0]] := by decide +kernel

/-- a reference carrier: only `A/x.txt` is named; the root history is written WITHOUT records, to carry the
reference; `B` is not written -/
example : ((create nestEnv sfTree { formats := ["md5"], singleFiles := [["A", "x.txt"]] }).written.map fun w =>
      (w.histRoot, w.gen.records.map (·.path), w.gen.rootHash.isSome, w.gen.refs)) =
    [ (["A"], ["x.txt"], false, []), ([], [], false, ["A/ascmhl/0002_A_1970-01-01_000000Z.mhl"]) ] := by
  decide +kernel

/-- `sf_written_exact_partial`, `sf_digests_correct_partial` and `sf_no_dir_hashes_partial` applied to the second run -/
example : ∃ ws, (create nestEnv sfTree sfOpts2).written = ws ∧ (ws.map (·.histRoot)).Nodup ∧
    (∃ w ∈ ws, w.histRoot = ["A"] ∧ ∃ r ∈ w.gen.records, r.path = "x.txt" ∧
      ∀ e ∈ r.entries, e.digest = nestEnv.H e.fmt [1, 2]) ∧
    (∀ w ∈ ws, ∀ r ∈ w.gen.records, ∃ p ∈ targets nestEnv sfTree sfHist sfOpts2,
      w.histRoot = owner sfHist p ∧ r.path = posix (relIn sfHist p)) ∧
    (¬ ∃ w ∈ ws, w.histRoot = ["B"]) ∧
    (∀ w ∈ ws, (∀ r ∈ w.gen.records, r.isDir = false) ∧ w.gen.rootHash = none) := by
  obtain ⟨ws, hcm, -⟩ := sf_commit
  have hw := sf_written nestEnv sfTree sfOpts2 sfHist sfHist_loaded ws hcm
  have h3 := sf_written_exact_partial nestEnv sfTree sfOpts2 sfHist sfHist_loaded sfTree_distinct sfTree_namesOk
    (by decide) sfOpts2_wf ws hcm
  have hp : (["A", "x.txt"] : RelPath) ∈ targets nestEnv sfTree sfHist sfOpts2 := by decide +kernel
  have ho : owner sfHist ["A", "x.txt"] = ["A"] ∧ posix (relIn sfHist ["A", "x.txt"]) = "x.txt" ∧
      fileContent sfTree ["A", "x.txt"] = [1, 2] := by decide +kernel
  obtain ⟨w, hwm, hwr, r, hr, hrp, hdig, -⟩ := sf_digests_correct_partial nestEnv sfTree sfOpts2 sfHist sfHist_loaded
    sfTree_distinct sfTree_namesOk (by decide) sfOpts2_wf ws hcm _ hp
  have h5 := sf_no_dir_hashes_partial nestEnv sfTree sfOpts2 sfHist sfHist_loaded sfTree_distinct sfTree_namesOk
    (by decide) (by decide) sfOpts2_wf
  rw [hw.2 (by decide)] at h5
  refine ⟨ws, hw.2 (by decide), h3.1, ⟨w, hwm, by rw [hwr, ho.1], r, hr, by rw [hrp, ho.2.1], ?_⟩, ?_, ?_, h5⟩
  · intro e he
    rw [hdig e he, ho.2.2]
  · intro w' hw' r' hr'
    obtain ⟨p, hp', h1, h2, -⟩ := h3.2.2.2.1 w' hw' r' hr'
    exact ⟨p, hp', h1, h2⟩
  · have hB : (∃ h ∈ walkPost sfHist, h.root = ["B"]) := by decide +kernel
    obtain ⟨h, hh, hr⟩ := hB
    rw [← hr, h3.2.2.2.2.2.2.2 h hh, hr]
    decide +kernel

/-- `o.formats ≠ []` is needed for the existence halves of 2–4: with no format requested a file that has no earlier
record gets no entry, hence no record, and nothing is written (a recorded file would still be verified in a recorded
format) -/
example : (create nestEnv sfTree0 { formats := [], singleFiles := [["top.txt"]] }).written = [] ∧
    targets nestEnv sfTree0 (.mk [] [] [] false [.mk ["A"] [] [] true [], .mk ["B"] [] [] true []])
      { formats := [], singleFiles := [["top.txt"]] } = [["top.txt"]] := by
  constructor <;> decide +kernel

end Examples

end MhlProps.C02sf
