/-
C09nested — property C09 end to end for trees WITH NESTED HISTORIES.

 "verify -dh exits 0 on a tree identical to the one every generation recorded, exits 12 when the tree differs from what
  all recorded generations say, with nested histories, and never aborts with an internal error."

MhlProps/C09e2e.lean proves the positive half for ONE flat history.  Here `t` is any tree whose history loads,
`loadHistory t = .ok h`; `h` may have children and grand-children; `env` (hash function, decoder, matcher) arbitrary.
Helper lemmas: MhlProps/Proofs/DhNestedLemmas.lean.

WHICH ENTRIES ARE COMPARED (read off `dhVisit` / `verifyDh`; `comparedEntries`, `compared_nested_root`):
* a visible sub-folder `q` that is NOT the root folder of a nested history: the directory entries recorded for
  `posix (route h q).2` in EVERY generation of the history `(route h q).1` that owns `q` (the deepest history whose root
  is a prefix of `q`);
* the root folder `q` of a NESTED history `c`: `route h q = (c, [])`, so the entries recorded under "." in `c`'s OWN
  generations — `c`'s root hashes, each entry twice — and NOT the directory record the PARENT history keeps for `q`
  (that one is never looked at by `verify -dh`);
* the command root: the root hashes of every generation of the root history `h`, at the end.
The formats are those of the ROOT history's root hashes (`dhFormats h`), also for the nested histories.

 1. `verifyDh_never_internal_nested`   any tree, any options: normal end or a click exit code (0/12/31/32/33), never
                                       `.internal`; once the history loads only 0 or 12
    `dhFold_failed_iff`, `dhFold_dirMismatch_iff`   EXACTLY what the traversal marks (formats / folder texts)
 3a `verifyDh_all_match_ok`            every compared entry (in a verified format) equals the specification of the
                                       current tree ⇒ err = none, exit 0, `dirMismatch = []`; arbitrary nested trees
 4a `verifyDh_12_iff_nested`           exit 12 ⇔ no `-ro` and for every verified format some compared entry differs
 4. `verifyDh_nested_mismatch_12`      the ⇐ direction in the form asked
 2. `written_dir_entries`, `written_root_hashes`   what a sealing run writes about folders, in every history
    `run_reloaded`                     the tree with the generations written back loads again, routes alike, and every
                                       history carries its old generations followed by the new one
    `recorded_dir_hashes_are_spec`     the entries `verify -dh` will compare each visible folder with contain, for
                                       every requested format, the specified (content, structure) hash; root hash too
 3. `oldMatch_after_nested_seal`       "every recorded entry matches the tree" (`OldMatch`) is KEPT by a sealing run
    `verifyDh_after_nested_seal`       … hence seal from the outer root over nested histories sealed before ⇒ 0
    `verifyDh_after_first_nested_seal` the simplest setting: no directory hashes anywhere yet
    `oldMatch_for_next_run`            the hypothesis holds again for the next run (iterate)
 4' `verifyDh_detects_change_after_nested_seal`   same `ascmhl` folders, root content hash changed in every format ⇒ 12
 5. `nested_two_level_dh`, `nested_three_level_dh`, `nested_two_level_dh_detects`, `nested_three_level_dh_detects`
                                       C04nested's trees evaluated: seal from the outer root → 0; alter a file below the
                                       nested history → 12, with the folders reported; then the general theorems
                                       applied to these trees (all hypotheses discharged).

Hypotheses used where records are tied to paths (all shown satisfiable in the examples): sibling names distinct
(`Node.NamesDistinct`), names free of '/' and not "." (`Node.NamesOk`), the root is a folder, at least one format, no
`-dr` (the committed session is `cSession`), and for reloading `NoLineFeeds` (folder names of the histories and the
stamp free of line feeds — else the manifest just written is not recognised, C06; witness at the end).
-/
import MhlProps.Proofs.DhNestedLemmas
import MhlProps.C09e2e
import MhlProps.C08part
import MhlProps.C04nested
import MhlProps.C05e2e
import MhlProps.C12nested

namespace MhlProps.C09nested
open MhlModel
open MhlProps.C07impl (specHashes)
open MhlProps.C02rec (cSession cHit)

/-! ### 1. never an internal error -/

/-- 1. `verify -dh` never ends with an uncaught exception, on ANY tree (nested histories or not), with any options:
it ends normally or with a `click` exit code; once the history loads (`loadHistory t = .ok h`, any shape of `h`) the
only possible code is 12.  (`MhlProps.C09.verifyDh_total` assumes nothing about the tree, so nothing had to be
extended: the comparison itself — `route`, `dirEntriesFor`, `dhCompare` — is total in the model; what can raise is
only the loading, and that raises 31 / 32 / 33.) -/
theorem verifyDh_never_internal_nested (env : Env) (t : Node) (o : DhOpts) :
    ((verifyDh env t o).err = none ∨ ∃ n, (verifyDh env t o).err = some (.exit n)) ∧
    (∀ k, (verifyDh env t o).err ≠ some (.internal k)) ∧
    (∀ h, loadHistory t = .ok h →
      (verifyDh env t o).err = none ∨ (verifyDh env t o).err = some errDirVerifyFailed) ∧
    (verifyDh env t o).exitCode ∈ [0, 12, 31, 32, 33] := by
  refine ⟨?_, MhlProps.C09.verifyDh_never_internal env t o, ?_, MhlProps.C09.verifyDh_exitCode env t o⟩
  · rcases MhlProps.C09.verifyDh_total env t o with h | h | ⟨e, -, h, rfl | rfl | rfl⟩
    · exact Or.inl h
    all_goals exact Or.inr ⟨_, h⟩
  · intro h hl
    rcases MhlProps.C09.verifyDh_total env t o with h1 | h1 | ⟨e, he, -⟩
    · exact Or.inl h1
    · exact Or.inr h1
    · rw [hl] at he; cases he

/-! ### the vocabulary of 3. and 4. -/

/-- the ignore test `verify -dh` uses -/
def dhHit (env : Env) (h : Hist) (o : DhOpts) : RelPath → Bool :=
  env.hit (setPatterns (latestIgnore h.gens) o.ignoreCli o.ignoreFile)

/-- the recorded directory entry `e` carries the hashes the specification assigns to the node `c` found at `q`,
over the entries visible under `hit` -/
def EntryOk (env : Env) (hit : RelPath → Bool) (q : RelPath) (c : Node) (e : Entry) : Prop :=
  e.digest = (nodeHashes env.H env.D e.fmt hit q c).1 ∧ e.shash = some (nodeHashes env.H env.D e.fmt hit q c).2

/-- the entries `verify -dh` compares the visible sub-folder `q` with: `find_directory_hash_entries_for_path` in the
history `route` sends `q` to, for the path relative to that history's root -/
def comparedEntries (h : Hist) (q : RelPath) : List Entry :=
  dirEntriesFor (route h q).1 (posix (route h q).2)

/-- for the root folder of a NESTED history `c` these are `c`'s own entries under ".": `route` ends at `c` itself -/
theorem compared_nested_root_route (t : Node) (h : Hist) (hl : loadHistory t = .ok h) (hd : t.NamesDistinct)
    (c : Hist) (hc : c ∈ allDescendants h) :
    (route h c.root).1.root = c.root ∧ (route h c.root).2 = [] ∧
      comparedEntries h c.root = dirEntriesFor (route h c.root).1 "." := by
  have hg := loadHistory_histOK t h hl hd
  obtain ⟨h1, h2⟩ := owner_nested hg hc
  refine ⟨h1, h2, ?_⟩
  unfold comparedEntries
  rw [show (route h c.root).2 = [] from h2]
  rfl

/-- … and when no record of that history has the path or previous path "." (the tool never writes one), they are the
root hash entries of ALL its generations, each entry twice (once through the path map, once through the root-hash
branch of `find_directory_hash_entries_for_path`) — never the directory record the parent history keeps for the
folder -/
theorem compared_nested_root (c : Hist)
    (hclean : ∀ g ∈ c.gens, ∀ r ∈ g.gen.records, r.path ≠ "." ∧ r.prev ≠ some ".") :
    dirEntriesFor c "." = allRootEntries c ++ allRootEntries c :=
  dirEntriesFor_dot_clean c hclean

/-- what the traversal of `verify -dh` has marked when it ends, exactly: the format `f` is in `failedFormats` iff
(without `-ro`) some visible sub-folder has a compared entry of that format, a computed one, that is not `EntryOk` -/
theorem dhFold_failed_iff (env : Env) (t : Node) (h : Hist) (o : DhOpts) (hdir : t.isDir = true)
    (hnd : t.NamesDistinct) (f : String) :
    f ∈ (dhFold env t h o).failedFormats ↔
      (o.rootOnly = false ∧ f ∈ dhFormats h o.format ∧ ∃ q c e, (q, true) ∈ visiblePaths (dhHit env h o) t ∧
        t.at? q = some c ∧ e ∈ comparedEntries h q ∧ e.fmt = f ∧ ¬ EntryOk env (dhHit env h o) q c e) := by
  have := foldl_dhVisit_marks true env t h (dhFormats h o.format) o (dhHit env h o) f t hdir [] {} rfl hnd
    (by simp)
  rw [MhlProps.C09.dhFold_def]
  unfold dhHit at this ⊢
  simp only [marksOf, if_true] at this
  rw [this]
  simp only [List.not_mem_nil, false_or, ← visiblePaths_eq]
  constructor
  · rintro ⟨hro, q, hq, c, e, hat, he, hf, hne, htag⟩
    simp only [tagOf, if_true] at htag
    exact ⟨hro, htag ▸ hf, q, c, e, hq, hat, he, htag, hne⟩
  · rintro ⟨hro, hf, q, c, e, hq, hat, he, hef, hne⟩
    exact ⟨hro, q, hq, c, e, hat, he, hef ▸ hf, hne, by simp [tagOf, hef]⟩

/-- … and the text of a folder is in `dirMismatch` iff (without `-ro`) it is a visible sub-folder with such an entry -/
theorem dhFold_dirMismatch_iff (env : Env) (t : Node) (h : Hist) (o : DhOpts) (hdir : t.isDir = true)
    (hnd : t.NamesDistinct) (l : String) :
    l ∈ (dhFold env t h o).dirMismatch ↔
      (o.rootOnly = false ∧ ∃ q c e, (q, true) ∈ visiblePaths (dhHit env h o) t ∧ l = posix q ∧
        t.at? q = some c ∧ e ∈ comparedEntries h q ∧ e.fmt ∈ dhFormats h o.format ∧
        ¬ EntryOk env (dhHit env h o) q c e) := by
  have := foldl_dhVisit_marks false env t h (dhFormats h o.format) o (dhHit env h o) l t hdir [] {} rfl hnd
    (by simp)
  rw [MhlProps.C09.dhFold_def]
  unfold dhHit at this ⊢
  simp only [marksOf, Bool.false_eq_true, if_false] at this
  rw [this]
  simp only [List.not_mem_nil, false_or, ← visiblePaths_eq]
  constructor
  · rintro ⟨hro, q, hq, c, e, hat, he, hf, hne, htag⟩
    simp only [tagOf, Bool.false_eq_true, if_false] at htag
    exact ⟨hro, q, c, e, hq, htag.symm, hat, he, hf, hne⟩
  · rintro ⟨hro, q, c, e, hq, hl, hat, he, hf, hne⟩
    exact ⟨hro, q, hq, c, e, hat, he, hf, hne, by simp [tagOf, hl]⟩

/-- the root comparison: a root hash entry in a computed format mismatches the computed root hashes iff it is not
`EntryOk` for the tree -/
theorem root_mismatch_iff (env : Env) (t : Node) (h : Hist) (o : DhOpts) (hdir : t.isDir = true)
    (hnd : t.NamesDistinct) (e : Entry) :
    mismatches (dhFormats h o.format) (dhRootHashes env t h o) e = true ↔
      e.fmt ∈ dhFormats h o.format ∧ ¬ EntryOk env (dhHit env h o) [] t e := by
  rw [MhlProps.C09e2e.verifyDh_root_hashes_spec env t h o hdir hnd]
  have := mismatches_spec_iff env (dhHit env h o) (dhFormats h o.format) [] t e
  rw [ctxKeys_of_nodup _ (dhFormats_nodup h o.format)] at this
  exact this

/-! ### 3. every recorded entry matches the current tree ⇒ exit 0 -/

/-- 3a. `verifyDh_all_match_ok` (ARBITRARY nested trees, any options).  The tree loads as `h`; sibling names are
distinct.  If every entry `verify -dh` compares — for every visible sub-folder `q` the entries of
`comparedEntries h q` (the history that owns `q`, or for the root folder of a nested history that history's own root
hashes), and the root hashes of every generation of the root history — that is in a computed format carries the
hashes the specification assigns to the CURRENT tree, then `verify -dh` ends normally: `err = none`, exit code 0, and
no folder is reported (`dirMismatch = []`). -/
theorem verifyDh_all_match_ok (env : Env) (t : Node) (o : DhOpts) (h : Hist) (hl : loadHistory t = .ok h)
    (hdir : t.isDir = true) (hnd : t.NamesDistinct)
    (hsub : ∀ q c, (q, true) ∈ visiblePaths (dhHit env h o) t → t.at? q = some c →
      ∀ e ∈ comparedEntries h q, e.fmt ∈ dhFormats h o.format → EntryOk env (dhHit env h o) q c e)
    (hroot : ∀ g ∈ h.gens, ∀ e ∈ g.gen.rootHash.getD [], e.fmt ∈ dhFormats h o.format →
      EntryOk env (dhHit env h o) [] t e) :
    (verifyDh env t o).err = none ∧ (verifyDh env t o).exitCode = 0 ∧ (verifyDh env t o).report.dirMismatch = [] := by
  have hfold : (dhFold env t h o).failedFormats = [] ∧ (dhFold env t h o).dirMismatch = [] := by
    constructor
    · rw [List.eq_nil_iff_forall_not_mem]
      intro f hf
      obtain ⟨-, hfm, q, c, e, hq, hat, he, hef, hne⟩ := (dhFold_failed_iff env t h o hdir hnd f).1 hf
      exact hne (hsub q c hq hat e he (hef ▸ hfm))
    · rw [List.eq_nil_iff_forall_not_mem]
      intro l hlm
      obtain ⟨-, q, c, e, hq, -, hat, he, hfm, hne⟩ := (dhFold_dirMismatch_iff env t h o hdir hnd l).1 hlm
      exact hne (hsub q c hq hat e he hfm)
  have hfinal : dhFinal env t h o = dhFold env t h o := by
    unfold dhFinal
    apply dhCompare_of_no_mismatch
    intro e he
    obtain ⟨g, hg, heg⟩ := List.mem_flatMap.1 he
    cases hm : mismatches (dhFormats h o.format) (dhRootHashes env t h o) e with
    | false => rfl
    | true =>
      obtain ⟨hfm, hne⟩ := (root_mismatch_iff env t h o hdir hnd e).1 hm
      exact absurd (hroot g hg e heg hfm) hne
  have key : (verifyDh env t o).err = none := by
    rw [verifyDh_ok env t o h hl, hfinal, hfold.1]
    rfl
  refine ⟨key, by simp [Outcome.exitCode, key], ?_⟩
  rw [verifyDh_ok env t o h hl, hfinal]
  exact hfold.2

/-! ### 4. the exact condition for 12 on nested trees -/

/-- 4a. `verifyDh_12_iff_nested`: `verify -dh` ends with 12 EXACTLY when (no `-ro` and) for every computed format some
compared entry of that format differs from the specified hashes of the current tree: an entry of a visible
sub-folder (looked up in the history that owns it; for a nested root folder: that history's own root hashes) or a
root hash entry of the root history. -/
theorem verifyDh_12_iff_nested (env : Env) (t : Node) (o : DhOpts) (h : Hist) (hl : loadHistory t = .ok h)
    (hdir : t.isDir = true) (hnd : t.NamesDistinct) :
    (verifyDh env t o).err = some errDirVerifyFailed ↔
      (o.rootOnly = false ∧ ∀ f ∈ dhFormats h o.format,
        (∃ q c e, (q, true) ∈ visiblePaths (dhHit env h o) t ∧ t.at? q = some c ∧ e ∈ comparedEntries h q ∧
          e.fmt = f ∧ ¬ EntryOk env (dhHit env h o) q c e) ∨
        (∃ g ∈ h.gens, ∃ e ∈ g.gen.rootHash.getD [], e.fmt = f ∧ ¬ EntryOk env (dhHit env h o) [] t e)) := by
  rw [MhlProps.C09.verifyDh_12_iff env t o h hl]
  have hrootiff : ∀ f ∈ dhFormats h o.format,
      (∃ e ∈ allRootEntries h, e.fmt = f ∧ ∃ c' s',
        (dhRootHashes env t h o).find? (fun x => x.1 == f) = some (f, c', s') ∧ compareDir e c' s' = 1) ↔
      (∃ g ∈ h.gens, ∃ e ∈ g.gen.rootHash.getD [], e.fmt = f ∧ ¬ EntryOk env (dhHit env h o) [] t e) := by
    intro f hf
    constructor
    · rintro ⟨e, he, rfl, c', s', hfind, hcmp⟩
      obtain ⟨g, hg, heg⟩ := List.mem_flatMap.1 he
      have hm := (mismatches_iff (dhFormats h o.format) (dhRootHashes env t h o) e).2 ⟨hf, c', s', hfind, hcmp⟩
      exact ⟨g, hg, e, heg, rfl, ((root_mismatch_iff env t h o hdir hnd e).1 hm).2⟩
    · rintro ⟨g, hg, e, heg, rfl, hne⟩
      have hm := (root_mismatch_iff env t h o hdir hnd e).2 ⟨hf, hne⟩
      obtain ⟨-, c', s', hfind, hcmp⟩ := (mismatches_iff _ _ _).1 hm
      exact ⟨e, List.mem_flatMap.2 ⟨g, hg, heg⟩, rfl, c', s', hfind, hcmp⟩
  constructor
  · intro hall
    have hro : o.rootOnly = false := by
      obtain ⟨f, hf⟩ := List.exists_mem_of_ne_nil _ (dhFormats_ne_nil h o.format)
      rcases hall f hf with h1 | ⟨h1, -⟩
      · exact ((dhFold_failed_iff env t h o hdir hnd f).1 h1).1
      · exact h1
    refine ⟨hro, fun f hf => ?_⟩
    rcases hall f hf with h1 | ⟨-, h1⟩
    · obtain ⟨-, -, rest⟩ := (dhFold_failed_iff env t h o hdir hnd f).1 h1
      exact Or.inl rest
    · exact Or.inr ((hrootiff f hf).1 h1)
  · rintro ⟨hro, hall⟩ f hf
    rcases hall f hf with h1 | h1
    · exact Or.inl ((dhFold_failed_iff env t h o hdir hnd f).2 ⟨hro, hf, h1⟩)
    · exact Or.inr ⟨hro, (hrootiff f hf).2 h1⟩

/-- 4. `verifyDh_nested_mismatch_12`: if for EVERY verified format there is a visible directory with a compared entry
of that format — or a root hash entry of the root history — whose content or structure hash differs from the
specification of the current tree, `verify -dh` (without `-ro`) ends with 12.  For the root folder `q` of a nested
history the compared entries are that history's OWN root hashes (`compared_nested_root`), for any other folder the
directory records of the history that owns it, for the command root the root hashes of the root history. -/
theorem verifyDh_nested_mismatch_12 (env : Env) (t : Node) (o : DhOpts) (h : Hist) (hl : loadHistory t = .ok h)
    (hdir : t.isDir = true) (hnd : t.NamesDistinct) (hro : o.rootOnly = false)
    (hbad : ∀ f ∈ dhFormats h o.format,
      (∃ q c e, (q, true) ∈ visiblePaths (dhHit env h o) t ∧ t.at? q = some c ∧ e ∈ comparedEntries h q ∧
        e.fmt = f ∧ (e.digest ≠ (nodeHashes env.H env.D f (dhHit env h o) q c).1 ∨
          e.shash ≠ some (nodeHashes env.H env.D f (dhHit env h o) q c).2)) ∨
      (∃ g ∈ h.gens, ∃ e ∈ g.gen.rootHash.getD [], e.fmt = f ∧
        (e.digest ≠ (nodeHashes env.H env.D f (dhHit env h o) [] t).1 ∨
          e.shash ≠ some (nodeHashes env.H env.D f (dhHit env h o) [] t).2))) :
    (verifyDh env t o).err = some errDirVerifyFailed ∧ (verifyDh env t o).exitCode = 12 := by
  have key : (verifyDh env t o).err = some errDirVerifyFailed := by
    rw [verifyDh_12_iff_nested env t o h hl hdir hnd]
    refine ⟨hro, fun f hf => ?_⟩
    rcases hbad f hf with ⟨q, c, e, hq, hat, he, rfl, hne⟩ | ⟨g, hg, e, he, rfl, hne⟩
    · refine Or.inl ⟨q, c, e, hq, hat, he, rfl, ?_⟩
      rintro ⟨h1, h2⟩
      rcases hne with hne | hne
      · exact hne h1
      · exact hne h2
    · refine Or.inr ⟨g, hg, e, he, rfl, ?_⟩
      rintro ⟨h1, h2⟩
      rcases hne with hne | hne
      · exact hne h1
      · exact hne h2
  exact ⟨key, by rw [Outcome.exitCode, key]; decide⟩

/-! ### 2. what a sealing run records, read back from the reloaded tree -/

/-- the pattern list a run writes into the ROOT history's new generation, read back by the next command without
`-i`, is the effective list of the run: the next command sees exactly the same entries -/
theorem patterns_roundtrip (ex : Option (List String)) (cli file : List String) :
    setPatterns (some (setPatterns ex (setPatterns ex cli file) [])) [] [] = setPatterns ex cli file := by
  obtain ⟨rest, hrest⟩ := MhlProps.IgnoreNested.basePatterns_prefix_setPatterns ex cli file
  have hnd := MhlProps.C12.setPatterns_nodup ex cli file
  generalize setPatterns ex cli file = P at hrest hnd
  have hne : P ≠ [] := by
    intro h0
    rw [h0] at hrest
    exact MhlProps.IgnoreNested.basePatterns_ne_nil ex (List.append_eq_nil_iff.1 hrest).1
  have h1 : setPatterns ex P [] = P := by
    rw [MhlProps.IgnoreNested.setPatterns_eq, ← hrest, appendPatterns_extension _ _ (hrest ▸ hnd)]
    rfl
  rw [h1, MhlProps.IgnoreNested.setPatterns_eq, MhlProps.IgnoreNested.basePatterns_some_nodup P hne hnd]
  rfl

/-- the generations a run adds to the history rooted at `R`: the one written for it, if any -/
def newGens_n1 (ws : List Written) (R : RelPath) : List LGen :=
  match ws.find? (fun w => w.histRoot == R) with
  | some w => [⟨w.number, w.gen⟩]
  | none => []

theorem newGens_of_mem {ws : List Written} (hnd : (ws.map (·.histRoot)).Nodup) {w : Written} (hw : w ∈ ws) :
    newGens_n1 ws w.histRoot = [⟨w.number, w.gen⟩] := by
  unfold newGens_n1
  cases hf : ws.find? (fun w' => w'.histRoot == w.histRoot) with
  | none =>
    have := List.find?_eq_none.1 hf w hw
    simp at this
  | some w' =>
    have h1 : w' ∈ ws := List.mem_of_find?_eq_some hf
    have h2 : w'.histRoot = w.histRoot := by simpa using List.find?_some hf
    rw [List.inj_on_of_nodup_map hnd h1 hw h2]

theorem mem_newGens {ws : List Written} {R : RelPath} {g : LGen} (h : g ∈ newGens_n1 ws R) :
    ∃ w ∈ ws, w.histRoot = R ∧ g = ⟨w.number, w.gen⟩ := by
  unfold newGens_n1 at h
  cases hf : ws.find? (fun w' => w'.histRoot == R) with
  | none => rw [hf] at h; cases h
  | some w =>
    rw [hf] at h
    simp only [List.mem_singleton] at h
    exact ⟨w, List.mem_of_find?_eq_some hf, by simpa using List.find?_some hf, h⟩

section run
variable (env : Env) (t : Node) (o : CreateOpts) (rootHist : Hist) (hl : loadHistory t = .ok rootHist)
  (hd : t.NamesDistinct) (hn : t.NamesOk) (hdir : t.isDir = true) (hf : o.formats ≠ [])
  (hno : o.noDirHashes = false) (ws : List Written)
  (hcm : commit rootHist (cSession env t rootHist o) env.rootName env.stamp "in-place" = .ok ws)

/-- the formats that get directory hashes: the requested ones, sorted, each once -/
abbrev runKeys (o : CreateOpts) : List String := ctxKeys (isort strLe o.formats)

theorem mem_runKeys (o : CreateOpts) (f : String) : f ∈ runKeys o ↔ f ∈ o.formats := by
  unfold runKeys; rw [mem_ctxKeys, mem_isort]

include hl hd hn hdir hf hno hcm

/-- WHAT THE RUN WRITES ABOUT FOLDERS, in every history (root or nested, any depth).  For every written generation
`w`: no record has a previous path or the path "."; every DIRECTORY record denotes a folder of the tree
(`w.histRoot ++ q`, `r.path = posix q`) and carries exactly the entries of that folder's specified hashes in the
requested formats; and a root hash, if present, is that of the folder the history is rooted at. -/
theorem written_dir_entries : ∀ w ∈ ws,
    w.gen.Clean ∧ (w.gen.records.map (·.path)).Nodup ∧
    (∀ r ∈ w.gen.records, r.isDir = true → ∃ q c, r.path = posix q ∧ (∀ n ∈ q, NameOk n) ∧
      t.at? (w.histRoot ++ q) = some c ∧
      r.entries = dirEnts (specEntry env (cHit env rootHist o) (runKeys o) (w.histRoot ++ q) c).2) ∧
    (∀ es, w.gen.rootHash = some es → ∃ c, t.at? w.histRoot = some c ∧
      es = dirEnts (specEntry env (cHit env rootHist o) (runKeys o) w.histRoot c).2) := by
  have hfm := MhlProps.C08part.isort_ne_nil hf
  have hg := loadHistory_histOK t rootHist hl hd
  obtain ⟨-, hok, hs⟩ := MhlProps.C08part.fold_facts env t rootHist hl hd hn (isort strLe o.formats) hfm
    o.noDirHashes (setPatterns (latestIgnore rootHist.gens) o.ignoreCli o.ignoreFile) (cHit env rootHist o)
  have he := createFold_einv (env := env) hg hd hn hdir (isort strLe o.formats) hfm
    (setPatterns (latestIgnore rootHist.gens) o.ignoreCli o.ignoreFile) (cHit env rootHist o)
  have hsess : cSession env t rootHist o =
      ((traverse (cHit env rootHist o) [] t).foldl (createVisit env t rootHist (isort strLe o.formats) false)
        { session := { patterns := setPatterns (latestIgnore rootHist.gens) o.ignoreCli o.ignoreFile } }).session := by
    unfold MhlProps.C02rec.cSession
    rw [hno]
  rw [← MhlProps.C08part.cSession_eq] at hs
  rw [← hsess] at he
  have hpaths := (MhlProps.C08part.written_partition env t o rootHist hl hd hn hf ws hcm).2.1
  intro w hw
  obtain ⟨h, hh, hroot, hrecs, hrh⟩ := MhlProps.C08part.written_of env t o rootHist ws hcm hw
  refine ⟨?_, hpaths w hw, ?_, ?_⟩
  · intro r hr
    rw [hrecs] at hr
    obtain ⟨r0, hr0, rfl⟩ := List.mem_map.1 hr
    rw [finalRec_prev, finalRec_path]
    refine ⟨he.prev _ r0 hr0, ?_⟩
    obtain ⟨x, hx, q, hq0, hq, hqx, -⟩ := hs.core.recs _ r0 hr0
    have hqn : ∀ n ∈ q, NameOk n := fun n hn' => hok.names x hx n (mem_of_append_eq hqx n hn')
    rw [hq]
    exact fun h0 => hq0 ((posix_eq_dot hqn).1 h0)
  · intro r hr hrd
    rw [hrecs] at hr
    obtain ⟨r0, hr0, rfl⟩ := List.mem_map.1 hr
    rw [finalRec_isDir] at hrd
    obtain ⟨q, c, h1, h2, h3⟩ := he.recs _ r0 hr0 hrd
    refine ⟨q, c, by rw [finalRec_path, h1], ?_, by rw [hroot]; exact h2, ?_⟩
    · intro n hn'
      exact hn n (Node.at?_names t _ c h2 n (List.mem_append_right _ hn'))
    · unfold finalRec
      rw [if_pos hrd]
      simp only
      rw [h3, map_relabel_dirEnts, hroot]
  · intro es hes
    rw [hrh] at hes
    cases hrr : ((cSession env t rootHist o).get h.root).rootRec with
    | none => rw [hrr] at hes; cases hes
    | some rr =>
      rw [hrr, Option.bind_some] at hes
      obtain ⟨c, hc1, hc2⟩ := he.rootRecs _ rr hrr
      refine ⟨c, by rw [hroot]; exact hc1, ?_⟩
      split at hes
      · cases hes
      · rw [← Option.some.inj hes, hc2, hroot]

/-- … and which root hashes ARE written: the generation of the root history carries the specified hashes of the whole
tree as root hash, and the generation of every nested history whose root folder is visible carries those of that
folder -/
theorem written_root_hashes :
    (∃ w ∈ ws, w.histRoot = [] ∧
      w.gen.rootHash = some (dirEnts (specEntry env (cHit env rootHist o) (runKeys o) [] t).2)) ∧
    (∀ d c, (d, true) ∈ visiblePaths (cHit env rootHist o) t → t.at? d = some c →
      (∃ x ∈ allDescendants rootHist, x.root = d) →
      ∃ w ∈ ws, w.histRoot = d ∧
        w.gen.rootHash = some (dirEnts (specEntry env (cHit env rootHist o) (runKeys o) d c).2)) := by
  have hfm := MhlProps.C08part.isort_ne_nil hf
  have hg := loadHistory_histOK t rootHist hl hd
  have hE := createFold_einv (env := env) hg hd hn hdir (isort strLe o.formats) hfm
    (setPatterns (latestIgnore rootHist.gens) o.ignoreCli o.ignoreFile) (cHit env rootHist o)
  have hsess : cSession env t rootHist o =
      ((traverse (cHit env rootHist o) [] t).foldl (createVisit env t rootHist (isort strLe o.formats) false)
        { session := { patterns := setPatterns (latestIgnore rootHist.gens) o.ignoreCli o.ignoreFile } }).session := by
    unfold MhlProps.C02rec.cSession
    rw [hno]
  rw [← hsess] at hE
  obtain ⟨f0, hf0⟩ := List.exists_mem_of_ne_nil _ hf
  have hne : ∀ p c, dirEnts (specEntry env (cHit env rootHist o) (runKeys o) p c).2 ≠ [] := by
    intro p c h0
    obtain ⟨e, he, -⟩ := dirEnts_spec_mem env (cHit env rootHist o) (runKeys o) p c f0 ((mem_runKeys o f0).2 hf0)
    rw [h0] at he; cases he
  -- a history with a root record in the session is written with that record's entries as root hash
  have key : ∀ R, (∃ x ∈ walkPost rootHist, x.root = R) →
      ∀ l ∈ (cSession env t rootHist o).lists, l.root = R → ∀ rr, l.rootRec = some rr →
      ∀ c, t.at? R = some c → ∃ w ∈ ws, w.histRoot = R ∧
        w.gen.rootHash = some (dirEnts (specEntry env (cHit env rootHist o) (runKeys o) R c).2) := by
    intro R hR l hlm hlr rr hrr c hc
    have hRm : R ∈ (cSession env t rootHist o).roots := by rw [← hlr]; exact List.mem_map_of_mem hlm
    obtain ⟨w, hw, hwr, -, hrh⟩ := MhlProps.C08part.written_of_root env t o rootHist hl hd ws hcm hRm hR
    refine ⟨w, hw, hwr, ?_⟩
    obtain ⟨-, hs⟩ := (MhlProps.C08part.fold_facts env t rootHist hl hd hn (isort strLe o.formats) hfm
      o.noDirHashes (setPatterns (latestIgnore rootHist.gens) o.ignoreCli o.ignoreFile) (cHit env rootHist o)).2
    rw [← MhlProps.C08part.cSession_eq] at hs
    have hget : (cSession env t rootHist o).get R = l := by
      rw [← hlr]; exact Session.get_of_mem _ hs.core.nodup hlm
    have hrr' : ((cSession env t rootHist o).get R).rootRec = some rr := by rw [hget]; exact hrr
    obtain ⟨c', hc1, hc2⟩ := hE.rootRecs R rr hrr'
    rw [hc] at hc1
    cases hc1
    rw [hget, hrr, Option.bind_some, hc2] at hrh
    rw [hrh, if_neg (by simpa using hne R c)]
  constructor
  · obtain ⟨l, hlm, hlr, rr, hrr, -⟩ := MhlProps.C08part.root_record env t rootHist hl hd hn (isort strLe o.formats) hfm
      o.noDirHashes (setPatterns (latestIgnore rootHist.gens) o.ignoreCli o.ignoreFile) (cHit env rootHist o) hdir
    rw [← MhlProps.C08part.cSession_eq] at hlm
    exact key [] ⟨rootHist, (mem_walkPost _ _).2 rootHist.self_mem_all, hg.root⟩ l hlm hlr rr hrr t
      (Node.at?_nil' t)
  · intro d c hv hat ⟨x, hx, hxr⟩
    obtain ⟨-, hB⟩ := MhlProps.C08part.dir_partition env t rootHist hl hd hn (isort strLe o.formats) hfm
      o.noDirHashes (setPatterns (latestIgnore rootHist.gens) o.ignoreCli o.ignoreFile) (cHit env rootHist o) d hv
    obtain ⟨-, pr, -, -, -, l, hlm, hlr, rr, hrr, -⟩ := hB x hx hxr
    rw [← MhlProps.C08part.cSession_eq] at hlm
    exact key d ⟨x, (mem_walkPost _ _).2 (List.mem_cons_of_mem _ hx), hxr⟩ l hlm hlr rr hrr c hat

end run

/-! ### the reloaded tree -/

section reload
variable (env : Env) (t : Node) (o : CreateOpts) (rootHist : Hist) (hl : loadHistory t = .ok rootHist)
  (hd : t.NamesDistinct) (hdir : t.isDir = true) (ws : List Written)
  (hcm : commit rootHist (cSession env t rootHist o) env.rootName env.stamp "in-place" = .ok ws)
  (hlf : NoLineFeeds rootHist env.rootName env.stamp)
include hl hd hdir hcm hlf

/-- THE RELOADED TREE.  After the generations of the run are written into the `ascmhl` folders, the tree loads again,
as a history `h'` that routes every path exactly like the history before the run, and in which every history (root or
nested) carries its old generations followed by the one the run wrote for it (if it wrote one).  (`NoLineFeeds`: the
folder names of the histories and the time stamp are free of line feeds — else the new manifest's name is not
recognised, C06.) -/
theorem run_reloaded :
    ∃ h', loadHistory (applyWritten t ws) = .ok h' ∧
      (∀ p, (route h' p).1.root = (route rootHist p).1.root ∧ (route h' p).2 = (route rootHist p).2) ∧
      (∀ p, (route h' p).1.gens = (route rootHist p).1.gens ++ newGens_n1 ws (route rootHist p).1.root) ∧
      h'.gens = rootHist.gens ++ newGens_n1 ws [] ∧ (ws.map (·.histRoot)).Nodup := by
  obtain ⟨hnd, hst, hwx⟩ := commit_reload hl hd _ _ _ _ hcm hlf
  have htg : ∀ w ∈ ws, ∃ x ∈ rootHist.all, x.root = w.histRoot := fun w hw => by
    obtain ⟨x, hx, hxr, -⟩ := hwx w hw
    exact ⟨x, hx, hxr⟩
  obtain ⟨h', hl', hg', hset, hroute, hgens⟩ := reload_after_run t rootHist hl hd ws hnd hst htg
  have hg := loadHistory_histOK t rootHist hl hd
  have key : ∀ x' ∈ h'.all, ∀ x ∈ rootHist.all, x.root = x'.root → x'.gens = x.gens ++ newGens_n1 ws x.root := by
    intro x' hx' x hx hxr
    have hnode : ∃ nm cs hs, t.at? x.root = some (.dir nm cs hs) := by
      rcases List.mem_cons.1 hx with rfl | hxd
      · rw [hg.root, Node.at?_nil']
        obtain ⟨nm, cs, hs, rfl⟩ := isDir_dir hdir
        exact ⟨nm, cs, hs, rfl⟩
      · obtain ⟨d, s, hat, hds, -, -⟩ := loadHistory_stores t rootHist hl hd x hxd
        obtain ⟨nm, cs, rfl⟩ := hist_some_dir hds
        exact ⟨nm, cs, some s, hat⟩
    obtain ⟨nm, cs, hs, hat⟩ := hnode
    have h1 := hgens x' hx' nm cs hs (hxr ▸ hat)
    have h2 := gens_of_store t rootHist hl hd x hx nm cs hs hat
    rw [h1, ← hxr]
    unfold storeAfter newGens_n1
    cases hfind : ws.find? (fun w => w.histRoot == x.root) with
    | none => simp only; rw [h2, List.append_nil]
    | some w =>
      have hwm := List.mem_of_find?_eq_some hfind
      have hwr : w.histRoot = x.root := by simpa using List.find?_some hfind
      obtain ⟨x2, hx2, hx2r, hload⟩ := hwx w hwm
      have hxx : x2 = x := mem_all_root_inj hg.nodup hx2 hx (hx2r.trans hwr)
      subst hxx
      simp only [loadGensO]
      exact hload nm cs hs (hwr ▸ hat)
  refine ⟨h', hl', hroute, ?_, ?_, hnd⟩
  · intro p
    exact key _ (route_mem hg' p) _ (route_mem hg p) (hroute p).1.symm
  · have := key h' h'.self_mem_all rootHist rootHist.self_mem_all (hg.root.trans hg'.root.symm)
    rw [hg.root] at this
    exact this

end reload

section sealed
variable (env : Env) (t : Node) (o : CreateOpts) (rootHist : Hist) (hl : loadHistory t = .ok rootHist)
  (hd : t.NamesDistinct) (hn : t.NamesOk) (hdir : t.isDir = true) (hf : o.formats ≠ [])
  (hno : o.noDirHashes = false) (ws : List Written)
  (hcm : commit rootHist (cSession env t rootHist o) env.rootName env.stamp "in-place" = .ok ws)
  (hlf : NoLineFeeds rootHist env.rootName env.stamp)
include hl hd hn hdir hf hno hcm hlf

/-- 2. `recorded_dir_hashes_are_spec`.  `t` any tree whose history loads (nested histories to any depth), sibling names
distinct, names well-formed; folder-mode `create` WITH directory hashes in at least one format, its commit went
through and wrote `ws` (`(createFolder env t o).written = ws` when `o.detectRenaming = false`,
`MhlProps.C08part.create_written`).  Then the tree with the generations written back, `t' = applyWritten t ws`, loads
as a history `h'`, and
* for EVERY visible directory `d` (node `c`) the entries `verify -dh` will compare `d` with — `comparedEntries h' d =
  dirEntriesFor (route h' d).1 (posix (route h' d).2)` — contain, for every requested format, an entry carrying exactly
  the content and structure hash the specification `nodeHashes` assigns to `d` over the visible entries;
* the root history's new generation `w` is the last generation of `h'` and its root hash is, for every requested
  format, the specified hash of the whole tree. -/
theorem recorded_dir_hashes_are_spec :
    ∃ h', loadHistory (applyWritten t ws) = .ok h' ∧
      (∀ d c, (d, true) ∈ visiblePaths (cHit env rootHist o) t → t.at? d = some c → ∀ f ∈ o.formats,
        ∃ e ∈ comparedEntries h' d, e.fmt = f ∧ EntryOk env (cHit env rootHist o) d c e) ∧
      (∃ w ∈ ws, w.histRoot = [] ∧ h'.gens = rootHist.gens ++ [⟨w.number, w.gen⟩] ∧
        w.gen.rootHash = some (dirEnts (specHashes env (cHit env rootHist o) (runKeys o) [] t)) ∧
        ∀ f ∈ o.formats, ∃ e ∈ w.gen.rootHash.getD [], e.fmt = f ∧ EntryOk env (cHit env rootHist o) [] t e) := by
  obtain ⟨h', hl', hroute, hgens, hrootg, hnd⟩ := run_reloaded env t o rootHist hl hd hdir ws hcm hlf
  have hg := loadHistory_histOK t rootHist hl hd
  have hW := written_dir_entries env t o rootHist hl hd hn hdir hf hno ws hcm
  obtain ⟨hR0, hRn⟩ := written_root_hashes env t o rootHist hl hd hn hdir hf hno ws hcm
  have hspec : ∀ p c f, f ∈ o.formats →
      ∃ e ∈ dirEnts (specEntry env (cHit env rootHist o) (runKeys o) p c).2, e.fmt = f ∧
        EntryOk env (cHit env rootHist o) p c e := by
    intro p c f hfm
    obtain ⟨e, he, hef⟩ := dirEnts_spec_mem env (cHit env rootHist o) (runKeys o) p c f ((mem_runKeys o f).2 hfm)
    exact ⟨e, he, hef, (mem_dirEnts_spec env _ _ p c e he).2⟩
  refine ⟨h', hl', ?_, ?_⟩
  · intro d c hv hat f hfm
    unfold comparedEntries
    rw [dirEntriesFor_eq, hgens d, (hroute d).2]
    have hdok := (visible_names_ok _ t hn _ hv).2
    have happ := owner_append hg d
    by_cases hnest : ∃ x ∈ allDescendants rootHist, x.root = d
    · obtain ⟨w, hw, hwr, hrh⟩ := hRn d c hv hat hnest
      obtain ⟨x, hx, hxr⟩ := hnest
      obtain ⟨hown, hrel⟩ := owner_nested hg hx
      rw [hxr] at hown hrel
      obtain ⟨e, he, hef, heok⟩ := hspec d c f hfm
      refine ⟨e, ?_, hef, heok⟩
      rw [show (route rootHist d).1.root = d from hown, show (route rootHist d).2 = [] from hrel,
        ← hwr, newGens_of_mem hnd hw, mem_dirEntriesOfGens_append, mem_dirEntriesOfGens_single]
      exact Or.inr (Or.inr ⟨rfl, by rw [hrh]; exact he⟩)
    · obtain ⟨⟨w, hw, hwr, r, hr, hrp, hrd⟩, -⟩ :=
        (MhlProps.C08part.written_dirs env t o rootHist hl hd hn hf ws hcm d hv).1
          (fun x hx hxr => hnest ⟨x, hx, hxr⟩)
      obtain ⟨hclean, hpnd, hdirs, -⟩ := hW w hw
      obtain ⟨q, c', hq, hqok, hat', hents⟩ := hdirs r hr hrd
      have hrelok : ∀ n ∈ (route rootHist d).2, NameOk n := fun n hn' => hdok n (mem_of_append_eq happ n hn')
      have hqq : q = (route rootHist d).2 := posix_inj hqok hrelok (hq.symm.trans hrp)
      subst hqq
      have hwd : w.histRoot ++ (route rootHist d).2 = d := by
        rw [hwr]; exact happ
      rw [hwd, hat] at hat'
      cases hat'
      rw [hwd] at hents
      obtain ⟨e, he, hef, heok⟩ := hspec d c f hfm
      refine ⟨e, ?_, hef, heok⟩
      rw [← show w.histRoot = (route rootHist d).1.root from hwr, newGens_of_mem hnd hw,
        mem_dirEntriesOfGens_append, mem_dirEntriesOfGens_single]
      refine Or.inr (Or.inl ⟨r, ?_, hrd, by rw [hents]; exact he⟩)
      have := Generation.find_of_mem hclean hpnd hr
      rwa [hrp] at this
  · obtain ⟨w, hw, hwr, hrh⟩ := hR0
    refine ⟨w, hw, hwr, ?_, hrh, ?_⟩
    · rw [hrootg, ← hwr, newGens_of_mem hnd hw]
    · intro f hfm
      rw [hrh]
      exact hspec [] t f hfm

/-- the same for the command: what `create` (folder mode, no `-dr`) wrote -/
theorem recorded_dir_hashes_are_spec_create (hsf : o.singleFiles = []) (hdr : o.detectRenaming = false) :
    (create env t o).written = ws ∧
    ∃ h', loadHistory (applyWritten t (create env t o).written) = .ok h' ∧
      (∀ d c, (d, true) ∈ visiblePaths (cHit env rootHist o) t → t.at? d = some c → ∀ f ∈ o.formats,
        ∃ e ∈ comparedEntries h' d, e.fmt = f ∧ EntryOk env (cHit env rootHist o) d c e) := by
  have hwr := MhlProps.C08part.create_written env t o rootHist hsf hl hdr ws hcm
  refine ⟨hwr, ?_⟩
  rw [hwr]
  obtain ⟨h', h1, h2, -⟩ := recorded_dir_hashes_are_spec env t o rootHist hl hd hn hdir hf hno ws hcm hlf
  exact ⟨h', h1, h2⟩

end sealed

/-! ### 3. seal from the outer root, then `verify -dh` → 0 -/

/-- every directory entry recorded in the EXISTING generations — of whichever history `verify -dh` will look a
visible folder up in, and the root hashes of the root history — carries the hashes the specification assigns to the
current tree (over the entries visible under `hit`): "the older generations recorded the same tree" -/
def OldMatch (env : Env) (t : Node) (rootHist : Hist) (hit : RelPath → Bool) : Prop :=
  (∀ q c, (q, true) ∈ visiblePaths hit t → t.at? q = some c → ∀ e ∈ comparedEntries rootHist q,
    EntryOk env hit q c e) ∧
  (∀ g ∈ rootHist.gens, ∀ e ∈ g.gen.rootHash.getD [], EntryOk env hit [] t e)

/-- no generation of any history carries directory hashes yet (sealed with `--no_directory_hashes`, or never sealed) -/
def NoDirHashesYet (rootHist : Hist) : Prop :=
  ∀ x ∈ rootHist.all, ∀ g ∈ x.gens, g.gen.rootHash = none ∧ ∀ r ∈ g.gen.records, r.isDir = true → r.entries = []

theorem oldMatch_of_noDirHashesYet (env : Env) (t : Node) (rootHist : Hist) (hit : RelPath → Bool)
    (hl : loadHistory t = .ok rootHist) (hd : t.NamesDistinct) (h : NoDirHashesYet rootHist) :
    OldMatch env t rootHist hit := by
  have hg := loadHistory_histOK t rootHist hl hd
  constructor
  · intro q c _ _ e he
    exfalso
    unfold comparedEntries dirEntriesFor at he
    have hx := route_mem hg q
    rcases List.mem_append.1 he with he | he
    · obtain ⟨g, hgm, heg⟩ := List.mem_flatMap.1 he
      obtain ⟨hrh, hrecs⟩ := h _ hx g hgm
      cases hf : g.gen.find (posix (route rootHist q).2) with
      | none => rw [hf] at heg; cases heg
      | some r =>
        rw [hf] at heg
        simp only at heg
        cases hrd : r.isDir with
        | false => rw [hrd] at heg; cases heg
        | true =>
          rw [hrd] at heg
          simp only [if_true] at heg
          unfold Generation.find at hf
          have hm := List.mem_of_find?_eq_some hf
          rw [hrh] at hm
          simp only [List.nil_append, List.mem_reverse] at hm
          rw [hrecs r hm hrd] at heg
          cases heg
    · split at he
      · obtain ⟨g, hgm, heg⟩ := List.mem_flatMap.1 he
        rw [(h _ hx g hgm).1] at heg
        cases heg
      · cases he
  · intro g hgm e he
    rw [(h rootHist rootHist.self_mem_all g hgm).1] at he
    cases he

section sealed3
variable (env : Env) (t : Node) (o : CreateOpts) (rootHist : Hist) (hl : loadHistory t = .ok rootHist)
  (hd : t.NamesDistinct) (hn : t.NamesOk) (hdir : t.isDir = true) (hf : o.formats ≠ [])
  (hno : o.noDirHashes = false) (ws : List Written)
  (hcm : commit rootHist (cSession env t rootHist o) env.rootName env.stamp "in-place" = .ok ws)
  (hlf : NoLineFeeds rootHist env.rootName env.stamp)
include hl hd hn hdir hf hno hcm hlf

omit hdir hno in
/-- the ignore test the next `verify -dh` (without `-i`) uses on the sealed tree is that of the sealing run -/
theorem dhHit_after_run (h' : Hist) (w : Written) (hw : w ∈ ws) (hwr : w.histRoot = [])
    (hgens : h'.gens = rootHist.gens ++ [⟨w.number, w.gen⟩]) :
    dhHit env h' {} = cHit env rootHist o := by
  have hfm := MhlProps.C08part.isort_ne_nil hf
  have hg := loadHistory_histOK t rootHist hl hd
  obtain ⟨-, -, hs⟩ := MhlProps.C08part.fold_facts env t rootHist hl hd hn (isort strLe o.formats) hfm
    o.noDirHashes (setPatterns (latestIgnore rootHist.gens) o.ignoreCli o.ignoreFile) (cHit env rootHist o)
  rw [← MhlProps.C08part.cSession_eq] at hs
  obtain ⟨x, hx, hxr, hig⟩ := MhlProps.IgnoreNested.commit_ignore rootHist _ _ _ _ _ ws hcm w hw
  have hxx : x = rootHist := mem_all_root_inj hg.nodup ((mem_walkPost _ _).1 hx) rootHist.self_mem_all
    (by rw [← hxr, hwr, hg.root])
  subst hxx
  unfold dhHit MhlProps.C02rec.cHit
  rw [hgens, MhlProps.IgnoreNested.latestIgnore_append]
  show env.hit (setPatterns (some w.gen.ignore) [] []) = _
  rw [hig, hs.core.pats, patterns_roundtrip]

/-- 3 (the invariant).  `OldMatch` is KEPT by a sealing run: after the run the tree loads again, the next
`verify -dh` uses the ignore test of the run, and EVERY recorded directory entry of the reloaded tree — the older
ones and the ones just written, in every history — matches the specification of the tree.  (So any number of sealing
runs from the outer root with the same patterns keeps `verify -dh` at 0.) -/
theorem oldMatch_after_nested_seal (hold : OldMatch env t rootHist (cHit env rootHist o)) :
    ∃ h', loadHistory (applyWritten t ws) = .ok h' ∧ dhHit env h' {} = cHit env rootHist o ∧
      OldMatch env (applyWritten t ws) h' (cHit env rootHist o) := by
  obtain ⟨h', hl', hroute, hgens, hrootg, hnd⟩ := run_reloaded env t o rootHist hl hd hdir ws hcm hlf
  have hg := loadHistory_histOK t rootHist hl hd
  have hW := written_dir_entries env t o rootHist hl hd hn hdir hf hno ws hcm
  obtain ⟨⟨w0, hw0, hw0r, hrh0⟩, -⟩ := written_root_hashes env t o rootHist hl hd hn hdir hf hno ws hcm
  have hsf := sameFiles_applyWritten_n1 t ws
  have hgens0 : h'.gens = rootHist.gens ++ [⟨w0.number, w0.gen⟩] := by
    rw [hrootg, ← hw0r, newGens_of_mem hnd hw0]
  have hhit := dhHit_after_run env t o rootHist hl hd hn hf ws hcm hlf h' w0 hw0 hw0r hgens0
  -- a root hash entry of a generation of the run is the specified one of the folder the history is rooted at
  have hnewroot : ∀ w ∈ ws, ∀ c, t.at? w.histRoot = some c → ∀ e ∈ w.gen.rootHash.getD [],
      EntryOk env (cHit env rootHist o) w.histRoot c e := by
    intro w hw c hc e he
    cases hes : w.gen.rootHash with
    | none => rw [hes] at he; cases he
    | some es =>
      rw [hes] at he
      obtain ⟨c', hc1, hc2⟩ := (hW w hw).2.2.2 es hes
      rw [hc] at hc1
      cases hc1
      rw [hc2] at he
      exact (mem_dirEnts_spec env _ _ _ c e he).2
  refine ⟨h', hl', hhit, ?_, ?_⟩
  · rw [hsf.visiblePaths]
    intro q c' hv hat' e he
    obtain ⟨c, hat⟩ : ∃ c, t.at? q = some c := by
      cases hc : t.at? q with
      | none => rw [((hsf.at? q).1).2 hc] at hat'; cases hat'
      | some c => exact ⟨c, rfl⟩
    have hcc := (hsf.at? q).2 c c' hat hat'
    have hok : EntryOk env (cHit env rootHist o) q c e := by
      unfold comparedEntries at he
      rw [dirEntriesFor_eq, hgens q, (hroute q).2, mem_dirEntriesOfGens_append] at he
      rcases he with he | he
      · exact hold.1 q c hv hat e he
      · have hdok := (visible_names_ok _ t hn _ hv).2
        have happ := owner_append hg q
        have hrelok : ∀ n ∈ (route rootHist q).2, NameOk n := fun n hn' => hdok n (mem_of_append_eq happ n hn')
        cases hng : newGens_n1 ws (route rootHist q).1.root with
        | nil => rw [hng] at he; exact absurd he (mem_dirEntriesOfGens_nil _ _)
        | cons g0 gs =>
          obtain ⟨w, hw, hwr, hg0⟩ := mem_newGens (hng ▸ List.mem_cons_self : g0 ∈ newGens_n1 ws _)
          rw [← hwr, newGens_of_mem hnd hw, mem_dirEntriesOfGens_single] at he
          obtain ⟨hclean, hpnd, hdirs, -⟩ := hW w hw
          have hwq : w.histRoot ++ (route rootHist q).2 = q := by rw [hwr]; exact happ
          -- the entries found under "." are the root hash
          have hdot : (route rootHist q).2 = [] → e ∈ w.gen.rootHash.getD [] → EntryOk env (cHit env rootHist o) q c e := by
            intro hrel he'
            have hwq' : w.histRoot = q := by rw [hrel, List.append_nil] at hwq; exact hwq
            have := hnewroot w hw c (hwq' ▸ hat) e he'
            rwa [hwq'] at this
          rcases he with ⟨r, hfind, hrd, her⟩ | ⟨hp, he'⟩
          · by_cases hrel : (route rootHist q).2 = []
            · rw [hrel, show posix [] = "." from rfl, Generation.find_dot_clean hclean] at hfind
              cases hes : w.gen.rootHash with
              | none => rw [hes] at hfind; cases hfind
              | some es =>
                rw [hes] at hfind
                simp only [Option.map_some, Option.some.injEq] at hfind
                subst hfind
                exact hdot hrel (by rw [hes]; exact her)
            · have hpd : posix (route rootHist q).2 ≠ "." := fun h0 => hrel ((posix_eq_dot hrelok).1 h0)
              obtain ⟨hrm, hrp⟩ := Generation.find_clean hclean hpd hfind
              obtain ⟨q', c'', hq', hq'ok, hat'', hents⟩ := hdirs r hrm hrd
              have hqq : q' = (route rootHist q).2 := posix_inj hq'ok hrelok (hq'.symm.trans hrp)
              subst hqq
              rw [hwq, hat] at hat''
              cases hat''
              rw [hwq] at hents
              rw [hents] at her
              exact (mem_dirEnts_spec env _ _ q c e her).2
          · exact hdot ((posix_eq_dot hrelok).1 hp) he'
    unfold EntryOk at hok ⊢
    rw [hcc.nodeHashes]
    exact hok
  · intro g hgm e he
    have hok : EntryOk env (cHit env rootHist o) [] t e := by
      rw [hgens0, List.mem_append] at hgm
      rcases hgm with hgm | hgm
      · exact hold.2 g hgm e he
      · simp only [List.mem_singleton] at hgm
        subst hgm
        have := hnewroot w0 hw0 t (by rw [hw0r]; exact Node.at?_nil' t) e he
        rwa [hw0r] at this
    unfold EntryOk at hok ⊢
    rw [hsf.nodeHashes]
    exact hok

/-- 3. `verifyDh_after_nested_seal` (fully general).  `t` any tree whose history loads — nested histories to any
depth, each possibly sealed on its own before (any number of generations) —; every directory entry the EXISTING
generations record matches the specification of the current tree over the entries visible in this run (`OldMatch`;
vacuous when no generation has directory hashes yet, `NoDirHashesYet`).  One sealing run from the outer root
(folder mode, directory hashes, at least one format) whose commit went through; the generations are written into the
`ascmhl` folders.  Then `verify -dh` (no options) on the result ends normally: `err = none`, exit code 0, no folder
reported.

Why: the run records the specified hashes for every visible folder in the history that owns it, for the root folder
of every nested history as that history's root hash, and for the tree as the root history's root hash
(`written_dir_entries`); the tree reloads with the same routing and the new generations appended (`run_reloaded`);
the pattern list read back is that of the run (`dhHit_after_run`), and the tree differs in `ascmhl` folders only, so
the same entries are visible and the specified hashes are the same (`SameFilesDh`); hence every compared entry — old
(`OldMatch`) or new — matches (`oldMatch_after_nested_seal`), and `verifyDh_all_match_ok` applies. -/
theorem verifyDh_after_nested_seal (hold : OldMatch env t rootHist (cHit env rootHist o)) :
    (verifyDh env (applyWritten t ws) {}).err = none ∧ (verifyDh env (applyWritten t ws) {}).exitCode = 0 ∧
    (verifyDh env (applyWritten t ws) {}).report.dirMismatch = [] := by
  obtain ⟨h', hl', hhit, hm⟩ := oldMatch_after_nested_seal env t o rootHist hl hd hn hdir hf hno ws hcm hlf hold
  have hsf := sameFiles_applyWritten_n1 t ws
  apply verifyDh_all_match_ok env _ {} h' hl' (hsf.isDir.trans hdir) (hsf.namesDistinct.2 hd)
  · rw [hhit]
    exact fun q c hq hat e he _ => hm.1 q c hq hat e he
  · rw [hhit]
    exact fun g hg e he _ => hm.2 g hg e he

/-- 3 (simplest setting): no history of the tree has directory hashes yet — e.g. nested histories that were sealed
with `--no_directory_hashes`, or `ascmhl` folders without a generation — and the tree is sealed from the outer root:
`verify -dh` ends with 0 -/
theorem verifyDh_after_first_nested_seal (hnone : NoDirHashesYet rootHist) :
    (verifyDh env (applyWritten t ws) {}).err = none ∧ (verifyDh env (applyWritten t ws) {}).exitCode = 0 ∧
    (verifyDh env (applyWritten t ws) {}).report.dirMismatch = [] :=
  verifyDh_after_nested_seal env t o rootHist hl hd hn hdir hf hno ws hcm hlf
    (oldMatch_of_noDirHashesYet env t rootHist _ hl hd hnone)

/-- 3 for the command `create` (folder mode, no `-dr`) -/
theorem verifyDh_after_nested_create (hsf : o.singleFiles = []) (hdr : o.detectRenaming = false)
    (hold : OldMatch env t rootHist (cHit env rootHist o)) :
    (verifyDh env (applyWritten t (create env t o).written) {}).exitCode = 0 := by
  rw [MhlProps.C08part.create_written env t o rootHist hsf hl hdr ws hcm]
  exact (verifyDh_after_nested_seal env t o rootHist hl hd hn hdir hf hno ws hcm hlf hold).2.1

/-- … and for the NEXT sealing run from the same root without new ignore options (any formats): its hypothesis
`OldMatch` holds on the sealed tree.  So 3 can be iterated: seal, reseal, …, `verify -dh` → 0 each time. -/
theorem oldMatch_for_next_run (hold : OldMatch env t rootHist (cHit env rootHist o)) (o₂ : CreateOpts)
    (hi : o₂.ignoreCli = [] ∧ o₂.ignoreFile = []) :
    ∃ h', loadHistory (applyWritten t ws) = .ok h' ∧ OldMatch env (applyWritten t ws) h' (cHit env h' o₂) := by
  obtain ⟨h', hl', hhit, hm⟩ := oldMatch_after_nested_seal env t o rootHist hl hd hn hdir hf hno ws hcm hlf hold
  have : cHit env h' o₂ = dhHit env h' {} := by
    unfold MhlProps.C02rec.cHit dhHit
    rw [hi.1, hi.2]
  refine ⟨h', hl', ?_⟩
  rw [this, hhit]
  exact hm

end sealed3

/-! ### 4'. end to end: a change that reaches the root hash is detected on the sealed nested tree -/

section detect
variable (env : Env) (t : Node) (o : CreateOpts) (rootHist : Hist) (hl : loadHistory t = .ok rootHist)
  (hd : t.NamesDistinct) (hn : t.NamesOk) (hdir : t.isDir = true) (hf : o.formats ≠ [])
  (hno : o.noDirHashes = false) (ws : List Written)
  (hcm : commit rootHist (cSession env t rootHist o) env.rootName env.stamp "in-place" = .ok ws)
  (hlf : NoLineFeeds rootHist env.rootName env.stamp)
include hl hd hn hdir hf hno hcm hlf

/-- 4'. `verifyDh_detects_change_after_nested_seal`.  The setting of 3 (old generations match, one sealing run from the
outer root).  `tc` is a tree with the SAME `ascmhl` folders as the sealed tree (it loads as the same history) but
otherwise arbitrary — files altered, added, removed anywhere, also below nested histories —, sibling names distinct.
If its ROOT content hash differs from the sealed one in every format that is requested or occurs in an older root
hash of the root history, `verify -dh` ends with 12.  (The hypothesis is on the root content hash, i.e. the change must
have propagated to the root, which it does for a collision-free hash layer, C07; by `verifyDh_12_iff_nested` a
difference at ANY visible folder in every verified format does the same.) -/
theorem verifyDh_detects_change_after_nested_seal (hold : OldMatch env t rootHist (cHit env rootHist o))
    (tc : Node) (hsame : loadHistory tc = loadHistory (applyWritten t ws))
    (hcdir : tc.isDir = true) (hcd : tc.NamesDistinct)
    (hdiff : ∀ f, (f ∈ o.formats ∨ ∃ g ∈ rootHist.gens, ∃ e ∈ g.gen.rootHash.getD [], e.fmt = f) →
      (nodeHashes env.H env.D f (cHit env rootHist o) [] tc).1 ≠
        (nodeHashes env.H env.D f (cHit env rootHist o) [] t).1) :
    (verifyDh env tc {}).err = some errDirVerifyFailed ∧ (verifyDh env tc {}).exitCode = 12 := by
  obtain ⟨h', hl', -, -, hrootg, hnd⟩ := run_reloaded env t o rootHist hl hd hdir ws hcm hlf
  obtain ⟨⟨w0, hw0, hw0r, hrh0⟩, -⟩ := written_root_hashes env t o rootHist hl hd hn hdir hf hno ws hcm
  have hgens0 : h'.gens = rootHist.gens ++ [⟨w0.number, w0.gen⟩] := by
    rw [hrootg, ← hw0r, newGens_of_mem hnd hw0]
  have hhit := dhHit_after_run env t o rootHist hl hd hn hf ws hcm hlf h' w0 hw0 hw0r hgens0
  rw [hl'] at hsame
  obtain ⟨f0, hf0⟩ := List.exists_mem_of_ne_nil _ hf
  have hsome : ∃ g ∈ h'.gens, ∃ e, e ∈ g.gen.rootHash.getD [] := by
    obtain ⟨e, he, -⟩ := dirEnts_spec_mem env (cHit env rootHist o) (runKeys o) [] t f0 ((mem_runKeys o f0).2 hf0)
    exact ⟨⟨w0.number, w0.gen⟩, by rw [hgens0]; simp, e, by rw [hrh0]; exact he⟩
  apply verifyDh_nested_mismatch_12 env tc {} h' hsame hcdir hcd rfl
  intro f hfm
  obtain ⟨g, hgm, e, he, hef⟩ := ((MhlProps.C09.dhFormats_spec h' hsome).2.2 f).1 hfm
  refine Or.inr ⟨g, hgm, e, he, hef, Or.inl ?_⟩
  rw [hhit]
  rw [hgens0, List.mem_append] at hgm
  rcases hgm with hgm | hgm
  · have h1 := (hold.2 g hgm e he).1
    rw [h1, hef]
    exact Ne.symm (hdiff f (Or.inr ⟨g, hgm, e, he, hef⟩))
  · simp only [List.mem_singleton] at hgm
    subst hgm
    simp only [hrh0, Option.getD_some] at he
    obtain ⟨hk, h1, -⟩ := mem_dirEnts_spec env (cHit env rootHist o) (runKeys o) [] t e he
    rw [h1, hef]
    exact Ne.symm (hdiff f (Or.inl ((mem_runKeys o f).1 (hef ▸ hk))))

end detect

/-! ### 5. closed examples (evaluated by `decide +kernel`) and non-vacuity of the general theorems -/

section Examples
open MhlProps.C04nested

set_option maxRecDepth 100000

/-- 5a. C04nested's TWO-LEVEL tree (`A/` sealed on its own, grafted, sealed from the outer root = `big2`; resealed
without directory hashes = `big3`): `verify -dh` from the outer root ends with 0 and reports no folder -/
theorem nested_two_level_dh :
    (verifyDh envR big2 {}).exitCode = 0 ∧ (verifyDh envR big2 {}).report.dirMismatch = [] ∧
    (verifyDh envR big3 {}).exitCode = 0 := by decide +kernel

/-- 5b. … and its THREE-LEVEL tree (`A/sub/` sealed on its own, then `A/`, then the outer root = `c2`; `c3` resealed) -/
theorem nested_three_level_dh :
    (verifyDh envR c2 {}).exitCode = 0 ∧ (verifyDh envR c2 {}).report.dirMismatch = [] ∧
    (verifyDh envR c3 {}).exitCode = 0 := by decide +kernel

/-- the toy hashing layer of C04nested decodes every digest to the empty byte string, so every directory hash is
`fmt:0` and NO change below a folder can reach a directory hash: the altered tree of C04nested still verifies.  The
negative examples below therefore use a layer whose directory hashes depend on the content (`envP`). -/
example : (verifyDh envR big2Altered {}).exitCode = 0 := by decide +kernel

/-- a hashing layer that propagates: the "digest" is the format name followed by the sum of the bytes, decoded as its
own UTF-8 bytes; a path is ignored when one of its components is literally in the pattern list -/
def envP : Env :=
  { H := fun f c => f ++ toString (c.foldl (fun a u => a + u.toNat) 0), D := fun _ s => some s.toUTF8.toList,
    hit := fun pats p => p.any fun s => pats.contains s, rootName := "root", stamp := "2020-01-16_091500Z" }
def envPA : Env := { envP with rootName := "A" }
def envPS : Env := { envP with rootName := "sub" }

/-- C04nested's two-level construction with `envP`: `A/` sealed on its own (md5), grafted into the big tree, sealed
from the outer root (xxh64 + md5); then `A/x.mov` altered -/
def psealedA : Node := applyWritten treeA (createFolder envPA treeA oA).written
def pbig1 : Node := Node.updateAt (fun _ => psealedA) big0 ["A"]
def pbig2 : Node := applyWritten pbig1 (createFolder envP pbig1 o1).written
def pbig2Alt : Node := Node.updateAt (setContent [1, 2, 3, 4]) pbig2 ["A", "x.mov"]

/-- … and the three-level construction: `A/sub/` sealed on its own (sha1), `A/` sealed on its own (md5), sealed from
the outer root; then `A/sub/s` (two histories deep) altered -/
def psealedS : Node := applyWritten treeS (createFolder envPS treeS oS).written
def pa1 : Node := Node.updateAt (fun _ => psealedS) treeA3 ["sub"]
def pa2 : Node := applyWritten pa1 (createFolder envPA pa1 oA).written
def pc1 : Node := Node.updateAt (fun _ => pa2) c0 ["A"]
def pc2 : Node := applyWritten pc1 (createFolder envP pc1 o1).written
def pc2Alt : Node := Node.updateAt (setContent [6, 6, 6]) pc2 ["A", "sub", "s"]

/-- 5c. two levels, propagating layer: seal from the outer root, `verify -dh` → 0; alter a file below the nested
history → 12, and the nested root folder and the command root are reported -/
theorem nested_two_level_dh_detects :
    histShape pbig2 = some [([], [1]), (["A"], [1, 2])] ∧
    (verifyDh envP pbig2 {}).exitCode = 0 ∧ (verifyDh envP pbig2 {}).report.dirMismatch = [] ∧
    (verifyDh envP pbig2Alt {}).exitCode = 12 ∧ (verifyDh envP pbig2Alt {}).report.dirMismatch = ["A", "."] := by
  decide +kernel

/-- 5d. three levels: → 0; a file two histories deep altered → 12; every folder above it is reported -/
theorem nested_three_level_dh_detects :
    histShape pc2 = some [([], [1]), (["A"], [1, 2]), (["A", "sub"], [1, 2, 3])] ∧
    (verifyDh envP pc2 {}).exitCode = 0 ∧ (verifyDh envP pc2 {}).report.dirMismatch = [] ∧
    (verifyDh envP pc2Alt {}).exitCode = 12 ∧
    (verifyDh envP pc2Alt {}).report.dirMismatch = ["A/sub", "A", "."] := by
  decide +kernel

/-- WHICH entries are compared for the root folder `A` of the nested history: `A`'s OWN root hashes of both its
generations, each twice (`compared_nested_root`) — not the record `A` of the root history's generation; for
`A/sub` the directory records of the nested history under the relative name `sub`; the formats are those of the
ROOT history's root hashes, so in the three-level tree the sha1 entries of `A/sub` are not compared -/
example :
    (route (loadD pbig2) ["A"]).1.root = ["A"] ∧ (route (loadD pbig2) ["A"]).2 = [] ∧
    comparedEntries (loadD pbig2) ["A"] =
      allRootEntries (route (loadD pbig2) ["A"]).1 ++ allRootEntries (route (loadD pbig2) ["A"]).1 ∧
    (allRootEntries (route (loadD pbig2) ["A"]).1).map (fun e => (e.fmt, e.digest)) =
      [("md5", "md51046"), ("md5", "md51046"), ("xxh64", "xxh641618")] ∧
    (route (loadD pbig2) ["A", "sub"]).1.root = ["A"] ∧ posix (route (loadD pbig2) ["A", "sub"]).2 = "sub" ∧
    (comparedEntries (loadD pbig2) ["A", "sub"]).map (·.fmt) = ["md5", "md5", "xxh64"] ∧
    dhFormats (loadD pc2) none = ["md5", "xxh64"] ∧
    (comparedEntries (loadD pc2) ["A", "sub"]).map (·.fmt) =
      ["sha1", "md5", "md5", "xxh64", "sha1", "md5", "md5", "xxh64"] := by
  decide +kernel

/-! #### the hypotheses of the general theorems hold on these trees -/

theorem pload1 : loadHistory pbig1 = .ok (loadD pbig1) := loadD_spec pbig1 (by decide +kernel)
theorem pload2 : loadHistory pbig2 = .ok (loadD pbig2) := loadD_spec pbig2 (by decide +kernel)
theorem pload2Alt : loadHistory pbig2Alt = .ok (loadD pbig2Alt) := loadD_spec pbig2Alt (by decide +kernel)
theorem pbig1_distinct : pbig1.NamesDistinct := namesDistinctB_spec _ (by decide +kernel)
theorem pbig2_distinct : pbig2.NamesDistinct := namesDistinctB_spec _ (by decide +kernel)
theorem pbig2Alt_distinct : pbig2Alt.NamesDistinct := namesDistinctB_spec _ (by decide +kernel)
theorem pbig1_namesOk : pbig1.NamesOk := by decide +kernel

/-- the commit of the outer sealing run goes through and writes two generations -/
theorem p1_commit : ∃ ws, commit (loadD pbig1) (cSession envP pbig1 (loadD pbig1) o1) envP.rootName envP.stamp
    "in-place" = .ok ws ∧ ws.length = 2 := by
  have h : (match commit (loadD pbig1) (cSession envP pbig1 (loadD pbig1) o1) envP.rootName envP.stamp "in-place" with
      | .ok ws => ws.length | .error _ => 0) = 2 := by decide +kernel
  cases hc : commit (loadD pbig1) (cSession envP pbig1 (loadD pbig1) o1) envP.rootName envP.stamp "in-place" with
  | ok ws => rw [hc] at h; exact ⟨ws, rfl, h⟩
  | error e => rw [hc] at h; cases h

theorem p1_noLineFeeds : NoLineFeeds (loadD pbig1) envP.rootName envP.stamp := by
  unfold NoLineFeeds
  decide +kernel

/-- an executable test for `OldMatch` -/
def entryOkB (env : Env) (hit : RelPath → Bool) (q : RelPath) (c : Node) (e : Entry) : Bool :=
  decide (e.digest = (nodeHashes env.H env.D e.fmt hit q c).1) &&
    decide (e.shash = some (nodeHashes env.H env.D e.fmt hit q c).2)

def oldMatchB (env : Env) (t : Node) (h : Hist) (hit : RelPath → Bool) : Bool :=
  ((visiblePaths hit t).all fun x => !x.2 || match t.at? x.1 with
      | some c => (comparedEntries h x.1).all (entryOkB env hit x.1 c)
      | none => true) &&
  h.gens.all fun g => (g.gen.rootHash.getD []).all (entryOkB env hit [] t)

theorem oldMatchB_spec (env : Env) (t : Node) (h : Hist) (hit : RelPath → Bool)
    (hb : oldMatchB env t h hit = true) : OldMatch env t h hit := by
  unfold oldMatchB at hb
  simp only [Bool.and_eq_true, List.all_eq_true] at hb
  obtain ⟨h1, h2⟩ := hb
  constructor
  · intro q c hv hat e he
    have := h1 (q, true) hv
    simp only [Bool.not_true, Bool.false_or, hat, List.all_eq_true] at this
    have := this e he
    simpa [entryOkB, EntryOk] using this
  · intro g hg e he
    have := h2 g hg e he
    simpa [entryOkB, EntryOk] using this

/-- the older generation of `A/` (sealed on its own, WITH directory hashes: not the vacuous case) recorded the same
tree -/
theorem p1_oldMatch : OldMatch envP pbig1 (loadD pbig1) (cHit envP (loadD pbig1) o1) :=
  oldMatchB_spec _ _ _ _ (by decide +kernel)

example : (allDescendants (loadD pbig1)).map (fun x => x.gens.map fun g => (g.gen.rootHash.getD []).map (·.fmt)) =
    [[["md5"]]] := by decide +kernel

/-- all hypotheses of 2. and 3. hold for the outer sealing run of the grafted tree -/
example : loadHistory pbig1 = .ok (loadD pbig1) ∧ pbig1.NamesDistinct ∧ pbig1.NamesOk ∧ pbig1.isDir = true ∧
    o1.formats ≠ [] ∧ o1.noDirHashes = false ∧
    (∃ ws, commit (loadD pbig1) (cSession envP pbig1 (loadD pbig1) o1) envP.rootName envP.stamp "in-place" = .ok ws) ∧
    NoLineFeeds (loadD pbig1) envP.rootName envP.stamp ∧
    OldMatch envP pbig1 (loadD pbig1) (cHit envP (loadD pbig1) o1) :=
  ⟨pload1, pbig1_distinct, pbig1_namesOk, rfl, by decide, rfl,
    by obtain ⟨ws, h, -⟩ := p1_commit; exact ⟨ws, h⟩, p1_noLineFeeds, p1_oldMatch⟩

/-- what the run wrote is what `createFolder` returns -/
theorem p1_written (ws : List Written)
    (hcm : commit (loadD pbig1) (cSession envP pbig1 (loadD pbig1) o1) envP.rootName envP.stamp "in-place" = .ok ws) :
    pbig2 = applyWritten pbig1 ws := by
  unfold pbig2
  rw [createFolder_eq envP pbig1 o1 _ pload1 rfl ws hcm]

/-- 3. applied: `verify -dh` on the sealed two-level tree ends with 0 — by the THEOREM (it agrees with the
evaluation in `nested_two_level_dh_detects`) -/
example : (verifyDh envP pbig2 {}).exitCode = 0 ∧ (verifyDh envP pbig2 {}).report.dirMismatch = [] := by
  obtain ⟨ws, hcm, -⟩ := p1_commit
  rw [p1_written ws hcm]
  have := verifyDh_after_nested_seal envP pbig1 o1 (loadD pbig1) pload1 pbig1_distinct pbig1_namesOk rfl
    (by decide) rfl ws hcm p1_noLineFeeds p1_oldMatch
  exact ⟨this.2.1, this.2.2⟩

/-- 2. applied: in the reloaded tree every visible folder — `A` (a nested root), `A/sub` (inside the nested history),
`B` — is recorded with its specified hashes in both requested formats -/
example : ∃ h', loadHistory pbig2 = .ok h' ∧
    ∀ d c, (d, true) ∈ visiblePaths (cHit envP (loadD pbig1) o1) pbig1 → pbig1.at? d = some c →
      ∀ f ∈ o1.formats, ∃ e ∈ comparedEntries h' d, e.fmt = f ∧ EntryOk envP (cHit envP (loadD pbig1) o1) d c e := by
  obtain ⟨ws, hcm, -⟩ := p1_commit
  rw [p1_written ws hcm]
  obtain ⟨h', h1, h2, -⟩ := recorded_dir_hashes_are_spec envP pbig1 o1 (loadD pbig1) pload1 pbig1_distinct
    pbig1_namesOk rfl (by decide) rfl ws hcm p1_noLineFeeds
  exact ⟨h', h1, h2⟩

example : (visiblePaths (cHit envP (loadD pbig1) o1) pbig1).filter (·.2) =
    [(["A", "sub"], true), (["A"], true), (["B"], true)] := by decide +kernel

/-- 3a. applied to the sealed tree directly: every compared entry matches (two generations in the nested history) -/
example : (verifyDh envP pbig2 {}).err = none :=
  have hm : OldMatch envP pbig2 (loadD pbig2) (dhHit envP (loadD pbig2) {}) :=
    oldMatchB_spec _ _ _ _ (by decide +kernel)
  (verifyDh_all_match_ok envP pbig2 {} (loadD pbig2) pload2 (by decide +kernel) pbig2_distinct
    (fun q c hq hat e he _ => hm.1 q c hq hat e he) (fun g hg e he _ => hm.2 g hg e he)).1

/-- 4. applied to the altered tree: for both verified formats the root hash entry of the root history differs from
the specification of the altered tree -/
example : (verifyDh envP pbig2Alt {}).exitCode = 12 :=
  have hbad : ∀ f ∈ dhFormats (loadD pbig2Alt) none,
      ∃ g ∈ (loadD pbig2Alt).gens, ∃ e ∈ g.gen.rootHash.getD [], e.fmt = f ∧
        (e.digest ≠ (nodeHashes envP.H envP.D f (dhHit envP (loadD pbig2Alt) {}) [] pbig2Alt).1 ∨
          e.shash ≠ some (nodeHashes envP.H envP.D f (dhHit envP (loadD pbig2Alt) {}) [] pbig2Alt).2) := by
    decide +kernel
  (verifyDh_nested_mismatch_12 envP pbig2Alt {} (loadD pbig2Alt) pload2Alt (by decide +kernel) pbig2Alt_distinct rfl
    (fun f hf => Or.inr (hbad f hf))).2

/-- … and the nested root folder `A` is marked through ITS OWN history: the traversal marks both formats, hence
(`dhFold_failed_iff`) some visible sub-folder has a compared entry that is not `EntryOk` -/
example : (dhFold envP pbig2Alt (loadD pbig2Alt) {}).failedFormats = ["md5", "xxh64"] ∧
    ∃ q c e, (q, true) ∈ visiblePaths (dhHit envP (loadD pbig2Alt) {}) pbig2Alt ∧ pbig2Alt.at? q = some c ∧
      e ∈ comparedEntries (loadD pbig2Alt) q ∧ e.fmt = "md5" ∧ ¬ EntryOk envP (dhHit envP (loadD pbig2Alt) {}) q c e := by
  have h1 : (dhFold envP pbig2Alt (loadD pbig2Alt) {}).failedFormats = ["md5", "xxh64"] := by decide +kernel
  refine ⟨h1, ?_⟩
  have := (dhFold_failed_iff envP pbig2Alt (loadD pbig2Alt) {} (by decide +kernel) pbig2Alt_distinct "md5").1
    (by rw [h1]; simp)
  exact this.2.2

/-- 4'. applied: the altered tree has the `ascmhl` folders of the sealed tree and its root content hash differs in
both requested formats -/
example : (verifyDh envP pbig2Alt {}).exitCode = 12 := by
  obtain ⟨ws, hcm, -⟩ := p1_commit
  have hsame : loadHistory pbig2Alt = loadHistory (applyWritten pbig1 ws) := by
    rw [← p1_written ws hcm]
    exact loadHistory_setContent_n1 _ _ _
  have hnog : (loadD pbig1).gens = [] := by
    have : (loadD pbig1).gens.length = 0 := by decide +kernel
    exact List.length_eq_zero_iff.1 this
  have hd2 : ∀ f ∈ o1.formats, (nodeHashes envP.H envP.D f (cHit envP (loadD pbig1) o1) [] pbig2Alt).1 ≠
      (nodeHashes envP.H envP.D f (cHit envP (loadD pbig1) o1) [] pbig1).1 := by decide +kernel
  exact (verifyDh_detects_change_after_nested_seal envP pbig1 o1 (loadD pbig1) pload1 pbig1_distinct pbig1_namesOk
    rfl (by decide) rfl ws hcm p1_noLineFeeds p1_oldMatch pbig2Alt hsame (by decide +kernel) pbig2Alt_distinct
    (fun f hf => by
      rcases hf with hf | ⟨g, hg, -⟩
      · exact hd2 f hf
      · rw [hnog] at hg; cases hg)).2

/-- 1. applied: a nested history whose chain file is gone makes `verify -dh` end with the loading error 32, not with
an internal error; and whatever the tree, the exit code is one of 0, 12, 31, 32, 33 -/
example : (verifyDh envP (.dir "root" [.dir "A" [.file "x" [1]] (some { chainPresent := false })] (some {})) {}).exitCode
    = 32 := by decide +kernel

example (t : Node) (o : DhOpts) (k : String) : (verifyDh envP t o).err ≠ some (.internal k) :=
  (verifyDh_never_internal_nested envP t o).2.1 k

/-- `verifyDh_after_first_nested_seal`: a tree whose nested `ascmhl` folder has no generation yet -/
example : NoDirHashesYet (loadD (.dir "root" [.dir "A" [.file "x" [1]] (some {}), .file "y" [2]] none)) := by
  unfold NoDirHashesYet
  decide +kernel

/-- `NoLineFeeds` is NEEDED in 2. (and 3. needs it for the reload): with a line feed in the time stamp the manifest
just written is not recognised as a generation when the tree is loaded again (C06), so nothing is recorded for the
folder `sub` as far as the next command can see -/
example :
    let envLF : Env := { envP with stamp := "2020-01-16\n091500Z" }
    let t : Node := .dir "root" [.dir "sub" [.file "b" [1]] none, .file "a" [2]] none
    let t' := applyWritten t (createFolder envLF t { formats := ["md5"] }).written
    histShape t' = some [([], [])] ∧ comparedEntries (loadD t') ["sub"] = [] := by
  decide +kernel

/-- `OldMatch` is NEEDED in 3.: `verify -dh` compares a folder with the entries of EVERY generation.  A tree with a
nested history is sealed from the outer root, a file is ADDED below the nested history, the tree is sealed again
(`create` ends with 0 and records the new hashes in generation 2 of both histories) — and `verify -dh` ends with 12,
because the entries of generation 1 no longer match: the precondition "the tree every generation recorded" of C09. -/
theorem oldMatch_needed :
    let t0 : Node := .dir "root" [.dir "A" [.file "x" [1]] (some {}), .file "y" [2]] none
    let oM : CreateOpts := { formats := ["md5"] }
    let t1 := applyWritten t0 (createFolder envP t0 oM).written
    let t1' := Node.updateAt (fun n => match n with
      | .dir nm cs h => .dir nm (cs ++ [.file "z" [5]]) h
      | x => x) t1 ["A"]
    let env2 : Env := { envP with stamp := "2020-01-17_091500Z" }
    let t2 := applyWritten t1' (createFolder env2 t1' oM).written
    (verifyDh envP t1 {}).exitCode = 0 ∧ (createFolder env2 t1' oM).exitCode = 0 ∧
    histShape t2 = some [([], [1, 2]), (["A"], [1, 2])] ∧
    (verifyDh envP t2 {}).exitCode = 12 ∧ (verifyDh envP t2 {}).report.dirMismatch = ["A", "."] := by
  rw [createFolder_eq_with]
  decide +kernel

end Examples

end MhlProps.C09nested
