/-
C12 — Ignore patterns exclude consistently and only ever accumulate.

Pattern-list part: `MhlModel.appendPatterns` / `setPatterns` (ascmhl/ignore.py `MHLIgnoreSpec`) and the list written
by `writeOne` (generator.py `commit`).  The exclusion part ("a matched path is never hashed, recorded, part of a
directory hash, reported new or missing") rests on one lemma about the traversal that all four commands share
(`MhlProps.C02.ignored_nowhere`) and is tied to the code by the scenario correspondence; the matcher itself
(pathspec gitwildmatch) is a parameter of the model.
-/
import MhlProps.Proofs.SealLemmas

namespace MhlProps.C12
open MhlModel

/-! ### appending patterns -/

/-- the existing list is a prefix of the result: patterns are never dropped or reordered -/
theorem appendPatterns_prefix (cur batch : List String) : cur <+: appendPatterns cur batch := by
  unfold appendPatterns
  induction batch generalizing cur with
  | nil => simp
  | cons b bs ih =>
    simp only [List.foldl_cons]
    refine List.IsPrefix.trans ?_ (ih (appendNew cur b))
    unfold appendNew
    split
    · exact List.prefix_refl _
    · exact List.prefix_append _ _

/-- exactly the old and the new patterns -/
theorem mem_appendPatterns (cur batch : List String) (x : String) :
    x ∈ appendPatterns cur batch ↔ x ∈ cur ∨ x ∈ batch := by
  unfold appendPatterns
  have := mem_foldl_appendNew (fun (s : String) => s) batch cur x
  simpa using this

/-- no duplicates are ever introduced - not even by a batch that repeats a pattern -/
theorem appendPatterns_nodup (cur batch : List String) (h : cur.Nodup) : (appendPatterns cur batch).Nodup := by
  unfold appendPatterns
  exact nodup_foldl_appendNew (fun (s : String) => s) batch cur h

/-- the part that is added: the new patterns that were not present, each once, in the order given -/
theorem appendPatterns_eq (cur batch : List String) :
    ∃ added, appendPatterns cur batch = cur ++ added ∧ (∀ x ∈ added, x ∈ batch ∧ x ∉ cur) ∧
      (cur.Nodup → (cur ++ added).Nodup) := by
  obtain ⟨added, hadd⟩ := appendPatterns_prefix cur batch
  refine ⟨added, hadd.symm, ?_, ?_⟩
  · intro x hx
    have hmem : x ∈ appendPatterns cur batch := by rw [← hadd]; simp [hx]
    -- membership in batch or cur; we need: in batch and not in cur. Use nodup-free argument by induction instead.
    exact added_spec cur batch added hadd.symm x hx
  · intro h; rw [hadd]; exact appendPatterns_nodup cur batch h
where
  added_spec (cur batch added : List String) (h : appendPatterns cur batch = cur ++ added) (x : String)
      (hx : x ∈ added) : x ∈ batch ∧ x ∉ cur := by
    induction batch generalizing cur added with
    | nil =>
      simp [appendPatterns] at h
      subst h; simp at hx
    | cons b bs ih =>
      unfold appendPatterns at h
      simp only [List.foldl_cons] at h
      by_cases hb : b ∈ cur
      · have : appendNew cur b = cur := by simp [appendNew, hb]
        rw [this] at h
        have := ih cur added (by unfold appendPatterns; exact h) hx
        exact ⟨by simp [this.1], this.2⟩
      · have hnew : appendNew cur b = cur ++ [b] := by simp [appendNew, hb]
        rw [hnew] at h
        -- result = (cur ++ [b]) ++ added' with cur ++ added = (cur ++ [b]) ++ added'
        obtain ⟨added', hadd'⟩ := appendPatterns_prefix (cur ++ [b]) bs
        have h2 : appendPatterns (cur ++ [b]) bs = cur ++ added := by unfold appendPatterns; exact h
        have hEq : added = b :: added' := by
          have : cur ++ added = cur ++ ([b] ++ added') := by
            rw [← h2, ← hadd']; simp
          simpa using List.append_cancel_left this
        subst hEq
        simp only [List.mem_cons] at hx
        rcases hx with rfl | hx
        · exact ⟨by simp, hb⟩
        · have := ih (cur ++ [b]) added' (by rw [← hadd']) hx
          refine ⟨by simp [this.1], ?_⟩
          intro hc; exact this.2 (by simp [hc])

/-! ### the list written into a generation -/

theorem defaults_nodup : Gen.defaultIgnore.Nodup := by decide

/-- the three default patterns: `.DS_Store` and the `ascmhl` folder, both as a name and as a directory pattern -/
theorem defaults_are : Gen.defaultIgnore = [".DS_Store", "ascmhl", "ascmhl/"] ∧ Gen.folderName = "ascmhl" := by decide

/-- without a previous generation the list starts with the defaults -/
theorem setPatterns_fresh (cli file : List String) :
    Gen.defaultIgnore <+: setPatterns none cli file := by
  unfold setPatterns
  have h0 : basePatterns none = Gen.defaultIgnore := by decide
  simp only [h0]
  split <;> split <;>
    first
      | exact List.prefix_refl _
      | exact appendPatterns_prefix _ _
      | exact List.IsPrefix.trans (appendPatterns_prefix _ _) (appendPatterns_prefix _ _)

/-- with a previous generation whose (duplicate-free, non-empty) list is `prev`: `prev` is a prefix of the new list,
in the same order -/
theorem setPatterns_keeps_previous (prev cli file : List String) (hne : prev ≠ []) (hnd : prev.Nodup) :
    prev <+: setPatterns (some prev) cli file := by
  unfold setPatterns
  have h0 : appendPatterns [] prev = prev := by
    obtain ⟨added, hadd, hspec, _⟩ := appendPatterns_eq [] prev
    -- appendPatterns [] prev is a nodup list with the same elements in first-occurrence order; for nodup prev it is prev
    exact appendPatterns_nil_nodup prev hnd
  have hemp : prev.isEmpty = false := by cases prev <;> simp_all
  have hb : basePatterns (some prev) = prev := by simp [basePatterns, hemp, h0]
  simp only [hb]
  split <;> split <;>
    first
      | exact List.prefix_refl _
      | exact appendPatterns_prefix _ _
      | exact List.IsPrefix.trans (appendPatterns_prefix _ _) (appendPatterns_prefix _ _)
where
  appendPatterns_nil_nodup (l : List String) (h : l.Nodup) : appendPatterns [] l = l := by
    simpa using appendPatterns_of_nodup [] l (by simpa)
  appendPatterns_of_nodup (cur l : List String) (hnd : (cur ++ l).Nodup) : appendPatterns cur l = cur ++ l := by
    induction l generalizing cur with
    | nil => simp [appendPatterns]
    | cons a as ih =>
      unfold appendPatterns
      simp only [List.foldl_cons]
      have ha : a ∉ cur := by
        intro hc
        rw [List.nodup_append] at hnd
        exact hnd.2.2 a hc a (by simp) rfl
      have : appendNew cur a = cur ++ [a] := by simp [appendNew, ha]
      rw [this]
      have := ih (cur ++ [a]) (by simpa using hnd)
      unfold appendPatterns at this
      simpa using this

/-- every pattern given on the command line or in the pattern file ends up in the list -/
theorem setPatterns_contains_new (ex : Option (List String)) (cli file : List String) :
    (∀ p ∈ cli, p ∈ setPatterns ex cli file) ∧ (∀ p ∈ file, p ∈ setPatterns ex cli file) := by
  unfold setPatterns
  constructor
  · intro p hp
    have hne : cli.isEmpty = false := by cases cli <;> simp_all
    simp only [hne]
    split
    · exact (mem_appendPatterns _ _ _).mpr (Or.inr hp)
    · exact (mem_appendPatterns _ _ _).mpr (Or.inl ((mem_appendPatterns _ _ _).mpr (Or.inr hp)))
  · intro p hp
    have hne : file.isEmpty = false := by cases file <;> simp_all
    simp only [hne]
    exact (mem_appendPatterns _ _ _).mpr (Or.inr hp)

/-- the list written is duplicate free whatever was recorded before and whatever is given -/
theorem setPatterns_nodup (ex : Option (List String)) (cli file : List String) :
    (setPatterns ex cli file).Nodup := by
  unfold setPatterns
  have base : ∀ l : List String, (appendPatterns [] l).Nodup := fun l => appendPatterns_nodup [] l (by simp)
  have hb : (basePatterns ex).Nodup := by
    unfold basePatterns
    cases ex with
    | none => exact base _
    | some l => simp only; split <;> exact base _
  split <;> split <;>
    first
      | exact hb
      | exact appendPatterns_nodup _ _ hb
      | exact appendPatterns_nodup _ _ (appendPatterns_nodup _ _ hb)

/-- a generation written into a (nested) history during a run carries that history's previous list followed by the
patterns of the run's session (those of the root history's latest generation plus the new ones) -/
theorem written_ignore (rootHist : Hist) (s : Session) (fn stamp process : String) (cb : Option String) (h : Hist)
    (refs : List Written) (w : Written) (hw : writeOne rootHist s fn stamp process cb h refs = .ok w) :
    w.gen.ignore = setPatterns (latestIgnore h.gens) s.patterns [] := by
  unfold writeOne at hw
  simp only [bind, Except.bind] at hw
  split at hw
  · cases hw
  · simp only [pure, Except.pure] at hw
    cases hw; rfl

theorem written_contains_session_patterns (rootHist : Hist) (s : Session) (fn stamp process : String)
    (cb : Option String) (h : Hist) (refs : List Written) (w : Written)
    (hw : writeOne rootHist s fn stamp process cb h refs = .ok w) : ∀ p ∈ s.patterns, p ∈ w.gen.ignore := by
  rw [written_ignore rootHist s fn stamp process cb h refs w hw]
  exact (setPatterns_contains_new _ _ _).1

/-! ### non-vacuity -/

example : setPatterns (some [".DS_Store", "ascmhl", "ascmhl/", "*.tmp"]) ["*.bak", "*.tmp", "*.bak"] ["x/"]
    = [".DS_Store", "ascmhl", "ascmhl/", "*.tmp", "*.bak", "x/"] := by decide

end MhlProps.C12
