/-
C13 — Results do not depend on how the OS lists a directory.

`Node.PermEq a b` (MhlProps/C07.lean): `b` is `a` with the children lists of any directories re-ordered.
`t.NamesDistinct` (MhlProps/Proofs/TraverseLemmas.lean): sibling names are pairwise distinct in every directory of the
tree (what a file system guarantees).  All results are for `PermEq a b` with `a.NamesDistinct`.

  1. `traverse_perm`, `traverse_perm_deep`, `visiblePaths_listing_independent`: the traversal yields EQUAL lists of
     visits (sorting by name makes the order canonical).  Without distinct names this is false
     (`traverse_perm_needs_distinct`).
  2. `at?_perm`, `fileContent_perm`, `at?_hist_perm`, `at?_isDir_perm`, `at?_file_perm`: the look-up of a path gives
     related nodes; file contents, kinds and `ascmhl` folders are equal.  Without distinct names the look-up depends on
     the order (`fileContent_perm_needs_distinct`).
  3. `loadHistory_perm`: loading the histories gives the same result — the same history, or the SAME error
     (`findChildren` evaluates the per-child results in the order of the names, so the first problem in walk order
     wins whatever order the OS lists in).
  4. `verify_listing_independent`, `diff_listing_independent`, `verifyDh_listing_independent`,
     `createFolder_listing_independent`, `createSingleFiles_listing_independent`, `create_listing_independent`,
     `flatten_listing_independent`, `info_listing_independent`: the full outcome (exit, report, written generations)
     is EQUAL; also against a packing list (`verifyOrDiff_listing_independent`).
  5. `sorted_listing`, `sorted_listing_strict`: the children listed in every visit are sorted by name (`strLe`).
-/
import MhlProps.Proofs.PermLemmas
import MhlProps.C02

namespace MhlProps.C13
open MhlModel

/-! ### 1. the traversal -/

/-- re-ordering the listing of the top directory does not change the visits -/
theorem traverse_perm (hit : RelPath → Bool) (here : RelPath) (n : String) {cs₁ cs₂ : List Node}
    (h : Option HistStore) (hp : cs₁.Perm cs₂) (hnd : (cs₁.map Node.name).Nodup) :
    traverse hit here (.dir n cs₁ h) = traverse hit here (.dir n cs₂ h) :=
  traverse_perm_top hit here n h hp hnd

/-- re-ordering listings anywhere in the tree does not change the visits -/
theorem traverse_perm_deep (hit : RelPath → Bool) (here : RelPath) {a b : Node} (hab : Node.PermEq a b)
    (hd : a.NamesDistinct) : traverse hit here a = traverse hit here b :=
  traverse_permEq hit hab hd here

theorem visiblePaths_listing_independent (hit : RelPath → Bool) {a b : Node} (hab : Node.PermEq a b)
    (hd : a.NamesDistinct) : visiblePaths hit a = visiblePaths hit b :=
  visiblePaths_perm hit hab hd

/-- the hypothesis is needed: with a file and a folder of the same name (which no file system holds) the stable sort
keeps the stored order -/
theorem traverse_perm_needs_distinct :
    [Node.file "a" [], Node.dir "a" [] none].Perm [Node.dir "a" [] none, Node.file "a" []] ∧
    traverse (fun _ => false) [] (.dir "" [.file "a" [], .dir "a" [] none] none) ≠
      traverse (fun _ => false) [] (.dir "" [.dir "a" [] none, .file "a" []] none) :=
  ⟨List.Perm.swap _ _ _, by decide⟩

/-! ### 2. the look-up of a path -/

/-- the nodes found at a path are both absent or related (`OptPermEq`, MhlProps/Proofs/PermLemmas.lean) -/
theorem at?_perm {a b : Node} (hab : Node.PermEq a b) (hd : a.NamesDistinct) (p : RelPath) :
    OptPermEq (a.at? p) (b.at? p) :=
  at?_permEq hab hd p

/-- spelled out: equal results, or two directories with the same name and the same `ascmhl` folder whose content
differs only in the listing order -/
theorem at?_perm_cases {a b : Node} (hab : Node.PermEq a b) (hd : a.NamesDistinct) (p : RelPath) :
    a.at? p = b.at? p ∨ ∃ n cs cs' h, a.at? p = some (.dir n cs h) ∧ b.at? p = some (.dir n cs' h) ∧
      Node.PermEq (.dir n cs h) (.dir n cs' h) :=
  at?_view hab hd p

theorem fileContent_perm {a b : Node} (hab : Node.PermEq a b) (hd : a.NamesDistinct) (p : RelPath) :
    fileContent a p = fileContent b p :=
  congrFun (MhlModel.fileContent_perm hab hd) p

/-- a path is a file in one tree iff it is the same file in the other -/
theorem at?_file_perm {a b : Node} (hab : Node.PermEq a b) (hd : a.NamesDistinct) (p : RelPath) (n : String)
    (c : Bytes) : a.at? p = some (.file n c) ↔ b.at? p = some (.file n c) := by
  rcases at?_view hab hd p with h | ⟨m, cs, cs', h, h1, h2, -⟩
  · rw [h]
  · simp [h1, h2]

theorem at?_hist_perm {a b : Node} (hab : Node.PermEq a b) (hd : a.NamesDistinct) (p : RelPath) :
    (a.at? p).map Node.hist = (b.at? p).map Node.hist := by
  rcases at?_view hab hd p with h | ⟨m, cs, cs', h, h1, h2, -⟩
  · rw [h]
  · simp [h1, h2, Node.hist]

theorem at?_isDir_perm {a b : Node} (hab : Node.PermEq a b) (hd : a.NamesDistinct) (p : RelPath) :
    (a.at? p).map Node.isDir = (b.at? p).map Node.isDir := by
  rcases at?_view hab hd p with h | ⟨m, cs, cs', h, h1, h2, -⟩
  · rw [h]
  · simp [h1, h2, Node.isDir]

theorem at?_name_perm {a b : Node} (hab : Node.PermEq a b) (hd : a.NamesDistinct) (p : RelPath) :
    (a.at? p).map Node.name = (b.at? p).map Node.name := by
  rcases at?_view hab hd p with h | ⟨m, cs, cs', h, h1, h2, -⟩
  · rw [h]
  · simp [h1, h2, Node.name]

/-- the hypothesis is needed: with two files of the same name the look-up finds the one stored first -/
theorem fileContent_perm_needs_distinct :
    [Node.file "a" [1], Node.file "a" [2]].Perm [Node.file "a" [2], Node.file "a" [1]] ∧
    fileContent (.dir "" [.file "a" [1], .file "a" [2]] none) ["a"] ≠
      fileContent (.dir "" [.file "a" [2], .file "a" [1]] none) ["a"] :=
  ⟨List.Perm.swap _ _ _, by decide⟩

/-! ### 3. loading the histories -/

/-- loading the histories does not depend on the listing order: the same history, or the same error -/
theorem loadHistory_perm {a b : Node} (hab : Node.PermEq a b) (hd : a.NamesDistinct) :
    loadHistory a = loadHistory b :=
  loadHistory_permEq hab hd

/-- the walk below any folder likewise -/
theorem findChildren_perm {a b : Node} (hab : Node.PermEq a b) (hd : a.NamesDistinct) (here : RelPath) :
    findChildren here a = findChildren here b :=
  findChildren_permEq hab hd here

/-! ### 4. the commands -/

section commands
variable (env : Env) {a b : Node} (hab : Node.PermEq a b) (hd : a.NamesDistinct)
include hab hd

/-- verify (`hashing = true`) / diff (`hashing = false`), against the history or against a packing list -/
theorem verifyOrDiff_listing_independent (o : VerifyOpts) (hashing : Bool) (pl : Option Generation) :
    verifyOrDiff env a o hashing pl = verifyOrDiff env b o hashing pl :=
  verifyOrDiff_of_load env hab hd o hashing pl (loadHistory_perm hab hd)

theorem verify_listing_independent (o : VerifyOpts) : verify env a o = verify env b o :=
  verifyOrDiff_listing_independent env hab hd o true none

theorem diff_listing_independent (o : VerifyOpts) : diff env a o = diff env b o :=
  verifyOrDiff_listing_independent env hab hd _ false none

theorem verifyDh_listing_independent (o : DhOpts) : verifyDh env a o = verifyDh env b o :=
  verifyDh_of_load env hab hd o (loadHistory_perm hab hd)

theorem createFolder_listing_independent (o : CreateOpts) : createFolder env a o = createFolder env b o :=
  createFolder_of_load env hab hd o (loadHistory_perm hab hd)

theorem createSingleFiles_listing_independent (o : CreateOpts) :
    createSingleFiles env a o = createSingleFiles env b o :=
  createSingleFiles_of_load env hab hd o (loadHistory_perm hab hd)

/-- `create` in every mode (folder, -sf, -n, -dr, -i): exit, report and the written generations are equal -/
theorem create_listing_independent (o : CreateOpts) : create env a o = create env b o :=
  create_of_load env hab hd o (loadHistory_perm hab hd)

theorem create_written_listing_independent (o : CreateOpts) :
    (create env a o).written = (create env b o).written := by
  rw [create_listing_independent env hab hd o]

theorem flatten_listing_independent (ic ifl : List String) : flatten env a ic ifl = flatten env b ic ifl :=
  flatten_of_load env ic ifl (loadHistory_perm hab hd)

omit env in
theorem info_listing_independent : info a = info b :=
  info_of_load (loadHistory_perm hab hd)

end commands

/-- a concrete environment (the hash of a file is a fixed string, nothing is ignored) -/
def exEnv : Env := { H := fun _ _ => "00", D := fun _ _ => none, hit := fun _ _ => false, rootName := "root" }

/-! ### 5. the order in the manifest is the order of the names -/

/-- the children listed in every visit are sorted by name -/
theorem sorted_listing (hit : RelPath → Bool) (t : Node) : ∀ (here : RelPath) (v : Visit),
    v ∈ traverse hit here t → v.children.Pairwise (fun x y => strLe x.1 y.1 = true) := by
  induction t using Node.induct with
  | file n c => intro here v hv; simp [traverse] at hv
  | dir n cs h ih =>
    intro here v hv
    rw [traverse_dir, List.mem_append, List.mem_flatMap] at hv
    rcases hv with ⟨k, hk, hv⟩ | hv
    · obtain ⟨c, hc, -, rfl⟩ := (mem_visKids _ _ _ _).1 hk
      exact ih c hc _ v hv
    · simp only [List.mem_singleton] at hv
      subst hv
      simp only [List.pairwise_map]
      exact (isort_key_sorted Kid.name _).filter _

/-- the same in terms of `≤` on strings (lexicographic by code point) -/
theorem sorted_listing_le (hit : RelPath → Bool) (t : Node) (here : RelPath) (v : Visit)
    (hv : v ∈ traverse hit here t) : (v.children.map (·.1)).Pairwise (· ≤ ·) := by
  have := sorted_listing hit t here v hv
  rw [List.pairwise_map]
  simpa [strLe] using this

/-- with distinct sibling names the listed names strictly increase: the order of a listing is determined by its set
of names -/
theorem sorted_listing_strict (hit : RelPath → Bool) (t : Node) : ∀ (here : RelPath) (v : Visit),
    t.NamesDistinct → v ∈ traverse hit here t → (v.children.map (·.1)).Pairwise (· < ·) := by
  induction t using Node.induct with
  | file n c => intro here v _ hv; simp [traverse] at hv
  | dir n cs h ih =>
    intro here v hd hv
    rw [Node.namesDistinct_dir] at hd
    rw [traverse_dir, List.mem_append, List.mem_flatMap] at hv
    rcases hv with ⟨k, hk, hv⟩ | hv
    · obtain ⟨c, hc, -, rfl⟩ := (mem_visKids _ _ _ _).1 hk
      exact ih c hc _ v (hd.2 c hc) hv
    · simp only [List.mem_singleton] at hv
      subst hv
      simp only [List.pairwise_map]
      have h1 : (visKids hit here cs).Pairwise (fun a b => strLe a.name b.name = true) :=
        (isort_key_sorted Kid.name _).filter _
      have h2 := visKids_names_pairwise hit here cs hd.1
      refine (h1.and h2).imp ?_
      rintro x y ⟨hle, hne⟩
      exact Std.lt_of_le_of_ne (by simpa [strLe] using hle) hne

/-! ### non-vacuity -/

/-- a tree with a root history and a nested history, in two listing orders (at the top and inside `sub`) -/
def exGen : Generation :=
  { fileName := "0001_root_2020-01-01_000000Z.mhl",
    records := [{ path := "b.txt", entries := [{ fmt := "md5", digest := "00", action := "original" }] }] }
def exStore : HistStore := { gens := [exGen], chain := [⟨1, exGen.fileName⟩] }
def exSub₁ : Node := .dir "sub" [.file "x" [1], .file "y" [2]] (some {})
def exSub₂ : Node := .dir "sub" [.file "y" [2], .file "x" [1]] (some {})
def exA : Node := .dir "root" [.file "b.txt" [3], exSub₁, .file "a.txt" [4]] (some exStore)
def exB : Node := .dir "root" [exSub₂, .file "a.txt" [4], .file "b.txt" [3]] (some exStore)

theorem exA_permEq_exB : Node.PermEq exA exB := by
  refine .trans (.congr "root" [.file "b.txt" [3]] [.file "a.txt" [4]] (some exStore)
    (.perm "sub" (some {}) (List.Perm.swap _ _ _) : Node.PermEq exSub₁ exSub₂)) ?_
  refine .perm "root" (some exStore) ?_
  show [Node.file "b.txt" [3], exSub₂, .file "a.txt" [4]].Perm [exSub₂, .file "a.txt" [4], .file "b.txt" [3]]
  exact List.perm_append_comm (l₁ := [_]) (l₂ := [_, _])

theorem exA_namesDistinct : exA.NamesDistinct := by
  simp [exA, exSub₁, Node.NamesDistinct, Node.NamesDistinctKids, Node.name]

example : verify exEnv exA {} = verify exEnv exB {} :=
  verify_listing_independent exEnv exA_permEq_exB exA_namesDistinct {}

example : create exEnv exA {} = create exEnv exB {} :=
  create_listing_independent exEnv exA_permEq_exB exA_namesDistinct {}

/-- and the result is not trivial: verify reports the new file `a.txt` and the files of `sub` on both listings -/
example : (verify exEnv exA {}).report.new = ["sub/x", "sub/y", "a.txt"] ∧
    (verify exEnv exB {}).report.new = ["sub/x", "sub/y", "a.txt"] := by decide

example : (traverse (fun _ => false) [] exA).map (·.children) =
    [[("x", false), ("y", false)], [("a.txt", false), ("b.txt", false), ("sub", true)]] := by decide

/-! two differently damaged sibling histories, listed in two orders: the same error (that of the history whose name
comes first) is reported for both listings -/

/-- a nested history without chain file -/
def badA : Node := .dir "A" [] (some { chainPresent := false })
/-- a nested history whose only manifest was modified -/
def badB : Node :=
  .dir "B" [] (some { gens := [{ fileName := "0001_B_x.mhl", state := .modified }], chain := [⟨1, "0001_B_x.mhl"⟩] })
def twoFaults₁ : Node := .dir "root" [badA, badB] none
def twoFaults₂ : Node := .dir "root" [badB, badA] none

def errOf {α : Type} : Except Err α → Option Err
  | .error e => some e
  | .ok _ => none

theorem twoFaults_permEq : Node.PermEq twoFaults₁ twoFaults₂ := .perm "root" none (List.Perm.swap _ _ _)

theorem twoFaults_namesDistinct : twoFaults₁.NamesDistinct := by
  simp [twoFaults₁, badA, badB, Node.NamesDistinct, Node.NamesDistinctKids, Node.name]

example : loadHistory twoFaults₁ = loadHistory twoFaults₂ :=
  loadHistory_perm twoFaults_permEq twoFaults_namesDistinct

example : errOf (loadHistory twoFaults₁) = some errNoChain ∧ errOf (loadHistory twoFaults₂) = some errNoChain := by
  decide

example : verify exEnv twoFaults₁ {} = verify exEnv twoFaults₂ {} :=
  verify_listing_independent exEnv twoFaults_permEq twoFaults_namesDistinct {}

example : (verify exEnv twoFaults₁ {}).exitCode = 32 ∧ (verify exEnv twoFaults₂ {}).exitCode = 32 := by decide

/-- the faults are really different: alone, `badB` gives another error -/
example : errOf (loadHistory (.dir "root" [badB] none)) = some errModified := by decide

end MhlProps.C13
