/-
C13 — Results do not depend on how the OS lists a directory.

`Node.PermEq a b` (MhlProps/C07.lean): `b` is `a` with the children lists of any directories re-ordered.
`t.NamesDistinct` (MhlProps/Proofs/TraverseLemmas.lean): sibling names are pairwise distinct in every directory of the
tree (what a file system guarantees).  All results are for `PermEq a b` with `a.NamesDistinct`.

  1. `traverse_perm`, `traverse_perm_deep`, `visiblePaths_listing_independent`: the traversal yields EQUAL lists of
     visits (sorting by name makes the order canonical).  Without distinct names this is false
     (`traverse_perm_needs_distinct`).
  2. `at?_perm`, `fileContent_perm`, `at?_hist_perm`, `at?_isDir_perm`, `at?_file_perm`: the look-up of a path gives
     related nodes; file contents, kinds and `ascmhl` folders are equal.  Without distinct names the look-up depends on
     the order (`fileContent_perm_needs_distinct`).
  3. `loadHistory_perm` AS STATED IS FALSE OF THE MODEL (`loadHistory_perm_false`): `findChildrenList` evaluates the
     children in STORED order and stops at the first damaged history, so with two differently damaged nested
     histories the reported error depends on the listing order (the model file says so itself in the NOTE above
     `loadHistory`).  What holds: `loadHistory_perm_partial` (equal up to WHICH error is reported),
     `loadHistory_perm_ok`, `loadHistory_perm_cases`, and full equality when all damaged histories of the tree fail
     with the same error, in particular with a single fault (`loadHistory_perm_single_fault`).
  4. `verify_…`, `diff_…`, `verifyDh_…`, `create_…` (folder mode and -sf), `flatten_…`, `info_…`: the full outcome
     (exit, report, written generations) is equal whenever loading the histories gives the same result — which by 3.
     is the case when `loadHistory a` succeeds, or fails with the only error present in the tree.  The unconditional
     statements are false for the reason of 3. (`verify_listing_independent_false`); the unconditional `…_cases`
     versions say: equal, or both end with the error of a damaged history (two different ones).  With a packing list
     (`verifyOrDiff … (some g)`) no history is loaded and the statement holds unconditionally.
  5. `sorted_listing`, `sorted_listing_strict`: the children listed in every visit are sorted by name (`strLe`).
-/
import MhlProps.Proofs.PermLemmas
import MhlProps.C02

namespace MhlProps.C13
open MhlModel

/-! ### 1. the traversal -/

/-- re-ordering the listing of the top directory does not change the visits -/
theorem traverse_perm (hit : RelPath → Bool) (here : RelPath) (n : String) {cs₁ cs₂ : List Node}
    (h : Option HistStore) (hp : cs₁.Perm cs₂) (hnd : (cs₁.map Node.name).Nodup) :
    traverse hit here (.dir n cs₁ h) = traverse hit here (.dir n cs₂ h) :=
  traverse_perm_top hit here n h hp hnd

/-- re-ordering listings anywhere in the tree does not change the visits -/
theorem traverse_perm_deep (hit : RelPath → Bool) (here : RelPath) {a b : Node} (hab : Node.PermEq a b)
    (hd : a.NamesDistinct) : traverse hit here a = traverse hit here b :=
  traverse_permEq hit hab hd here

theorem visiblePaths_listing_independent (hit : RelPath → Bool) {a b : Node} (hab : Node.PermEq a b)
    (hd : a.NamesDistinct) : visiblePaths hit a = visiblePaths hit b :=
  visiblePaths_perm hit hab hd

/-- the hypothesis is needed: with a file and a folder of the same name (which no file system holds) the stable sort
keeps the stored order -/
theorem traverse_perm_needs_distinct :
    [Node.file "a" [], Node.dir "a" [] none].Perm [Node.dir "a" [] none, Node.file "a" []] ∧
    traverse (fun _ => false) [] (.dir "" [.file "a" [], .dir "a" [] none] none) ≠
      traverse (fun _ => false) [] (.dir "" [.dir "a" [] none, .file "a" []] none) :=
  ⟨List.Perm.swap _ _ _, by decide⟩

/-! ### 2. the look-up of a path -/

/-- the nodes found at a path are both absent or related (`OptPermEq`, MhlProps/Proofs/PermLemmas.lean) -/
theorem at?_perm {a b : Node} (hab : Node.PermEq a b) (hd : a.NamesDistinct) (p : RelPath) :
    OptPermEq (a.at? p) (b.at? p) :=
  at?_permEq hab hd p

/-- spelled out: equal results, or two directories with the same name and the same `ascmhl` folder whose content
differs only in the listing order -/
theorem at?_perm_cases {a b : Node} (hab : Node.PermEq a b) (hd : a.NamesDistinct) (p : RelPath) :
    a.at? p = b.at? p ∨ ∃ n cs cs' h, a.at? p = some (.dir n cs h) ∧ b.at? p = some (.dir n cs' h) ∧
      Node.PermEq (.dir n cs h) (.dir n cs' h) :=
  at?_view hab hd p

theorem fileContent_perm {a b : Node} (hab : Node.PermEq a b) (hd : a.NamesDistinct) (p : RelPath) :
    fileContent a p = fileContent b p :=
  congrFun (MhlModel.fileContent_perm hab hd) p

/-- a path is a file in one tree iff it is the same file in the other -/
theorem at?_file_perm {a b : Node} (hab : Node.PermEq a b) (hd : a.NamesDistinct) (p : RelPath) (n : String)
    (c : Bytes) : a.at? p = some (.file n c) ↔ b.at? p = some (.file n c) := by
  rcases at?_view hab hd p with h | ⟨m, cs, cs', h, h1, h2, -⟩
  · rw [h]
  · simp [h1, h2]

theorem at?_hist_perm {a b : Node} (hab : Node.PermEq a b) (hd : a.NamesDistinct) (p : RelPath) :
    (a.at? p).map Node.hist = (b.at? p).map Node.hist := by
  rcases at?_view hab hd p with h | ⟨m, cs, cs', h, h1, h2, -⟩
  · rw [h]
  · simp [h1, h2, Node.hist]

theorem at?_isDir_perm {a b : Node} (hab : Node.PermEq a b) (hd : a.NamesDistinct) (p : RelPath) :
    (a.at? p).map Node.isDir = (b.at? p).map Node.isDir := by
  rcases at?_view hab hd p with h | ⟨m, cs, cs', h, h1, h2, -⟩
  · rw [h]
  · simp [h1, h2, Node.isDir]

theorem at?_name_perm {a b : Node} (hab : Node.PermEq a b) (hd : a.NamesDistinct) (p : RelPath) :
    (a.at? p).map Node.name = (b.at? p).map Node.name := by
  rcases at?_view hab hd p with h | ⟨m, cs, cs', h, h1, h2, -⟩
  · rw [h]
  · simp [h1, h2, Node.name]

/-- the hypothesis is needed: with two files of the same name the look-up finds the one stored first -/
theorem fileContent_perm_needs_distinct :
    [Node.file "a" [1], Node.file "a" [2]].Perm [Node.file "a" [2], Node.file "a" [1]] ∧
    fileContent (.dir "" [.file "a" [1], .file "a" [2]] none) ["a"] ≠
      fileContent (.dir "" [.file "a" [2], .file "a" [1]] none) ["a"] :=
  ⟨List.Perm.swap _ _ _, by decide⟩

/-! ### 3. loading the histories -/

/- The statement asked for,

     theorem loadHistory_perm {a b : Node} (hab : Node.PermEq a b) (hd : a.NamesDistinct) :
         loadHistory a = loadHistory b

   is FALSE of the model: see `loadHistory_perm_false`. -/

/-- a nested history without chain file -/
def badA : Node := .dir "A" [] (some { chainPresent := false })
/-- a nested history whose only manifest was modified -/
def badB : Node :=
  .dir "B" [] (some { gens := [{ fileName := "0001_B_x.mhl", state := .modified }], chain := [⟨1, "0001_B_x.mhl"⟩] })
def twoFaults₁ : Node := .dir "root" [badA, badB] none
def twoFaults₂ : Node := .dir "root" [badB, badA] none

def errOf {α : Type} : Except Err α → Option Err
  | .error e => some e
  | .ok _ => none

theorem twoFaults_permEq : Node.PermEq twoFaults₁ twoFaults₂ := .perm "root" none (List.Perm.swap _ _ _)

theorem twoFaults_namesDistinct : twoFaults₁.NamesDistinct := by
  simp [twoFaults₁, badA, badB, Node.NamesDistinct, Node.NamesDistinctKids, Node.name]

/-- `loadHistory_perm` is false: two differently damaged nested histories, two listing orders, two different errors
(the model evaluates the children in stored order and reports the first failure) -/
theorem loadHistory_perm_false :
    ¬ ∀ {a b : Node}, Node.PermEq a b → a.NamesDistinct → loadHistory a = loadHistory b := by
  intro h
  have := congrArg errOf (h twoFaults_permEq twoFaults_namesDistinct)
  revert this
  decide

example : errOf (loadHistory twoFaults₁) = some errNoChain ∧ errOf (loadHistory twoFaults₂) = some errModified := by
  decide

/-- PARTIAL (the full statement is false, see above): the loaded history is the same whenever loading succeeds, and
loading fails for one listing order iff it fails for the other.  Nothing extra is assumed; what is weakened is the
conclusion: WHICH error is reported is not claimed. -/
theorem loadHistory_perm_partial {a b : Node} (hab : Node.PermEq a b) (hd : a.NamesDistinct) :
    (loadHistory a).toOption = (loadHistory b).toOption :=
  loadHistory_permEq_toOption hab hd

theorem loadHistory_perm_ok {a b : Node} (hab : Node.PermEq a b) (hd : a.NamesDistinct) (h : Hist) :
    loadHistory a = .ok h ↔ loadHistory b = .ok h := by
  rw [← toOption_eq_some, ← toOption_eq_some, loadHistory_perm_partial hab hd]

theorem loadHistory_perm_error {a b : Node} (hab : Node.PermEq a b) (hd : a.NamesDistinct) :
    (∃ e, loadHistory a = .error e) ↔ (∃ e, loadHistory b = .error e) := by
  rw [← toOption_eq_none, ← toOption_eq_none, loadHistory_perm_partial hab hd]

/-- equal, or both fail with different errors -/
theorem loadHistory_perm_cases {a b : Node} (hab : Node.PermEq a b) (hd : a.NamesDistinct) :
    loadHistory a = loadHistory b ∨
      ∃ e₁ e₂, e₁ ≠ e₂ ∧ loadHistory a = .error e₁ ∧ loadHistory b = .error e₂ :=
  loadHistory_permEq_cases hab hd

theorem loadHistory_perm_of_ok {a b : Node} (hab : Node.PermEq a b) (hd : a.NamesDistinct)
    (hok : ∃ h, loadHistory a = .ok h) : loadHistory a = loadHistory b := by
  obtain ⟨h, hh⟩ := hok
  rw [hh, (loadHistory_perm_ok hab hd h).1 hh]

/-- `t.HasFault e` (MhlProps/Proofs/PermLemmas.lean): the `ascmhl` folder of `t` or of a descendant fails to load with
`e`.  An error of `loadHistory` is always such a fault. -/
theorem loadHistory_error_is_fault {t : Node} {e : Err} (h : loadHistory t = .error e) : t.HasFault e :=
  loadHistory_error h

/-- full strength under the extra hypothesis that all damaged histories of the tree fail with the same error (in
particular: at most one damaged history, the single-fault situation of C05) -/
theorem loadHistory_perm_single_fault {a b : Node} (hab : Node.PermEq a b) (hd : a.NamesDistinct)
    (h1 : ∀ e₁ e₂, a.HasFault e₁ → a.HasFault e₂ → e₁ = e₂) : loadHistory a = loadHistory b :=
  loadHistory_permEq_single_fault hab hd h1

/-! ### 4. the commands -/

section commands
variable (env : Env) {a b : Node} (hab : Node.PermEq a b) (hd : a.NamesDistinct)
include hab hd

/-- verify / diff against a packing list: no history is loaded, the statement holds at full strength -/
theorem verifyOrDiff_packingList_listing_independent (o : VerifyOpts) (hashing : Bool) (g : Generation) :
    verifyOrDiff env a o hashing (some g) = verifyOrDiff env b o hashing (some g) := by
  unfold verifyOrDiff
  simp only [judgeFile_perm env hab hd, visiblePaths_perm _ hab hd]

/- The statements asked for (`verify env a o = verify env b o` etc. from `PermEq a b` and `a.NamesDistinct` alone) are
false for the reason `loadHistory_perm` is: see `verify_listing_independent_false`.  The `_partial` versions need the
extra hypothesis `hl : loadHistory a = loadHistory b`, which holds when `loadHistory a` succeeds
(`loadHistory_perm_of_ok`) and when all damaged histories fail alike (`loadHistory_perm_single_fault`); the `_cases`
versions need nothing extra. -/

theorem verify_listing_independent_partial (o : VerifyOpts) (hl : loadHistory a = loadHistory b) :
    verify env a o = verify env b o :=
  verifyOrDiff_of_load env hab hd o true none hl

theorem diff_listing_independent_partial (o : VerifyOpts) (hl : loadHistory a = loadHistory b) :
    diff env a o = diff env b o :=
  verifyOrDiff_of_load env hab hd _ false none hl

theorem verifyDh_listing_independent_partial (o : DhOpts) (hl : loadHistory a = loadHistory b) :
    verifyDh env a o = verifyDh env b o :=
  verifyDh_of_load env hab hd o hl

theorem createFolder_listing_independent_partial (o : CreateOpts) (hl : loadHistory a = loadHistory b) :
    createFolder env a o = createFolder env b o :=
  createFolder_of_load env hab hd o hl

theorem createSingleFiles_listing_independent_partial (o : CreateOpts) (hl : loadHistory a = loadHistory b) :
    createSingleFiles env a o = createSingleFiles env b o :=
  createSingleFiles_of_load env hab hd o hl

/-- `create` in every mode (folder, -sf, -n, -dr, -i): exit, report and the written generations are equal -/
theorem create_listing_independent_partial (o : CreateOpts) (hl : loadHistory a = loadHistory b) :
    create env a o = create env b o :=
  create_of_load env hab hd o hl

/-- hence the tree after the create is again the same up to listing order at every path -/
theorem create_written_listing_independent (o : CreateOpts) (hl : loadHistory a = loadHistory b) :
    (create env a o).written = (create env b o).written := by
  rw [create_listing_independent_partial env hab hd o hl]

omit hab hd in
theorem flatten_listing_independent_partial (ic ifl : List String) (hl : loadHistory a = loadHistory b) :
    flatten env a ic ifl = flatten env b ic ifl :=
  flatten_of_load env ic ifl hl

/-- the versions for a tree whose histories load -/
theorem verify_listing_independent_of_ok (o : VerifyOpts) (hok : ∃ h, loadHistory a = .ok h) :
    verify env a o = verify env b o :=
  verify_listing_independent_partial env hab hd o (loadHistory_perm_of_ok hab hd hok)

theorem diff_listing_independent_of_ok (o : VerifyOpts) (hok : ∃ h, loadHistory a = .ok h) :
    diff env a o = diff env b o :=
  diff_listing_independent_partial env hab hd o (loadHistory_perm_of_ok hab hd hok)

theorem verifyDh_listing_independent_of_ok (o : DhOpts) (hok : ∃ h, loadHistory a = .ok h) :
    verifyDh env a o = verifyDh env b o :=
  verifyDh_listing_independent_partial env hab hd o (loadHistory_perm_of_ok hab hd hok)

theorem create_listing_independent_of_ok (o : CreateOpts) (hok : ∃ h, loadHistory a = .ok h) :
    create env a o = create env b o :=
  create_listing_independent_partial env hab hd o (loadHistory_perm_of_ok hab hd hok)

/-- unconditional: the outcomes are equal, or both commands end before looking at any file with the error of a
damaged history (a different one each) -/
theorem verify_listing_independent_cases (o : VerifyOpts) :
    verify env a o = verify env b o ∨
      ∃ e₁ e₂, e₁ ≠ e₂ ∧ loadHistory a = .error e₁ ∧ loadHistory b = .error e₂ ∧
        verify env a o = { err := some e₁ } ∧ verify env b o = { err := some e₂ } := by
  rcases loadHistory_perm_cases hab hd with hl | ⟨e₁, e₂, hne, h1, h2⟩
  · exact Or.inl (verify_listing_independent_partial env hab hd o hl)
  · refine Or.inr ⟨e₁, e₂, hne, h1, h2, ?_, ?_⟩
    · simp only [verify, verifyOrDiff, h1]
    · simp only [verify, verifyOrDiff, h2]

theorem diff_listing_independent_cases (o : VerifyOpts) :
    diff env a o = diff env b o ∨
      ∃ e₁ e₂, e₁ ≠ e₂ ∧ loadHistory a = .error e₁ ∧ loadHistory b = .error e₂ ∧
        diff env a o = { err := some e₁ } ∧ diff env b o = { err := some e₂ } := by
  rcases loadHistory_perm_cases hab hd with hl | ⟨e₁, e₂, hne, h1, h2⟩
  · exact Or.inl (diff_listing_independent_partial env hab hd o hl)
  · refine Or.inr ⟨e₁, e₂, hne, h1, h2, ?_, ?_⟩
    · simp only [diff, verifyOrDiff, h1]
    · simp only [diff, verifyOrDiff, h2]

theorem verifyDh_listing_independent_cases (o : DhOpts) :
    verifyDh env a o = verifyDh env b o ∨
      ∃ e₁ e₂, e₁ ≠ e₂ ∧ loadHistory a = .error e₁ ∧ loadHistory b = .error e₂ ∧
        verifyDh env a o = { err := some e₁ } ∧ verifyDh env b o = { err := some e₂ } := by
  rcases loadHistory_perm_cases hab hd with hl | ⟨e₁, e₂, hne, h1, h2⟩
  · exact Or.inl (verifyDh_listing_independent_partial env hab hd o hl)
  · refine Or.inr ⟨e₁, e₂, hne, h1, h2, ?_, ?_⟩
    · simp only [verifyDh, h1]
    · simp only [verifyDh, h2]

theorem create_listing_independent_cases (o : CreateOpts) :
    create env a o = create env b o ∨
      ∃ e₁ e₂, e₁ ≠ e₂ ∧ loadHistory a = .error e₁ ∧ loadHistory b = .error e₂ ∧
        create env a o = { err := some e₁ } ∧ create env b o = { err := some e₂ } := by
  rcases loadHistory_perm_cases hab hd with hl | ⟨e₁, e₂, hne, h1, h2⟩
  · exact Or.inl (create_listing_independent_partial env hab hd o hl)
  · refine Or.inr ⟨e₁, e₂, hne, h1, h2, ?_, ?_⟩
    · simp only [create, createFolder, createSingleFiles, h1, ite_self]
    · simp only [create, createFolder, createSingleFiles, h2, ite_self]

end commands

/-- a concrete environment (the hash of a file is a fixed string, nothing is ignored) -/
def exEnv : Env := { H := fun _ _ => "00", D := fun _ _ => none, hit := fun _ _ => false, rootName := "root" }

/-- the unconditional statement is false for every command that loads the histories: the exit code of verify on the
two listings of `loadHistory_perm_false` differs -/
theorem verify_listing_independent_false :
    ¬ ∀ (env : Env) {a b : Node}, Node.PermEq a b → a.NamesDistinct → ∀ o, verify env a o = verify env b o := by
  intro h
  have := congrArg Outcome.exitCode (h exEnv twoFaults_permEq twoFaults_namesDistinct {})
  revert this
  decide

example : (verify exEnv twoFaults₁ {}).exitCode = 32 ∧ (verify exEnv twoFaults₂ {}).exitCode = 31 := by decide

/-! ### 5. the order in the manifest is the order of the names -/

/-- the children listed in every visit are sorted by name -/
theorem sorted_listing (hit : RelPath → Bool) (t : Node) : ∀ (here : RelPath) (v : Visit),
    v ∈ traverse hit here t → v.children.Pairwise (fun x y => strLe x.1 y.1 = true) := by
  induction t using Node.induct with
  | file n c => intro here v hv; simp [traverse] at hv
  | dir n cs h ih =>
    intro here v hv
    rw [traverse_dir, List.mem_append, List.mem_flatMap] at hv
    rcases hv with ⟨k, hk, hv⟩ | hv
    · obtain ⟨c, hc, -, rfl⟩ := (mem_visKids _ _ _ _).1 hk
      exact ih c hc _ v hv
    · simp only [List.mem_singleton] at hv
      subst hv
      simp only [List.pairwise_map]
      exact (isort_key_sorted Kid.name _).filter _

/-- the same in terms of `≤` on strings (lexicographic by code point) -/
theorem sorted_listing_le (hit : RelPath → Bool) (t : Node) (here : RelPath) (v : Visit)
    (hv : v ∈ traverse hit here t) : (v.children.map (·.1)).Pairwise (· ≤ ·) := by
  have := sorted_listing hit t here v hv
  rw [List.pairwise_map]
  simpa [strLe] using this

/-- with distinct sibling names the listed names strictly increase: the order of a listing is determined by its set
of names -/
theorem sorted_listing_strict (hit : RelPath → Bool) (t : Node) : ∀ (here : RelPath) (v : Visit),
    t.NamesDistinct → v ∈ traverse hit here t → (v.children.map (·.1)).Pairwise (· < ·) := by
  induction t using Node.induct with
  | file n c => intro here v _ hv; simp [traverse] at hv
  | dir n cs h ih =>
    intro here v hd hv
    rw [Node.namesDistinct_dir] at hd
    rw [traverse_dir, List.mem_append, List.mem_flatMap] at hv
    rcases hv with ⟨k, hk, hv⟩ | hv
    · obtain ⟨c, hc, -, rfl⟩ := (mem_visKids _ _ _ _).1 hk
      exact ih c hc _ v (hd.2 c hc) hv
    · simp only [List.mem_singleton] at hv
      subst hv
      simp only [List.pairwise_map]
      have h1 : (visKids hit here cs).Pairwise (fun a b => strLe a.name b.name = true) :=
        (isort_key_sorted Kid.name _).filter _
      have h2 := visKids_names_pairwise hit here cs hd.1
      refine (h1.and h2).imp ?_
      rintro x y ⟨hle, hne⟩
      exact Std.lt_of_le_of_ne (by simpa [strLe] using hle) hne

/-! ### non-vacuity -/

/-- a tree with a root history and a nested history, in two listing orders (at the top and inside `sub`) -/
def exGen : Generation :=
  { fileName := "0001_root_2020-01-01_000000Z.mhl",
    records := [{ path := "b.txt", entries := [{ fmt := "md5", digest := "00", action := "original" }] }] }
def exStore : HistStore := { gens := [exGen], chain := [⟨1, exGen.fileName⟩] }
def exSub₁ : Node := .dir "sub" [.file "x" [1], .file "y" [2]] (some {})
def exSub₂ : Node := .dir "sub" [.file "y" [2], .file "x" [1]] (some {})
def exA : Node := .dir "root" [.file "b.txt" [3], exSub₁, .file "a.txt" [4]] (some exStore)
def exB : Node := .dir "root" [exSub₂, .file "a.txt" [4], .file "b.txt" [3]] (some exStore)

theorem exA_permEq_exB : Node.PermEq exA exB := by
  refine .trans (.congr "root" [.file "b.txt" [3]] [.file "a.txt" [4]] (some exStore)
    (.perm "sub" (some {}) (List.Perm.swap _ _ _) : Node.PermEq exSub₁ exSub₂)) ?_
  refine .perm "root" (some exStore) ?_
  show [Node.file "b.txt" [3], exSub₂, .file "a.txt" [4]].Perm [exSub₂, .file "a.txt" [4], .file "b.txt" [3]]
  exact List.perm_append_comm (l₁ := [_]) (l₂ := [_, _])

theorem exA_namesDistinct : exA.NamesDistinct := by
  simp [exA, exSub₁, Node.NamesDistinct, Node.NamesDistinctKids, Node.name]

/-- the histories of the example load (so the `_of_ok` theorems apply) -/
theorem exA_loads : ∃ h, loadHistory exA = .ok h := by
  have h : (loadHistory exA).toOption.isSome = true := by decide
  cases hl : loadHistory exA with
  | ok v => exact ⟨v, rfl⟩
  | error e => rw [hl] at h; simp [Except.toOption] at h

example : verify exEnv exA {} = verify exEnv exB {} :=
  verify_listing_independent_of_ok exEnv exA_permEq_exB exA_namesDistinct {} exA_loads

example : create exEnv exA {} = create exEnv exB {} :=
  create_listing_independent_of_ok exEnv exA_permEq_exB exA_namesDistinct {} exA_loads

/-- and the result is not trivial: verify reports the new file `a.txt` and the files of `sub` on both listings -/
example : (verify exEnv exA {}).report.new = ["sub/x", "sub/y", "a.txt"] ∧
    (verify exEnv exB {}).report.new = ["sub/x", "sub/y", "a.txt"] := by decide

example : (traverse (fun _ => false) [] exA).map (·.children) =
    [[("x", false), ("y", false)], [("a.txt", false), ("b.txt", false), ("sub", true)]] := by decide

/-- one damaged nested history: the single-fault hypothesis holds and loading fails alike on both listings -/
def oneFault₁ : Node := .dir "root" [badA, .file "f" []] none
def oneFault₂ : Node := .dir "root" [.file "f" [], badA] none

theorem oneFault_single : ∀ e₁ e₂, oneFault₁.HasFault e₁ → oneFault₁.HasFault e₂ → e₁ = e₂ := by
  have key : ∀ e, oneFault₁.HasFault e → e = errNoChain := by
    intro e h
    cases h with
    | inside hc h =>
      simp only [List.mem_cons, List.not_mem_nil, or_false] at hc
      rcases hc with rfl | rfl
      · cases h with
        | self h =>
          have h' : (Except.error errNoChain : Except Err Hist) = .error e := h
          cases h'; rfl
        | inside hc _ => simp at hc
      · cases h
  intro e₁ e₂ h₁ h₂
  rw [key e₁ h₁, key e₂ h₂]

example : loadHistory oneFault₁ = loadHistory oneFault₂ :=
  loadHistory_perm_single_fault (.perm "root" none (List.Perm.swap _ _ _))
    (by simp [oneFault₁, badA, Node.NamesDistinct, Node.NamesDistinctKids, Node.name]) oneFault_single

example : errOf (loadHistory oneFault₁) = some errNoChain := by decide

end MhlProps.C13
