/-
C09 — Directory-hash verification detects any change anywhere.

`verify -dh` ends with 0 on the tree every generation recorded, with 12 when the tree differs from what ALL recorded
generations say (including a change directly in the root folder — the former defect D2a), and never with an internal
error.

Property theorems only; helper lemmas live in MhlProps/Proofs/LoadLemmas.lean.  Vocabulary from there:
`dhFold env t h o`       = the state after folding `dhVisit` over the traversal (definitionally
                            `(traverse hit [] t).foldl (dhVisit env t h fmts o) {}` with `hit`, `fmts` as in `verifyDh`),
`dhRootHashes env t h o` = `(alookup [] (dhFold …).dirHashes).getD []`, the computed hashes of the root folder,
`allRootEntries h`       = the root-hash entries of all generations, in order,
`mismatches fmts computed e` = `e` is in a computed format, has a computed counterpart (first match), differs from it,
`DhInv fmts st`          = `st.failedFormats` is duplicate free and within `fmts`.
-/
import MhlProps.Proofs.LoadLemmas
import Batteries.Data.List.Perm

namespace MhlProps.C09
open MhlModel

/-! ### 1. never an internal error -/

/-- loading never ends with an internal error: only 31 / 33 / 32 -/
theorem loadHistory_error_kind (t : Node) (e : Err) (h : loadHistory t = .error e) :
    e = errModified ∨ e = errMissingManifest ∨ e = errNoChain := by
  have : (allFaults t).head? = some e := by rw [← loadHistory_err, h]; rfl
  exact allFaults_kind t e (List.mem_of_head? this)

theorem dhExit_cases (fmts failed : List String) :
    dhExit fmts failed = none ∨ dhExit fmts failed = some errDirVerifyFailed := by
  unfold dhExit; split <;> simp

theorem verifyDh_total (env : Env) (t : Node) (o : DhOpts) :
    (verifyDh env t o).err = none ∨ (verifyDh env t o).err = some errDirVerifyFailed ∨
      ∃ e, loadHistory t = .error e ∧ (verifyDh env t o).err = some e ∧
        (e = errModified ∨ e = errMissingManifest ∨ e = errNoChain) := by
  cases hl : loadHistory t with
  | error e =>
    refine Or.inr (Or.inr ⟨e, rfl, ?_, loadHistory_error_kind t e hl⟩)
    simp [verifyDh, hl]
  | ok h =>
    rw [verifyDh_ok env t o h hl]
    rcases dhExit_cases (dhFormats h o.format) (dhFinal env t h o).failedFormats with h1 | h1
    · exact Or.inl h1
    · exact Or.inr (Or.inl h1)

/-- in exit codes: 0, 12, 31, 32 or 33 — never the 1 of an uncaught exception -/
theorem verifyDh_exitCode (env : Env) (t : Node) (o : DhOpts) :
    (verifyDh env t o).exitCode ∈ [0, 12, 31, 32, 33] := by
  unfold Outcome.exitCode
  rcases verifyDh_total env t o with h | h | ⟨e, _, h, rfl | rfl | rfl⟩ <;> rw [h] <;> decide

theorem verifyDh_never_internal (env : Env) (t : Node) (o : DhOpts) (k : String) :
    (verifyDh env t o).err ≠ some (.internal k) := by
  rcases verifyDh_total env t o with h | h | ⟨e, _, h, rfl | rfl | rfl⟩ <;> rw [h] <;> intro hk <;> cases hk

/-! ### 2. what `dhCompare` marks -/

theorem dhCompare_marks (fmts : List String) (label : String) (computed : List (String × String × String))
    (st : DhState) (recorded : List Entry) (f : String) :
    f ∈ (dhCompare fmts true label computed st recorded).failedFormats ↔
      f ∈ st.failedFormats ∨
        ∃ e ∈ recorded, e.fmt = f ∧ f ∈ fmts ∧
          ∃ c' s', computed.find? (fun x => x.1 == f) = some (f, c', s') ∧ compareDir e c' s' = 1 := by
  rw [dhCompare_failed]
  simp only [if_true, mem_foldl_appendNew, List.mem_filter, mismatches_iff]
  constructor
  · rintro (h | ⟨e, ⟨he, hf, c', s', hc, hcmp⟩, rfl⟩)
    · exact Or.inl h
    · exact Or.inr ⟨e, he, rfl, hf, c', s', hc, hcmp⟩
  · rintro (h | ⟨e, he, rfl, hf, c', s', hc, hcmp⟩)
    · exact Or.inl h
    · exact Or.inr ⟨e, ⟨he, hf, c', s', hc, hcmp⟩, rfl⟩

/-- failedFormats only grows: the old list is a prefix of the new one -/
theorem dhCompare_grows (fmts : List String) (count : Bool) (label : String)
    (computed : List (String × String × String)) (st : DhState) (recorded : List Entry) :
    st.failedFormats <+: (dhCompare fmts count label computed st recorded).failedFormats := by
  rw [dhCompare_failed]
  cases count with
  | false => exact List.prefix_refl _
  | true =>
    simp only [if_true]
    generalize recorded.filter (mismatches fmts computed) = l
    generalize st.failedFormats = acc
    induction l generalizing acc with
    | nil => exact List.prefix_refl _
    | cons e es ih =>
      rw [List.foldl_cons]
      refine List.IsPrefix.trans ?_ (ih _)
      unfold appendNew
      split
      · exact List.prefix_refl _
      · exact List.prefix_append _ _

theorem dhCompare_grows_mem (fmts : List String) (count : Bool) (label : String)
    (computed : List (String × String × String)) (st : DhState) (recorded : List Entry) (f : String)
    (h : f ∈ st.failedFormats) : f ∈ (dhCompare fmts count label computed st recorded).failedFormats :=
  (dhCompare_grows fmts count label computed st recorded).subset h

/-- without counting (`-ro` on the root comparison) failedFormats is unchanged -/
theorem dhCompare_nocount (fmts : List String) (label : String) (computed : List (String × String × String))
    (st : DhState) (recorded : List Entry) :
    (dhCompare fmts false label computed st recorded).failedFormats = st.failedFormats := by
  rw [dhCompare_failed]; rfl

/-- the computed hashes and the printed lines are not touched by a comparison -/
theorem dhCompare_keeps (fmts : List String) (count : Bool) (label : String)
    (computed : List (String × String × String)) (st : DhState) (recorded : List Entry) :
    (dhCompare fmts count label computed st recorded).dirHashes = st.dirHashes ∧
    (dhCompare fmts count label computed st recorded).lines = st.lines :=
  dhCompare_dirHashes fmts count label computed st recorded

/-! ### 3. the exit decision -/

theorem dhExit_spec (fmts failed : List String) :
    dhExit fmts failed = some errDirVerifyFailed ↔
      failed ≠ [] ∧ failed.length = (fmts.foldl appendNew []).length := by
  unfold dhExit
  cases failed <;> simp

/-- `fmts.foldl appendNew []` is the duplicate-free list of the elements of `fmts` (and `fmts` itself when that has
no duplicates) -/
theorem dedup_fmts (fmts : List String) :
    (fmts.foldl appendNew []).Nodup ∧ (∀ f, f ∈ fmts.foldl appendNew [] ↔ f ∈ fmts) ∧
    (fmts.Nodup → fmts.foldl appendNew [] = fmts) :=
  ⟨(dedup_spec fmts).1, (dedup_spec fmts).2, fun h => by simpa using foldl_appendNew_of_nodup fmts [] (by simpa using h)⟩

/-- "12 iff every computed format failed" -/
theorem dhExit_spec_all (fmts failed : List String) (hnd : failed.Nodup) (hsub : ∀ f ∈ failed, f ∈ fmts) :
    dhExit fmts failed = some errDirVerifyFailed ↔ fmts ≠ [] ∧ ∀ f ∈ fmts, f ∈ failed := by
  rw [dhExit_spec]
  obtain ⟨hdn, hdm⟩ := dedup_spec fmts
  have hsub' : failed ⊆ fmts.foldl appendNew [] := fun f hf => (hdm f).2 (hsub f hf)
  constructor
  · rintro ⟨hne, hlen⟩
    have hperm := (List.subperm_of_subset hnd hsub').perm_of_length_le (by omega)
    refine ⟨?_, fun f hf => hperm.mem_iff.2 ((hdm f).2 hf)⟩
    intro h0; subst h0
    cases failed with
    | nil => exact hne rfl
    | cons a as => simp at hlen
  · rintro ⟨hne, hall⟩
    have hsup : fmts.foldl appendNew [] ⊆ failed := fun f hf => hall f ((hdm f).1 hf)
    refine ⟨?_, Nat.le_antisymm (hnd.length_le_of_subset hsub') (hdn.length_le_of_subset hsup)⟩
    intro h0; subst h0
    cases fmts with
    | nil => exact hne rfl
    | cons a as => simpa using hall a List.mem_cons_self

/-! ### 4. a change of the root folder is detected -/

/-- the invariant of the traversal: failed formats are computed formats, each once -/
theorem dhFold_failed_inv (env : Env) (t : Node) (h : Hist) (o : DhOpts) :
    (dhFold env t h o).failedFormats.Nodup ∧
    ∀ f ∈ (dhFold env t h o).failedFormats, f ∈ dhFormats h o.format :=
  dhFold_inv env t h o

/-- `dhFold` is the fold of `verifyDh` -/
theorem dhFold_def (env : Env) (t : Node) (h : Hist) (o : DhOpts) :
    dhFold env t h o =
      (traverse (env.hit (setPatterns (latestIgnore h.gens) o.ignoreCli o.ignoreFile)) [] t).foldl
        (dhVisit env t h (dhFormats h o.format) o) ({} : DhState) := rfl

/-- without `-h`: the formats are the sorted duplicate-free list of exactly the formats occurring in root hashes -/
theorem dhFormats_spec (h : Hist) (hsome : ∃ g ∈ h.gens, ∃ e, e ∈ g.gen.rootHash.getD []) :
    (dhFormats h none).Nodup ∧ (dhFormats h none).Pairwise (· ≤ ·) ∧
    ∀ f, f ∈ dhFormats h none ↔ ∃ g ∈ h.gens, ∃ e ∈ g.gen.rootHash.getD [], e.fmt = f := by
  refine ⟨dhFormats_nodup h none, dhFormats_sorted h none, mem_dhFormats_none h ?_⟩
  obtain ⟨g, hg, e, he⟩ := hsome
  intro h0
  have := (mem_rootFmts h.gens e.fmt).2 ⟨g, hg, e, he, rfl⟩
  rw [h0] at this; cases this

/-- the general form: for every format that occurs in a root hash, SOME generation's entry of that format differs
from the computed root hash ⇒ 12.  (With `-h FMT` the same holds for the one format, see `root_change_detected_fmt`.) -/
theorem root_change_detected_general (env : Env) (t : Node) (o : DhOpts) (h : Hist)
    (hfmt : o.format = none) (hro : o.rootOnly = false) (hl : loadHistory t = .ok h)
    (hsome : ∃ g ∈ h.gens, ∃ e, e ∈ g.gen.rootHash.getD [])
    (hdiff : ∀ g ∈ h.gens, ∀ e ∈ g.gen.rootHash.getD [], ∃ g' ∈ h.gens, ∃ e' ∈ g'.gen.rootHash.getD [],
      e'.fmt = e.fmt ∧ ∃ c' s',
        ((alookup ([] : RelPath) (dhFold env t h o).dirHashes).getD []).find? (fun x => x.1 == e.fmt)
          = some (e.fmt, c', s') ∧ compareDir e' c' s' = 1) :
    (verifyDh env t o).err = some errDirVerifyFailed := by
  rw [verifyDh_ok env t o h hl]
  simp only
  have hinv : DhInv (dhFormats h o.format) (dhFinal env t h o) :=
    dhCompare_inv _ _ _ _ _ _ (dhFold_inv env t h o)
  rw [dhExit_spec_all _ _ hinv.1 hinv.2]
  refine ⟨dhFormats_ne_nil h o.format, ?_⟩
  intro f hf
  rw [hfmt] at hf
  obtain ⟨g, hg, e, he, rfl⟩ := ((dhFormats_spec h hsome).2.2 f).1 hf
  obtain ⟨g', hg', e', he', hfe, c', s', hc, hcmp⟩ := hdiff g hg e he
  unfold dhFinal
  rw [hro]
  apply (dhCompare_marks _ _ _ _ _ _).2
  refine Or.inr ⟨e', ?_, hfe, ?_, c', s', hc, hcmp⟩
  · exact List.mem_flatMap.2 ⟨g', hg', he'⟩
  · rw [hfmt]; exact hf

/-- the former defect D2a: the tree's root hash differs from what EVERY generation recorded, in every recorded
format ⇒ `verify -dh` ends with 12.  "At least one generation has a root hash" must mean a root hash with at least
one entry: see `root_hash_without_entries` below for the degenerate case. -/
theorem root_change_detected (env : Env) (t : Node) (o : DhOpts) (h : Hist)
    (hfmt : o.format = none) (hro : o.rootOnly = false) (hl : loadHistory t = .ok h)
    (hsome : ∃ g ∈ h.gens, ∃ es, g.gen.rootHash = some es ∧ es ≠ [])
    (hdiff : ∀ g ∈ h.gens, ∀ e ∈ g.gen.rootHash.getD [], ∃ c' s',
      ((alookup ([] : RelPath)
        ((traverse (env.hit (setPatterns (latestIgnore h.gens) o.ignoreCli o.ignoreFile)) [] t).foldl
          (dhVisit env t h (dhFormats h o.format) o) ({} : DhState)).dirHashes).getD []).find?
            (fun x => x.1 == e.fmt) = some (e.fmt, c', s') ∧ compareDir e c' s' = 1) :
    (verifyDh env t o).err = some errDirVerifyFailed := by
  apply root_change_detected_general env t o h hfmt hro hl
  · obtain ⟨g, hg, es, hes, hne⟩ := hsome
    cases es with
    | nil => exact absurd rfl hne
    | cons e es => exact ⟨g, hg, e, by simp [hes]⟩
  · intro g hg e he
    obtain ⟨c', s', hc, hcmp⟩ := hdiff g hg e he
    exact ⟨g, hg, e, he, rfl, c', s', hc, hcmp⟩

/-- with `-h FMT`: some recorded root entry of that format differs ⇒ 12 -/
theorem root_change_detected_fmt (env : Env) (t : Node) (o : DhOpts) (h : Hist) (fmt : String)
    (hfmt : o.format = some fmt) (hro : o.rootOnly = false) (hl : loadHistory t = .ok h)
    (hdiff : ∃ g ∈ h.gens, ∃ e ∈ g.gen.rootHash.getD [], e.fmt = fmt ∧ ∃ c' s',
      ((alookup ([] : RelPath) (dhFold env t h o).dirHashes).getD []).find? (fun x => x.1 == fmt)
        = some (fmt, c', s') ∧ compareDir e c' s' = 1) :
    (verifyDh env t o).err = some errDirVerifyFailed := by
  rw [verifyDh_ok env t o h hl]
  simp only
  have hinv : DhInv (dhFormats h o.format) (dhFinal env t h o) :=
    dhCompare_inv _ _ _ _ _ _ (dhFold_inv env t h o)
  rw [dhExit_spec_all _ _ hinv.1 hinv.2]
  refine ⟨dhFormats_ne_nil h o.format, ?_⟩
  intro f hf
  rw [hfmt, dhFormats_some] at hf
  simp only [List.mem_singleton] at hf
  subst hf
  obtain ⟨g, hg, e, he, hfe, c', s', hc, hcmp⟩ := hdiff
  unfold dhFinal
  rw [hro]
  apply (dhCompare_marks _ _ _ _ _ _).2
  refine Or.inr ⟨e, List.mem_flatMap.2 ⟨g, hg, he⟩, hfe, ?_, c', s', hc, hcmp⟩
  rw [hfmt, dhFormats_some]; simp

/-- the exact condition for 12 (any options): every computed format is marked, by a sub-folder during the traversal
or by a root entry (unless `-ro`, where root entries do not count) -/
theorem verifyDh_12_iff (env : Env) (t : Node) (o : DhOpts) (h : Hist) (hl : loadHistory t = .ok h) :
    (verifyDh env t o).err = some errDirVerifyFailed ↔
      ∀ f ∈ dhFormats h o.format,
        f ∈ (dhFold env t h o).failedFormats ∨
          (o.rootOnly = false ∧ ∃ e ∈ allRootEntries h, e.fmt = f ∧ ∃ c' s',
            (dhRootHashes env t h o).find? (fun x => x.1 == f) = some (f, c', s') ∧ compareDir e c' s' = 1) := by
  rw [verifyDh_ok env t o h hl]
  simp only
  have hinv : DhInv (dhFormats h o.format) (dhFinal env t h o) :=
    dhCompare_inv _ _ _ _ _ _ (dhFold_inv env t h o)
  rw [dhExit_spec_all _ _ hinv.1 hinv.2]
  simp only [ne_eq, dhFormats_ne_nil, not_false_eq_true, true_and]
  unfold dhFinal
  cases hro : o.rootOnly with
  | true =>
    simp only [Bool.not_true, dhCompare_nocount]
    simp
  | false =>
    simp only [Bool.not_false, true_and]
    constructor
    · intro hall f hf
      rcases (dhCompare_marks _ _ _ _ _ _).1 (hall f hf) with h1 | ⟨e, he, hfe, _, rest⟩
      · exact Or.inl h1
      · exact Or.inr ⟨e, he, hfe, rest⟩
    · intro hall f hf
      apply (dhCompare_marks _ _ _ _ _ _).2
      rcases hall f hf with h1 | ⟨e, he, hfe, rest⟩
      · exact Or.inl h1
      · exact Or.inr ⟨e, he, hfe, hf, rest⟩

/-! ### 5. nothing changed ⇒ 0 -/

/-- no sub-folder was marked and every root-hash entry that has a computed counterpart compares equal ⇒ exit 0 -/
theorem unchanged_root_ok_partial (env : Env) (t : Node) (o : DhOpts) (h : Hist) (hl : loadHistory t = .ok h)
    (hsub : ((traverse (env.hit (setPatterns (latestIgnore h.gens) o.ignoreCli o.ignoreFile)) [] t).foldl
          (dhVisit env t h (dhFormats h o.format) o) ({} : DhState)).failedFormats = [])
    (heq : ∀ g ∈ h.gens, ∀ e ∈ g.gen.rootHash.getD [], ∀ k c' s',
      ((alookup ([] : RelPath)
        ((traverse (env.hit (setPatterns (latestIgnore h.gens) o.ignoreCli o.ignoreFile)) [] t).foldl
          (dhVisit env t h (dhFormats h o.format) o) ({} : DhState)).dirHashes).getD []).find?
            (fun x => x.1 == e.fmt) = some (k, c', s') → compareDir e c' s' = 2) :
    (verifyDh env t o).err = none ∧ (verifyDh env t o).exitCode = 0 := by
  have key : (verifyDh env t o).err = none := by
    rw [verifyDh_ok env t o h hl]
    simp only
    have : (dhFinal env t h o).failedFormats = [] := by
      unfold dhFinal
      rw [dhCompare_failed]
      split
      · have hnone : (allRootEntries h).filter
            (mismatches (dhFormats h o.format) (dhRootHashes env t h o)) = [] := by
          rw [List.filter_eq_nil_iff]
          intro e he hm
          obtain ⟨g, hg, he'⟩ := List.mem_flatMap.1 he
          obtain ⟨_, c', s', hc, hcmp⟩ := (mismatches_iff _ _ _).1 hm
          have := heq g hg e he' e.fmt c' s' hc
          omega
        rw [hnone]; exact hsub
      · exact hsub
    rw [this]
    rfl
  exact ⟨key, by simp [Outcome.exitCode, key]⟩

/-! ### non-vacuity -/

section Examples

/-- toy hashing layer: the "digest" is the format name followed by the sum of the input bytes -/
def envX : Env :=
  { H := fun f c => f ++ toString (c.foldl (fun a u => a + u.toNat) 0), D := fun _ s => some s.toUTF8.toList,
    hit := fun pats p => pats.contains (posix p), rootName := "root" }

/-- one generation that recorded the files, the sub-folder (with the hashes the toy layer gives) and the root hash
`c` / `s` -/
def genWith (c s : String) : Generation :=
  { fileName := "0001_root_2020-01-01_000000Z.mhl",
    rootHash := some [{ fmt := "md5", digest := c, shash := some s }],
    records := [{ path := "a.txt", entries := [{ fmt := "md5", digest := "md57", action := "original" }] },
                { path := "sub/b.txt", entries := [{ fmt := "md5", digest := "md53", action := "original" }] },
                { path := "sub", isDir := true,
                  entries := [{ fmt := "md5", digest := "md5313", shash := some "md5423" }] }] }

def storeWith (c s : String) : HistStore :=
  { gens := [genWith c s], chain := [⟨1, "0001_root_2020-01-01_000000Z.mhl"⟩] }

def treeWith (c s : String) : Node :=
  .dir "root" [.file "a.txt" [7], .dir "sub" [.file "b.txt" [1, 2]] none] (some (storeWith c s))

def okHist : Except Err Hist → Option Hist
  | .ok h => some h
  | .error _ => none

/-- what the toy layer computes for the root folder -/
example : (okHist (loadHistory (treeWith "x" "y"))).map (fun h => dhRootHashes envX (treeWith "x" "y") h {})
    = some [("md5", "md5730", "md5839")] := by decide +kernel

/-- recorded = computed: exit 0 -/
example : (verifyDh envX (treeWith "md5730" "md5839") {}).exitCode = 0 := by decide +kernel

/-- the root folder's recorded content hash differs (a file directly in the root changed): exit 12 -/
example : (verifyDh envX (treeWith "old" "md5839") {}).err = some errDirVerifyFailed := by decide +kernel

/-- only the structure hash differs: also 12 -/
example : (verifyDh envX (treeWith "md5730" "other") {}).exitCode = 12 := by decide +kernel

/-- with `-ro` the root comparison is logged but not counted -/
example : (verifyDh envX (treeWith "old" "md5839") { rootOnly := true }).exitCode = 0 ∧
    (verifyDh envX (treeWith "old" "md5839") { rootOnly := true }).report.dirMismatch = ["."] := by
  decide +kernel

/-- the hypotheses of `root_change_detected` hold on the changed tree -/
example : ∃ h, loadHistory (treeWith "old" "md5839") = .ok h ∧
    (∃ g ∈ h.gens, ∃ es, g.gen.rootHash = some es ∧ es ≠ []) ∧
    (∀ g ∈ h.gens, ∀ e ∈ g.gen.rootHash.getD [], ∃ c' s',
      ((alookup ([] : RelPath) (dhFold envX (treeWith "old" "md5839") h {}).dirHashes).getD []).find?
        (fun x => x.1 == e.fmt) = some (e.fmt, c', s') ∧ compareDir e c' s' = 1) := by
  cases hl : loadHistory (treeWith "old" "md5839") with
  | error e =>
    have : exceptErr (loadHistory (treeWith "old" "md5839")) = none := by decide +kernel
    rw [hl] at this; cases this
  | ok h =>
    have hg : h.gens = [⟨1, genWith "old" "md5839"⟩] := by
      have h2 : (okHist (loadHistory (treeWith "old" "md5839"))).map (·.gens.map (fun g => (g.number, g.gen)))
          = some [(1, genWith "old" "md5839")] := by decide +kernel
      rw [hl] at h2
      simp only [okHist, Option.map_some, Option.some.injEq] at h2
      cases hh : h.gens with
      | nil => rw [hh] at h2; cases h2
      | cons a as =>
        rw [hh] at h2
        cases as with
        | nil =>
          simp only [List.map_cons, List.map_nil, List.cons.injEq, Prod.mk.injEq, and_true] at h2
          obtain ⟨n, g⟩ := a
          simp only at h2
          rw [h2.1, h2.2]
        | cons b bs => simp at h2
    refine ⟨h, rfl, ?_, ?_⟩
    · exact ⟨_, by rw [hg]; exact List.mem_singleton.2 rfl, _, rfl, by simp⟩
    · intro g hgm e he
      rw [hg, List.mem_singleton] at hgm
      subst hgm
      simp only [genWith, Option.getD_some, List.mem_singleton] at he
      subst he
      have hd : (okHist (loadHistory (treeWith "old" "md5839"))).map
          (fun h => dhRootHashes envX (treeWith "old" "md5839") h {}) = some [("md5", "md5730", "md5839")] := by
        decide +kernel
      rw [hl] at hd
      simp only [okHist, Option.map_some, Option.some.injEq, dhRootHashes] at hd
      rw [hd]
      exact ⟨"md5730", "md5839", by decide +kernel, by decide +kernel⟩

/-- a `<roothash>` element WITHOUT any hash entry: "some generation has a root hash" alone does not give 12 (the
formats fall back to c4 and there is nothing to compare) — hence the `es ≠ []` in `root_change_detected` -/
theorem root_hash_without_entries :
    let t : Node := .dir "root" [.file "a.txt" [7]]
      (some { gens := [{ fileName := "0001_root_2020-01-01_000000Z.mhl", rootHash := some [] }],
              chain := [⟨1, "0001_root_2020-01-01_000000Z.mhl"⟩] })
    (verifyDh envX t {}).err = none := by decide +kernel

/-- `dhExit`: 12 needs every format failed -/
example : dhExit ["c4", "md5"] ["md5"] = none ∧ dhExit ["c4", "md5"] ["md5", "c4"] = some errDirVerifyFailed ∧
    dhExit ["c4"] [] = none := by decide

/-- a damaged chain: the error of loading, not an internal one -/
example : (verifyDh envX (.dir "root" [] (some { chainPresent := false })) {}).exitCode = 32 := by decide +kernel

end Examples

end MhlProps.C09
