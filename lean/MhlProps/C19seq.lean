/-
C19seq — C19 END TO END.

  `info` on a folder lists, for its history and for every nested history, exactly the generations that exist, in
  ascending order; `info -sf FILE` prints exactly one line per digest recorded for that file, with generation
  number, format, digest and action as written; both fail with the no-history code (30) when there is no history.

Obtained by composing the model's own `create` / `applyWritten` (C06seq's `run`, C03e2e's `sealedTree`) with
`loadHistory`, `info` and `infoSingleFile`.

Theorems
  1. `info_after_run`               after ANY C06seq run from a folder without history, with `n = writes env t steps`
                                    the number of steps that wrote: the history has `n` generations; `n ≥ 1`: `info`
                                    = `.ok [([],1), …, ([],n)]`; `n = 0`: `info` = 30.
  2. `info_lists_exactly_existing`  for ANY tree that loads with a generation at the root: `info t = .ok L`, `L` has
                                    exactly the (root, number) pairs of the loaded histories, block by block in
                                    pre-order, each block ascending, the root block first, every subtree contiguous,
                                    children after parents; with distinct sibling names every line is a manifest
                                    on disk at that folder and the lines of a root are its block.
                                    Duplicate-freeness under `NamesDistinct` ALONE is FALSE of the model
                                    (`info_nodup_needs_numbers`: two manifests `0001_a…`, `0001_b…` in one folder
                                    both load as generation 1); it is proved under the extra hypothesis
                                    `NumbersDistinct h`, together with strict ascent.
  (after the repair of `info -sf` — nearest enclosing history, `ownerHist` —: the trees of sections 3 and 4 have no
  nested histories, `sealedHist_flat`, `runInv_children`, so their statements are UNCHANGED; the general statement
  `infoSingleFile_sfLines` is restated with `ownerHist`, its former form is `infoSingleFile_sfLines_root` / `_flat`.)
  3. `info_sf_after_seal`           C03e2e's setting: `info -sf p` on the sealed tree = one line
                                    `(1, f, env.H f content, "original")` per DISTINCT requested format `f`, in
                                    strictly ascending format-name order (`fmtList`); `info_sf_after_seal_count`,
                                    `info_sf_after_seal_unseen` (an ignored / absent path: no line).
  4. `info_sf_after_run`            folder-mode runs (no `-sf`, no `-dr`, ≥ 1 format) over a never-edited file:
                                    numbers in `1..n`, ascending, every digest `env.H fmt c`, no `failed`, and the
                                    C04 prediction in full: the first generation that records the file is all
                                    `original`, every later one all `verified`.
     `info_sf_unaltered_step`       generation by generation: one more step over the unaltered file adds lines numbered
                                    `n+1`, digests of `c`, all `original` if there was no line before, else all
                                    `verified`, one for EVERY requested format when the run saw the file.
     `info_sf_edited_step`          one more step after the file was altered to `c'`: old lines unchanged, new
                                    lines numbered `n+1` carry digests of `c'`; in a recorded format `failed` iff the
                                    digest differs (`verified` iff it agrees); if one failed no new format is
                                    added; if the digests differ in every recorded format ALL new lines are `failed`.
     `info_sf_needs_noRename`       why `-dr` is excluded: with `-dr`, hiding the (unaltered) file by a new ignore
                                    pattern and adding a file with the same first digest makes generation 2 hold a
                                    record with previous path `p`; `info -sf p` then prints a second `original` line.
  5. `info_no_history_everywhere`, `info_no_history_tree`, `info_only_nested`
                                    no generation at the root ⇒ both commands end with 30, whatever is nested;
                                    a broken nested history makes both end with THAT error instead.
Non-vacuity: C06seq's `exSteps` (4 generations), a run that writes nothing, C03e2e's sealed example, and the nested
trees `big1` (only nested), `big3` (two levels), `c3` (three levels) of C04nested, by `decide +kernel`.

Helper lemmas: MhlProps/Proofs/InfoLemmas.lean.
-/
import MhlProps.Proofs.InfoLemmas
import MhlProps.C04nested

namespace MhlProps.C19seq
open MhlModel MhlProps.C19 MhlProps.C06seq

/-! ### 1. `info` after a run -/

/-- the number of steps of a run that write a generation -/
def writes (env : Env) : Node → List Step → Nat
  | _, [] => 0
  | t, st :: rest =>
    (if (create { env with stamp := st.stamp } (st.edit t) st.opts).written.isEmpty then 0 else 1)
      + writes env (stepTree env t st) rest

/-- from any point of a run: the number of generations grows by exactly the number of steps that write -/
theorem run_counts (env : Env) (hrn : '\n' ∉ env.rootName.toList) (steps : List Step) :
    ∀ (t : Node) (n : Nat) (gs : List Generation), RunInv t n gs → (∀ st ∈ steps, st.Ok) →
      ∃ gs', RunInv (run env t steps) (n + writes env t steps) gs' := by
  induction steps with
  | nil => intro t n gs h _; exact ⟨gs, h⟩
  | cons st steps ih =>
    intro t n gs h hok
    have hst := hok st (by simp)
    have hrest : ∀ x ∈ steps, x.Ok := fun x hx => hok x (by simp [hx])
    rw [run_cons, writes]
    obtain ⟨-, -, hc⟩ := step_appends_partial env hrn t h.isDir h.flat n gs h.good st hst
    rcases step_inv env hrn t n gs h st hst with h' | ⟨g, h', -, -⟩
    · rcases hc with ⟨h0, -, -⟩ | ⟨w, hw, -, -, hg', -⟩
      · obtain ⟨gs', hi⟩ := ih _ n gs h' hrest
        refine ⟨gs', ?_⟩
        simpa [h0] using hi
      · exact absurd (goodHist_unique _ _ _ _ _ h'.good hg').1 (by omega)
    · rcases hc with ⟨h0, -, hg'⟩ | ⟨w, hw, -, -, hg', -⟩
      · exact absurd (goodHist_unique _ _ _ _ _ h'.good hg').1 (by omega)
      · obtain ⟨gs', hi⟩ := ih _ (n + 1) (gs ++ [g]) h' hrest
        refine ⟨gs', ?_⟩
        have : n + 1 + writes env (stepTree env t st) steps = n + (1 + writes env (stepTree env t st) steps) := by omega
        simpa [hw, this] using hi

/-- what `info` prints on a flat folder in order with `n` generations -/
theorem info_of_runInv (t : Node) (n : Nat) (gs : List Generation) (h : RunInv t n gs) :
    (1 ≤ n → info t = .ok ((List.range' 1 n).map fun k => (([] : RelPath), k))) ∧
    (n = 0 → info t = .error errNoHistory) := by
  obtain ⟨hh, hl, h1, -⟩ := h.good
  obtain ⟨hc, hr⟩ := loadHistory_flat t h.flat hh hl
  constructor
  · intro hn
    have hne : hh.gens ≠ [] := by
      intro h0
      rw [h0] at h1
      have := congrArg List.length h1
      simp at this
      omega
    rw [info_lines t hh hl hne, infoLines_flat_hist hh hc, hr]
    exact congrArg _ (map_pair_of_map_eq hh.gens (·.number) [] _ h1)
  · intro hn
    subst hn
    have h0 : hh.gens = [] := by simpa using h1
    exact (info_no_history t hh [] hl h0).1

/-- 1. `info_after_run`.  Start from a folder without any `ascmhl` folder and apply ANY list of admissible steps
(C06seq: any media edits, any `create` options, folder mode or `-sf`, runs that end with an error included).  Let
`n = writes env t steps` be the number of steps that wrote a generation.  Then the history holds exactly `n`
generations, and
* if `n ≥ 1`, `info` succeeds and prints exactly the lines `([], 1), ([], 2), …, ([], n)`: every generation of the
  root history once, in ascending order, and nothing else;
* if `n = 0` (every step wrote nothing), `info` ends with `NoMHLHistoryException`, exit code 30. -/
theorem info_after_run (env : Env) (hrn : '\n' ∉ env.rootName.toList) (t : Node) (hdir : t.isDir = true)
    (hn : noNested t = true) (hh : t.hist = none) (steps : List Step) (hok : ∀ st ∈ steps, st.Ok) :
    (gensOf (run env t steps)).length = writes env t steps ∧ writes env t steps ≤ steps.length ∧
    (1 ≤ writes env t steps →
      info (run env t steps) = .ok ((List.range' 1 (writes env t steps)).map fun k => (([] : RelPath), k))) ∧
    (writes env t steps = 0 → info (run env t steps) = .error errNoHistory ∧ errNoHistory = .exit 30) := by
  obtain ⟨gs', hi⟩ := run_counts env hrn steps t 0 [] (runInv_fresh t hdir hn hh) hok
  rw [Nat.zero_add] at hi
  obtain ⟨n', gs'', hi', -, hle, -⟩ := run_good env hrn steps t 0 [] (runInv_fresh t hdir hn hh) hok
  obtain ⟨hnn, -⟩ := goodHist_unique _ _ _ _ _ hi.good hi'.good
  obtain ⟨e1, e2, -⟩ := goodHist_load _ _ _ hi.good
  refine ⟨by rw [e1, e2], by omega, (info_of_runInv _ _ _ hi).1, fun h0 => ⟨(info_of_runInv _ _ _ hi).2 h0, ?_⟩⟩
  exact errNoHistory_code

/-! ### 2. `info` lists exactly the generations that exist -/

/-- no history (root or nested) holds a generation number twice.  True of every history the tool writes (names
`0001_…`, `0002_…`; `C06seq.run_numbers_contiguous`); NOT implied by `loadHistory` succeeding: two manifests
`0001_a.mhl` and `0001_b.mhl` in one `ascmhl` folder both load as generation 1 (`info_nodup_needs_numbers`). -/
def NumbersDistinct (h : Hist) : Prop := ∀ x ∈ h :: allDescendants h, (x.gens.map (·.number)).Nodup

/-- 2. `info_lists_exactly_existing`.  For ANY tree whose history loads and has at least one generation at the
root, `info` succeeds with a list `L` such that

* (exactness) `(r, k) ∈ L` iff some loaded history (the root one or a nested one) is rooted at `r` and has a
  generation numbered `k`;
* (blocks) `L` is, history by history in pre-order (`h :: allDescendants h`), the block `ownLines x` = the
  generations of `x` in loaded order; the root history's block comes first;
* (ascending) within every block the generation numbers are ascending (`loadGens` sorts by number);
* (pre-order) for every history `x` the listing of `x` and of everything nested in it is a CONTIGUOUS part of `L`
  that starts with `x`'s own block followed by the listings of its children in order; in particular the block of
  every nested history comes after the block of its parent;
* (on disk) with distinct sibling names, every line `(r, k)` names a folder `r` of the tree and a manifest numbered
  `k` that `loadGens` reads from that folder's `ascmhl` folder; the lines carrying the root `x.root` are exactly
  `x`'s block;
* (no duplicates) with distinct sibling names and no number twice in one history (`NumbersDistinct`), `L` is
  duplicate-free and every block is STRICTLY ascending.

The statement of the task asked for duplicate-freeness under `t.NamesDistinct` alone; that is FALSE of the model
(`info_nodup_needs_numbers` below), the hypothesis `NumbersDistinct h` is what is missing. -/
theorem info_lists_exactly_existing (t : Node) (h : Hist) (hl : loadHistory t = .ok h) (hg : h.gens ≠ []) :
    ∃ L, info t = .ok L ∧
      (∀ r k, (r, k) ∈ L ↔ ∃ x ∈ h :: allDescendants h, x.root = r ∧ ∃ g ∈ x.gens, g.number = k) ∧
      L = (h :: allDescendants h).flatMap ownLines ∧
      L = ownLines h ++ (allDescendants h).flatMap ownLines ∧
      (∀ x ∈ h :: allDescendants h, ((ownLines x).map (·.2)).Pairwise (· ≤ ·)) ∧
      (∀ x ∈ h :: allDescendants h,
        infoLines x <:+: L ∧ infoLines x = ownLines x ++ x.children.flatMap infoLines) ∧
      (∀ x ∈ h :: allDescendants h, ∀ c ∈ x.children, ∃ a b d, L = a ++ ownLines x ++ b ++ ownLines c ++ d) ∧
      (t.NamesDistinct →
        (∀ r k, (r, k) ∈ L → ∃ n, t.at? r = some n ∧ ∃ g ∈ storeGens n.hist, g.number = k) ∧
        (∀ x ∈ h :: allDescendants h, L.filter (fun ln => ln.1 == x.root) = ownLines x) ∧
        (NumbersDistinct h → L.Nodup ∧
          ∀ x ∈ h :: allDescendants h, ((ownLines x).map (·.2)).Pairwise (· < ·))) := by
  have hsorted := loaded_all_sorted t h hl
  refine ⟨infoLines h, info_lines t h hl hg, fun r k => mem_infoLines h r k, infoLines_flat h, ?_, ?_, ?_, ?_, ?_⟩
  · rw [infoLines_flat h, List.flatMap_cons]
  · intro x hx
    rw [ownLines_snd]
    exact hsorted x hx
  · intro x hx
    exact ⟨infoLines_infix h x hx, infoLines_eq x⟩
  · intro x hx c hc
    exact infoLines_parent_first h x c hx hc
  · intro hd
    have hok := loadHistory_histOK t h hl hd
    obtain ⟨hroot, hgens, hdesc⟩ := loaded_all_on_disk t h hl hd
    refine ⟨?_, ?_, ?_⟩
    · intro r k hrk
      obtain ⟨x, hx, rfl, g, hgm, rfl⟩ := (mem_infoLines h r k).1 hrk
      rcases List.mem_cons.1 hx with rfl | hx
      · refine ⟨t, by rw [hroot]; exact Node.at?_nil' t, g, by rw [← hgens]; exact hgm, rfl⟩
      · obtain ⟨n, s, hat, hh, hgs⟩ := hdesc x hx
        exact ⟨n, hat, g, by rw [hh]; show g ∈ loadGens s; rw [← hgs]; exact hgm, rfl⟩
    · intro x hx
      rw [infoLines_flat h]
      exact filter_root_block _ hok.nodup x hx
    · intro hnum
      refine ⟨?_, ?_⟩
      · rw [infoLines_flat h]
        exact flatMap_ownLines_nodup _ hok.nodup hnum
      · intro x hx
        rw [ownLines_snd]
        have h1 := hsorted x hx
        have h2 : (x.gens.map (·.number)).Pairwise (· ≠ ·) := hnum x hx
        exact (h1.and h2).imp (fun ⟨a, b⟩ => Nat.lt_of_le_of_ne a b)

/-- two manifests with the same number in one `ascmhl` folder: `0001_a_….mhl` and `0001_b_….mhl`, both listed in the
chain file (a manifest the chain does not list is not loaded at all, `C06.loadGens_listed_only`) -/
def dupNumTree : Node :=
  .dir "root" [.file "a.txt" [1]]
    (some { gens := [{ fileName := "0001_a_2020-01-01_000000Z.mhl" }, { fileName := "0001_b_2020-01-01_000000Z.mhl" }],
            chain := [⟨1, "0001_a_2020-01-01_000000Z.mhl"⟩, ⟨1, "0001_b_2020-01-01_000000Z.mhl"⟩] })

/-- duplicate-freeness under `NamesDistinct` alone is FALSE of the model: the tree loads, has distinct sibling
names, and `info` prints the line `([], 1)` twice -/
theorem info_nodup_needs_numbers :
    dupNumTree.NamesDistinct ∧ (∃ h, loadHistory dupNumTree = .ok h ∧ h.gens ≠ []) ∧
    info dupNumTree = .ok [([], 1), ([], 1)] ∧
    ¬ (∀ L, info dupNumTree = .ok L → L.Nodup) := by
  have hi : info dupNumTree = .ok [([], 1), ([], 1)] := by decide +kernel
  refine ⟨by simp [dupNumTree, Node.NamesDistinct, Node.NamesDistinctKids, Node.name], ?_, hi, ?_⟩
  · cases hl : loadHistory dupNumTree with
    | error e =>
      exfalso
      have : info dupNumTree = .error e := by simp [info, hl, bind, Except.bind]
      rw [hi] at this; cases this
    | ok h =>
      refine ⟨h, rfl, ?_⟩
      intro h0
      rw [(info_no_history dupNumTree h [] hl h0).1] at hi
      cases hi
  · intro hall
    have := hall _ hi
    simp at this

/-! ### 3. `info -sf` on a tree sealed once -/

section afterSeal
open MhlProps.C03e2e
variable {env : Env} {rn : String} {cs : List Node} {o : CreateOpts}

/-- the history of a tree sealed once (C03e2e: a tree WITHOUT any `ascmhl` folder, sealed by one folder-mode `create`)
has no nested histories; so every path is owned by the root history and the theorems of this section keep their
statements after the repair of `info -sf` -/
theorem sealedHist_flat (w : Written) : (sealedHist w).children = [] := rfl

/-- 3. `info_sf_after_seal`.  In the setting of C03e2e (a tree without history, sealed once by a folder-mode `create`
with formats `o.formats`), for every file `p` the run saw (at the top level or in a sub-folder), `info -sf p` on the
sealed tree succeeds and prints exactly one line per DISTINCT requested format:
`(1, f, env.H f content, "original")` for `f` in `fmtList o.formats` — the requested formats, each once, in strictly
ascending format-name order (the writer sorts the entries of a record), generation number 1, the digest of the
file's content in that format, action `original`.  Nothing else is printed. -/
theorem info_sf_after_seal (hS : Setting env rn cs o) (p : RelPath)
    (hp : (p, false) ∈ visiblePaths (hit0 env o) (.dir rn cs none)) :
    infoSingleFile (sealedTree env rn cs o) p =
      .ok ((fmtList o.formats).map fun f => (1, f, env.H f (fileContent (.dir rn cs none) p), "original")) ∧
    fileContent (sealedTree env rn cs o) p = fileContent (.dir rn cs none) p ∧
    (fmtList o.formats).Pairwise (· < ·) ∧ (∀ f, f ∈ fmtList o.formats ↔ f ∈ o.formats) ∧
    fmtList o.formats ≠ [] := by
  obtain ⟨w, -, hw, -⟩ := first_seal_core hS
  obtain ⟨hl, -⟩ := sealed_tree_loads hS w hw
  obtain ⟨-, -, -, -, -, -, hsg⟩ := written_facts hS w hw
  obtain ⟨r, hfind, -, -, hents⟩ := hsg.find_file hS.namesOk p hp
  refine ⟨?_, ?_, fmtList_sorted _, mem_fmtList _, fmtList_ne_nil _ hS.formats⟩
  · rw [infoSingleFile_lines_flat _ _ p hl (sealedHist_gens_ne w) (sealedHist_flat w)]
    simp only [sealedHist, Hist.gens, List.flatMap_cons, List.flatMap_nil, List.append_nil, recordEntries, hfind,
      hents, origEntries_eq_map, List.map_map]
    rfl
  · rw [sealedTree_eq hS w hw]
    exact fileContent_root_hist rn cs _ none p

/-- the count: as many lines as distinct requested formats -/
theorem info_sf_after_seal_count (hS : Setting env rn cs o) (p : RelPath)
    (hp : (p, false) ∈ visiblePaths (hit0 env o) (.dir rn cs none)) :
    ∃ lines, infoSingleFile (sealedTree env rn cs o) p = .ok lines ∧ lines.length = (fmtList o.formats).length ∧
      1 ≤ lines.length ∧ lines.length ≤ o.formats.length ∧ (lines.map (·.2.1)).Nodup := by
  refine ⟨_, (info_sf_after_seal hS p hp).1, by simp, ?_, ?_, ?_⟩
  · simp only [List.length_map]
    exact List.length_pos_iff.2 (fmtList_ne_nil _ hS.formats)
  · simp only [List.length_map]
    exact fmtList_length_le _
  · simp only [List.map_map, Function.comp_def, List.map_id']
    exact fmtList_nodup _

/-- a path the run did not see (ignored by the patterns, or not in the tree) has no line at all: `info -sf` still
succeeds (the history has a generation) and prints nothing -/
theorem info_sf_after_seal_unseen (hS : Setting env rn cs o) (p : RelPath) (hpn : p ≠ [])
    (hpok : ∀ s ∈ p, NameOk s) (hp : ∀ d, (p, d) ∉ visiblePaths (hit0 env o) (.dir rn cs none)) :
    infoSingleFile (sealedTree env rn cs o) p = .ok [] := by
  obtain ⟨w, -, hw, -⟩ := first_seal_core hS
  obtain ⟨hl, -⟩ := sealed_tree_loads hS w hw
  obtain ⟨-, -, -, -, -, -, hsg⟩ := written_facts hS w hw
  rw [infoSingleFile_lines_flat _ _ p hl (sealedHist_gens_ne w) (sealedHist_flat w)]
  simp [sealedHist, Hist.gens, recordEntries, hsg.find_unseen hS.namesOk p hpn hpok hp]

end afterSeal

/-! ### 4. `info -sf` after a run -/

/-- a folder-mode step (no `-sf`) without `-dr` and with at least one format -/
structure FolderStep (st : Step) : Prop where
  ok : st.Ok
  folder : st.opts.singleFiles = []
  noRename : st.opts.detectRenaming = false
  formats : st.opts.formats ≠ []

/-- the tree a `create` runs on: sibling names distinct, names well formed (no '/', not "."), and whatever is at
`p` is a file with content `c` (the file may also be absent, or hidden by an ignore pattern) -/
structure FileKept (p : RelPath) (c : Bytes) (t : Node) : Prop where
  distinct : t.NamesDistinct
  namesOk : t.NamesOk
  file : ∀ n, t.at? p = some n → ∃ nm, n = .file nm c

/-- `P` holds of the tree every step's `create` runs on (the tree after that step's media edit) -/
def Along (env : Env) (P : Node → Prop) : Node → List Step → Prop
  | _, [] => True
  | t, st :: rest => P (st.edit t) ∧ Along env P (stepTree env t st) rest

/-- what holds at every point of a run over a file that is never edited -/
structure FInv (env : Env) (p : RelPath) (c : Bytes) (t : Node) (n : Nat) : Prop where
  run : ∃ gs, RunInv t n gs
  file : ∀ h, loadHistory t = .ok h → PInv env (posix p) c h.gens

theorem goodHist_gens (t : Node) (n : Nat) (gs : List Generation) (hg : GoodHist t n gs) (h : Hist)
    (hl : loadHistory t = .ok h) : h.gens.map (·.number) = List.range' 1 n ∧ h.gens.map (·.gen) = gs := by
  obtain ⟨h', hl', h1, h2, -⟩ := hg
  rw [hl] at hl'
  cases hl'
  exact ⟨h1, h2⟩

theorem create_folder_eq (env : Env) (t : Node) (o : CreateOpts) (hsf : o.singleFiles = []) :
    create env t o = createFolder env t o := by
  unfold create
  simp [hsf]

theorem fileKept_ne_nil {p : RelPath} {c : Bytes} {t : Node} (hk : FileKept p c t) (hdir : t.isDir = true) :
    p ≠ [] := by
  intro h0
  subst h0
  obtain ⟨nm, hnm⟩ := hk.file t (Node.at?_nil' t)
  rw [hnm] at hdir
  cases hdir

theorem fileKept_content {p : RelPath} {c : Bytes} {t : Node} (hk : FileKept p c t) (hit : RelPath → Bool)
    (hv : (p, false) ∈ visiblePaths hit t) : fileContent t p = c := by
  obtain ⟨n0, hat, -⟩ := MhlProps.C02.visible_on_disk hit t hk.distinct p false hv
  obtain ⟨nm, rfl⟩ := hk.file n0 hat
  simp [fileContent, hat]

theorem fileKept_not_dir {p : RelPath} {c : Bytes} {t : Node} (hk : FileKept p c t) (hit : RelPath → Bool) :
    (p, true) ∉ visiblePaths hit t := by
  intro hv
  obtain ⟨n0, hat, hd⟩ := MhlProps.C02.visible_on_disk hit t hk.distinct p true hv
  obtain ⟨nm, rfl⟩ := hk.file n0 hat
  cases hd

/-- the record (if any) the generation written by a folder-mode `create` holds for `p`: none if `p` was hidden or
absent, else exactly `writtenEntries` of the file's content -/
theorem written_find (env : Env) (t : Node) (o : CreateOpts) (h : Hist) (hl : loadHistory t = .ok h)
    (hflat : noNested t = true) (hdir : t.isDir = true) (hsf : o.singleFiles = []) (hdr : o.detectRenaming = false)
    (hf : o.formats ≠ []) (p : RelPath) (c : Bytes) (hk : FileKept p c t) (hpok : ∀ s ∈ p, NameOk s) (w : Written)
    (hw : (create env t o).written = [w]) :
    ((p, false) ∈ visiblePaths (MhlProps.C02rec.cHit env h o) t ∧
      ∃ r, w.gen.find (posix p) = some r ∧ r.entries = writtenEntries env h.gens (posix p) c o.formats) ∨
    ((∀ d, (p, d) ∉ visiblePaths (MhlProps.C02rec.cHit env h o) t) ∧ w.gen.find (posix p) = none) := by
  rw [create_folder_eq env t o hsf] at hw
  have hc := (loadHistory_flat t hflat h hl).1
  obtain ⟨hshape, hfiles⟩ := create_flat_gen env t o h hl hc hk.distinct hk.namesOk hf hdr w hw
  have hpn := fileKept_ne_nil hk hdir
  by_cases hv : (p, false) ∈ visiblePaths (MhlProps.C02rec.cHit env h o) t
  · left
    obtain ⟨r0, hr0, hpath, hents⟩ := hfiles p hv
    rw [fileKept_content hk _ hv] at hents
    exact ⟨hv, r0, hshape.find_record p hpn hpok r0 hr0 hpath, hents⟩
  · right
    have hnone : ∀ d, (p, d) ∉ visiblePaths (MhlProps.C02rec.cHit env h o) t := by
      intro d
      cases d with
      | false => exact hv
      | true => exact fileKept_not_dir hk _
    exact ⟨hnone, hshape.find_none hk.namesOk p hpn hpok hnone⟩

/-- the loaded generations after a step, in terms of those before -/
theorem step_gens (env : Env) (hrn : '\n' ∉ env.rootName.toList) (t : Node) (n : Nat) (gs : List Generation)
    (hR : RunInv t n gs) (st : Step) (hst : st.Ok) (h₁ : Hist) (hl₁ : loadHistory t = .ok h₁) :
    (∃ hE, loadHistory (st.edit t) = .ok hE ∧ hE.gens = h₁.gens) ∧
    (((create { env with stamp := st.stamp } (st.edit t) st.opts).written = [] ∧
        (∃ gs', RunInv (stepTree env t st) n gs') ∧
        ∀ h₂, loadHistory (stepTree env t st) = .ok h₂ → h₂.gens = h₁.gens) ∨
      ∃ w, (create { env with stamp := st.stamp } (st.edit t) st.opts).written = [w] ∧
        (∃ gs', RunInv (stepTree env t st) (n + 1) gs') ∧
        ∀ h₂, loadHistory (stepTree env t st) = .ok h₂ → h₂.gens = h₁.gens ++ [⟨n + 1, w.gen⟩]) := by
  obtain ⟨a1, a2⟩ := goodHist_gens t n gs hR.good h₁ hl₁
  have hgE := mediaEdit_good st.edit hst.edit t hR.isDir hR.flat n gs hR.good
  constructor
  · obtain ⟨hE, hlE, e1, e2, -⟩ := hgE
    exact ⟨hE, hlE, lgens_ext _ _ (e1.trans a1.symm) (e2.trans a2.symm)⟩
  · obtain ⟨-, -, hc⟩ := step_appends_partial env hrn t hR.isDir hR.flat n gs hR.good st hst
    rcases step_inv env hrn t n gs hR st hst with h' | ⟨g, h', -, -⟩
    · rcases hc with ⟨h0, -, hg'⟩ | ⟨w, hw, -, -, hg', -⟩
      · left
        refine ⟨h0, ⟨gs, h'⟩, ?_⟩
        intro h₂ hl₂
        obtain ⟨b1, b2⟩ := goodHist_gens _ n gs hg' h₂ hl₂
        exact lgens_ext _ _ (b1.trans a1.symm) (b2.trans a2.symm)
      · exact absurd (goodHist_unique _ _ _ _ _ h'.good hg').1 (by omega)
    · rcases hc with ⟨h0, -, hg'⟩ | ⟨w, hw, -, -, hg', -⟩
      · exact absurd (goodHist_unique _ _ _ _ _ h'.good hg').1 (by omega)
      · right
        refine ⟨w, hw, ⟨_, h'⟩, ?_⟩
        intro h₂ hl₂
        obtain ⟨b1, b2⟩ := goodHist_gens _ _ _ hg' h₂ hl₂
        apply lgens_ext
        · rw [b1, List.map_append, a1, List.range'_concat]
          simp [Nat.add_comm]
        · rw [b2, List.map_append, a2]
          rfl

/-- one folder-mode step over a tree in which `p` still has the content `c` keeps the invariant -/
theorem step_finv (env : Env) (hrn : '\n' ∉ env.rootName.toList) (p : RelPath) (c : Bytes)
    (hpok : ∀ s ∈ p, NameOk s) (t : Node) (n : Nat) (hI : FInv env p c t n) (st : Step) (hst : FolderStep st)
    (hk : FileKept p c (st.edit t)) :
    FInv env p c (stepTree env t st)
      (n + if (create { env with stamp := st.stamp } (st.edit t) st.opts).written.isEmpty then 0 else 1) := by
  obtain ⟨gs, hR⟩ := hI.run
  obtain ⟨h₁, hl₁, -⟩ := hR.good
  have hP := hI.file h₁ hl₁
  obtain ⟨⟨hE, hlE, hEg⟩, hcase⟩ := step_gens env hrn t n gs hR st hst.ok h₁ hl₁
  rcases hcase with ⟨h0, hrun, hg₂⟩ | ⟨w, hw, hrun, hg₂⟩
  · rw [h0]
    refine ⟨by simpa using hrun, ?_⟩
    intro h₂ hl₂
    rw [hg₂ h₂ hl₂]
    exact hP
  · rw [hw]
    refine ⟨by simpa using hrun, ?_⟩
    intro h₂ hl₂
    rw [hg₂ h₂ hl₂]
    apply hP.append
    intro r hr e he
    have hdirE := hst.ok.edit.isDir t hR.isDir
    have hflatE := hst.ok.edit.noNested t hR.isDir hR.flat
    rcases written_find { env with stamp := st.stamp } (st.edit t) st.opts hE hlE hflatE hdirE hst.folder
      hst.noRename hst.formats p c hk hpok w hw with ⟨-, r0, hr0, hents⟩ | ⟨-, hnone⟩
    · rw [hr0] at hr
      cases hr
      rw [hents, hEg] at he
      have hP' : PInv { env with stamp := st.stamp } (posix p) c h₁.gens := ⟨hP.digest, hP.action⟩
      exact writtenEntries_unaltered hP' st.opts.formats e he
    · rw [hnone] at hr
      cases hr

theorem finv_fresh (env : Env) (p : RelPath) (c : Bytes) (t : Node) (hdir : t.isDir = true)
    (hn : noNested t = true) (hh : t.hist = none) : FInv env p c t 0 := by
  refine ⟨⟨[], runInv_fresh t hdir hn hh⟩, ?_⟩
  intro h hl
  obtain ⟨h', hl', h1, -⟩ := goodHist_fresh t hn hh
  rw [hl] at hl'
  cases hl'
  have : h.gens = [] := by simpa using h1
  rw [this]
  exact PInv.nil env _ c

/-- the induction over the run -/
theorem run_finv (env : Env) (hrn : '\n' ∉ env.rootName.toList) (p : RelPath) (c : Bytes)
    (hpok : ∀ s ∈ p, NameOk s) (steps : List Step) :
    ∀ (t : Node) (n : Nat), FInv env p c t n → (∀ st ∈ steps, FolderStep st) →
      Along env (FileKept p c) t steps → FInv env p c (run env t steps) (n + writes env t steps) := by
  induction steps with
  | nil => intro t n h _ _; exact h
  | cons st steps ih =>
    intro t n h hok hal
    have hst := hok st (by simp)
    have hrest : ∀ x ∈ steps, FolderStep x := fun x hx => hok x (by simp [hx])
    obtain ⟨hk, hal'⟩ := hal
    have h' := step_finv env hrn p c hpok t n h st hst hk
    have := ih _ _ h' hrest hal'
    rw [run_cons, writes]
    rwa [Nat.add_assoc] at this

/-- CHANGED (the repaired `info -sf`): the lines are those of the NEAREST ENCLOSING history `ownerHist h f` under the
path relative to its root (formerly `sfLines h.gens (posix f)`: the root history, the path itself).  The former
statement holds when no nested history lies on the path: `infoSingleFile_sfLines_root`, `infoSingleFile_sfLines_flat`
below; the trees of a C06seq run have no nested histories (`RunInv.flat`, `runInv_children`). -/
theorem infoSingleFile_sfLines (t : Node) (h : Hist) (f : RelPath) (hl : loadHistory t = .ok h) (hg : h.gens ≠ []) :
    infoSingleFile t f = .ok (sfLines (ownerHist h f).gens (posix (f.drop (ownerHist h f).root.length))) :=
  infoSingleFile_nearest t h f hl hg

/-- the former statement of `infoSingleFile_sfLines`, for a path that no nested history lies on -/
theorem infoSingleFile_sfLines_root (t : Node) (h : Hist) (f : RelPath) (hl : loadHistory t = .ok h) (hg : h.gens ≠ [])
    (ho : ownerHist h f = h) : infoSingleFile t f = .ok (sfLines h.gens (posix f)) :=
  infoSingleFile_lines_root t h f hl hg ho

/-- … in particular for a history without nested histories -/
theorem infoSingleFile_sfLines_flat (t : Node) (h : Hist) (f : RelPath) (hl : loadHistory t = .ok h) (hg : h.gens ≠ [])
    (hc : h.children = []) : infoSingleFile t f = .ok (sfLines h.gens (posix f)) :=
  infoSingleFile_lines_flat t h f hl hg hc

/-- the trees of a C06seq run (`run`, `stepTree` from a folder without nested `ascmhl` folders) have NO nested
histories at any point: the loaded history has no children, so it owns every path.  Hence `info_sf_after_run`,
`info_sf_unaltered_step` and `info_sf_edited_step` below keep their statements unchanged after the repair. -/
theorem runInv_children {t : Node} {n : Nat} {gs : List Generation} (hR : RunInv t n gs) (h : Hist)
    (hl : loadHistory t = .ok h) : h.children = [] ∧ ∀ p, ownerHist h p = h :=
  ⟨(loadHistory_flat t hR.flat h hl).1, fun p => ownerHist_flat h p (loadHistory_flat t hR.flat h hl).1⟩

/-- 4. `info_sf_after_run`.  A run from a folder without history whose steps are all folder-mode `create`s (no `-sf`,
no `-dr`, at least one format; any media edits, any ignore options, with or without directory hashes, runs that end
with an error included), over a file `p` that is NEVER EDITED: in the tree every `create` runs on, whatever is at
`p` is a file with content `c` (it may be absent or hidden by a pattern in some steps), sibling names are distinct
and names well formed.  Let `N` be the number of steps that wrote a generation.  If `N = 0`, `info -sf p` ends with
exit code 30; otherwise it succeeds and

* every line's generation number is in `1..N`, and the numbers are ascending along the list;
* every line's digest is `env.H fmt c`, the digest of the file's content in the line's format;
* no line has action `failed`; more precisely (what C04 predicts) every line is `original` or `verified`: the lines
  of the FIRST generation that records the file are all `original`, the lines of every later generation are all
  `verified` (formats recorded before and formats new in that generation alike). -/
theorem info_sf_after_run (env : Env) (hrn : '\n' ∉ env.rootName.toList) (t : Node) (hdir : t.isDir = true)
    (hn : noNested t = true) (hh : t.hist = none) (p : RelPath) (c : Bytes) (hpok : ∀ s ∈ p, NameOk s)
    (steps : List Step) (hsteps : ∀ st ∈ steps, FolderStep st) (hkeep : Along env (FileKept p c) t steps) :
    (writes env t steps = 0 → infoSingleFile (run env t steps) p = .error errNoHistory) ∧
    (1 ≤ writes env t steps → ∃ lines, infoSingleFile (run env t steps) p = .ok lines ∧
      (∀ ℓ ∈ lines, 1 ≤ ℓ.1 ∧ ℓ.1 ≤ writes env t steps) ∧
      (lines.map (·.1)).Pairwise (· ≤ ·) ∧
      (∀ ℓ ∈ lines, ℓ.2.2.1 = env.H ℓ.2.1 c) ∧
      (∀ ℓ ∈ lines, ℓ.2.2.2 ≠ "failed") ∧
      (∀ ℓ ∈ lines,
        (ℓ.2.2.2 = "original" ∧ ∀ ℓ' ∈ lines, ℓ.1 ≤ ℓ'.1) ∨
        (ℓ.2.2.2 = "verified" ∧ ∃ ℓ' ∈ lines, ℓ'.1 < ℓ.1 ∧ ℓ'.2.2.2 = "original"))) := by
  have hI := run_finv env hrn p c hpok steps t 0 (finv_fresh env p c t hdir hn hh) hsteps hkeep
  rw [Nat.zero_add] at hI
  obtain ⟨gs, hR⟩ := hI.run
  obtain ⟨h, hl, h1, -⟩ := hR.good
  have hP := hI.file h hl
  constructor
  · intro h0
    rw [h0] at h1
    have : h.gens = [] := by simpa using h1
    exact (info_no_history _ h p hl this).2
  · intro hN
    have hne : h.gens ≠ [] := by
      intro h0
      rw [h0] at h1
      have := congrArg List.length h1
      simp at this
      omega
    obtain ⟨a, b, d, e⟩ := sfLines_unaltered hP _ h1
    refine ⟨_, infoSingleFile_sfLines_flat _ h p hl hne (runInv_children hR h hl).1, a, b, d, ?_, e⟩
    intro ℓ hℓ hfail
    rcases e ℓ hℓ with ⟨h2, -⟩ | ⟨h2, -⟩ <;> rw [h2] at hfail <;> exact absurd hfail (by decide)

/-- 4''. `info_sf_unaltered_step`: generation by generation.  At any point of such a run let one more folder-mode step
run on a tree in which `p` still has the content `c`.  The lines afterwards are the lines from before followed by
the lines of the new generation, all numbered `n + 1`, all with the digest of `c` in their format, all `original`
if there was no line before and all `verified` otherwise (recorded formats and new formats alike); and when the
generation was written and the run saw the file, EVERY requested format has a line in it. -/
theorem info_sf_unaltered_step (env : Env) (hrn : '\n' ∉ env.rootName.toList) (p : RelPath) (c : Bytes)
    (hpok : ∀ s ∈ p, NameOk s) (t : Node) (n : Nat) (hI : FInv env p c t n) (st : Step) (hst : FolderStep st)
    (hk : FileKept p c (st.edit t)) :
    ∀ lines, infoSingleFile (stepTree env t st) p = .ok lines →
      ∃ old new, lines = old ++ new ∧
        (∀ lines₀, infoSingleFile t p = .ok lines₀ → lines₀ = old) ∧
        (∀ ℓ ∈ new, ℓ.1 = n + 1 ∧ ℓ.2.2.1 = env.H ℓ.2.1 c ∧
          (old = [] → ℓ.2.2.2 = "original") ∧ (old ≠ [] → ℓ.2.2.2 = "verified")) ∧
        (∀ hE, loadHistory (st.edit t) = .ok hE →
          (p, false) ∈ visiblePaths (MhlProps.C02rec.cHit { env with stamp := st.stamp } hE st.opts) (st.edit t) →
          (create { env with stamp := st.stamp } (st.edit t) st.opts).written ≠ [] →
          ∀ f ∈ st.opts.formats, ∃ ℓ ∈ new, ℓ.2.1 = f) := by
  intro lines hlines
  obtain ⟨gs, hR⟩ := hI.run
  obtain ⟨h₁, hl₁, hnum₁, -⟩ := hR.good
  have hP := hI.file h₁ hl₁
  have hbefore : ∀ lines₀, infoSingleFile t p = .ok lines₀ → lines₀ = sfLines h₁.gens (posix p) := by
    intro lines₀ h0
    by_cases hg : h₁.gens = []
    · rw [(info_no_history t h₁ p hl₁ hg).2] at h0; cases h0
    · rw [infoSingleFile_sfLines_flat t h₁ p hl₁ hg (runInv_children hR h₁ hl₁).1] at h0; cases h0; rfl
  obtain ⟨⟨hE, hlE, hEg⟩, hcase⟩ := step_gens env hrn t n gs hR st hst.ok h₁ hl₁
  obtain ⟨gs₂, hR₂⟩ : ∃ m gs₂, RunInv (stepTree env t st) m gs₂ := by
    rcases hcase with ⟨-, ⟨g', h'⟩, -⟩ | ⟨-, -, ⟨g', h'⟩, -⟩
    · exact ⟨_, g', h'⟩
    · exact ⟨_, g', h'⟩
  obtain ⟨gs₂, hR₂⟩ := hR₂
  obtain ⟨h₂, hl₂, -⟩ := hR₂.good
  have hlines₂ : lines = sfLines h₂.gens (posix p) := by
    by_cases hg : h₂.gens = []
    · rw [(info_no_history _ h₂ p hl₂ hg).2] at hlines; cases hlines
    · rw [infoSingleFile_sfLines_flat _ h₂ p hl₂ hg (runInv_children hR₂ h₂ hl₂).1] at hlines; cases hlines; rfl
  rcases hcase with ⟨h0, -, hg₂⟩ | ⟨w, hw, -, hg₂⟩
  · refine ⟨sfLines h₁.gens (posix p), [], ?_, hbefore, ?_, ?_⟩
    · rw [hlines₂, hg₂ h₂ hl₂, List.append_nil]
    · intro ℓ hℓ; cases hℓ
    · intro _ _ _ hne; exact absurd h0 hne
  · have hdirE := hst.ok.edit.isDir t hR.isDir
    have hflatE := hst.ok.edit.noNested t hR.isDir hR.flat
    have hP' : PInv { env with stamp := st.stamp } (posix p) c h₁.gens := ⟨hP.digest, hP.action⟩
    have hfind := written_find { env with stamp := st.stamp } (st.edit t) st.opts hE hlE hflatE hdirE hst.folder
      hst.noRename hst.formats p c hk hpok w hw
    refine ⟨sfLines h₁.gens (posix p), sfLines [⟨n + 1, w.gen⟩] (posix p), ?_, hbefore, ?_, ?_⟩
    · rw [hlines₂, hg₂ h₂ hl₂, sfLines_append]
    · intro ℓ hℓ
      obtain ⟨g, hg, r, hr, e, he, rfl⟩ := (mem_sfLines _ _ ℓ).1 hℓ
      simp only [List.mem_singleton] at hg
      subst hg
      rcases hfind with ⟨-, r0, hr0, hents⟩ | ⟨-, hnone⟩
      · rw [hr0] at hr
        cases hr
        rw [hents, hEg] at he
        obtain ⟨a1, a2⟩ := writtenEntries_unaltered hP' st.opts.formats e he
        refine ⟨rfl, a1, ?_, ?_⟩
        · intro hold
          show e.action = "original"
          rw [a2, if_pos (hP.orig_none_iff.2 hold)]
        · intro hold
          show e.action = "verified"
          rw [a2, if_neg (fun h0 => hold (hP.orig_none_iff.1 h0))]
      · rw [hnone] at hr
        cases hr
    · intro hE' hlE' hvis _ f hf
      rw [hlE] at hlE'
      cases hlE'
      rcases hfind with ⟨-, r0, hr0, hents⟩ | ⟨hnone, -⟩
      · rw [hEg] at hents
        obtain ⟨e, he, hfmt⟩ := writtenEntries_requested hP' st.opts.formats f hf
        exact ⟨_, (mem_sfLines _ _ _).2 ⟨⟨n + 1, w.gen⟩, by simp, r0, hr0, e, by rw [hents]; exact he, rfl⟩, hfmt⟩
      · exact absurd hvis (hnone false)

/-- 4'. `info_sf_edited_step`.  At any point of such a run (`FInv`: the file had content `c` whenever it was sealed;
`n` generations), let one more folder-mode step run on a tree in which the file `p` now has content `c'`.  Then the
lines of `info -sf p` afterwards are the lines from before (`old`, unchanged: generations `1..n`, digests of `c`)
followed by the lines of the new generation (`new`, all numbered `n + 1`), and for every new line

* the digest is `env.H fmt c'`, the digest of the NEW content;
* if its format was already recorded (occurs in an old line), its action is `failed` exactly when the digest of
  the new content differs from the digest of the old content in that format, `verified` exactly when they agree;
* if any new line is `failed`, every new line is in an already recorded format (no new format is added).

In particular, if something was recorded and the digests differ in EVERY recorded format, every new line is
`failed`; and the new generation does have lines when it was written and the run saw the file. -/
theorem info_sf_edited_step (env : Env) (hrn : '\n' ∉ env.rootName.toList) (p : RelPath) (c c' : Bytes)
    (hpok : ∀ s ∈ p, NameOk s) (t : Node) (n : Nat) (hI : FInv env p c t n) (st : Step) (hst : FolderStep st)
    (hk : FileKept p c' (st.edit t)) :
    ∀ lines, infoSingleFile (stepTree env t st) p = .ok lines →
      ∃ old new, lines = old ++ new ∧
        (∀ lines₀, infoSingleFile t p = .ok lines₀ → lines₀ = old) ∧
        (∀ ℓ ∈ old, 1 ≤ ℓ.1 ∧ ℓ.1 ≤ n ∧ ℓ.2.2.1 = env.H ℓ.2.1 c ∧ ℓ.2.2.2 ≠ "failed") ∧
        (∀ ℓ ∈ new, ℓ.1 = n + 1 ∧ ℓ.2.2.1 = env.H ℓ.2.1 c' ∧
          ((∃ ℓ₀ ∈ old, ℓ₀.2.1 = ℓ.2.1) →
            (ℓ.2.2.2 = "failed" ↔ env.H ℓ.2.1 c' ≠ env.H ℓ.2.1 c) ∧
            (ℓ.2.2.2 = "verified" ↔ env.H ℓ.2.1 c' = env.H ℓ.2.1 c)) ∧
          ((∃ ℓ' ∈ new, ℓ'.2.2.2 = "failed") → ∃ ℓ₀ ∈ old, ℓ₀.2.1 = ℓ.2.1)) ∧
        (old ≠ [] → (∀ ℓ₀ ∈ old, env.H ℓ₀.2.1 c' ≠ env.H ℓ₀.2.1 c) → ∀ ℓ ∈ new, ℓ.2.2.2 = "failed") ∧
        (∀ hE, loadHistory (st.edit t) = .ok hE →
          (p, false) ∈ visiblePaths (MhlProps.C02rec.cHit { env with stamp := st.stamp } hE st.opts) (st.edit t) →
          (create { env with stamp := st.stamp } (st.edit t) st.opts).written ≠ [] → new ≠ []) := by
  intro lines hlines
  obtain ⟨gs, hR⟩ := hI.run
  obtain ⟨h₁, hl₁, hnum₁, -⟩ := hR.good
  have hP := hI.file h₁ hl₁
  obtain ⟨o1, o2, o3, o4⟩ := sfLines_unaltered hP _ hnum₁
  have hold : ∀ ℓ ∈ sfLines h₁.gens (posix p),
      1 ≤ ℓ.1 ∧ ℓ.1 ≤ n ∧ ℓ.2.2.1 = env.H ℓ.2.1 c ∧ ℓ.2.2.2 ≠ "failed" := by
    intro ℓ hℓ
    refine ⟨(o1 ℓ hℓ).1, (o1 ℓ hℓ).2, o3 ℓ hℓ, ?_⟩
    intro hfail
    rcases o4 ℓ hℓ with ⟨h2, -⟩ | ⟨h2, -⟩ <;> rw [h2] at hfail <;> exact absurd hfail (by decide)
  have hbefore : ∀ lines₀, infoSingleFile t p = .ok lines₀ → lines₀ = sfLines h₁.gens (posix p) := by
    intro lines₀ h0
    by_cases hg : h₁.gens = []
    · rw [(info_no_history t h₁ p hl₁ hg).2] at h0; cases h0
    · rw [infoSingleFile_sfLines_flat t h₁ p hl₁ hg (runInv_children hR h₁ hl₁).1] at h0; cases h0; rfl
  obtain ⟨⟨hE, hlE, hEg⟩, hcase⟩ := step_gens env hrn t n gs hR st hst.ok h₁ hl₁
  -- the history after the step
  obtain ⟨gs₂, hR₂⟩ : ∃ m gs₂, RunInv (stepTree env t st) m gs₂ := by
    rcases hcase with ⟨-, ⟨g', h'⟩, -⟩ | ⟨-, -, ⟨g', h'⟩, -⟩
    · exact ⟨_, g', h'⟩
    · exact ⟨_, g', h'⟩
  obtain ⟨gs₂, hR₂⟩ := hR₂
  obtain ⟨h₂, hl₂, -⟩ := hR₂.good
  have hlines₂ : lines = sfLines h₂.gens (posix p) := by
    by_cases hg : h₂.gens = []
    · rw [(info_no_history _ h₂ p hl₂ hg).2] at hlines; cases hlines
    · rw [infoSingleFile_sfLines_flat _ h₂ p hl₂ hg (runInv_children hR₂ h₂ hl₂).1] at hlines; cases hlines; rfl
  rcases hcase with ⟨h0, -, hg₂⟩ | ⟨w, hw, -, hg₂⟩
  · -- nothing written: no new lines
    refine ⟨sfLines h₁.gens (posix p), [], ?_, hbefore, hold, ?_, ?_, ?_⟩
    · rw [hlines₂, hg₂ h₂ hl₂, List.append_nil]
    · intro ℓ hℓ; cases hℓ
    · intro _ _ ℓ hℓ; cases hℓ
    · intro _ _ _ hne; exact absurd h0 hne
  · -- one generation written
    have hdirE := hst.ok.edit.isDir t hR.isDir
    have hflatE := hst.ok.edit.noNested t hR.isDir hR.flat
    have hP' : PInv { env with stamp := st.stamp } (posix p) c h₁.gens := ⟨hP.digest, hP.action⟩
    have hfind := written_find { env with stamp := st.stamp } (st.edit t) st.opts hE hlE hflatE hdirE hst.folder
      hst.noRename hst.formats p c' hk hpok w hw
    refine ⟨sfLines h₁.gens (posix p), sfLines [⟨n + 1, w.gen⟩] (posix p), ?_, hbefore, hold, ?_, ?_, ?_⟩
    · rw [hlines₂, hg₂ h₂ hl₂, sfLines_append]
    · -- the new lines
      intro ℓ hℓ
      obtain ⟨g, hg, r, hr, e, he, rfl⟩ := (mem_sfLines _ _ ℓ).1 hℓ
      simp only [List.mem_singleton] at hg
      subst hg
      rcases hfind with ⟨-, r0, hr0, hents⟩ | ⟨-, hnone⟩
      · rw [hr0] at hr
        cases hr
        rw [hents, hEg] at he
        obtain ⟨a1, a2, a3⟩ := writtenEntries_altered hP' c' st.opts.formats e he
        refine ⟨rfl, a1, ?_, ?_⟩
        · rintro ⟨ℓ₀, hℓ₀, hfmt⟩
          exact a2 ((mem_existing_iff_line _ _ _).2 ⟨ℓ₀, hℓ₀, hfmt⟩)
        · rintro ⟨ℓ', hℓ', hfail⟩
          obtain ⟨g', hg', r', hr', e', he', rfl⟩ := (mem_sfLines _ _ ℓ').1 hℓ'
          simp only [List.mem_singleton] at hg'
          subst hg'
          rw [hr0] at hr'
          cases hr'
          rw [hents, hEg] at he'
          exact (mem_existing_iff_line _ _ _).1 (a3 ⟨e', he', hfail⟩)
      · rw [hnone] at hr
        cases hr
    · intro hne hdiff ℓ hℓ
      obtain ⟨g, hg, r, hr, e, he, rfl⟩ := (mem_sfLines _ _ ℓ).1 hℓ
      simp only [List.mem_singleton] at hg
      subst hg
      rcases hfind with ⟨-, r0, hr0, hents⟩ | ⟨-, hnone⟩
      · rw [hr0] at hr
        cases hr
        rw [hents, hEg] at he
        have hex : existingFormats h₁.gens (posix p) ≠ [] := by
          obtain ⟨ℓ₀, hℓ₀⟩ := List.exists_mem_of_ne_nil _ hne
          exact List.ne_nil_of_mem ((mem_existing_iff_line _ _ _).2 ⟨ℓ₀, hℓ₀, rfl⟩)
        have hd : ∀ f ∈ existingFormats h₁.gens (posix p), env.H f c' ≠ env.H f c := by
          intro f hf
          obtain ⟨ℓ₀, hℓ₀, rfl⟩ := (mem_existing_iff_line _ _ _).1 hf
          exact hdiff ℓ₀ hℓ₀
        exact ((writtenEntries_all_failed hP' c' st.opts.formats hex hd).2 e he).1
      · rw [hnone] at hr
        cases hr
    · intro hE' hlE' hvis _
      rw [hlE] at hlE'
      cases hlE'
      rcases hfind with ⟨-, r0, hr0, hents⟩ | ⟨hnone, -⟩
      · rw [sfLines_single]
        simp only [recordEntries, hr0, hents]
        intro h0
        exact writtenEntries_ne_nil { env with stamp := st.stamp } hE.gens (posix p) c' st.opts.formats
          hst.formats (List.map_eq_nil_iff.1 h0)
      · exact absurd hvis (hnone false)

/-! ### 5. no history: exit code 30, everywhere

What is modelled.  The model's `info t` and `infoSingleFile t p` are the functions `info_for_entire_history(root)`
and `info_for_single_file(root, …)` of commands.py with `t` = the folder given as root path: both load the history
of THAT folder and raise `NoMHLHistoryException` (30) when it has no generation.  There is no DOWNWARD search in
the tool either: a folder that only has nested histories below it gives 30, in the tool and in the model
(`info_only_nested`).  The UPWARD search of `info -sf FILE` without a root path (walk up from the file's folder to
the nearest folder that has an `ascmhl` folder, and use that as root; 30 if there is none) is NOT part of the
model; it corresponds to calling `infoSingleFile` on the sub-tree at that folder with the path relative to it (an
example of this section).  Once the root history has a generation, a file that belongs to a nested history is
routed to the nearest enclosing nested history (`find_history_for_path` in the tool, `ownerHist` in the model; before
the repair of the tool it was looked up in the ROOT history only); the no-history test itself is made on the ROOT
history alone, as before. -/

/-- 5. `info_no_history_everywhere`.  Whenever the history of the root folder loads and has no generation, `info`
and `info -sf` (for every file path) end with `NoMHLHistoryException`, exit code 30 — whatever nested histories the
tree holds. -/
theorem info_no_history_everywhere (t : Node) (h : Hist) (p : RelPath) (hl : loadHistory t = .ok h)
    (hg : h.gens = []) :
    info t = .error errNoHistory ∧ infoSingleFile t p = .error errNoHistory ∧ errNoHistory = .exit 30 :=
  ⟨(info_no_history t h p hl hg).1, (info_no_history t h p hl hg).2, errNoHistory_code⟩

/-- in terms of the tree: the root folder has no `ascmhl` folder, or one in which every manifest is gone, is not listed
in the chain file (`load_from_path` ignores such a manifest), or has a name that is not a generation name.  Then both
commands end with 30 — unless loading fails (the chain file of the
root's `ascmhl` folder or a NESTED history is broken), in which case both end with that error instead. -/
theorem info_no_history_tree (t : Node) (p : RelPath)
    (hroot : t.hist = none ∨ ∃ s, t.hist = some s ∧
      ∀ g ∈ s.gens, g.state = .missing ∨ s.lists g.fileName = false ∨ parseGenName g.fileName = none) :
    (info t = .error errNoHistory ∧ infoSingleFile t p = .error errNoHistory ∧
        ∃ h, loadHistory t = .ok h ∧ h.gens = []) ∨
    (∃ e, loadHistory t = .error e ∧ info t = .error e ∧ infoSingleFile t p = .error e) := by
  cases hl : loadHistory t with
  | error e =>
    right
    exact ⟨e, rfl, by simp [info, hl, bind, Except.bind], by simp [infoSingleFile, hl, bind, Except.bind]⟩
  | ok h =>
    left
    have hg : h.gens = [] := by
      rw [loadHistory_gens t h hl]
      rcases hroot with h0 | ⟨s, hs, hall⟩
      · rw [h0]
      · rw [hs]
        exact (loadGens_eq_nil_iff s).2 hall
    exact ⟨(info_no_history t h p hl hg).1, (info_no_history t h p hl hg).2, h, rfl, hg⟩

/-- a tree with ONLY nested histories: no `ascmhl` folder at the root, the tree loads, some nested history has
generations.  `info` does not look downward: 30. -/
theorem info_only_nested (t : Node) (h : Hist) (p : RelPath) (hh : t.hist = none) (hl : loadHistory t = .ok h)
    (_hnested : ∃ x ∈ allDescendants h, x.gens ≠ []) :
    info t = .error errNoHistory ∧ infoSingleFile t p = .error errNoHistory := by
  have hg : h.gens = [] := by rw [loadHistory_gens t h hl, hh]
  exact info_no_history t h p hl hg

/-! ### non-vacuity -/

section Examples
open MhlProps.C04nested

/-! #### the run `exSteps` of C06seq: four generations -/

/-- all four steps write -/
example : writes exEnv exTree exSteps = 4 := by decide +kernel

/-- `info` after the run, evaluated … -/
example : info (run exEnv exTree exSteps) = .ok [([], 1), ([], 2), ([], 3), ([], 4)] := by decide +kernel

/-- … and through `info_after_run` -/
example : info (run exEnv exTree exSteps) = .ok ((List.range' 1 4).map fun k => (([] : RelPath), k)) := by
  have h := (info_after_run exEnv (by decide) exTree rfl (by rfl) rfl exSteps exSteps_ok).2.2.1
  have hw : writes exEnv exTree exSteps = 4 := by decide +kernel
  rw [hw] at h
  exact h (by decide)

/-- a run whose only step writes nothing: 30 -/
def exStepsNone : List Step := [⟨replaceKids [.dir "empty" [] none], { singleFiles := [["empty"]] }, "2020-01-05_000000Z"⟩]

example : (∀ st ∈ exStepsNone, st.Ok) ∧ writes exEnv exTree exStepsNone = 0 ∧
    info (run exEnv exTree exStepsNone) = .error (.exit 30) := by
  refine ⟨?_, by decide +kernel, by decide +kernel⟩
  intro st hst
  simp only [exStepsNone, List.mem_singleton] at hst
  subst hst
  exact ⟨mediaEdit_replaceKids _ (by rfl), by decide⟩

/-! #### the first three steps of `exSteps` are folder-mode steps; `sub/x` is never edited, `a.txt` is edited
before step 2 -/

def exSteps3 : List Step := exSteps.take 3

theorem exSteps3_folder : ∀ st ∈ exSteps3, FolderStep st := by
  intro st hst
  simp only [exSteps3, exSteps, List.take_succ_cons, List.take_zero, List.mem_cons, List.not_mem_nil,
    or_false] at hst
  rcases hst with rfl | rfl | rfl
  · exact ⟨⟨mediaEdit_id, by decide⟩, rfl, rfl, by decide⟩
  · exact ⟨⟨mediaEdit_editFile _ _, by decide⟩, rfl, rfl, by decide⟩
  · exact ⟨⟨mediaEdit_id, by decide⟩, rfl, rfl, by decide⟩

theorem fileKept_of_check (p : RelPath) (c : Bytes) (t : Node)
    (h : (namesDistinctB t && decide t.NamesOk && fileIsB p c t) = true) : FileKept p c t := by
  simp only [Bool.and_eq_true, decide_eq_true_eq] at h
  exact ⟨namesDistinctB_sound t h.1.1, h.1.2, fileIsB_sound p c t h.2⟩

theorem exSteps3_keeps : Along exEnv (FileKept ["sub", "x"] []) exTree exSteps3 := by
  refine ⟨?_, ?_, ?_, trivial⟩ <;> exact fileKept_of_check _ _ _ (by decide +kernel)

/-- the hypotheses of `info_sf_after_run` hold for `sub/x` over these three steps, all three write … -/
example : (∀ s ∈ (["sub", "x"] : RelPath), NameOk s) ∧ (∀ st ∈ exSteps3, FolderStep st) ∧
    Along exEnv (FileKept ["sub", "x"] []) exTree exSteps3 ∧ writes exEnv exTree exSteps3 = 3 :=
  ⟨by decide, exSteps3_folder, exSteps3_keeps, by decide +kernel⟩

/-- … and the lines, evaluated: generation 1 `original`, generation 2 the recorded format `verified` and the two new
ones `verified`, generation 3 `verified` -/
example : infoSingleFile (run exEnv exTree exSteps3) ["sub", "x"] =
    .ok [(1, "xxh128", "xxh128:0", "original"),
         (2, "md5", "md5:0", "verified"), (2, "sha1", "sha1:0", "verified"), (2, "xxh128", "xxh128:0", "verified"),
         (3, "xxh128", "xxh128:0", "verified")] := by decide +kernel

/-- the theorem applied -/
example : ∃ lines, infoSingleFile (run exEnv exTree exSteps3) ["sub", "x"] = .ok lines ∧
    (∀ ℓ ∈ lines, ℓ.2.2.1 = exEnv.H ℓ.2.1 []) ∧ ∀ ℓ ∈ lines, ℓ.2.2.2 ≠ "failed" := by
  have hw : writes exEnv exTree exSteps3 = 3 := by decide +kernel
  obtain ⟨lines, h1, -, -, h4, h5, -⟩ := (info_sf_after_run exEnv (by decide) exTree rfl (by rfl) rfl ["sub", "x"] []
    (by decide) exSteps3 exSteps3_folder exSteps3_keeps).2 (by rw [hw]; decide)
  exact ⟨lines, h1, h4, h5⟩

/-- `a.txt` has content `[1]` in step 1 and is altered to `[1, 2]` before step 2: the hypotheses of
`info_sf_edited_step` at the point after step 1 … -/
theorem ex_finv1 : FInv exEnv ["a.txt"] [1] (run exEnv exTree (exSteps.take 1)) 1 := by
  have h := run_finv exEnv (by decide) ["a.txt"] [1] (by decide) (exSteps.take 1) exTree 0
    (finv_fresh exEnv _ _ exTree rfl (by rfl) rfl)
    (fun st hst => exSteps3_folder st (by
      simp only [exSteps, List.take_succ_cons, List.take_zero, List.mem_singleton] at hst
      subst hst
      simp [exSteps3, exSteps]))
    ⟨fileKept_of_check _ _ _ (by decide +kernel), trivial⟩
  have hw : writes exEnv exTree (exSteps.take 1) = 1 := by decide +kernel
  rw [hw] at h
  exact h

def exStep2 : Step := ⟨editFile ["a.txt"] [1, 2], { formats := ["sha1", "md5"], ignoreCli := ["b.tmp"] }, "2020-01-02_000000Z"⟩

example : FolderStep exStep2 ∧
    FileKept ["a.txt"] [1, 2] (exStep2.edit (run exEnv exTree (exSteps.take 1))) ∧
    stepTree exEnv (run exEnv exTree (exSteps.take 1)) exStep2 = run exEnv exTree (exSteps.take 2) :=
  ⟨⟨⟨mediaEdit_editFile _ _, by decide⟩, rfl, rfl, by decide⟩, fileKept_of_check _ _ _ (by decide +kernel), rfl⟩

/-- … and the lines afterwards, evaluated: the recorded format is `failed` (the digest differs), and the two
requested new formats are NOT added -/
example : infoSingleFile (run exEnv exTree (exSteps.take 2)) ["a.txt"] =
    .ok [(1, "xxh128", "xxh128:1", "original"), (2, "xxh128", "xxh128:2", "failed")] := by decide +kernel

/-- the theorem applied: every line of generation 2 is `failed` -/
example : ∀ lines, infoSingleFile (stepTree exEnv (run exEnv exTree (exSteps.take 1)) exStep2) ["a.txt"] = .ok lines →
    ∀ ℓ ∈ lines, ℓ.1 = 2 → ℓ.2.2.2 = "failed" := by
  intro lines hlines
  obtain ⟨old, new, rfl, hbefore, hold, hnew, hall, -⟩ := info_sf_edited_step exEnv (by decide) ["a.txt"] [1] [1, 2]
    (by decide) _ 1 ex_finv1 exStep2 ⟨⟨mediaEdit_editFile _ _, by decide⟩, rfl, rfl, by decide⟩
    (fileKept_of_check _ _ _ (by decide +kernel)) lines hlines
  have hold_eq : old = [(1, "xxh128", "xxh128:1", "original")] :=
    (hbefore _ (by decide +kernel)).symm
  intro ℓ hℓ h2
  rcases List.mem_append.1 hℓ with h | h
  · have := (hold ℓ h).2.1
    omega
  · apply hall (by rw [hold_eq]; simp) ?_ ℓ h
    rw [hold_eq]
    intro ℓ₀ hℓ₀
    simp only [List.mem_singleton] at hℓ₀
    subst hℓ₀
    decide +kernel

/-! #### why `-dr` is excluded from `info_sf_after_run` -/

def drTree : Node := .dir "root" [.file "a.txt" [1]] none

/-- create; then add `b.txt` (same length, hence same toy digest), hide `a.txt` by a new pattern, and create `-dr` -/
def drSteps : List Step :=
  [ ⟨id, {}, "2020-01-01_000000Z"⟩,
    ⟨replaceKids [.file "a.txt" [1], .file "b.txt" [9]], { detectRenaming := true, ignoreCli := ["a.txt"] },
      "2020-01-02_000000Z"⟩ ]

/-- all hypotheses of `info_sf_after_run` hold except `detectRenaming = false` in step 2: `a.txt` is never edited
(it is still there, content `[1]`, only hidden by the pattern).  The second run takes the hidden `a.txt` for
renamed to `b.txt` and records `b.txt` with previous path `a.txt`; `find_media_hash_for_path("a.txt")` returns that
record, so `info -sf a.txt` prints a second `original` line, for generation 2 -/
theorem info_sf_needs_noRename :
    (∀ st ∈ drSteps, st.Ok ∧ st.opts.singleFiles = [] ∧ st.opts.formats ≠ []) ∧
    Along exEnv (FileKept ["a.txt"] [1]) drTree drSteps ∧
    (create { exEnv with stamp := "2020-01-02_000000Z" }
      (replaceKids [.file "a.txt" [1], .file "b.txt" [9]] (run exEnv drTree (drSteps.take 1)))
      { detectRenaming := true, ignoreCli := ["a.txt"] }).report.renamed = [("a.txt", "b.txt")] ∧
    infoSingleFile (run exEnv drTree drSteps) ["a.txt"] =
      .ok [(1, "xxh128", "xxh128:1", "original"), (2, "xxh128", "xxh128:1", "original")] := by
  refine ⟨?_, ⟨?_, ?_, trivial⟩, ?_, ?_⟩
  rotate_left 3
  · -- `String.splitOn` does not reduce in the kernel: evaluate through `splitPathL`
    unfold run stepTree createStep create createFolder expectedPaths expectedOfGens
    rw [splitPath_eq_splitPathL]
    decide +kernel
  · unfold run stepTree createStep create createFolder expectedPaths expectedOfGens
    rw [splitPath_eq_splitPathL]
    decide +kernel
  · intro st hst
    simp only [drSteps, List.mem_cons, List.not_mem_nil, or_false] at hst
    rcases hst with rfl | rfl
    · exact ⟨⟨mediaEdit_id, by decide⟩, rfl, by decide⟩
    · exact ⟨⟨mediaEdit_replaceKids _ (by rfl), by decide⟩, rfl, by decide⟩
  · exact fileKept_of_check _ _ _ (by decide +kernel)
  · exact fileKept_of_check _ _ _ (by decide +kernel)

/-! #### a tree sealed once (C03e2e's example): two formats, given in the order xxh64, md5 -/

example : infoSingleFile (MhlProps.C03e2e.sealedTree MhlProps.C03e2e.exEnv "root" MhlProps.C03e2e.exKids
      MhlProps.C03e2e.exOpts) ["sub", "x"] =
    .ok [(1, "md5", "md5:1", "original"), (1, "xxh64", "xxh64:1", "original")] := by
  have h := (info_sf_after_seal MhlProps.C03e2e.exSetting ["sub", "x"] (by decide +kernel)).1
  rw [h]
  decide +kernel

/-- an ignored file has no line -/
example : infoSingleFile (MhlProps.C03e2e.sealedTree MhlProps.C03e2e.exEnv "root" MhlProps.C03e2e.exKids
      MhlProps.C03e2e.exOpts) ["skip.tmp"] = .ok [] :=
  info_sf_after_seal_unseen MhlProps.C03e2e.exSetting ["skip.tmp"] (by decide) (by decide) (by decide +kernel)

/-! #### nested histories (C04nested): `big3` = root history with 2 generations, nested history `A` with 3;
`c3` = three levels; `big1` = ONLY the nested history `A` -/

example : info big3 = .ok [([], 1), ([], 2), (["A"], 1), (["A"], 2), (["A"], 3)] := by decide +kernel

example : info c3 = .ok [([], 1), ([], 2), (["A"], 1), (["A"], 2), (["A"], 3),
    (["A", "sub"], 1), (["A", "sub"], 2), (["A", "sub"], 3), (["A", "sub"], 4)] := by decide +kernel

/-- the hypotheses of `info_lists_exactly_existing` (including the ones of the conditional clauses) hold on `big3` -/
example : loadHistory big3 = .ok (loadD big3) ∧ (loadD big3).gens ≠ [] ∧ big3.NamesDistinct ∧
    NumbersDistinct (loadD big3) ∧ (allDescendants (loadD big3)).length = 1 :=
  ⟨load3, hyps3.1, namesDistinctB_sound _ (by decide +kernel), by unfold NumbersDistinct; decide +kernel,
    by decide +kernel⟩

/-- only a nested history: `info` and `info -sf` at the outer root give 30 … -/
example : big1.hist = none ∧ loadHistory big1 = .ok (loadD big1) ∧
    (∃ x ∈ allDescendants (loadD big1), x.gens ≠ []) ∧
    info big1 = .error (.exit 30) ∧ infoSingleFile big1 ["A", "x.mov"] = .error (.exit 30) := by
  refine ⟨rfl, load1, by decide +kernel, ?_, ?_⟩
  · exact (info_only_nested big1 _ [] rfl load1 (by decide +kernel)).1
  · exact (info_only_nested big1 _ ["A", "x.mov"] rfl load1 (by decide +kernel)).2

/-- … while asked at the nested folder (what the tool's upward search from the file would pick) the file has its
line -/
example : infoSingleFile sealedA ["x.mov"] = .ok [(1, "md5", "md5:3", "original")] := by decide +kernel

/-- with a root history too (`big3`), a file of the nested history is routed to the NESTED history (the repaired
`info -sf`): `A/x.mov` is recorded in the nested history `A` as `x.mov`, in all three generations of `A`; the root
history has no record for it (before the repair this printed nothing) -/
example : infoSingleFile big3 ["A", "x.mov"] =
    .ok [(1, "md5", "md5:3", "original"),
         (2, "md5", "md5:3", "verified"), (2, "xxh64", "xxh64:3", "verified"),
         (3, "md5", "md5:3", "verified"), (3, "sha1", "sha1:3", "verified")] := by decide +kernel

/-- a file of the outer folder is still looked up in the root history (two generations) -/
example : infoSingleFile big3 ["B", "z"] =
    .ok [(1, "md5", "md5:0", "original"), (1, "xxh64", "xxh64:0", "original"),
         (2, "md5", "md5:0", "verified"), (2, "sha1", "sha1:0", "verified")] := by decide +kernel

/-- three levels (`c3`): a file below `A/sub` gets the four generations of the DEEPEST history `A/sub`, a file of `A`
the three generations of `A` -/
example : infoSingleFile c3 ["A", "sub", "s"] =
    .ok [(1, "sha1", "sha1:2", "original"),
         (2, "md5", "md5:2", "verified"), (2, "sha1", "sha1:2", "verified"),
         (3, "md5", "md5:2", "verified"), (3, "xxh64", "xxh64:2", "verified"),
         (4, "sha1", "sha1:2", "verified")] ∧
    (ownerHist (loadD c3) ["A", "sub", "s"]).root = ["A", "sub"] ∧
    (ownerHist (loadD c3) ["A", "x.mov"]).root = ["A"] := by decide +kernel

/-- `infoSingleFile_sfLines` applied on `big3`: the lines are `sfLines` of the owner's generations -/
example : infoSingleFile big3 ["A", "x.mov"] =
    .ok (sfLines (ownerHist (loadD big3) ["A", "x.mov"]).gens
      (posix ((["A", "x.mov"] : RelPath).drop (ownerHist (loadD big3) ["A", "x.mov"]).root.length))) :=
  infoSingleFile_sfLines big3 (loadD big3) ["A", "x.mov"] load3 hyps3.1

/-- no history at the root and a nested history whose chain file is gone: the nested fault wins over 30 -/
example : info (.dir "root" [.dir "A" [] (some { chainPresent := false })] none) = .error errNoChain ∧
    errNoChain ≠ errNoHistory := by decide +kernel

end Examples

end MhlProps.C19seq

/-! ### axioms -/

#print axioms MhlProps.C19seq.run_counts
#print axioms MhlProps.C19seq.info_of_runInv
#print axioms MhlProps.C19seq.info_after_run
#print axioms MhlProps.C19seq.info_lists_exactly_existing
#print axioms MhlProps.C19seq.info_nodup_needs_numbers
#print axioms MhlProps.C19seq.info_sf_after_seal
#print axioms MhlProps.C19seq.info_sf_after_seal_count
#print axioms MhlProps.C19seq.info_sf_after_seal_unseen
#print axioms MhlProps.C19seq.written_find
#print axioms MhlProps.C19seq.step_gens
#print axioms MhlProps.C19seq.step_finv
#print axioms MhlProps.C19seq.run_finv
#print axioms MhlProps.C19seq.info_sf_after_run
#print axioms MhlProps.C19seq.infoSingleFile_sfLines
#print axioms MhlProps.C19seq.infoSingleFile_sfLines_flat
#print axioms MhlProps.C19seq.runInv_children
#print axioms MhlProps.C19.infoSingleFile_nearest_spec
#print axioms MhlProps.C19.ownerHist_deepest
#print axioms MhlProps.C19.ownerHist_root_prefix
#print axioms MhlProps.C19.ownerHist_mem
#print axioms MhlProps.C19.loadHistory_WF
#print axioms MhlProps.C19.loadHistory_WF_needs_names
#print axioms MhlProps.C19seq.info_sf_unaltered_step
#print axioms MhlProps.C19seq.info_sf_edited_step
#print axioms MhlProps.C19seq.info_sf_needs_noRename
#print axioms MhlProps.C19seq.info_no_history_everywhere
#print axioms MhlProps.C19seq.info_no_history_tree
#print axioms MhlProps.C19seq.info_only_nested
#print axioms MhlProps.C19seq.exSteps3_keeps
#print axioms MhlProps.C19seq.ex_finv1
#print axioms MhlModel.loaded_all_sorted
#print axioms MhlModel.loaded_all_on_disk
#print axioms MhlModel.infoLines_infix
#print axioms MhlModel.infoLines_parent_first
#print axioms MhlModel.filter_root_block
#print axioms MhlModel.flatMap_ownLines_nodup
#print axioms MhlModel.fmtList_sorted
#print axioms MhlModel.origEntries_eq_map
#print axioms MhlModel.create_flat_gen
#print axioms MhlModel.GenShape.find_record
#print axioms MhlModel.GenShape.find_none
#print axioms MhlModel.writtenEntries_unaltered
#print axioms MhlModel.writtenEntries_altered
#print axioms MhlModel.writtenEntries_all_failed
#print axioms MhlModel.PInv.append
#print axioms MhlModel.sfLines_unaltered
#print axioms MhlModel.loadGens_eq_nil_iff
