/-
C14 — Commands touch nothing beyond what they document (model level).

In the model the only way a command changes the disk is through the generations it returns in `Outcome.written`
(`applyWritten` puts each `w` into the `ascmhl` folder at `w.histRoot`; MhlProps/C06.lean shows that nothing else in
the tree changes).  So: the read-only commands return no generation on any path through them; `create` only
returns generations for histories in scope (the root history and its transitive children), and none when it is
refused; `flatten` returns one generation that is not placed in the tree at all.

`info` and `infoSingleFile` do not even return an `Outcome`: their type is `Except Err (List …)`, a list of lines
or an error, so there is nothing they could write (remark, nothing to prove; see `info_type`).
-/
import MhlProps.Proofs.VerifyLemmas

namespace MhlProps.C14
open MhlModel

/-! ### the read-only commands -/

/-- verify / diff, against the history or against a packing list, on every exit path -/
theorem verifyOrDiff_writes_nothing (env : Env) (t : Node) (o : VerifyOpts) (hashing : Bool)
    (packingList : Option Generation) : (verifyOrDiff env t o hashing packingList).written = [] := by
  unfold verifyOrDiff
  dsimp only
  split
  · rfl
  · split <;> rfl

theorem verify_writes_nothing (env : Env) (t : Node) (o : VerifyOpts) : (verify env t o).written = [] :=
  verifyOrDiff_writes_nothing env t o true none

theorem diff_writes_nothing (env : Env) (t : Node) (o : VerifyOpts) : (diff env t o).written = [] :=
  verifyOrDiff_writes_nothing env t _ false none

theorem verifyDh_writes_nothing (env : Env) (t : Node) (o : DhOpts) : (verifyDh env t o).written = [] := by
  unfold verifyDh
  split <;> rfl

/-- `info` / `info -sf` return lines or an error, no `Outcome` and hence no generation -/
theorem info_type : (∃ f : Node → Except Err (List (RelPath × Nat)), f = info) ∧
    (∃ f : Node → RelPath → Except Err (List (Nat × String × String × String)), f = infoSingleFile) :=
  ⟨⟨_, rfl⟩, ⟨_, rfl⟩⟩

/-! ### create -/

/-- what folder-mode create returns as written is nothing, or the result of ONE `commit` against the loaded
history -/
theorem createFolder_written (env : Env) (t : Node) (o : CreateOpts) (rootHist : Hist)
    (hl : loadHistory t = .ok rootHist) :
    (createFolder env t o).written = [] ∨
      ∃ session, commit rootHist session env.rootName env.stamp "in-place" = .ok (createFolder env t o).written := by
  unfold createFolder
  simp only [hl]
  split
  · left; rfl
  · next written hc => right; exact ⟨_, hc⟩

theorem createSingleFiles_written (env : Env) (t : Node) (o : CreateOpts) (rootHist : Hist)
    (hl : loadHistory t = .ok rootHist) :
    (createSingleFiles env t o).written = [] ∨
      ∃ session, commit rootHist session env.rootName env.stamp "in-place" =
        .ok (createSingleFiles env t o).written := by
  unfold createSingleFiles
  simp only [hl]
  split
  · left; rfl
  · next written hc => right; exact ⟨_, hc⟩

/-- every generation create writes goes to a history in scope: the root history or one of its transitive children
(`walkPost rootHist` lists exactly these) -/
theorem create_written_roots (env : Env) (t : Node) (o : CreateOpts) (rootHist : Hist)
    (hl : loadHistory t = .ok rootHist) :
    ∀ w ∈ (create env t o).written, ∃ h ∈ walkPost rootHist, w.histRoot = h.root := by
  intro w hw
  have key : (create env t o).written = [] ∨
      ∃ session, commit rootHist session env.rootName env.stamp "in-place" = .ok (create env t o).written := by
    unfold create
    split
    · exact createFolder_written env t o rootHist hl
    · exact createSingleFiles_written env t o rootHist hl
  rcases key with h | ⟨s, hs⟩
  · rw [h] at hw; cases hw
  · exact commit_roots rootHist s _ _ _ none _ hs w hw

/-- a refused create (the history does not load: chain missing, manifest altered or missing) writes nothing and ends
with that error -/
theorem create_refused_writes_nothing (env : Env) (t : Node) (o : CreateOpts) (e : Err)
    (hl : loadHistory t = .error e) :
    create env t o = { err := some e } ∧ (create env t o).written = [] := by
  have h : create env t o = { err := some e } := by
    unfold create createFolder createSingleFiles
    simp only [hl]
    split <;> rfl
  exact ⟨h, by rw [h]⟩

/-- a create whose commit is refused (validation of a new list fails) writes nothing either: `commit` is all or
nothing -/
theorem create_commit_all_or_nothing (env : Env) (t : Node) (o : CreateOpts) (rootHist : Hist)
    (hl : loadHistory t = .ok rootHist) (w : Written) (hw : w ∈ (create env t o).written) :
    ∃ session, commit rootHist session env.rootName env.stamp "in-place" = .ok (create env t o).written := by
  have key : (create env t o).written = [] ∨
      ∃ session, commit rootHist session env.rootName env.stamp "in-place" = .ok (create env t o).written := by
    unfold create
    split
    · exact createFolder_written env t o rootHist hl
    · exact createSingleFiles_written env t o rootHist hl
  rcases key with h | h
  · rw [h] at hw; cases hw
  · exact h

/-! ### flatten -/

/-- flatten returns at most one generation; it has history root `[]`, number 1 and process "flatten" — the driver
places it below the destination folder, never in the tree (it is not passed to `applyWritten`) -/
theorem flatten_written_outside (env : Env) (t : Node) (ignoreCli ignoreFile : List String) :
    (flatten env t ignoreCli ignoreFile).written.length ≤ 1 ∧
    ∀ w ∈ (flatten env t ignoreCli ignoreFile).written,
      w.histRoot = [] ∧ w.number = 1 ∧ w.gen.process = "flatten" ∧ w.gen.rootHash = none ∧ w.gen.refs = [] := by
  unfold flatten
  split
  · exact ⟨by simp, fun w hw => by cases hw⟩
  · split
    · exact ⟨by simp, fun w hw => by cases hw⟩
    · dsimp only
      split
      · exact ⟨by simp, fun w hw => by cases hw⟩
      · refine ⟨by simp, fun w hw => ?_⟩
        simp only [List.mem_singleton] at hw
        subst hw
        exact ⟨rfl, rfl, rfl, rfl, rfl⟩

/-- a refused flatten writes nothing -/
theorem flatten_refused_writes_nothing (env : Env) (t : Node) (ic ifl : List String) (e : Err)
    (hl : loadHistory t = .error e) : flatten env t ic ifl = { err := some e } := by
  unfold flatten
  simp only [hl]

/-! ### non-vacuity -/

def exH : HashFn := fun f c => f ++ ":" ++ toString c.length
def exEnv : Env := { H := exH, D := fun _ _ => some [], hit := fun _ _ => false, rootName := "root" }

/-- a tree with a root history (no generation yet) and a nested history in `sub` -/
def exTree : Node :=
  .dir "root" [.file "a" [1], .dir "sub" [.file "b" [2, 3]] (some {})] (some {})

def exHist : Hist := .mk [] [] [] true [.mk ["sub"] [] [] true []]

theorem ex_load : loadHistory exTree = .ok exHist := by rfl

/-- create on it writes two generations, the nested one first, both for histories in scope -/
example : ((create exEnv exTree {}).written.map fun w => (w.histRoot, w.number)) = [(["sub"], 1), ([], 1)] ∧
    (walkPost exHist).map (·.root) = [["sub"], []] := by decide

/-- a tree whose chain file is gone: create is refused with 32 and writes nothing -/
def exBroken : Node := .dir "root" [.file "a" [1]] (some { chainPresent := false })

example : loadHistory exBroken = .error errNoChain := by rfl

example : create exEnv exBroken {} = { err := some errNoChain } :=
  (create_refused_writes_nothing exEnv exBroken {} errNoChain (by rfl)).1

/-- flatten of a one-generation history returns one packing list -/
def exGen : Generation :=
  { fileName := "0001_root_2020-01-01_000000Z.mhl",
    records := [{ path := "a", entries := [{ fmt := "md5", digest := "md5:1", action := "original" }] }] }

def exSealed : Node := .dir "root" [.file "a" [1]] (some { gens := [exGen], chain := [⟨1, exGen.fileName⟩] })

example : ((flatten exEnv exSealed [] []).written.map fun w => (w.histRoot, w.number, w.gen.process)) =
    [([], 1, "flatten")] := by decide

end MhlProps.C14
