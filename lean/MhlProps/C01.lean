/-
C01 — File digests are the standard algorithms over the exact file bytes.

Property theorems only (helper lemmas live in MhlProps/Proofs).  Everything is about the model in
MhlModel/{Codec,Hashing}.lean whose numeric parameters are regenerated from the source (Gen/Consts.lean).
The digest primitives are a parameter `P : Prims` obeying the streaming law; that hashlib.md5 *is* MD5 is the
trusted base, not a theorem.
-/
import MhlProps.Proofs.C4Lemmas
import MhlProps.Proofs.HashingLemmas

namespace MhlProps.C01
open MhlModel MhlModel.Codec MhlModel.Hashing

/-! ### (e) the format table of the current source is the specified one -/

/-- md5→MD5/hex, sha1→SHA-1/hex, xxh32→XXH32/hex, xxh64→XXH64/hex, xxh3→XXH3-64/hex, xxh128→XXH3-128/hex,
c4→SHA-512/C4 -/
def specTable : List (String × String × String) :=
  [("md5", "hashlib.md5", "hex"), ("sha1", "hashlib.sha1", "hex"), ("xxh32", "xxhash.xxh32", "hex"),
   ("xxh64", "xxhash.xxh64", "hex"), ("xxh3", "xxhash.xxh3_64", "hex"), ("xxh128", "xxhash.xxh3_128", "hex"),
   ("c4", "hashlib.sha512", "c4")]

theorem table_is_spec : Gen.hashTable = specTable := by decide

theorem cli_formats_in_table : ∀ f ∈ Gen.supportedFormats, (Gen.hashTable.find? (fun t => t.1 == f)).isSome := by
  decide

theorem reference_format_is_c4 : Gen.referenceFormat = "c4" ∧ Gen.defaultFormat ∈ Gen.supportedFormats := by decide

/-- the C4 parameters of encoder and decoder agree with each other and with the definition of a C4 ID -/
theorem c4_parameters :
    Gen.c4EncBase = 58 ∧ Gen.c4DecBase = 58 ∧ c4Alphabet.length = 58 ∧ c4Alphabet.Nodup ∧
    Gen.c4EncLength = 90 ∧ Gen.c4DecLength = 90 ∧ Gen.c4Prefix = "c4" ∧ Gen.c4PrefixLen = 2 ∧
    Gen.c4DecStart = 2 ∧ Gen.c4DecBytes = 64 ∧ Gen.c4DecByteorder = "big" ∧ Gen.c4EncZero = "1" ∧
    c4Alphabet.head? = some c4ZeroChar := by
  refine ⟨rfl, rfl, alphabet_length, alphabet_nodup, rfl, rfl, rfl, rfl, rfl, rfl, rfl, rfl, ?_⟩
  decide +kernel

theorem chunk_sizes_positive : 0 < Gen.chunkSingle ∧ 0 < Gen.chunkAggregate := by decide

/-! ### (c) C4 text form -/

/-- 90 characters for every 512-bit value (every 64-byte digest) -/
theorem c4_length (d : Bytes) (h : d.length = 64) : (c4OfBytes d).length = 90 := by
  have := ofBytesBE_lt d; rw [h, bytes64] at this
  exact c4EncodeNat_length _ this

theorem c4_prefix (d : Bytes) : (c4OfBytes d).take 2 = ['c', '4'] := by
  simp [c4OfBytes, c4EncodeNat, Gen.c4Prefix]

/-- decoding the text form gives back the 64 digest bytes, for all of them (leading zero digits included) -/
theorem c4_roundtrip (d : Bytes) (h : d.length = 64) : c4ToBytes (c4OfBytes d) = some d := by
  have hlt := ofBytesBE_lt d; rw [h, bytes64] at hlt
  unfold c4ToBytes c4OfBytes
  rw [c4DecodeNat_encode _ hlt]
  have : ofBytesBE d < 256 ^ Gen.c4DecBytes := by
    have : Gen.c4DecBytes = 64 := rfl
    rw [this, bytes64]; exact hlt
  simp only [this, if_true]
  have h64 : Gen.c4DecBytes = d.length := by rw [h]; rfl
  rw [h64, toBytesBE_ofBytesBE]

/-- hence the text form is injective on digests: two files with different SHA-512 never share a C4 ID -/
theorem c4_injective (d₁ d₂ : Bytes) (h₁ : d₁.length = 64) (h₂ : d₂.length = 64)
    (h : c4OfBytes d₁ = c4OfBytes d₂) : d₁ = d₂ := by
  have e₁ := c4_roundtrip d₁ h₁
  have e₂ := c4_roundtrip d₂ h₂
  rw [h] at e₁
  exact Option.some.inj (e₁.symm.trans e₂)

/-- every character after the prefix is in the alphabet -/
theorem c4_alphabet (d : Bytes) : ∀ c ∈ (c4OfBytes d).drop 2, c ∈ c4Alphabet := by
  intro c hc
  have hdrop : (c4OfBytes d).drop 2
      = List.replicate (88 - (digits 58 (ofBytesBE d)).length) c4ZeroChar
          ++ (digits 58 (ofBytesBE d)).map fun x => c4Alphabet.getD x '?' := by
    simp [c4OfBytes, c4EncodeNat, rjust, Gen.c4Prefix, Gen.c4EncLength, Gen.c4PrefixLen, Gen.c4EncBase]
  rw [hdrop] at hc
  rcases List.mem_append.mp hc with hc | hc
  · have := List.eq_of_mem_replicate hc
    rw [this]; decide +kernel
  · obtain ⟨x, hx, rfl⟩ := List.mem_map.mp hc
    have hx58 : x < 58 := digits_lt 58 _ x hx
    have : x < c4Alphabet.length := by rw [alphabet_length]; exact hx58
    simp [List.getD, List.getElem?_eq_getElem this]

/-- the left padding with '1' is needed exactly for values below 58^87 -/
theorem c4_padding_iff (n : Nat) : (digits 58 n).length < 88 ↔ n < 58 ^ 87 := by
  constructor
  · intro h
    by_contra hge
    have := digitsRev_length_ge 58 (by omega) n 87 (by omega)
    simp [digits] at h; omega
  · intro h
    have := digitsRev_length_le 58 (by omega) n 87 h
    simp [digits]; omega

/-! ### (d) hex text form -/

theorem hex_byte : ∀ x : Nat, x < 256 →
    unhex [hexDigit (x / 16), hexDigit (x % 16)] = some [UInt8.ofNat x] := by
  decide +kernel

theorem hex_roundtrip (b : Bytes) : unhex (hexOfBytes b) = some b := by
  induction b with
  | nil => simp [hexOfBytes, unhex]
  | cons x xs ih =>
    have hx := hex_byte x.toNat x.toNat_lt
    simp only [hexOfBytes, List.flatMap_cons, List.cons_append, List.nil_append] at *
    unfold unhex
    simp only [unhex] at hx
    revert hx
    cases hexVal (hexDigit (x.toNat / 16)) <;> cases hexVal (hexDigit (x.toNat % 16)) <;> simp [ih]

theorem hex_length (b : Bytes) : (hexOfBytes b).length = 2 * b.length := by
  induction b with
  | nil => simp [hexOfBytes]
  | cons x xs ih => simp only [hexOfBytes, List.flatMap_cons] at *; simp [ih]; omega

theorem hex_lowercase (b : Bytes) : ∀ c ∈ hexOfBytes b, c ∈ hexChars := by
  intro c hc
  simp only [hexOfBytes, List.mem_flatMap] at hc
  obtain ⟨x, _, hc⟩ := hc
  have h1 : ∀ n, n < 16 → hexDigit n ∈ hexChars := by decide +kernel
  have hx := x.toNat_lt
  simp only [List.mem_cons, List.not_mem_nil, or_false] at hc
  rcases hc with rfl | rfl
  · exact h1 _ (by omega)
  · exact h1 _ (Nat.mod_lt _ (by omega))

/-! ### (a) the single-format read loop -/

/-- For every streaming hasher, every content and EVERY read schedule (any chunk sizes, short reads included) of
non-empty reads that concatenate to the content and end with EOF: the loop yields the one-shot digest. -/
theorem readLoop_eq_oneShot (A : Alg) (content : Bytes) (cs rest : List Bytes)
    (hne : ∀ c ∈ cs, c ≠ []) (hcat : cs.flatten = content) :
    A.final (readLoop A (cs ++ [] :: rest)) = A.digest content := by
  rw [← hcat]; exact readLoop_schedule A cs rest hne

/-- `Hasher.hash_file` (1 MiB chunks as in the source) equals `Hasher.hash_data`, for every length -/
theorem hashFile_eq_hashData (h : Hasher) (content : Bytes) : hashFile h content = hashData h content := by
  unfold hashFile
  rw [hashFileReads_eq h _ (chunksOf_nonempty _ _), chunksOf_flatten _ chunk_sizes_positive.1]

/-- and with any other positive chunk size -/
theorem hashFile_chunk_independent (h : Hasher) (content : Bytes) (size : Nat) (hs : 0 < size) :
    hashFileReads h (chunksOf size content) = hashData h content := by
  rw [hashFileReads_eq h _ (chunksOf_nonempty _ _), chunksOf_flatten _ hs]

/-- streaming use: the digest observed after any number of `update` calls is the one-shot digest of the bytes fed
so far (observing a digest is a function of the state, it does not change it) -/
theorem streaming_prefix_digest (A : Alg) (cs : List Bytes) (k : Nat) :
    A.final ((cs.take k).foldl A.update A.init) = A.digest (cs.take k).flatten := by
  simp [foldl_update, Alg.digest]

/-! ### (b) the read-once multi-format loop -/

/-- every requested format (duplicates collapse as in a dict) gets exactly the single-format result -/
theorem aggregate_eq_single (P : Prims) (fmts : List String) (content : Bytes)
    (r : List (String × String)) (hr : aggregateHashFile P fmts content = some r) :
    r.map (·.1) = dedup fmts ∧
    ∀ f ∈ fmts, ∃ h, hasherFor P f = some h ∧ (f, hashData h content) ∈ r := by
  unfold aggregateHashFile aggregateHashReads at hr
  have hchunks : ∀ h : Hasher, hashFileReads h (chunksOf Gen.chunkAggregate content) = hashData h content :=
    fun h => hashFile_chunk_independent h content _ chunk_sizes_positive.2
  simp only [hchunks] at hr
  have key := mapM_option_spec (fun f => (hasherFor P f).map fun h => (f, hashData h content)) (dedup fmts) r hr
  refine ⟨?_, ?_⟩
  · apply key.1 (·.1)
    intro x y hxy
    cases hh : hasherFor P x <;> simp [hh] at hxy
    rw [← hxy]
  · intro f hf
    obtain ⟨y, hy, hmem⟩ := key.2 f ((mem_dedup f fmts).mpr hf)
    cases hh : hasherFor P f <;> simp [hh] at hy
    exact ⟨_, rfl, by rw [hy]; exact hmem⟩

/-! ### hash of a list of hashes (used by directory hashes, C07) -/

/-- `hash_of_hash_list` as written (fresh hasher, one `update` per decoded digest, nothing for the empty list)
is the one-shot digest of the concatenation -/
theorem hashOfHashList_eq_spec (h : Hasher) (l : List String) : hashOfHashList h l = hashOfHashListSpec h l := by
  unfold hashOfHashList hashOfHashListSpec
  split
  · next he =>
    have : l = [] := by simpa using he
    subst this
    simp [isort, hashData, Alg.digest, h.alg.update_nil]
  · simp only [hashData, Alg.digest, foldl_update]

/-! ### non-vacuity -/

/-- a streaming hasher exists: the identity "hash" (state = bytes fed so far) -/
def idAlg : Alg := ⟨Bytes, [], (· ++ ·), id, by simp, by simp⟩

example : (idAlg.final (readLoop idAlg ([[1, 2], [3]] ++ [] :: [[9]]))) = idAlg.digest [1, 2, 3] := by
  exact readLoop_eq_oneShot idAlg [1, 2, 3] [[1, 2], [3]] [[9]] (by decide) rfl

example : c4ToBytes (c4OfBytes (List.replicate 64 0)) = some (List.replicate 64 0) :=
  c4_roundtrip _ (by simp)

end MhlProps.C01
