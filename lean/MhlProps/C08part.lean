/-
C08part — nested histories partition the records of folder-mode `create` and reference each other correctly.

Generalises `MhlProps.C02rec.create_records_exact(_tree)` (one history, `rootHist.children = []`) to a tree that
CONTAINS nested histories, nested to any depth.

Setting: `t` any tree with `t.NamesDistinct` and `t.NamesOk` whose history loads, `loadHistory t = .ok rootHist`
(`rootHist` may have children and grandchildren …); folder mode (`o.singleFiles = []`) without rename detection
(`o.detectRenaming = false`); at least one requested format (`o.formats ≠ []` — with no format no file gets a record,
see the example at the end); `env` arbitrary.  For 3–5 the commit is assumed to have gone through:
`commit rootHist (cSession env t rootHist o) env.rootName env.stamp "in-place" = .ok ws`; then
`(create env t o).written = ws` (`create_written`).

`owner rootHist p` is the root folder of the deepest history whose root is a component-wise prefix of `p`
(`MhlProps.C08.route_deepest`), `relIn rootHist p` the path relative to it.

0. `session_sound`      every record of every list denotes a visible path and sits in the list of its owner (or, for
                        the root folder of a nested history, of the parent history): nothing else is recorded
1. `session_partition`  every visible file has its record in the list of its owner, and nowhere else
2. `dir_partition`      the same for folders; the root folder of a nested history is the root record of its own list
                        and a directory record, with the same entries, of the PARENT history's list
   `root_record`        the root folder of the command is the root record of the root history's list
3. `written_partition`  1 lifted through `commit`: one written generation per history, each visible file in exactly one
   `written_sound`      0 lifted through `commit`
   `written_dirs`       2 lifted through `commit`
4. `written_iff`        a history is written iff it has a list in the session or a direct child was written;
   `all_written_iff`    EVERY history is written iff the root is a folder and every nested history's root folder is visible
5. `refs_exact`         the references of a written generation are exactly the written direct children, in the order
                        written = walk order, sub-folders by name (`WalkLt`)

The helper lemmas are in MhlProps/Proofs/NestedLemmas.lean.
-/
import MhlProps.Proofs.NestedLemmas

namespace MhlProps.C08part
open MhlModel MhlProps.C02rec

/-- the root folder of the history the path `p` belongs to: the deepest history whose root is a prefix of `p` -/
abbrev owner (rootHist : Hist) (p : RelPath) : RelPath := (route rootHist p).1.root
/-- `p` relative to the root folder of its history -/
abbrev relIn (rootHist : Hist) (p : RelPath) : RelPath := (route rootHist p).2

/-- `owner` is a prefix of the path, `relIn` is the rest, and no nested history rooted at a prefix of the path is
deeper -/
theorem owner_spec (t : Node) (rootHist : Hist) (hl : loadHistory t = .ok rootHist) (hd : t.NamesDistinct)
    (p : RelPath) :
    owner rootHist p ++ relIn rootHist p = p ∧
    (∃ h ∈ walkPost rootHist, h.root = owner rootHist p) ∧
    ∀ c ∈ allDescendants rootHist, c.root <+: p → c.root.length ≤ (owner rootHist p).length := by
  have hg := loadHistory_histOK t rootHist hl hd
  exact ⟨owner_append hg p, ⟨_, (mem_walkPost _ _).2 (route_mem hg p), rfl⟩, fun c hc hp => owner_max hg p hc hp⟩

/-- the session after the traversal fold of folder-mode `create` -/
def foldSession (env : Env) (t : Node) (rootHist : Hist) (fmts : List String) (noDir : Bool) (pats : List String)
    (hit : RelPath → Bool) : Session :=
  ((traverse hit [] t).foldl (createVisit env t rootHist fmts noDir) { session := { patterns := pats } }).session

theorem cSession_eq (env : Env) (t : Node) (rootHist : Hist) (o : CreateOpts) :
    cSession env t rootHist o =
      foldSession env t rootHist (isort strLe o.formats) o.noDirHashes
        (setPatterns (latestIgnore rootHist.gens) o.ignoreCli o.ignoreFile) (cHit env rootHist o) := rfl

theorem isort_ne_nil {l : List String} (h : l ≠ []) : isort strLe l ≠ [] := by
  intro h0
  have := length_isort strLe l
  rw [h0] at this
  exact h (List.length_eq_zero_iff.1 this.symm)

/-! ### the invariant, instantiated -/

section session
variable (env : Env) (t : Node) (rootHist : Hist) (hl : loadHistory t = .ok rootHist) (hd : t.NamesDistinct)
  (hn : t.NamesOk) (fmts : List String) (hf : fmts ≠ []) (noDir : Bool) (pats : List String)
  (hit : RelPath → Bool)
include hl hd hn hf

theorem fold_facts :
    HistOK t rootHist ∧ ItemsOk rootHist (recItems (traverse hit [] t)) ∧
      SInv env t rootHist fmts pats (foldSession env t rootHist fmts noDir pats hit)
        (recItems (traverse hit [] t)) := by
  have hg := loadHistory_histOK t rootHist hl hd
  exact ⟨hg, recItems_itemsOk hg hit hd hn, createFold_sinv hg hd hn fmts hf noDir pats hit⟩

/-- a record of a list of the session that denotes a visited item (a file, or a folder that is not the root folder
of a history) sits in the list of the item's owner, under the item's path relative to the owner -/
theorem denote_owner {l : NewList} (hlm : l ∈ (foldSession env t rootHist fmts noDir pats hit).lists)
    {r : Record} (hr : r ∈ l.records) {x : RelPath × Bool} (hx : x ∈ recItems (traverse hit [] t))
    (hden : l.root ++ splitPath r.path = x.1) (hnot : ¬ (x.2 = true ∧ relIn rootHist x.1 = [])) :
    l.root = owner rootHist x.1 ∧ r.path = posix (relIn rootHist x.1) ∧ r.isDir = x.2 := by
  obtain ⟨hg, hok, hs⟩ := fold_facts env t rootHist hl hd hn fmts hf noDir pats hit
  rw [← Session.get_of_mem _ hs.core.nodup hlm] at hr
  obtain ⟨hdir, q, -, hq, hqx, hj⟩ := hs.core.denotes hok hr hx hden
  rcases hj with hj | ⟨h1, h2, -⟩
  · refine ⟨hj, ?_, hdir⟩
    have h3 := owner_append hg x.1
    rw [hj] at hqx
    rw [hq, List.append_cancel_left (hqx.trans h3.symm)]
  · exact absurd ⟨h1, h2⟩ hnot

/-- a record that denotes the root folder of a nested history sits in the list of the PARENT history -/
theorem denote_parent {l : NewList} (hlm : l ∈ (foldSession env t rootHist fmts noDir pats hit).lists)
    {r : Record} (hr : r ∈ l.records) {d : RelPath} (hx : (d, true) ∈ recItems (traverse hit [] t))
    (hden : l.root ++ splitPath r.path = d) (hrel : relIn rootHist d = []) :
    parentRoot rootHist d = some l.root ∧ r.path = posix (d.drop l.root.length) ∧ r.isDir = true := by
  obtain ⟨hg, hok, hs⟩ := fold_facts env t rootHist hl hd hn fmts hf noDir pats hit
  rw [← Session.get_of_mem _ hs.core.nodup hlm] at hr
  obtain ⟨hdir, q, hq0, hq, hqx, hj⟩ := hs.core.denotes hok hr hx hden
  have hqd : q = d.drop l.root.length := by
    have : d = l.root ++ q := hqx.symm
    rw [this, List.drop_left]
  rcases hj with hj | ⟨-, -, h3⟩
  · exfalso
    have h3 := (relOf_nil hg hrel).1
    simp only at hqx hj h3
    rw [hj, h3] at hqx
    exact hq0 (List.append_right_eq_self.1 hqx)
  · exact ⟨h3, by rw [hq, hqd], hdir⟩

/-- nothing else is recorded: every record of every list of the session denotes a VISIBLE path (its list's root
followed by its path), has that entry's kind, and sits in the list of the entry's owner — or, for the root folder of a
nested history, in the list of the parent history -/
theorem session_sound :
    ∀ l ∈ (foldSession env t rootHist fmts noDir pats hit).lists, ∀ r ∈ l.records,
      ∃ x ∈ visiblePaths hit t, l.root ++ splitPath r.path = x.1 ∧ r.isDir = x.2 ∧
        (l.root = owner rootHist x.1 ∨
          (x.2 = true ∧ relIn rootHist x.1 = [] ∧ parentRoot rootHist x.1 = some l.root)) := by
  intro l hlm r hr
  obtain ⟨hg, hok, hs⟩ := fold_facts env t rootHist hl hd hn fmts hf noDir pats hit
  rw [← Session.get_of_mem _ hs.core.nodup hlm] at hr
  obtain ⟨x, hx, q, hq0, hq, hqx, hdir, hj⟩ := hs.core.recs _ r hr
  have hqn : ∀ n ∈ q, NameOk n := fun n hn => hok.names x hx n (mem_of_append_eq hqx n hn)
  have hvis : x ∈ visiblePaths hit t := by
    rcases (mem_recItems hit t x).1 hx with h | ⟨h, -⟩
    · exact h
    · exfalso
      rw [h] at hqx
      exact hq0 (List.append_eq_nil_iff.1 hqx).2
  exact ⟨x, hvis, by rw [hq, splitPath_posix hqn]; exact hqx, hdir, hj⟩

/-! ### 1. files -/

/-- **session_partition.**  After the traversal fold the lists of the session have pairwise different roots and each
list has pairwise different record paths; for every visible FILE `p`
* the list of `owner rootHist p` is in the session and has the record of `p`: path `posix (relIn rootHist p)`, a file
  record with the content length as size and exactly the entries `sealEntries` returns against the generations of
  THAT history;
* no other list has a record that denotes `p`: a record `r` of a list `l` with `l.root ++ splitPath r.path = p` is in
  the owner's list and is that record (same path; paths are duplicate-free). -/
theorem session_partition :
    let s := foldSession env t rootHist fmts noDir pats hit
    (s.lists.map (·.root)).Nodup ∧ (∀ l ∈ s.lists, (l.records.map (·.path)).Nodup) ∧
    ∀ p, (p, false) ∈ visiblePaths hit t →
      (∃ l ∈ s.lists, l.root = owner rootHist p ∧ ∃ r ∈ l.records,
          r.path = posix (relIn rootHist p) ∧ r.isDir = false ∧ r.prev = none ∧
          r.size = some (fileContent t p).length ∧
          r.entries = (sealEntries (route rootHist p).1.gens (posix (relIn rootHist p))
            (fun f => env.H f (fileContent t p)) fmts).1) ∧
      (∀ l ∈ s.lists, ∀ r ∈ l.records, l.root ++ splitPath r.path = p →
          l.root = owner rootHist p ∧ r.path = posix (relIn rootHist p) ∧ r.isDir = false) := by
  intro s
  obtain ⟨hg, hok, hs⟩ := fold_facts env t rootHist hl hd hn fmts hf noDir pats hit
  refine ⟨hs.core.nodup, ?_, ?_⟩
  · intro l hlm
    rw [← Session.get_of_mem _ hs.core.nodup hlm]
    exact hs.core.paths _
  · intro p hp
    have hpL : (p, false) ∈ recItems (traverse hit [] t) := (mem_recItems hit t _).2 (Or.inl hp)
    obtain ⟨hroots, r, hr, hrest⟩ := hs.files p hpL
    refine ⟨⟨_, Session.get_mem _ hroots, Session.get_root _ _, r, hr, hrest⟩, ?_⟩
    intro l hlm r' hr' hden
    exact denote_owner env t rootHist hl hd hn fmts hf noDir pats hit hlm hr' hpL hden (by simp)

/-! ### 2. folders -/

/-- **dir_partition** (it holds with and without directory hashes: without them the records have no entries).
For every visible DIRECTORY `d`:
* if `d` is NOT the root folder of a nested history: exactly the owner's list has a directory record for it;
* if `d` IS the root folder of a nested history `c`: the list of `c` is in the session and has its root record
  (`"."`, a directory record) set; `c` has a parent `pr = parentRoot rootHist d`; the PARENT's list is in the session
  and has a directory record with path `posix (d.drop pr.length)` whose entries EQUAL the entries of `c`'s root
  record; and a record that denotes `d` is in no other list than the parent's. -/
theorem dir_partition :
    let s := foldSession env t rootHist fmts noDir pats hit
    ∀ d, (d, true) ∈ visiblePaths hit t →
      ((∀ c ∈ allDescendants rootHist, c.root ≠ d) →
        (∃ l ∈ s.lists, l.root = owner rootHist d ∧ ∃ r ∈ l.records,
            r.path = posix (relIn rootHist d) ∧ r.isDir = true ∧ r.prev = none ∧ r.size = none ∧
            ∀ e ∈ r.entries, e.action = "") ∧
        (∀ l ∈ s.lists, ∀ r ∈ l.records, l.root ++ splitPath r.path = d →
            l.root = owner rootHist d ∧ r.path = posix (relIn rootHist d) ∧ r.isDir = true)) ∧
      (∀ c ∈ allDescendants rootHist, c.root = d →
        owner rootHist d = d ∧
        ∃ pr, parentRoot rootHist d = some pr ∧ pr <+: d ∧ pr.length < d.length ∧
        ∃ l ∈ s.lists, l.root = d ∧ ∃ rr, l.rootRec = some rr ∧ rr.isDir = true ∧ rr.path = "." ∧
          (∀ e ∈ rr.entries, e.action = "") ∧
        ∃ lp ∈ s.lists, lp.root = pr ∧ ∃ r ∈ lp.records,
          r.path = posix (d.drop pr.length) ∧ r.isDir = true ∧ r.prev = none ∧ r.size = none ∧
          r.entries = rr.entries ∧
        ∀ l' ∈ s.lists, ∀ r' ∈ l'.records, l'.root ++ splitPath r'.path = d →
          l'.root = pr ∧ r'.path = posix (d.drop pr.length) ∧ r'.isDir = true) := by
  intro s d hv
  obtain ⟨hg, hok, hs⟩ := fold_facts env t rootHist hl hd hn fmts hf noDir pats hit
  have hdL : (d, true) ∈ recItems (traverse hit [] t) := (mem_recItems hit t _).2 (Or.inl hv)
  have hdne : d ≠ [] := (visible_names_ok hit t hn _ hv).1
  obtain ⟨hroots, hrec, hroot⟩ := hs.dirs d hdL
  constructor
  · intro hnot
    have hrel : relIn rootHist d ≠ [] := by
      intro h0
      rcases (relOf_nil hg h0).2 with h | ⟨c, hc, hcr⟩
      · exact hdne h
      · exact hnot c hc hcr
    obtain ⟨r, hr, hrest⟩ := hrec hrel
    refine ⟨⟨_, Session.get_mem _ hroots, Session.get_root _ _, r, hr, hrest⟩, ?_⟩
    intro l hlm r' hr' hden
    exact denote_owner env t rootHist hl hd hn fmts hf noDir pats hit hlm hr' hdL hden (fun h => hrel h.2)
  · intro c hc hcr
    subst hcr
    obtain ⟨hown, hrel⟩ := owner_nested hg hc
    obtain ⟨pr, hpr⟩ := parentRoot_of_nested hg hc
    obtain ⟨hpre, hlen, -⟩ := parentRoot_prefix hg hpr
    obtain ⟨rr, hrr, h1, h2, h3, h4⟩ := hroot hrel
    obtain ⟨hprs, r, hr, hr1, hr2, hr3, hr4, hr5⟩ := h4 pr hpr
    have hroots' : c.root ∈ (foldSession env t rootHist fmts noDir pats hit).roots := by
      have := hroots; rwa [show ownerOf rootHist c.root = c.root from hown] at this
    refine ⟨hown, pr, hpr, hpre, hlen, _, Session.get_mem _ hroots', Session.get_root _ _, rr, hrr, h1, h2, h3,
      _, Session.get_mem _ hprs, Session.get_root _ _, r, hr, hr1, hr2, hr3, hr4, hr5, ?_⟩
    intro l' hlm' r' hr' hden
    obtain ⟨ha, hb, hc'⟩ := denote_parent env t rootHist hl hd hn fmts hf noDir pats hit hlm' hr' hdL hden hrel
    rw [hpr] at ha
    cases ha
    exact ⟨rfl, hb, hc'⟩

/-- the root folder of the command is recorded as the root record of the root history's list -/
theorem root_record (hdir : t.isDir = true) :
    let s := foldSession env t rootHist fmts noDir pats hit
    ∃ l ∈ s.lists, l.root = [] ∧ ∃ rr, l.rootRec = some rr ∧ rr.isDir = true ∧ rr.path = "." ∧
      ∀ e ∈ rr.entries, e.action = "" := by
  intro s
  obtain ⟨hg, hok, hs⟩ := fold_facts env t rootHist hl hd hn fmts hf noDir pats hit
  have hdL : (([] : RelPath), true) ∈ recItems (traverse hit [] t) := (mem_recItems hit t _).2 (Or.inr ⟨rfl, hdir⟩)
  obtain ⟨hroots, -, hroot⟩ := hs.dirs [] hdL
  obtain ⟨rr, hrr, h1, h2, h3, -⟩ := hroot (owner_nil hg).2
  have hroots' : ([] : RelPath) ∈ (foldSession env t rootHist fmts noDir pats hit).roots := by
    have := hroots; rwa [show ownerOf rootHist [] = [] from (owner_nil hg).1] at this
  exact ⟨_, Session.get_mem _ hroots', Session.get_root _ _, rr, hrr, h1, h2, h3⟩

end session

/-! ### 3. through the commit -/

/-- what `create` (folder mode, no `-dr`) writes is what the commit returned -/
theorem create_written (env : Env) (t : Node) (o : CreateOpts) (rootHist : Hist) (hsf : o.singleFiles = [])
    (hl : loadHistory t = .ok rootHist) (hdr : o.detectRenaming = false) (ws : List Written)
    (hcm : commit rootHist (cSession env t rootHist o) env.rootName env.stamp "in-place" = .ok ws) :
    (create env t o).written = ws := by
  have hcr : create env t o = createFolder env t o := by
    unfold create
    simp [hsf]
  rw [hcr, createFolder_eq env t o rootHist hl hdr ws hcm]

section written
variable (env : Env) (t : Node) (o : CreateOpts) (rootHist : Hist) (hl : loadHistory t = .ok rootHist)
  (hd : t.NamesDistinct) (hn : t.NamesOk) (hf : o.formats ≠ []) (ws : List Written)
  (hcm : commit rootHist (cSession env t rootHist o) env.rootName env.stamp "in-place" = .ok ws)
include hl hd hn hf hcm

omit hl hd hn hf in
/-- every written generation is the one of a history of the walk, holding the finalised records of that history's
list in the session -/
theorem written_of {w : Written} (hw : w ∈ ws) :
    ∃ h ∈ walkPost rootHist, w.histRoot = h.root ∧
      w.gen.records = ((cSession env t rootHist o).get h.root).records.map finalRec ∧
      w.gen.rootHash = (((cSession env t rootHist o).get h.root).rootRec.bind fun r =>
        if r.entries.isEmpty then none else some r.entries) := by
  obtain ⟨h, hh, refs, hwr⟩ := (commit_written _ _ _ _ _ _ hcm).2 w hw
  exact ⟨h, hh, writeOne_records _ _ _ _ _ _ _ _ _ hwr⟩

omit hn hf in
/-- a history with a list in the session is written -/
theorem written_of_root {R : RelPath} (hR : R ∈ (cSession env t rootHist o).roots)
    (hh : ∃ h ∈ walkPost rootHist, h.root = R) :
    ∃ w ∈ ws, w.histRoot = R ∧ w.gen.records = ((cSession env t rootHist o).get R).records.map finalRec ∧
      w.gen.rootHash = (((cSession env t rootHist o).get R).rootRec.bind fun r =>
        if r.entries.isEmpty then none else some r.entries) := by
  have hg := loadHistory_histOK t rootHist hl hd
  obtain ⟨h, hh, rfl⟩ := hh
  obtain ⟨w, hw, hwr⟩ := (commit_written_iff hg _ _ _ _ _ hcm h hh).2 (Or.inl hR)
  obtain ⟨h', hh', h1, h2, h3⟩ := written_of env t o rootHist ws hcm hw
  rw [← h1, hwr] at h2 h3
  exact ⟨w, hw, hwr, h2, h3⟩

/-- **written_partition.**  The generations `create` writes have pairwise different history roots and each has pairwise
different record paths; every visible FILE `p` is recorded in exactly one of them:
* the generation `w` with `w.histRoot = owner rootHist p` exists (the owner has a list in the session, so it is
  written) and has the record of `p` under `posix (relIn rootHist p)`: a file record, content length as size, the
  entries a reordering (sorted by format) of the relabelled `sealEntries` against the OWNER's generations;
* a record of any written generation `w'` that denotes `p` (`w'.histRoot ++ splitPath r.path = p`) is that record of
  that generation. -/
theorem written_partition :
    (ws.map (·.histRoot)).Nodup ∧ (∀ w ∈ ws, (w.gen.records.map (·.path)).Nodup) ∧
    ∀ p, (p, false) ∈ visiblePaths (cHit env rootHist o) t →
      (∃ w ∈ ws, w.histRoot = owner rootHist p ∧ ∃ r ∈ w.gen.records,
          r.path = posix (relIn rootHist p) ∧ r.isDir = false ∧ r.prev = none ∧
          r.size = some (fileContent t p).length ∧
          r.entries.Perm ((sealEntries (route rootHist p).1.gens (posix (relIn rootHist p))
            (fun f => env.H f (fileContent t p)) (isort strLe o.formats)).1.map relabel)) ∧
      (∀ w ∈ ws, ∀ r ∈ w.gen.records, w.histRoot ++ splitPath r.path = p →
          w.histRoot = owner rootHist p ∧ r.path = posix (relIn rootHist p) ∧ r.isDir = false) := by
  have hfm := isort_ne_nil hf
  have hg := loadHistory_histOK t rootHist hl hd
  obtain ⟨hnd, hpaths, hfiles⟩ := session_partition env t rootHist hl hd hn (isort strLe o.formats) hfm
    o.noDirHashes (setPatterns (latestIgnore rootHist.gens) o.ignoreCli o.ignoreFile) (cHit env rootHist o)
  obtain ⟨-, -, hs⟩ := fold_facts env t rootHist hl hd hn (isort strLe o.formats) hfm
    o.noDirHashes (setPatterns (latestIgnore rootHist.gens) o.ignoreCli o.ignoreFile) (cHit env rootHist o)
  rw [← cSession_eq] at hnd hpaths hfiles hs
  refine ⟨commit_roots_nodup hg _ _ _ _ _ hcm, ?_, ?_⟩
  · intro w hw
    obtain ⟨h, -, -, hrecs, -⟩ := written_of env t o rootHist ws hcm hw
    rw [hrecs, List.map_map]
    have : (fun r => (finalRec r).path) = fun r : Record => r.path := by
      funext r; exact finalRec_path r
    rw [show ((·.path) ∘ finalRec) = fun r : Record => r.path from this]
    exact hs.core.paths _
  · intro p hp
    obtain ⟨⟨l, hlm, hlr, r, hr, h1, h2, h3, h4, h5⟩, hsound⟩ := hfiles p hp
    constructor
    · have hR : owner rootHist p ∈ (cSession env t rootHist o).roots := by
        rw [← hlr]; exact List.mem_map_of_mem hlm
      obtain ⟨w, hw, hwr, hrecs, -⟩ := written_of_root env t o rootHist hl hd ws hcm hR
        ⟨_, (mem_walkPost _ _).2 (route_mem hg p), rfl⟩
      have hget : (cSession env t rootHist o).get (owner rootHist p) = l := by
        rw [← hlr]; exact Session.get_of_mem _ hnd hlm
      refine ⟨w, hw, hwr, finalRec r, ?_, by rw [finalRec_path, h1], by rw [finalRec_isDir, h2],
        by rw [finalRec_prev, h3], by rw [finalRec_size, h4], ?_⟩
      · rw [hrecs, hget]; exact List.mem_map_of_mem hr
      · rw [← h5]; exact finalRec_entries r
    · intro w hw r' hr' hden
      obtain ⟨h, -, hroot, hrecs, -⟩ := written_of env t o rootHist ws hcm hw
      rw [hrecs] at hr'
      obtain ⟨r0, hr0, rfl⟩ := List.mem_map.1 hr'
      rw [finalRec_path] at hden ⊢
      rw [finalRec_isDir]
      by_cases hin : h.root ∈ (cSession env t rootHist o).roots
      · have := hsound _ (Session.get_mem _ hin) r0 hr0 (by rw [Session.get_root, ← hroot]; exact hden)
        rwa [Session.get_root, ← hroot] at this
      · rw [Session.get_not_mem _ hin] at hr0
        cases hr0

/-- nothing else is written: every record of every written generation denotes a VISIBLE path, has that entry's
kind, and is in the generation of the entry's owner — or, for the root folder of a nested history, in the generation of
the parent history.  (With `MhlProps.C02.ignored_nowhere`: no record for an ignored path or anything below one.) -/
theorem written_sound :
    ∀ w ∈ ws, ∀ r ∈ w.gen.records,
      ∃ x ∈ visiblePaths (cHit env rootHist o) t, w.histRoot ++ splitPath r.path = x.1 ∧ r.isDir = x.2 ∧
        (w.histRoot = owner rootHist x.1 ∨
          (x.2 = true ∧ relIn rootHist x.1 = [] ∧ parentRoot rootHist x.1 = some w.histRoot)) := by
  have hfm := isort_ne_nil hf
  have hsound := session_sound env t rootHist hl hd hn (isort strLe o.formats) hfm
    o.noDirHashes (setPatterns (latestIgnore rootHist.gens) o.ignoreCli o.ignoreFile) (cHit env rootHist o)
  rw [← cSession_eq] at hsound
  intro w hw r' hr'
  obtain ⟨h, -, hroot, hrecs, -⟩ := written_of env t o rootHist ws hcm hw
  rw [hrecs] at hr'
  obtain ⟨r0, hr0, rfl⟩ := List.mem_map.1 hr'
  rw [finalRec_path, finalRec_isDir]
  by_cases hin : h.root ∈ (cSession env t rootHist o).roots
  · have := hsound _ (Session.get_mem _ hin) r0 hr0
    rwa [Session.get_root, ← hroot] at this
  · rw [Session.get_not_mem _ hin] at hr0
    cases hr0

/-- **written_dirs** (2 lifted through the commit).  For a visible directory `d`:
* not the root folder of a nested history: the generation of its owner has the directory record, and a record of any
  written generation that denotes `d` is that one;
* the root folder of a nested history: the generation `wc` of that history and the generation `wp` of its PARENT are
  both written; `wp` has a directory record `posix (d.drop pr.length)` whose entries are exactly what `wc` carries as
  root hash (`wc.gen.rootHash = some r.entries`, or `none` when there are no entries, i.e. with `--no_directory_hashes`). -/
theorem written_dirs :
    ∀ d, (d, true) ∈ visiblePaths (cHit env rootHist o) t →
      ((∀ c ∈ allDescendants rootHist, c.root ≠ d) →
        (∃ w ∈ ws, w.histRoot = owner rootHist d ∧ ∃ r ∈ w.gen.records,
            r.path = posix (relIn rootHist d) ∧ r.isDir = true) ∧
        (∀ w ∈ ws, ∀ r ∈ w.gen.records, w.histRoot ++ splitPath r.path = d →
            w.histRoot = owner rootHist d ∧ r.path = posix (relIn rootHist d) ∧ r.isDir = true)) ∧
      (∀ c ∈ allDescendants rootHist, c.root = d →
        ∃ pr, parentRoot rootHist d = some pr ∧
        ∃ wc ∈ ws, wc.histRoot = d ∧ ∃ wp ∈ ws, wp.histRoot = pr ∧ ∃ r ∈ wp.gen.records,
          r.path = posix (d.drop pr.length) ∧ r.isDir = true ∧
          wc.gen.rootHash = (if r.entries.isEmpty then none else some r.entries)) := by
  have hfm := isort_ne_nil hf
  have hg := loadHistory_histOK t rootHist hl hd
  have hdirs := dir_partition env t rootHist hl hd hn (isort strLe o.formats) hfm
    o.noDirHashes (setPatterns (latestIgnore rootHist.gens) o.ignoreCli o.ignoreFile) (cHit env rootHist o)
  obtain ⟨-, -, hs⟩ := fold_facts env t rootHist hl hd hn (isort strLe o.formats) hfm
    o.noDirHashes (setPatterns (latestIgnore rootHist.gens) o.ignoreCli o.ignoreFile) (cHit env rootHist o)
  rw [← cSession_eq] at hdirs hs
  have hnd := hs.core.nodup
  intro d hv
  obtain ⟨hA, hB⟩ := hdirs d hv
  constructor
  · intro hnot
    obtain ⟨⟨l, hlm, hlr, r, hr, h1, h2, -⟩, hsound⟩ := hA hnot
    constructor
    · have hR : owner rootHist d ∈ (cSession env t rootHist o).roots := by
        rw [← hlr]; exact List.mem_map_of_mem hlm
      obtain ⟨w, hw, hwr, hrecs, -⟩ := written_of_root env t o rootHist hl hd ws hcm hR
        ⟨_, (mem_walkPost _ _).2 (route_mem hg d), rfl⟩
      have hget : (cSession env t rootHist o).get (owner rootHist d) = l := by
        rw [← hlr]; exact Session.get_of_mem _ hnd hlm
      exact ⟨w, hw, hwr, finalRec r, by rw [hrecs, hget]; exact List.mem_map_of_mem hr,
        by rw [finalRec_path, h1], by rw [finalRec_isDir, h2]⟩
    · intro w hw r' hr' hden
      obtain ⟨h, -, hroot, hrecs, -⟩ := written_of env t o rootHist ws hcm hw
      rw [hrecs] at hr'
      obtain ⟨r0, hr0, rfl⟩ := List.mem_map.1 hr'
      rw [finalRec_path] at hden ⊢
      rw [finalRec_isDir]
      by_cases hin : h.root ∈ (cSession env t rootHist o).roots
      · have := hsound _ (Session.get_mem _ hin) r0 hr0 (by rw [Session.get_root, ← hroot]; exact hden)
        rwa [Session.get_root, ← hroot] at this
      · rw [Session.get_not_mem _ hin] at hr0
        cases hr0
  · intro c hc hcr
    obtain ⟨-, pr, hpr, -, -, l, hlm, hlr, rr, hrr, -, -, hact, lp, hlpm, hlpr, r, hr, h1, h2, -, -, h5, -⟩ :=
      hB c hc hcr
    obtain ⟨x, hx, hxr, -⟩ := parentRoot_some hpr
    have hRd : d ∈ (cSession env t rootHist o).roots := by rw [← hlr]; exact List.mem_map_of_mem hlm
    have hRp : pr ∈ (cSession env t rootHist o).roots := by rw [← hlpr]; exact List.mem_map_of_mem hlpm
    obtain ⟨wc, hwc, hwcr, -, hrh⟩ := written_of_root env t o rootHist hl hd ws hcm hRd
      ⟨c, (mem_walkPost _ _).2 (List.mem_cons_of_mem _ hc), hcr⟩
    obtain ⟨wp, hwp, hwpr, hrecs, -⟩ := written_of_root env t o rootHist hl hd ws hcm hRp
      ⟨x, (mem_walkPost _ _).2 hx, hxr⟩
    have hgetd : (cSession env t rootHist o).get d = l := by
      rw [← hlr]; exact Session.get_of_mem _ hnd hlm
    have hgetp : (cSession env t rootHist o).get pr = lp := by
      rw [← hlpr]; exact Session.get_of_mem _ hnd hlpm
    have hent : (finalRec r).entries = rr.entries := by
      unfold finalRec
      rw [h2]
      simp only [if_true, h5]
      conv => rhs; rw [← List.map_id rr.entries]
      apply List.map_congr_left
      intro e he
      unfold relabel
      rw [hact e he]
      rfl
    refine ⟨pr, hpr, wc, hwc, hwcr, wp, hwp, hwpr, finalRec r, by rw [hrecs, hgetp]; exact List.mem_map_of_mem hr,
      by rw [finalRec_path, h1], by rw [finalRec_isDir, h2], ?_⟩
    rw [hrh, hgetd, hrr, hent]
    rfl

/-! ### 4. which histories are written -/

omit hn hf in
/-- **written_iff.**  A history of the walk is written iff it has a list in the final session or one of its DIRECT
child histories was written. -/
theorem written_iff (h : Hist) (hh : h ∈ walkPost rootHist) :
    (∃ w ∈ ws, w.histRoot = h.root) ↔
      ((∃ l ∈ (cSession env t rootHist o).lists, l.root = h.root) ∨
        ∃ c ∈ h.children, ∃ w' ∈ ws, w'.histRoot = c.root) := by
  have hg := loadHistory_histOK t rootHist hl hd
  rw [commit_written_iff hg _ _ _ _ _ hcm h hh]
  have : h.root ∈ (cSession env t rootHist o).roots ↔ ∃ l ∈ (cSession env t rootHist o).lists, l.root = h.root := by
    simp [Session.roots]
  rw [this]

/-- **all_written_iff.**  EVERY history (the root history and every nested one) gets a new generation iff the root
is a folder and the root folder of every nested history is visible (neither it nor a folder above it is ignored). -/
theorem all_written_iff :
    (∀ h ∈ walkPost rootHist, ∃ w ∈ ws, w.histRoot = h.root) ↔
      (t.isDir = true ∧ ∀ h ∈ allDescendants rootHist, (h.root, true) ∈ visiblePaths (cHit env rootHist o) t) := by
  have hfm := isort_ne_nil hf
  have hg := loadHistory_histOK t rootHist hl hd
  obtain ⟨-, hok, hs⟩ := fold_facts env t rootHist hl hd hn (isort strLe o.formats) hfm
    o.noDirHashes (setPatterns (latestIgnore rootHist.gens) o.ignoreCli o.ignoreFile) (cHit env rootHist o)
  rw [← cSession_eq] at hs
  constructor
  · intro hall
    -- whatever is written lies at or above a visited item
    have key : ∀ h ∈ walkPost rootHist, ∃ x ∈ recItems (traverse (cHit env rootHist o) [] t), h.root <+: x.1 := by
      intro h hh
      obtain ⟨w, hw, hwr⟩ := hall h hh
      obtain ⟨R, hR, hpre⟩ := commit_session_below hg _ _ _ _ _ hcm w hw
      obtain ⟨x, hx, hRx⟩ := hs.core.rootsJ R hR
      exact ⟨x, hx, (hwr ▸ hpre).trans hRx⟩
    constructor
    · obtain ⟨x, hx, -⟩ := key rootHist ((mem_walkPost _ _).2 rootHist.self_mem_all)
      cases t with
      | file n c => simp [traverse, recItems] at hx
      | dir n cs st => rfl
    · intro h hh
      obtain ⟨x, hx, hpre⟩ := key h ((mem_walkPost _ _).2 (List.mem_cons_of_mem _ hh))
      obtain ⟨hne, nd, hat, hnd⟩ := hg.isDir h hh
      rcases (mem_recItems _ t x).1 hx with hv | ⟨rfl, -⟩
      · have := visible_prefix _ t hd (p := x.1) (d := x.2) hv hpre hne hat
        rwa [hnd] at this
      · exact absurd (List.prefix_nil.1 hpre) hne
  · rintro ⟨hdir, hvis⟩ h hh
    apply (commit_written_iff hg _ _ _ _ _ hcm h hh).2
    left
    rcases List.mem_cons.1 ((mem_walkPost _ _).1 hh) with heq | hdesc
    · have hdL : (([] : RelPath), true) ∈ recItems (traverse (cHit env rootHist o) [] t) :=
        (mem_recItems _ t _).2 (Or.inr ⟨rfl, hdir⟩)
      have := (hs.dirs [] hdL).1
      rw [show ownerOf rootHist [] = [] from (owner_nil hg).1, ← hg.root] at this
      rw [heq]; exact this
    · have hdL : (h.root, true) ∈ recItems (traverse (cHit env rootHist o) [] t) :=
        (mem_recItems _ t _).2 (Or.inl (hvis h hdesc))
      have := (hs.dirs h.root hdL).1
      rwa [show ownerOf rootHist h.root = h.root from (owner_nested hg hdesc).1] at this

/-! ### 5. references -/

omit hn hf in
/-- **refs_exact.**  The `<hashlistreference>`s of a written generation `w` are exactly
`posix (w'.histRoot.drop w.histRoot.length ++ [Gen.folderName, w'.gen.fileName])` for the written generations `w'` of
the DIRECT child histories of `w`'s history, in the order they were written; that order is the order of the post-order
walk (`ws.map histRoot` is a sublist of the roots of `walkPost rootHist`), and among the children of one history it
is the top-down walk order with sub-folders BY NAME (`WalkLt`: the two roots part at some folder, the earlier one
into the sub-folder with the smaller name); "direct child" can be read off `parentRoot` or off the tree of
histories. -/
theorem refs_exact :
    (ws.map (·.histRoot)).Sublist ((walkPost rootHist).map (·.root)) ∧
    ∀ w ∈ ws,
      w.gen.refs = (ws.filter fun w' => parentRoot rootHist w'.histRoot == some w.histRoot).map (fun w' =>
        posix (w'.histRoot.drop w.histRoot.length ++ [Gen.folderName, w'.gen.fileName])) ∧
      ((ws.filter fun w' => parentRoot rootHist w'.histRoot == some w.histRoot).map (·.histRoot)).Pairwise WalkLt ∧
      ∀ w' ∈ ws, (parentRoot rootHist w'.histRoot = some w.histRoot ↔
        ∃ h ∈ walkPost rootHist, h.root = w.histRoot ∧ ∃ c ∈ h.children, c.root = w'.histRoot) := by
  have hg := loadHistory_histOK t rootHist hl hd
  refine ⟨(commit_written _ _ _ _ _ _ hcm).1, ?_⟩
  intro w hw
  refine ⟨commit_refs_exact hg _ _ _ _ _ hcm w hw, commit_refs_sorted hg _ _ _ _ _ hcm w.histRoot, ?_⟩
  intro w' _
  obtain ⟨h, hh, hroot, -⟩ := written_of env t o rootHist ws hcm hw
  have hall : h ∈ rootHist.all := (mem_walkPost _ _).1 hh
  rw [hroot, parentRoot_iff hg.nodup hall]
  constructor
  · rintro ⟨c, hc, hcr⟩
    exact ⟨h, hh, rfl, c, hc, hcr⟩
  · rintro ⟨h', hh', hr', c, hc, hcr⟩
    have : h' = h := mem_all_root_inj hg.nodup ((mem_walkPost _ _).1 hh') hall hr'
    subst this
    exact ⟨c, hc, hcr⟩

end written

/-! ### non-vacuity: a nested history at `A/`, a grandchild at `A/B/`, a file at each level -/

section Examples

/-- toy parameters: the "digest" is the format name and the content length; `.DS_Store` is ignored -/
def nestEnv : Env :=
  { H := fun f c => f ++ ":" ++ toString c.length, D := fun _ _ => some [],
    hit := fun _ p => p.getLast? == some ".DS_Store", rootName := "root" }

def nestOpts : CreateOpts := { formats := ["md5"] }

/-- before the first run: `A/` and `A/B/` already hold an (empty) `ascmhl` folder, the root does not -/
def nestTree0 : Node :=
  .dir "root"
    [ .file "r.txt" [1],
      .dir "A"
        [ .file "a.txt" [1, 2],
          .dir "B" [ .file "b.txt" [1, 2, 3], .dir "sub" [.file "d.txt" []] none ] (some {}),
          .file ".DS_Store" [] ] (some {}),
      .dir "C" [ .file "c.txt" [] ] none ] none

/-- after the first run: every history has one generation -/
def nestTree : Node := applyWritten nestTree0 (create nestEnv nestTree0 nestOpts).written

/-- its loaded history -/
def nestHist : Hist :=
  match loadHistory nestTree with
  | .ok h => h
  | .error _ => .mk [] [] [] false []

theorem nestHist_loaded : loadHistory nestTree = .ok nestHist := by
  have h : (match loadHistory nestTree with | .ok _ => true | .error _ => false) = true := by decide +kernel
  unfold nestHist
  cases hl : loadHistory nestTree with
  | ok x => rfl
  | error e => rw [hl] at h; cases h

/-- three histories, nested two deep, each with the generation of the first run; walked children first -/
example : (walkPost nestHist).map (fun h => (h.root, h.gens.map (·.number), h.children.map (·.root))) =
    [(["A", "B"], [1], []), (["A"], [1], [["A", "B"]]), ([], [1], [["A"]])] := by decide +kernel

theorem nestTree_distinct : nestTree.NamesDistinct := namesDistinctB_sound _ (by decide +kernel)

theorem nestTree_namesOk : nestTree.NamesOk := by decide +kernel

/-- the commit of the second run goes through -/
theorem nest_commit : ∃ ws, commit nestHist (cSession nestEnv nestTree nestHist nestOpts) nestEnv.rootName nestEnv.stamp
    "in-place" = .ok ws ∧ ws.length = 3 := by
  have h : (match commit nestHist (cSession nestEnv nestTree nestHist nestOpts) nestEnv.rootName nestEnv.stamp "in-place" with
      | .ok ws => ws.length | .error _ => 0) = 3 := by decide +kernel
  cases hc : commit nestHist (cSession nestEnv nestTree nestHist nestOpts) nestEnv.rootName nestEnv.stamp "in-place" with
  | ok ws => rw [hc] at h; exact ⟨ws, rfl, h⟩
  | error e => rw [hc] at h; cases h

/-- all hypotheses of the theorems hold for the second run -/
example : nestOpts.singleFiles = [] ∧ nestOpts.detectRenaming = false ∧ nestOpts.formats ≠ [] ∧
    loadHistory nestTree = .ok nestHist ∧ nestTree.NamesDistinct ∧ nestTree.NamesOk ∧
    ∃ ws, commit nestHist (cSession nestEnv nestTree nestHist nestOpts) nestEnv.rootName nestEnv.stamp "in-place" = .ok ws :=
  ⟨rfl, rfl, by decide, nestHist_loaded, nestTree_distinct, nestTree_namesOk, by
    obtain ⟨ws, h, -⟩ := nest_commit; exact ⟨ws, h⟩⟩

/-- where the files of the four levels are routed to -/
example : (owner nestHist ["r.txt"], relIn nestHist ["r.txt"]) = ([], ["r.txt"]) ∧
    (owner nestHist ["A", "a.txt"], relIn nestHist ["A", "a.txt"]) = (["A"], ["a.txt"]) ∧
    (owner nestHist ["A", "B", "b.txt"], relIn nestHist ["A", "B", "b.txt"]) = (["A", "B"], ["b.txt"]) ∧
    (owner nestHist ["A", "B", "sub", "d.txt"], relIn nestHist ["A", "B", "sub", "d.txt"]) =
      (["A", "B"], ["sub", "d.txt"]) ∧
    (owner nestHist ["A", "B"], relIn nestHist ["A", "B"]) = (["A", "B"], []) ∧
    parentRoot nestHist ["A", "B"] = some ["A"] ∧ parentRoot nestHist ["A"] = some [] := by decide +kernel

example : (visiblePaths (cHit nestEnv nestHist nestOpts) nestTree).map (fun x => (posix x.1, x.2)) =
    [("A/B/sub/d.txt", false), ("A/B/b.txt", false), ("A/B/sub", true), ("A/B", true), ("A/a.txt", false),
     ("C/c.txt", false), ("A", true), ("C", true), ("r.txt", false)] := by decide +kernel

/-- what the second run writes, evaluated through the whole pipeline: one generation (number 2) per history,
children first; each file in the generation of its owner only, under its path relative to the owner; the root folder
of a nested history as a directory record of the PARENT; the references -/
example : ((create nestEnv nestTree nestOpts).written.map fun w =>
      (w.histRoot, w.number, w.gen.records.map (fun r => (r.path, r.isDir)), w.gen.refs)) =
    [ (["A", "B"], 2, [("sub/d.txt", false), ("sub", true), ("b.txt", false)], []),
      (["A"], 2, [("B", true), ("a.txt", false)], ["B/ascmhl/0002_B_1970-01-01_000000Z.mhl"]),
      ([], 2, [("A", true), ("C/c.txt", false), ("C", true), ("r.txt", false)],
        ["A/ascmhl/0002_A_1970-01-01_000000Z.mhl"]) ] := by decide +kernel

/-- "the parent's entry for the nested folder carries the child's root hash", evaluated -/
example : ((create nestEnv nestTree nestOpts).written.map fun w =>
      (w.histRoot, (w.gen.rootHash.getD []).map (·.digest),
        (w.gen.records.filter (·.isDir)).map fun r => (r.path, r.entries.map (·.digest)))) =
    [ (["A", "B"], ["md5:0"], [("sub", ["md5:0"])]),
      (["A"], ["md5:0"], [("B", ["md5:0"])]),
      ([], ["md5:0"], [("A", ["md5:0"]), ("C", ["md5:0"])]) ] := by decide +kernel

/-- the order of sibling histories: by name at the folder where their roots part -/
example : WalkLt ["A", "B"] ["A", "C", "x"] ∧ WalkLt ["A", "z"] ["B"] ∧ ¬ WalkLt ["A"] ["A", "B"] :=
  ⟨⟨["A"], "B", "C", [], ["x"], rfl, rfl, by decide, by decide⟩, ⟨[], "A", "B", ["z"], [], rfl, rfl, by decide, by decide⟩,
    fun h => h.not_prefix.1 ⟨["B"], rfl⟩⟩

/-- `written_partition`, `all_written_iff` and `refs_exact` applied to the second run -/
example : ∃ ws, (create nestEnv nestTree nestOpts).written = ws ∧ (ws.map (·.histRoot)).Nodup ∧
    (∃ w ∈ ws, w.histRoot = ["A", "B"] ∧ ∃ r ∈ w.gen.records, r.path = "sub/d.txt" ∧ r.isDir = false) ∧
    (∀ w ∈ ws, ∀ r ∈ w.gen.records, w.histRoot ++ splitPath r.path = ["A", "B", "sub", "d.txt"] →
      w.histRoot = ["A", "B"]) ∧
    (∀ h ∈ walkPost nestHist, ∃ w ∈ ws, w.histRoot = h.root) ∧
    (∀ w ∈ ws, w.gen.refs = (ws.filter fun w' => parentRoot nestHist w'.histRoot == some w.histRoot).map (fun w' =>
        posix (w'.histRoot.drop w.histRoot.length ++ [Gen.folderName, w'.gen.fileName]))) := by
  obtain ⟨ws, hcm, -⟩ := nest_commit
  have h5 := refs_exact nestEnv nestTree nestOpts nestHist nestHist_loaded nestTree_distinct ws hcm
  have hp := written_partition nestEnv nestTree nestOpts nestHist nestHist_loaded nestTree_distinct nestTree_namesOk (by decide)
    ws hcm
  have hvis : ((["A", "B", "sub", "d.txt"] : RelPath), false) ∈ visiblePaths (cHit nestEnv nestHist nestOpts) nestTree := by
    decide +kernel
  have ho : owner nestHist ["A", "B", "sub", "d.txt"] = ["A", "B"] ∧
      posix (relIn nestHist ["A", "B", "sub", "d.txt"]) = "sub/d.txt" := by decide +kernel
  obtain ⟨⟨w, hw, hwr, r, hr, hrp, hrd, -⟩, hsound⟩ := hp.2.2 _ hvis
  refine ⟨ws, create_written nestEnv nestTree nestOpts nestHist rfl nestHist_loaded rfl ws hcm, hp.1,
    ⟨w, hw, by rw [hwr, ho.1], r, hr, by rw [hrp, ho.2], hrd⟩, ?_, ?_, ?_⟩
  · intro w' hw' r' hr' hden
    rw [(hsound w' hw' r' hr' hden).1, ho.1]
  · apply (all_written_iff nestEnv nestTree nestOpts nestHist nestHist_loaded nestTree_distinct nestTree_namesOk (by decide)
      ws hcm).2
    decide +kernel
  · intro w' hw'
    exact (h5.2 w' hw').1

/-- sibling histories: stored out of order, one of them two levels down; the root's references come out in walk
order (sub-folders by name) -/
def sibTree : Node :=
  .dir "root"
    [ .dir "Z" [.file "z.txt" [1]] (some {}),
      .dir "M" [.dir "K" [.file "k.txt" []] (some {}), .file "m.txt" [2]] none,
      .dir "A" [.file "a.txt" []] (some {}) ] none

example : ((create nestEnv sibTree nestOpts).written.map fun w =>
      (w.histRoot, w.gen.records.map (fun r => (r.path, r.isDir)), w.gen.refs)) =
    [ (["A"], [("a.txt", false)], []),
      (["M", "K"], [("k.txt", false)], []),
      (["Z"], [("z.txt", false)], []),
      ([], [("A", true), ("M/K", true), ("M/m.txt", false), ("M", true), ("Z", true)],
        ["A/ascmhl/0001_A_1970-01-01_000000Z.mhl", "M/K/ascmhl/0001_K_1970-01-01_000000Z.mhl",
         "Z/ascmhl/0001_Z_1970-01-01_000000Z.mhl"]) ] := by decide +kernel

/-- `o.formats ≠ []` is needed for the existence half of 1 and 3: on the FIRST run (no generation anywhere yet) with
no format requested no file gets a record, the folders still do.  (On the second run the files would be verified in
the format already recorded, so the hypothesis is only needed where the owner has no digest of the file yet.) -/
example : ((create nestEnv nestTree0 { formats := [] }).written.map fun w =>
      (w.histRoot, w.gen.records.map (fun r => (r.path, r.isDir)))) =
    [ (["A", "B"], [("sub", true)]), (["A"], [("B", true)]), ([], [("A", true), ("C", true)]) ] := by
  decide +kernel

/-- `all_written_iff`: when the folder of a nested history is ignored, that history (and the ones below it) is not
written, the ones above are -/
example : ((create { nestEnv with hit := fun _ p => p.getLast? == some "B" } nestTree nestOpts).written.map fun w =>
      (w.histRoot, w.gen.records.map (fun r => (r.path, r.isDir)), w.gen.refs)) =
    [ (["A"], [(".DS_Store", false), ("a.txt", false)], []),
      ([], [("A", true), ("C/c.txt", false), ("C", true), ("r.txt", false)],
        ["A/ascmhl/0002_A_1970-01-01_000000Z.mhl"]) ] := by decide +kernel

end Examples

end MhlProps.C08part
