-- Root of the `MhlModel` library: model layers only (no Mathlib); property theorems are in `MhlProps`.
import MhlModel.Basic
import MhlModel.Gen.Consts
import MhlModel.Codec
import MhlModel.Hashing
import MhlModel.Tree
import MhlModel.History
import MhlModel.Seal
import MhlModel.Commands
import MhlModel.DirHash
import MhlModel.Time
import MhlModel.Civil
import MhlModel.Updater
import MhlModel.Crash
import MhlModel.Xml
import MhlModel.XsdCore
import MhlModel.Gen.Xsd
import MhlModel.Paths
