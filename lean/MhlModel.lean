-- This module serves as the root of the `MhlModel` library.
-- Import modules here that should be built as part of the library.
import MhlModel.Basic
