/-
The write protocol of `create` (after the repair: write `<name>.tmp`, flush, close, `os.replace`) and what a process
kill at any point leaves behind.  hashlist_xml_parser.write_hash_list, chain_xml_parser.write_chain,
generator.commit (children before parents).

File system: a list of (path, bytes) with the directories implicit; paths are strings.
Assumptions (trusted base): kill, not power loss (data written before the kill stays, operations are not reordered);
`os.replace` is atomic.
-/
namespace MhlModel.Crash

abbrev Bytes := List UInt8

/-- files (path ↦ bytes, insertion ordered) and the directories that were created -/
structure Fs where
  files : List (String × Bytes) := []
  dirs : List String := []
  deriving Repr, DecidableEq

inductive Op where
  | mkdir (path : String)
  | create (path : String)                 -- open(path, "wb"): the file exists and is empty
  | write (path : String) (data : Bytes)   -- appended
  | replace (src dst : String)             -- atomic rename over dst
  deriving Repr, DecidableEq

def fsGet (fs : Fs) (p : String) : Option Bytes := (fs.files.find? (·.1 == p)).map (·.2)
def fsSet (fs : Fs) (p : String) (b : Bytes) : Fs :=
  if fs.files.any (·.1 == p) then { fs with files := fs.files.map fun e => if e.1 == p then (p, b) else e }
  else { fs with files := fs.files ++ [(p, b)] }
def fsDel (fs : Fs) (p : String) : Fs := { fs with files := fs.files.filter (·.1 != p) }

def applyOp (fs : Fs) : Op → Fs
  | .mkdir p => if fs.dirs.contains p then fs else { fs with dirs := fs.dirs ++ [p] }
  | .create p => fsSet fs p []
  | .write p d => fsSet fs p ((fsGet fs p).getD [] ++ d)
  | .replace s d =>
    match fsGet fs s with
    | some b => fsSet (fsDel fs s) d b
    | none => fs

def applyOps (fs : Fs) (ops : List Op) : Fs := ops.foldl applyOp fs

/-- what one history's commit does on disk: the manifest through its temporary, then the chain through its
temporary.  `chunks` are the successive `file.write` calls. -/
structure HistCommit where
  folder : String                 -- path of the ascmhl folder, with trailing "/"
  folderExists : Bool
  manifestName : String
  manifestChunks : List Bytes
  chainChunks : List Bytes
  deriving Repr

def chainName : String := "ascmhl_chain.xml"

def HistCommit.ops (c : HistCommit) : List Op :=
  (if c.folderExists then [] else [.mkdir c.folder]) ++
  [.create (c.folder ++ c.manifestName ++ ".tmp")] ++
  c.manifestChunks.map (fun d => .write (c.folder ++ c.manifestName ++ ".tmp") d) ++
  [.replace (c.folder ++ c.manifestName ++ ".tmp") (c.folder ++ c.manifestName),
   .create (c.folder ++ chainName ++ ".tmp")] ++
  c.chainChunks.map (fun d => .write (c.folder ++ chainName ++ ".tmp") d) ++
  [.replace (c.folder ++ chainName ++ ".tmp") (c.folder ++ chainName)]

/-- a whole `create`: the histories in commit order (children before parents) -/
def createOps (cs : List HistCommit) : List Op := cs.flatMap (·.ops)

/-- the states a kill can leave: any prefix of the operations, the last one possibly a torn write -/
def crashStates (fs : Fs) (ops : List Op) : List Fs :=
  (List.range (ops.length + 1)).flatMap fun k =>
    let pre := applyOps fs (ops.take k)
    match ops[k]? with
    | some (.write p d) => pre :: (List.range d.length).map fun j => applyOp pre (.write p (d.take j))
    | _ => [pre]

/-- files the loader looks at in an ascmhl folder: the chain and everything ending in `.mhl` -/
def isLoaded (name : String) : Bool := name.endsWith ".mhl" || name == chainName

/-- the state in which every command refuses with exit 32 (`NoMHLChainException`): the ascmhl folder exists and holds
no chain file -/
def refuses32 (fs : Fs) (folder : String) : Bool :=
  fs.dirs.contains folder && (fsGet fs (folder ++ chainName)).isNone

end MhlModel.Crash
