/-
The hashing layer of ascmhl/hasher.py: streaming hashers, the single-format read loop (`Hasher.hash_file`),
the read-once multi-format loop (`AggregateHasher.hash_file`), one-shot hashing (`hash_data`),
`hash_of_hash_list` and the `DirectoryHashContext`.

The digest primitives themselves (hashlib / xxhash) are a PARAMETER: an `Alg` is any streaming hasher that obeys
the streaming law.  That `hashlib.md5` is MD5 is not proved (trusted base).
-/
import MhlModel.Basic
import MhlModel.Codec

namespace MhlModel.Hashing
open MhlModel.Codec

/-- A streaming hash object: `hashlib.md5()`, `.update(data)`, `.digest()`. -/
structure Alg where
  State : Type
  init : State
  update : State → Bytes → State
  final : State → Bytes
  /-- feeding `a` then `b` is feeding `a ++ b` -/
  update_append : ∀ s a b, update (update s a) b = update s (a ++ b)
  /-- feeding nothing changes nothing -/
  update_nil : ∀ s, update s [] = s

/-- the one-shot digest `hashlib.new(alg, data).digest()` -/
def Alg.digest (A : Alg) (data : Bytes) : Bytes := A.final (A.update A.init data)

/-- The family of primitives, indexed by the library name in `Gen.hashTable` ("hashlib.md5", …). -/
abbrev Prims := String → Alg

structure Hasher where
  alg : Alg
  codec : CodecKind

/-- `new_hasher_for_hash_type`: `none` stands for `KeyError` (unknown format) / `ValueError` (empty) -/
def hasherFor (P : Prims) (fmt : String) : Option Hasher :=
  match Gen.hashTable.find? (fun t => t.1 == fmt), codecOfFormat fmt with
  | some (_, lib, _), some k => some ⟨P lib, k⟩
  | _, _ => none

/-- a file as the read loop sees it: the successive results of `fd.read(size)`; the loop stops at the first
empty one (EOF) -/
def readLoop (A : Alg) (reads : List Bytes) : A.State :=
  (reads.takeWhile (fun c => !c.isEmpty)).foldl A.update A.init

/-- what `fd.read(size)` returns on a regular file without short reads -/
def chunksOf (size : Nat) (content : Bytes) : List Bytes :=
  if h : size = 0 ∨ content = [] then [] else content.take size :: chunksOf size (content.drop size)
termination_by content.length
decreasing_by
  have : content ≠ [] := by intro h'; exact h (Or.inr h')
  have : 0 < content.length := List.length_pos_iff.mpr this
  simp only [List.length_drop]; omega

/-- `Hasher.hash_file` given the sequence of reads -/
def hashFileReads (h : Hasher) (reads : List Bytes) : String :=
  encodeDigest h.codec (h.alg.final (readLoop h.alg reads))

/-- `Hasher.hash_file` on a regular file -/
def hashFile (h : Hasher) (content : Bytes) : String := hashFileReads h (chunksOf Gen.chunkSingle content)

/-- `Hasher.hash_data` -/
def hashData (h : Hasher) (data : Bytes) : String := encodeDigest h.codec (h.alg.digest data)

/-- the digest text of `content` in format `fmt` (the specification side: one-shot) -/
def H (P : Prims) (fmt : String) (content : Bytes) : Option String :=
  (hasherFor P fmt).map fun h => hashData h content

/-! ### read-once multi-format loop -/

/-- `AggregateHasher.hash_file`: a dict format ↦ hasher built by assignment (a repeated format keeps its first
position), every chunk fed to every hasher, result dict in the same key order.  `none` = `KeyError` for an unknown
format.  (Stated after `dedup`.) -/
def aggDoc := ()

/-- key order of a dict built by successive assignment = order of first occurrence -/
def dedup [DecidableEq α] : List α → List α
  | [] => []
  | x :: xs => x :: (dedup xs).filter (· ≠ x)

def aggregateHashReads (P : Prims) (fmts : List String) (reads : List Bytes) : Option (List (String × String)) :=
  (dedup fmts).mapM fun f => (hasherFor P f).map fun h => (f, hashFileReads h reads)

def aggregateHashFile (P : Prims) (fmts : List String) (content : Bytes) : Option (List (String × String)) :=
  aggregateHashReads P fmts (chunksOf Gen.chunkAggregate content)

/-! ### hash of a list of hashes, directory hash context -/

/-- `Hasher.hash_of_hash_list` as written: a fresh hasher; nothing fed for the empty list; otherwise the digest
strings sorted, each decoded and fed in order.  `none` when a digest string does not decode
(binascii.Error / ValueError). -/
def hashOfHashList (h : Hasher) (l : List String) : Option String :=
  if l.isEmpty then some (encodeDigest h.codec (h.alg.final h.alg.init))
  else
    let sorted := isort (fun a b => decide (a ≤ b)) l
    (sorted.mapM (decodeDigest h.codec)).map fun bs =>
      encodeDigest h.codec (h.alg.final (bs.foldl h.alg.update h.alg.init))

/-- the specification: the one-shot digest of the concatenation of the decoded, sorted digests -/
def hashOfHashListSpec (h : Hasher) (l : List String) : Option String :=
  ((isort (fun a b => decide (a ≤ b)) l).mapM (decodeDigest h.codec)).map fun bs => hashData h bs.flatten

end MhlModel.Hashing
