/-
Sealing one file (commands.py `seal_file_path`, generator.py `append_file_hash`), the creation session
(`MHLGenerationCreationSession`), directory-hash contexts, validation and commit.
-/
import MhlModel.History
import MhlModel.Hashing

namespace MhlModel

/-- digest text of `content` in format `fmt` — the hashing layer is a parameter of every command -/
abbrev HashFn := String → Bytes → String
/-- `bytes_from_string_digest`; `none` = the string does not decode -/
abbrev DecodeFn := String → String → Option Bytes

def splitPath (s : String) : RelPath := if s == "." then [] else s.splitOn "/"

/-! ## the session -/

/-- an `MHLHashList` under construction for the history rooted at `root` -/
structure NewList where
  root : RelPath
  records : List Record := []
  rootRec : Option Record := none
  deriving Repr, Inhabited

structure Session where
  /-- `new_hash_lists` (a defaultdict keyed by history), in insertion order -/
  lists : List NewList := []
  /-- `ignore_spec.get_pattern_list()` -/
  patterns : List String := []
  deriving Repr, Inhabited

def Session.touch (s : Session) (root : RelPath) : Session :=
  if s.lists.any (fun l => l.root == root) then s else { s with lists := s.lists ++ [{ root := root }] }

def Session.get (s : Session) (root : RelPath) : NewList :=
  (s.lists.find? (fun l => l.root == root)).getD { root := root }

def Session.put (s : Session) (nl : NewList) : Session :=
  if s.lists.any (fun l => l.root == nl.root) then
    { s with lists := s.lists.map fun l => if l.root == nl.root then nl else l }
  else { s with lists := s.lists ++ [nl] }

/-- `find_media_hash_for_path` on a list under construction: keyed by the path given at creation -/
def NewList.find (nl : NewList) (path : String) : Option Record :=
  if path == "." then nl.rootRec else nl.records.find? (fun r => r.path == path)

/-- `find_or_create_media_hash_for_path` followed by an update of the record -/
def NewList.update (nl : NewList) (path : String) (size : Option Nat) (f : Record → Record) : NewList :=
  if path == "." then
    let r := nl.rootRec.getD { path := path, size := size }
    { nl with rootRec := some (f r) }
  else if nl.records.any (fun r => r.path == path) then
    { nl with records := nl.records.map fun r => if r.path == path then f r else r }
  else { nl with records := nl.records ++ [f { path := path, size := size }] }

/-! ## one digest of one file against the history (`append_file_hash`) -/

/-- the action decided for a digest: the four outcomes of `append_file_hash` -/
def decideAction (gens : List LGen) (path fmt digest : String) : String :=
  match findOriginal gens path with
  | none => "original"
  | some _ =>
    match findFirstOfFormat gens path fmt with
    | some e => if e.digest == digest then "verified" else "failed"
    | none => "new"

/-- the recorded formats that are verified in this run: those that are requested again, or — if none is — the first
recorded one ("at least one of the previous generation hashes needs to be verified") -/
def baseFormats (existing requested : List String) : List String :=
  let carried := existing.filter (requested.contains ·)
  if carried.isEmpty then existing.take 1 else carried

/-- the formats for which `seal_file_path` computes digests -/
def formatsToGenerate (existing requested : List String) : List String :=
  requested.foldl appendNew (baseFormats existing requested)

/-- The core of `seal_file_path` for one file against the generations of the history it belongs to: the entries that
are appended to the file's record (in order) and the result dict format ↦ (digest, success) over the requested
formats.  `dig f` is the digest of the file's current content in format `f`.

First loop: every recorded format that is computed is checked against the history.  Second loop: the formats that
are new for this file are only recorded if every check of the first loop succeeded. -/
def sealEntries (gens : List LGen) (p : String) (dig : String → String) (requested : List String) :
    List Entry × List (String × String × Bool) :=
  let existing := existingFormats gens p
  let toGen := formatsToGenerate existing requested
  let act := fun f => decideAction gens p f (dig f)
  let checked := existing.filter (toGen.contains ·)
  let ents1 : List Entry := checked.map fun f => { fmt := f, digest := dig f, action := act f }
  let verified := ents1.all fun e => e.action != "failed"
  let res1 := (checked.filter (requested.contains ·)).map fun f => (f, dig f, act f != "failed")
  let newF := toGen.filter fun f => !existing.contains f
  let ents2 : List Entry := if verified then newF.map fun f => { fmt := f, digest := dig f, action := act f } else []
  let res2 := (newF.filter (requested.contains ·)).map fun f => (f, dig f, verified && act f != "failed")
  (ents1 ++ ents2, res1 ++ res2)

/-- `seal_file_path`: route the file to its history, seal it there, append the entries to its record in the
session -/
def sealFile (H : HashFn) (rootHist : Hist) (s : Session) (file : RelPath) (content : Bytes)
    (requested : List String) : Session × List (String × String × Bool) :=
  let (h, hrel) := route rootHist file
  let p := posix hrel
  let (ents, res) := sealEntries h.gens p (fun f => H f content) requested
  if ents.isEmpty then (s, res)
  else
    let s := s.touch h.root
    let nl := (s.get h.root).update p (some content.length) fun r => { r with entries := r.entries ++ ents }
    (s.put nl, res)

/-! ## directory hashes -/

/-- `DirectoryHashContext` for one format: the two lists of strings -/
structure DirCtx where
  content : List String := []
  structure_ : List String := []
  deriving Repr, Inhabited

/-- the sorted-decoded-concatenated pre-image of `hash_of_hash_list`; an undecodable string contributes nothing
(the code would raise; digests produced by `H` always decode) -/
def hashOfList (H : HashFn) (D : DecodeFn) (fmt : String) (l : List String) : String :=
  H fmt ((isort strLe l).flatMap fun s => (D fmt s).getD [])

/-- `append_file_hash(path, digest)` / `append_directory_hashes(path, content, structure)` of a context:
the structure string binds the child's name -/
def DirCtx.add (H : HashFn) (D : DecodeFn) (fmt : String) (c : DirCtx) (name : String)
    (contentHash bindHash : String) : DirCtx :=
  { content := c.content ++ [contentHash],
    structure_ := c.structure_ ++ [H fmt (name.toUTF8.toList ++ (D fmt bindHash).getD [])] }

/-- `session.append_multiple_format_directory_hashes(folder, …, content_lookup, structure_lookup)` -/
def appendDirHashes (rootHist : Hist) (s : Session) (folder : RelPath)
    (hashes : List (String × String × String)) : Session :=
  let (h, hrel) := route rootHist folder
  let p := posix hrel
  let ents : List Entry := hashes.map fun (f, c, st) => { fmt := f, digest := c, shash := some st }
  let s := s.touch h.root
  let nl := (s.get h.root).update p none fun r => { r with isDir := true, entries := r.entries ++ ents }
  let s := s.put nl
  -- the root record of a nested history is also recorded one level above
  if hrel.isEmpty then
    match parentRoot rootHist h.root with
    | some pr =>
      let pp := posix (folder.drop pr.length)
      let s := s.touch pr
      let pnl := (s.get pr).update pp none fun r => { r with isDir := true, entries := r.entries ++ ents }
      s.put pnl
    | none => s
  else s

/-! ## commit -/

/-- `_validate_new_hash_list` (after the fix): a digest in a format new for the file needs at least one entry of
this generation that was checked against the history, all of them verified; then it is marked verified. -/
def validateRecord (r : Record) : Except Err Record :=
  if r.entries.any (fun e => e.action == "new") then
    let req := r.entries.filter fun e => e.action == "verified" || e.action == "failed"
    if req.isEmpty then throw (.internal "AssertionError")
    else if req.any (fun e => e.action != "verified") then throw (.internal "AssertionError")
    else pure { r with entries := r.entries.map fun e => if e.action == "new" then { e with action := "verified" } else e }
  else pure r

/-- one new generation as written for one history -/
structure Written where
  histRoot : RelPath
  number : Nat
  gen : Generation
  deriving Repr, Inhabited

/-- what `write_new_generation` + `write_chain` produce for ONE history `h`: its list in the session (or an empty
one), validated, numbered one above the latest generation, named after the folder and the UTC stamp, carrying the
accumulated ignore patterns and the references to the direct children that wrote in this run -/
def writeOne (rootHist : Hist) (s : Session) (rootFolderName stamp process : String)
    (customBase : Option String) (h : Hist) (refs : List Written) : Except Err Written := do
  let nl := s.get h.root
  let records ← nl.records.mapM validateRecord
  -- `_media_hash_xml_element` writes the format elements of a file record sorted by format name (stable);
  -- directory records keep their order
  let records := records.map fun r =>
    if r.isDir then r else { r with entries := isort (fun a b => strLe a.fmt b.fmt) r.entries }
  let number := latestGenerationNumber h.gens + 1
  let folder := (h.root.getLast?).getD rootFolderName
  let fileName := match customBase with
    | some b => b ++ "_" ++ stamp ++ Gen.fileExtension
    | none => genFileName number folder stamp
  let ignore := setPatterns (latestIgnore h.gens) s.patterns []
  let g : Generation :=
    { fileName := fileName, process := process,
      rootHash := nl.rootRec.bind fun r => if r.entries.isEmpty then none else some r.entries,
      ignore := ignore, records := records,
      refs := refs.map fun w =>
        posix (w.histRoot.drop h.root.length ++ [Gen.folderName, w.gen.fileName]) }
  pure ⟨h.root, number, g⟩

/-- one step of `commit` for history `h`: it writes iff it has a list in the session or a direct child wrote -/
def commitStep (rootHist : Hist) (s : Session) (rootFolderName stamp process : String)
    (customBase : Option String) (written : List Written) (h : Hist) : Except Err (List Written) :=
  let refs := written.filter fun w => parentRoot rootHist w.histRoot == some h.root
  let inSession := s.lists.any fun l => l.root == h.root
  if !inSession && refs.isEmpty then pure written
  else do
    let w ← writeOne rootHist s rootFolderName stamp process customBase h refs
    pure (written ++ [w])

/-- `commit`: histories in post-order (children before parents) -/
def commit (rootHist : Hist) (s : Session) (rootFolderName stamp process : String)
    (customBase : Option String := none) : Except Err (List Written) :=
  (walkPost rootHist).foldlM (commitStep rootHist s rootFolderName stamp process customBase) []

/-! ## the effect on disk -/

/-- `write_hash_list` + `write_chain` for one history: the new manifest is added, the chain gets one more entry;
nothing else in the folder changes -/
def HistStore.add (s : HistStore) (w : Written) : HistStore :=
  -- `os.replace` onto the manifest's name: a stale file of the same name (an unlisted leftover) is overwritten
  { s with gens := (s.gens.filter fun g => g.fileName != w.gen.fileName) ++ [w.gen],
           chain := s.chain ++ [⟨w.number, w.gen.fileName⟩], chainPresent := true }

mutual
/-- replace the node at path `p` (below `t`) by `f` of it -/
def Node.updateAt (f : Node → Node) : Node → RelPath → Node
  | t, [] => f t
  | .file n c, _ :: _ => .file n c
  | .dir nm cs h, n :: rest => .dir nm (Node.updateKids f n rest cs) h
def Node.updateKids (f : Node → Node) (n : String) (rest : RelPath) : List Node → List Node
  | [] => []
  | c :: cs => (if c.name == n then Node.updateAt f c rest else c) :: Node.updateKids f n rest cs
end

def Node.addGeneration (w : Written) : Node → Node
  | .dir nm cs h => .dir nm cs (some ((h.getD {}).add w))
  | x => x

/-- write the generations of a create back into the `ascmhl` folders of the tree -/
def applyWritten (t : Node) (ws : List Written) : Node :=
  ws.foldl (fun t w => Node.updateAt (Node.addGeneration w) t w.histRoot) t

end MhlModel
