/-
The file tree, ignore-pattern lists, visibility and the post-order lexicographic traversal
(ascmhl/traverse.py, ascmhl/ignore.py), and the structured content of `ascmhl` folders.
-/
import MhlModel.Basic
import MhlModel.Gen.Consts

namespace MhlModel

/-! ## records, generations, histories (ascmhl/hashlist.py, chain.py) -/

/-- `MHLHashEntry`.  `action = ""` stands for `None` (directory entries carry no action). -/
structure Entry where
  fmt : String
  digest : String
  action : String := ""
  /-- structure hash string of a directory entry -/
  shash : Option String := none
  deriving Repr, DecidableEq, Inhabited

/-- `MHLMediaHash` -/
structure Record where
  path : String
  isDir : Bool := false
  size : Option Nat := none
  prev : Option String := none
  entries : List Entry := []
  deriving Repr, DecidableEq, Inhabited

/-- state of a manifest file on disk with respect to the digest its chain entry carries -/
inductive FileState where
  | ok | modified | missing
  deriving Repr, DecidableEq, Inhabited

/-- `MHLHashList` as stored: one manifest file -/
structure Generation where
  fileName : String
  process : String := "in-place"
  /-- `None` when the generation was written without directory hashes or has no `<roothash>` -/
  rootHash : Option (List Entry) := none
  ignore : List String := []
  records : List Record := []
  /-- `<hashlistreference>` paths (relative to the history root, POSIX) -/
  refs : List String := []
  state : FileState := .ok
  deriving Repr, DecidableEq, Inhabited

structure ChainEntry where
  seq : Nat
  fileName : String
  deriving Repr, DecidableEq, Inhabited

/-- the content of one `ascmhl` folder -/
structure HistStore where
  gens : List Generation := []
  chain : List ChainEntry := []
  chainPresent : Bool := true
  deriving Repr, DecidableEq, Inhabited

/-! ## the tree -/

inductive Node where
  | file (name : String) (content : Bytes)
  | dir (name : String) (children : List Node) (hist : Option HistStore)
  deriving Repr, Inhabited

namespace Node
def name : Node → String
  | file n _ => n
  | dir n _ _ => n
def isDir : Node → Bool
  | file _ _ => false
  | dir _ _ _ => true
def children : Node → List Node
  | file _ _ => []
  | dir _ cs _ => cs
def hist : Node → Option HistStore
  | file _ _ => none
  | dir _ _ h => h
end Node

abbrev RelPath := List String

/-- POSIX text of a relative path; the empty path is "." (as `os.path.relpath` gives) -/
def posix (p : RelPath) : String := if p.isEmpty then "." else "/".intercalate p

def strLe (a b : String) : Bool := decide (a ≤ b)

/-- `names = os.listdir(top); names.sort()` — whatever order the OS lists in -/
def sortNodes (cs : List Node) : List Node := isort (fun a b => strLe a.name b.name) cs

def findChild (cs : List Node) (n : String) : Option Node := cs.find? (fun c => c.name == n)

/-- the node at a relative path below `t` -/
def Node.at? : Node → RelPath → Option Node
  | t, [] => some t
  | .file _ _, _ :: _ => none
  | .dir _ cs _, n :: rest =>
    match findChild cs n with
    | some c => c.at? rest
    | none => none

/-! ## ignore patterns (ascmhl/ignore.py) -/

/-- `_append_patterns_list`: `list.extend(line for line in batch if line not in self._ignore_list)`.  The generator is
consumed while the list grows, so a line is skipped if it is already present, *including* lines added earlier in the
same batch. -/
def appendPatterns (cur batch : List String) : List String := batch.foldl appendNew cur

/-- the starting list of `set_patterns`: the existing patterns, or the defaults when there are none -/
def basePatterns (existing : Option (List String)) : List String :=
  match existing with
  | some l => if l.isEmpty then appendPatterns [] Gen.defaultIgnore else appendPatterns [] l
  | none => appendPatterns [] Gen.defaultIgnore

/-- `MHLIgnoreSpec.set_patterns(existing, new_list, file_lines)` -/
def setPatterns (existing : Option (List String)) (cli : List String) (fileLines : List String) : List String :=
  let withCli := if cli.isEmpty then basePatterns existing else appendPatterns (basePatterns existing) cli
  if fileLines.isEmpty then withCli else appendPatterns withCli fileLines

/-- the matcher is a parameter: `pathspec.PathSpec.from_lines("gitwildmatch", patterns).match_file(relpath)` -/
abbrev Matcher := List String → RelPath → Bool

/-! ## traversal (ascmhl/traverse.py, after the fix: paths are matched relative to the traversal root) -/

/-- one yielded item of `post_order_lexicographic`: the folder (path relative to the traversal root) and its
visible children as (name, is_dir) in sorted order -/
structure Visit where
  folder : RelPath
  children : List (String × Bool)
  deriving Repr, DecidableEq

/-- per child: name, is_dir, and the visits of its subtree -/
structure Kid where
  name : String
  isDir : Bool
  visits : List Visit
  deriving Repr, DecidableEq

mutual
/-- `post_order_lexicographic(top)`, `here` = path of `top` relative to the traversal root.
The recursion follows the stored order of the children (structural); sorting by name and hiding the ignored
entries happens on the per-child results, so the outcome is that of the code, which sorts the listing first. -/
def traverse (hit : RelPath → Bool) (here : RelPath) : Node → List Visit
  | .file _ _ => []
  | .dir _ cs _ =>
    let kids := isort (fun a b => strLe a.name b.name) (traverseKids hit here cs)
    let vis := kids.filter (fun k => !hit (here ++ [k.name]))
    vis.flatMap (·.visits) ++ [⟨here, vis.map fun k => (k.name, k.isDir)⟩]
def traverseKids (hit : RelPath → Bool) (here : RelPath) : List Node → List Kid
  | [] => []
  | c :: cs => ⟨c.name, c.isDir, traverse hit (here ++ [c.name]) c⟩ :: traverseKids hit here cs
end

/-- all visible paths below the traversal root, in traversal order (children of each folder when it is yielded) -/
def visiblePaths (hit : RelPath → Bool) (t : Node) : List (RelPath × Bool) :=
  (traverse hit [] t).flatMap fun v => v.children.map fun c => (v.folder ++ [c.1], c.2)

end MhlModel
