/-
The path glue of the command line: CPython's `posixpath` functions that turn the ROOT argument and the `-sf`
arguments into history-relative POSIX paths (`os.path.isabs`, `os.path.join`, `os.path.normpath`,
`os.path.abspath`, `os.path.relpath`), mirrored over `String`.

Layers:
* characters: `splitC` / `joinC` (`str.split('/')` and `'/'.join`) on `List Char`;
* components: `normComps`, `commonPrefixLen`, `relComps` on `List String`;
* strings: `splitSlash`, `joinSlash`, `isAbs`, `joinPath`, `normpath`, `abspath`, `relpath`, and the three
  functions of the tool (`historyRelative`, `sfOfCreate`, `sfOfVerify`).

Core Lean only (this file is compiled into `mhldriver`).
-/
namespace MhlModel.Paths

/-! ### character level -/

/-- `s.split('/')` on a character list: keeps empty pieces, never returns `[]` (`"".split('/') = [""]`). -/
def splitC : List Char → List (List Char)
  | [] => [[]]
  | c :: cs =>
    if c = '/' then [] :: splitC cs
    else match splitC cs with
      | [] => [[c]]          -- unreachable: `splitC` never returns `[]`
      | h :: t => (c :: h) :: t

/-- `'/'.join(l)` on character lists -/
def joinC : List (List Char) → List Char
  | [] => []
  | [x] => x
  | x :: y :: r => x ++ '/' :: joinC (y :: r)

/-! ### strings: split / join -/

/-- `s.split('/')` (keeps empty pieces) -/
def splitSlash (s : String) : List String := (splitC s.toList).map String.ofList

/-- `'/'.join(l)` -/
def joinSlash (l : List String) : String := String.ofList (joinC (l.map String.toList))

/-- `os.path.isabs`: starts with `'/'` -/
def isAbs (s : String) : Bool := s.toList.head? = some '/'

/-- `s.endswith('/')` -/
def endsSlash (s : String) : Bool := s.toList.getLast? = some '/'

/-- `posixpath.join(a, b)` for two arguments -/
def joinPath (a b : String) : String :=
  if isAbs b then b
  else if a = "" ∨ endsSlash a then a ++ b
  else a ++ "/" ++ b

/-! ### component level -/

/-- One round of the loop of `posixpath.normpath`; `stack` is `new_comps` REVERSED (top of the stack first),
`isabs` is `initial_slashes != 0`.
```
if comp in ('', '.'): continue
if (comp != '..' or (not initial_slashes and not new_comps) or (new_comps and new_comps[-1] == '..')):
    new_comps.append(comp)
elif new_comps:
    new_comps.pop()
``` -/
def normStep (isabs : Bool) (stack : List String) (p : String) : List String :=
  if p = "" ∨ p = "." then stack
  else if p ≠ ".." then p :: stack
  else match stack with
    | [] => if isabs then [] else [".."]      -- `..` at the root of an absolute path is dropped
    | t :: rest => if t = ".." then ".." :: t :: rest else rest

/-- the component list `new_comps` of `posixpath.normpath` -/
def normComps (isabs : Bool) (l : List String) : List String := (l.foldl (normStep isabs) []).reverse

/-- length of the longest common prefix of two lists (`len(commonprefix([start_list, path_list]))`) -/
def commonPrefixLen : List String → List String → Nat
  | a :: as, b :: bs => if a = b then commonPrefixLen as bs + 1 else 0
  | _, _ => 0

/-- `rel_list` of `posixpath.relpath`: `['..'] * (len(start_list) - i) + path_list[i:]` -/
def relComps (start path : List String) : List String :=
  let i := commonPrefixLen start path
  List.replicate (start.length - i) ".." ++ path.drop i

/-! ### strings: normpath / abspath / relpath -/

/-- `initial_slashes` of `posixpath.normpath` on a character list: 0 for a relative path, 2 for a path that starts
with exactly two slashes (POSIX leaves the meaning of `//x` to the implementation), otherwise 1 -/
def initC : List Char → Nat
  | '/' :: '/' :: '/' :: _ => 1
  | '/' :: '/' :: _ => 2
  | '/' :: _ => 1
  | _ => 0

def initialSlashes (s : String) : Nat := initC s.toList

/-- `posixpath.normpath` -/
def normpath (s : String) : String :=
  if s = "" then "."
  else
    let n := initialSlashes s
    let r := String.ofList (List.replicate n '/') ++ joinSlash (normComps (n != 0) (splitSlash s))
    if r = "" then "." else r

/-- `posixpath.abspath` with the working directory `cwd` (an absolute path) -/
def abspath (cwd s : String) : String := normpath (if isAbs s then s else joinPath cwd s)

/-- `[x for x in p.split('/') if x]` -/
def pieces (s : String) : List String := (splitSlash s).filter (· ≠ "")

/-- `posixpath.relpath(path, start)` with the working directory `cwd`.  Python raises `ValueError("no path
specified")` for an empty `path`; that input is modelled as returning `"."` (the tool never passes it: `path` is the
result of `abspath`, which is never empty). -/
def relpath (cwd path start : String) : String :=
  if path = "" then "."
  else
    let rel := relComps (pieces (abspath cwd start)) (pieces (abspath cwd path))
    if rel = [] then "." else joinSlash rel

/-! ### the tool -/

/-- what `MHLHistory.get_relative_file_path` computes for the file path `file` of a history rooted at `root`:
`os.path.relpath(os.path.abspath(file), os.path.abspath(root))` -/
def historyRelative (cwd root file : String) : String := relpath cwd (abspath cwd file) (abspath cwd root)

/-- `create -sf`: a relative `-sf` argument is resolved against the working directory -/
def sfOfCreate (cwd root sf : String) : String :=
  historyRelative cwd root (if isAbs sf then sf else joinPath cwd sf)

/-- `verify -sf`: a relative `-sf` argument is resolved against the ROOT argument -/
def sfOfVerify (cwd root sf : String) : String :=
  let abspathRoot := if isAbs root then root else joinPath cwd root
  historyRelative cwd root (if isAbs sf then sf else joinPath abspathRoot sf)

end MhlModel.Paths
