/-
The background update check (ascmhl/cli/update.py, cli/ascmhl.py, cli/ascmhl_debug.py) as a labelled transition system:
main thread ∥ checker thread ∥ update server, with an abstract clock.

  main:    import (starts the checker) → run the command → if the command returned normally: join(timeout = 1 s)
           → read `latest` → optional notice → exit;  if the command raised (ClickException / other): exit with its
           code, the result callback is not run.
  checker: send request → (reply | RequestException | other exception | nothing ever) → parse → set `latest`
           | die with an uncaught exception (traceback on stderr only) → set `finished`.
The checker is a daemon thread: process exit never waits for it.
-/
namespace MhlModel.Updater

/-- what the server / network does with the request -/
inductive ServerBehaviour where
  | reply (newer : Bool) (prerelease : Bool) (dev : Bool)   -- a parsable version tag
  | garbage                                                -- unparsable tag / no tag / JSON list / non-JSON / HTTP error status with non-Request exception
  | requestException                                       -- ConnectionError, HTTPError, Timeout, … (caught)
  | otherException                                         -- any other exception inside the thread (uncaught there)
  | never
  deriving Repr, DecidableEq

/-- the command as the user typed it: how it ends and what it prints -/
structure Cmd where
  exitCode : Nat
  normalReturn : Bool       -- returned normally (exit 0 path through click) vs raised
  stdout : List String
  deriving Repr, DecidableEq

inductive MainPc where
  | start | running | joining | reading | printing | exited
  deriving Repr, DecidableEq

inductive CheckerPc where
  | notStarted | requesting | gotReply | done | dead
  deriving Repr, DecidableEq

/-- `updater.latest_version` reduced to what `needs_update` looks at -/
structure Latest where
  newer : Bool
  prerelease : Bool
  dev : Bool
  deriving Repr, DecidableEq

structure State where
  mainPc : MainPc := .start
  chkPc : CheckerPc := .notStarted
  latest : Option Latest := none
  now : Nat := 0                  -- abstract clock in milliseconds
  joinStart : Nat := 0
  seenNeedsUpdate : Bool := false
  exitCode : Option Nat := none
  stdout : List String := []
  stderr : List String := []
  exitTime : Nat := 0
  deriving Repr, DecidableEq

def traceback : String := "Exception in thread"
def ServerBehaviour.isReply : ServerBehaviour → Bool
  | .reply _ _ _ => true
  | _ => false

def notice : String := "Please update to the latest ascmhl version using `pip3 install -U ascmhl`."
def joinTimeoutMs : Nat := 1000

def needsUpdate (l : Option Latest) : Bool :=
  match l with
  | none => false
  | some v => v.newer && !v.dev && !v.prerelease

/-- the steps; `dt` is any amount of time the step may take -/
inductive Step (cmd : Cmd) (srv : ServerBehaviour) : State → State → Prop where
  | mainStart (s : State) : s.mainPc = .start →
      Step cmd srv s { s with mainPc := .running, chkPc := .requesting }
  /-- the command runs (any duration); its output goes to stdout -/
  | mainCommandNormal (s : State) (dt : Nat) : s.mainPc = .running → cmd.normalReturn = true →
      Step cmd srv s { s with mainPc := .joining, now := s.now + dt, joinStart := s.now + dt, stdout := s.stdout ++ cmd.stdout }
  | mainCommandRaises (s : State) (dt : Nat) : s.mainPc = .running → cmd.normalReturn = false →
      Step cmd srv s { s with mainPc := .exited, now := s.now + dt, joinStart := s.now + dt, exitTime := s.now + dt,
                              stdout := s.stdout ++ cmd.stdout, exitCode := some cmd.exitCode }
  /-- `updater.join(timeout=1)` returns: the checker has terminated, or the timeout elapsed -/
  | mainJoinThreadDone (s : State) (dt : Nat) : s.mainPc = .joining → (s.chkPc = .done ∨ s.chkPc = .dead) →
      s.now + dt ≤ s.joinStart + joinTimeoutMs →
      Step cmd srv s { s with mainPc := .reading, now := s.now + dt }
  | mainJoinTimeout (s : State) : s.mainPc = .joining →
      Step cmd srv s { s with mainPc := .reading, now := max s.now (s.joinStart + joinTimeoutMs) }
  | mainRead (s : State) : s.mainPc = .reading →
      Step cmd srv s { s with mainPc := .printing, seenNeedsUpdate := needsUpdate s.latest }
  | mainFinish (s : State) : s.mainPc = .printing →
      Step cmd srv s { s with mainPc := .exited, exitTime := s.now, exitCode := some cmd.exitCode,
                              stdout := if s.seenNeedsUpdate then s.stdout ++ [notice] else s.stdout }
  /-- checker: the network answers (any delay, independent of the main thread's clock reading) -/
  | chkReply (s : State) (n p d : Bool) : s.chkPc = .requesting → srv = .reply n p d →
      Step cmd srv s { s with chkPc := .gotReply }
  | chkStore (s : State) (n p d : Bool) : s.chkPc = .gotReply → srv = .reply n p d →
      Step cmd srv s { s with chkPc := .done, latest := some ⟨n, p, d⟩ }
  | chkGarbage (s : State) : s.chkPc = .requesting → srv = .garbage →
      Step cmd srv s { s with chkPc := .dead, stderr := s.stderr ++ [traceback] }
  | chkRequestException (s : State) : s.chkPc = .requesting → srv = .requestException →
      Step cmd srv s { s with chkPc := .done }
  | chkOtherException (s : State) : s.chkPc = .requesting → srv = .otherException →
      Step cmd srv s { s with chkPc := .dead, stderr := s.stderr ++ [traceback] }
  /-- time passes before and while the command runs (the checker may stay in `requesting` forever when srv = never).
  The main thread's own steps after the join (reading one attribute, printing one line) take no modelled time. -/
  | tick (s : State) (dt : Nat) : (s.mainPc = .start ∨ s.mainPc = .running) →
      Step cmd srv s { s with now := s.now + dt }

/-- executions: any finite sequence of steps from the initial state -/
inductive Reach (cmd : Cmd) (srv : ServerBehaviour) : State → Prop where
  | init : Reach cmd srv {}
  | step (s s' : State) : Reach cmd srv s → Step cmd srv s s' → Reach cmd srv s'

end MhlModel.Updater
