/-
Loading histories (ascmhl/history.py `load_from_path`, `_find_and_load_child_histories`), generation numbering and
naming, the lookups over generations, and routing of a path to the deepest history.
-/
import MhlModel.Tree
import MhlModel.Codec

namespace MhlModel

/-! ## generation file names -/

def isDigit (c : Char) : Bool := '0' ≤ c && c ≤ '9'

def extChars : List Char := Gen.fileExtension.toList

/-- `re.findall(r"^(\d{4,})(?:_(.+))?$", name_without_extension)`: the generation number if the stem conforms.
The `.+` group must be non-empty and (no DOTALL) free of newlines. -/
def parseGenStem (cs : List Char) : Option Nat :=
  let ds := cs.takeWhile isDigit
  let rest := cs.dropWhile isDigit
  if ds.length < 4 then none
  else
    let n := ds.foldl (fun r c => r * 10 + (c.toNat - 48)) 0
    match rest with
    | [] => some n
    | '_' :: tail => if tail.isEmpty || tail.contains '\n' then none else some n
    | _ => none

/-- file names considered by `load_from_path`: not `._*`, ends with `.mhl`; the number parsed from the stem -/
def parseGenChars (cs : List Char) : Option Nat :=
  if (cs.length > 2 && cs.take 2 == ['.', '_']) || cs.drop (cs.length - extChars.length) != extChars
      || cs.length < extChars.length then none
  else parseGenStem (cs.take (cs.length - extChars.length))

def parseGenName (fileName : String) : Option Nat := parseGenChars fileName.toList

/-- decimal digits, most significant first (`str(n)`; the empty list for 0 is padded below) -/
def decChars (n : Nat) : List Char := (Codec.digits 10 n).map fun d => Char.ofNat (48 + d)

/-- `f"{index:04d}"` -/
def pad4Chars (n : Nat) : List Char := Codec.rjust 4 '0' (decChars n)

/-- `_new_generation_filename`: f"{index:04d}_{folder_name}_{date_string}.mhl" -/
def genFileNameChars (index : Nat) (folder stamp : List Char) : List Char :=
  pad4Chars index ++ ['_'] ++ folder ++ ['_'] ++ stamp ++ extChars

def genFileName (index : Nat) (folder stamp : String) : String :=
  String.ofList (genFileNameChars index folder.toList stamp.toList)

/-! ## loaded histories -/

/-- a loaded generation = the stored one plus its number -/
structure LGen where
  number : Nat
  gen : Generation
  deriving Repr, Inhabited

/-- `MHLHistory` after `load_from_path`: root relative to the command's root, generations ascending, chain, and the
direct child histories in discovery order -/
inductive Hist where
  | mk (root : RelPath) (gens : List LGen) (chain : List ChainEntry) (exists_ : Bool) (children : List Hist)
  deriving Repr, Inhabited

namespace Hist
def root : Hist → RelPath | mk r _ _ _ _ => r
def gens : Hist → List LGen | mk _ g _ _ _ => g
def chain : Hist → List ChainEntry | mk _ _ c _ _ => c
/-- does the `ascmhl` folder exist on disk -/
def folderExists : Hist → Bool | mk _ _ _ e _ => e
def children : Hist → List Hist | mk _ _ _ _ c => c
end Hist

/-- exit codes by exception class, from the current source -/
def exitOf (cls : String) : Nat := (alookup cls Gen.exitCodes).getD 1

def errMissingFiles := Err.exit (exitOf "CompletenessCheckFailedException")
def errVerifyFailed := Err.exit (exitOf "VerificationFailedException")
def errDirVerifyFailed := Err.exit (exitOf "VerificationDirectoriesFailedException")
def errSingleFileNotFound := Err.exit (exitOf "SingleFileNotFoundException")
def errNewFiles := Err.exit (exitOf "NewFilesFoundException")
def errNoHistory := Err.exit (exitOf "NoMHLHistoryException")
def errModified := Err.exit (exitOf "ModifiedMHLManifestFileException")
def errNoChain := Err.exit (exitOf "NoMHLChainException")
def errMissingManifest := Err.exit (exitOf "MissingMHLManifestException")

/-- the chain check of `load_from_path`: entries in chain order; the first problem wins -/
def checkChain (s : HistStore) : Except Err Unit :=
  s.chain.foldlM (fun _ e =>
    match s.gens.find? (fun g => g.fileName == e.fileName) with
    | some g =>
      match g.state with
      | .ok => pure ()
      | .modified => throw errModified
      | .missing => throw errMissingManifest
    | none => throw errMissingManifest) ()

/-- is the manifest file listed in the chain file?  The chain file is what commits a generation: a manifest it does
not list (left behind by a create that was interrupted between the two replaces) is not part of the history
(`listed_filenames` in `load_from_path`) -/
def HistStore.lists (s : HistStore) (fileName : String) : Bool := s.chain.any fun e => e.fileName == fileName

/-- the manifests found in the folder that the chain lists, numbered by name and sorted by number (stable) -/
def loadGens (s : HistStore) : List LGen :=
  let found := s.gens.filterMap fun g =>
    if g.state == .missing || !s.lists g.fileName then none
    else (parseGenName g.fileName).map fun n => (⟨n, g⟩ : LGen)
  isort (fun a b => a.number ≤ b.number) found

/-- the checks `load_from_path` makes on the folder itself, before it looks for nested histories: chain file
present, then every chain entry -/
def checkStore (store : Option HistStore) : Except Err Unit :=
  match store with
  | none => pure ()
  | some s => if !s.chainPresent then throw errNoChain else checkChain s

/-- the loaded history of the folder at `here` holding `store` (none = no `ascmhl` folder) with the already loaded
child histories.  A modified (but present) manifest that is parsed is assumed to still parse; a manifest that no
longer parses is outside this model (it is an uncaught XMLSyntaxError in the code). -/
def buildHist (here : RelPath) (store : Option HistStore) (kids : List Hist) : Hist :=
  match store with
  | none => .mk here [] [] false kids
  | some s => .mk here (loadGens s) s.chain true kids

/-- `load_from_path` of one folder given its child histories -/
def loadOne (here : RelPath) (store : Option HistStore) (kids : List Hist) : Except Err Hist := do
  checkStore store
  pure (buildHist here store kids)

mutual
/-- `_find_and_load_child_histories`: `os.walk` top-down with SORTED sub-folders; a folder (other than the history
root) that contains an `ascmhl` folder is loaded as a child history (its own chain first, then its own children) and
not descended into by this walk.  The per-child results are computed in stored order and then evaluated in the order
of the names, so the first problem in walk order wins whatever order the OS lists in.  Ignore patterns play no role. -/
def findChildren (here : RelPath) : Node → Except Err (List Hist)
  | .file _ _ => pure []
  | .dir _ cs _ =>
    let found : List (String × Except Err (List Hist)) := findChildrenList here cs
    let sorted := isort (fun (a b : String × Except Err (List Hist)) => strLe a.1 b.1) found
    (sorted.mapM fun (x : String × Except Err (List Hist)) => x.2).map List.flatten
/-- per child (stored order): its name and the child histories found at or below it (or the first problem there) -/
def findChildrenList (here : RelPath) : List Node → List (String × Except Err (List Hist))
  | [] => []
  | c :: cs =>
    let r : Except Err (List Hist) :=
      match c.hist with
      | some s => do
        checkStore (some s)
        let kids ← findChildren (here ++ [c.name]) c
        pure [buildHist (here ++ [c.name]) (some s) kids]
      | none => findChildren (here ++ [c.name]) c
    (c.name, r) :: findChildrenList here cs
end

/-- `MHLHistory.load_from_path(root)`: the root folder's own checks, then the nested histories -/
def loadHistory (t : Node) : Except Err Hist := do
  checkStore t.hist
  let kids ← findChildren [] t
  pure (buildHist [] t.hist kids)

/-! ## lookups over the generations of one history -/

/-- `MHLHashList.find_media_hash_for_path`: the path map is keyed by `previous_path or path` and by `path`; later
records overwrite earlier ones.  The root record "." is in the map too. -/
def Generation.find (g : Generation) (path : String) : Option Record :=
  let rootRec : List Record := match g.rootHash with
    | some es => [{ path := ".", isDir := true, entries := es }]
    | none => []
  ((rootRec ++ g.records).reverse.find? fun r => r.path == path || r.prev == some path)

def latestGenerationNumber (gens : List LGen) : Nat :=
  gens.foldl (fun acc g => if g.number != 0 then g.number else acc) 0

/-- `latest_ignore_patterns`: `none` if there is no generation or the last one has an empty pattern list -/
def latestIgnore (gens : List LGen) : Option (List String) :=
  match gens.getLast? with
  | none => none
  | some g =>
    -- `if not hash_list.process_info.ignore_spec` is an object test (always true); the list itself is returned
    some g.gen.ignore

/-- `find_original_hash_entry_for_path` -/
def findOriginal (gens : List LGen) (path : String) : Option Entry :=
  gens.findSome? fun g =>
    match g.gen.find path with
    | none => none
    | some r => r.entries.find? (fun e => e.action == "original")

/-- `find_first_hash_entry_for_path(path, fmt)` -/
def findFirstOfFormat (gens : List LGen) (path : String) (fmt : String) : Option Entry :=
  gens.findSome? fun g =>
    match g.gen.find path with
    | none => none
    | some r => r.entries.find? (fun e => e.fmt == fmt)

/-- `find_first_hash_entry_for_path(path)` without a format -/
def findFirstAny (gens : List LGen) (path : String) : Option Entry :=
  gens.findSome? fun g =>
    match g.gen.find path with
    | none => none
    | some r => r.entries.head?

/-- one generation's contribution to `find_existing_hash_formats_for_path` -/
def existingStep (path : String) (acc : List String) (g : LGen) : List String :=
  match g.gen.find path with
  | none => acc
  | some r => r.entries.foldl (fun a e => appendNew a e.fmt) acc

/-- `find_existing_hash_formats_for_path` -/
def existingFormats (gens : List LGen) (path : String) : List String :=
  gens.foldl (existingStep path) []

/-! ## routing -/

mutual
/-- `child_history_mappings`: every transitive child with its root path (relative to the command root) -/
def allDescendants : Hist → List Hist
  | .mk _ _ _ _ cs => descList cs
def descList : List Hist → List Hist
  | [] => []
  | c :: cs => c :: allDescendants c ++ descList cs
end

def isPrefixOf (a b : RelPath) : Bool := a.length ≤ b.length && b.take a.length == a

/-- `find_history_for_path(relative_path)` on the ROOT history: shorten the path component by component until it is
the root of a (transitive) child history; so the deepest history whose root is a component-wise prefix of the path.
Returns that history and the path relative to its root. -/
def route (h : Hist) (p : RelPath) : Hist × RelPath :=
  let cands := (allDescendants h).filter fun c => !c.root.isEmpty && isPrefixOf c.root p
  -- the loop tries the longest prefix first
  match cands.foldl (fun best c => match best with
      | none => some c
      | some b => if c.root.length > b.root.length then some c else some b) (none : Option Hist) with
  | some c => (c, p.drop c.root.length)
  | none => (h, p)

mutual
/-- `MHLHistory.walk_child_histories`: post-order, children in discovery order -/
def walkPost : Hist → List Hist
  | .mk r g c e cs => walkPostList cs ++ [.mk r g c e cs]
def walkPostList : List Hist → List Hist
  | [] => []
  | c :: cs => walkPost c ++ walkPostList cs
end

/-- the direct parent of the history rooted at `r` among `h` and its descendants -/
def parentRoot (h : Hist) (r : RelPath) : Option RelPath :=
  ((h :: allDescendants h).find? fun x => x.children.any (fun c => c.root == r)).map (·.root)

end MhlModel
