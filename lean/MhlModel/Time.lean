/-
Dates (ascmhl/utils.py after the repair): `datetime_isostring(date)` for a NAIVE LOCAL date is
`date.replace(microsecond=0).astimezone().isoformat()`, and the naive dates come from
`datetime.fromtimestamp(mtime)` / `datetime.now()`.  Manifest file names carry `datetime.now(timezone.utc)`.

A zone is an arbitrary function from UTC instants (seconds) to UTC offsets (seconds).  CPython's resolution of a naive
local time with its `fold` bit to an instant (`datetime._mktime`) is modelled as written.  Rendering of the civil
date-time fields (year … second) is a parameter: an injective text codec of the local second count.
-/
namespace MhlModel.Time

abbrev Zone := Int → Int

/-- naive local time: local second count (instant + offset) and the PEP 495 fold bit -/
structure Naive where
  secs : Int
  fold : Bool
  deriving Repr, DecidableEq

/-- `time.localtime(u)` reduced to the local second count -/
def localSecs (z : Zone) (u : Int) : Int := u + z u

/-- `datetime.fromtimestamp(t)`: local fields; fold = 1 iff the same local time already occurred at an earlier
instant whose offset was larger (second pass through a repeated interval).  CPython probes `t - max_fold_seconds`
with max_fold_seconds = 24 h. -/
def fromTimestamp (z : Zone) (t : Int) : Naive :=
  let y := localSecs z t
  -- CPython `datetime_from_timet_and_us`: transition = local(t) - local(t - 24h) - 24h (= change of the offset)
  let probe1 := localSecs z (t - 86400)
  let trans := y - probe1 - 86400
  if trans < 0 then
    -- the offset went down in the last 24 h: if the same local time occurred `-trans` seconds earlier, this is the
    -- second pass (fold = 1)
    let probe2 := localSecs z (t + trans)
    ⟨y, probe2 == y⟩
  else ⟨y, false⟩

/-- CPython `datetime._mktime`: the instant denoted by a naive local time -/
def mktime (z : Zone) (d : Naive) : Int :=
  let t := d.secs
  let a := localSecs z t - t
  let u1 := t - a
  let t1 := localSecs z u1
  let viaB (b : Int) : Int :=
    let u2 := t - b
    let t2 := localSecs z u2
    if t2 == t then u2
    else if t1 == t then u1
    else if d.fold then min u1 u2 else max u1 u2
  if t1 == t then
    let u2 := u1 + (if d.fold then 86400 else -86400)
    let b := localSecs z u2 - u2
    if a == b then u1 else viaB b
  else viaB (t1 - u1)

def pad2 (n : Nat) : String := (if n < 10 then "0" else "") ++ toString n

/-- `timedelta` offset as isoformat prints it: ±HH:MM, with :SS only when the offset has seconds -/
def offsetText (off : Int) : String :=
  let sign := if off < 0 then "-" else "+"
  let a := off.natAbs
  let hh := a / 3600
  let mm := (a % 3600) / 60
  let ss := a % 60
  sign ++ pad2 hh ++ ":" ++ pad2 mm ++ (if ss == 0 then "" else ":" ++ pad2 ss)

/-- what `datetime_isostring` prints, as (local second count that is rendered, offset in seconds): the instant is
resolved first, then shown at the offset IN FORCE AT THAT INSTANT -/
def isoParts (z : Zone) (d : Naive) : Int × Int :=
  let ts := mktime z d
  (localSecs z ts, z ts)

/-- the instant an ISO value (local seconds, offset) denotes -/
def denote (p : Int × Int) : Int := p.1 - p.2

/-- the former (defective) formatter, kept for the regression theorem: the offset of NOW for every date -/
def isoPartsOld (z : Zone) (now : Int) (d : Naive) : Int × Int := (d.secs, z now)

/-- a zone with a single transition at instant `T`: offset `a` before, `b` from `T` on -/
def oneTransition (T a b : Int) : Zone := fun u => if u < T then a else b

/-- the size attribute: present for every length, decimal -/
def sizeAttr (len : Nat) : Option String := some (toString len)

end MhlModel.Time
