/-
A whole `create` run as a sequence of events: first every media file is opened and hashed (`Ev.read`), then the
histories are committed (`Ev.fs`, the operations of `MhlModel/Crash.lean`).  The harness records media reads in its
crash traces and accepts the known finding D6b (a first-ever create killed inside its commit window leaves an `ascmhl`
folder without chain file, every later command refuses with exit 32) only at crash points after which the run reads
no media file any more: `knownWindow`.

`eagerRunEvents` is the seeded change "make the ascmhl folders first, then hash": same operations, same final state,
but the refusing window now spans the whole hashing phase.
-/
import MhlModel.Crash

namespace MhlModel.Crash

/-- an event of a whole run: a media file opened for reading, or a file-system operation of the commit -/
inductive Ev where
  | read (path : String)
  | fs (op : Op)
  deriving Repr, DecidableEq

def Ev.isRead : Ev → Bool
  | .read _ => true
  | .fs _ => false

/-- the file-system operations among the events, in order -/
def evOps : List Ev → List Op
  | [] => []
  | .read _ :: evs => evOps evs
  | .fs op :: evs => op :: evOps evs

/-- is there a `.read` at an index ≥ k -/
def readsAfter (evs : List Ev) (k : Nat) : Bool := (evs.drop k).any Ev.isRead

/-- the run as the code performs it: hash everything, then commit -/
def runEvents (reads : List String) (cs : List HistCommit) : List Ev :=
  reads.map .read ++ (createOps cs).map .fs

/-- the part of `c.ops` that makes the `ascmhl` folder (nothing if it is there already) -/
def HistCommit.mkdirPart (c : HistCommit) : List Op :=
  if c.folderExists then [] else [.mkdir c.folder]

/-- the part of `c.ops` behind the mkdir: manifest through its temporary, chain through its temporary -/
def HistCommit.rest (c : HistCommit) : List Op :=
  [.create (c.folder ++ c.manifestName ++ ".tmp")] ++
  c.manifestChunks.map (fun d => .write (c.folder ++ c.manifestName ++ ".tmp") d) ++
  [.replace (c.folder ++ c.manifestName ++ ".tmp") (c.folder ++ c.manifestName),
   .create (c.folder ++ chainName ++ ".tmp")] ++
  c.chainChunks.map (fun d => .write (c.folder ++ chainName ++ ".tmp") d) ++
  [.replace (c.folder ++ chainName ++ ".tmp") (c.folder ++ chainName)]

/-- the seeded variant for one history: make the folder first, then hash, then write manifest and chain -/
def eagerRunEvents (reads : List String) (c : HistCommit) : List Ev :=
  c.mkdirPart.map .fs ++ reads.map .read ++ c.rest.map .fs

/-- every point at which the run can be killed: behind the k-th event, with the operations performed so far; the disk
is then `applyOps fs` of those -/
def crashPoints (evs : List Ev) : List (Nat × List Op) :=
  (List.range (evs.length + 1)).map fun k => (k, evOps (evs.take k))

/-- the signature of the known finding D6b: a refusing state at a point after which nothing is read any more -/
def knownWindow (evs : List Ev) (k : Nat) (fs : Fs) (folder : String) : Bool :=
  refuses32 (applyOps fs (evOps (evs.take k))) folder && !readsAfter evs k

end MhlModel.Crash
