/-
Manifest and chain files as XML: the writer (hashlist_xml_parser.write_hash_list and its element builders,
chain_xml_parser.write_chain) as a function to an element tree, the start/end event stream that `etree.iterparse`
delivers, and the event-driven readers (hashlist_xml_parser.parse, chain_xml_parser.parse) as folds with
`current_object` and the object stack.

The lexical layer (escaping, encoding, pretty printing, libxml2) is NOT modelled: a tree is the infoset.  An empty text
and an absent text are the same thing after a round trip through a file (both are `none` here).
-/
import MhlModel.Tree

namespace MhlModel.Xml

/-- an element: tag, attributes, text (leaf content), children -/
inductive Elem where
  | mk (tag : String) (attrs : List (String × String)) (text : Option String) (children : List Elem)
  deriving Repr, Inhabited

namespace Elem
def tag : Elem → String | mk t _ _ _ => t
def attrs : Elem → List (String × String) | mk _ a _ _ => a
def text : Elem → Option String | mk _ _ x _ => x
def children : Elem → List Elem | mk _ _ _ c => c
end Elem

def attr (e : Elem) (k : String) : Option String := alookup k e.attrs

/-- text as it comes back from a file: the empty string reads as no text -/
def normText (s : Option String) : Option String :=
  match s with
  | some "" => none
  | x => x

/-! ## the objects (ascmhl/hashlist.py), with everything the writer looks at -/

structure XEntry where
  fmt : String
  digest : String
  action : Option String := none
  hashdate : Option String := none
  shash : Option String := none          -- structure hash of a directory entry
  deriving Repr, DecidableEq, Inhabited

structure XRecord where
  path : String
  isDir : Bool := false
  size : Option Nat := none
  lastmod : Option String := none
  prev : Option String := none
  entries : List XEntry := []
  deriving Repr, DecidableEq, Inhabited

structure XAuthor where
  name : Option String := none
  role : Option String := none
  email : Option String := none
  phone : Option String := none
  deriving Repr, DecidableEq, Inhabited

structure XCreator where
  creationdate : Option String := none
  hostname : Option String := none
  toolName : Option String := none
  toolVersion : Option String := none
  authors : List XAuthor := []
  location : Option String := none
  comment : Option String := none
  deriving Repr, DecidableEq, Inhabited

structure XRef where
  path : Option String := none
  c4 : Option String := none
  deriving Repr, DecidableEq, Inhabited

/-- `MHLHashList` -/
structure XGen where
  creator : XCreator := {}
  process : Option String := none
  rootHash : Option XRecord := none
  ignore : List String := []
  records : List XRecord := []
  refs : List XRef := []
  deriving Repr, DecidableEq, Inhabited

/-! ## writer -/

def optAttr (k : String) (v : Option String) : List (String × String) :=
  match v with
  | some x => [(k, x)]
  | none => []

/-- one format element of a `<hash>` / of `<content>` -/
def entryElem (e : XEntry) (text : Option String) : Elem :=
  .mk e.fmt (optAttr "action" e.action ++ optAttr "hashdate" e.hashdate) text []

def pathElem (r : XRecord) : Elem :=
  .mk "path" (optAttr "size" (r.size.map toString) ++ optAttr "lastmodificationdate" r.lastmod) (some r.path) []

def prevElems (r : XRecord) : List Elem :=
  match r.prev with
  | some p => [.mk "previousPath" [] (some p) []]
  | none => []

/-- `_media_hash_xml_element`: the format elements sorted by format name (stable) -/
def fileElem (r : XRecord) : Elem :=
  .mk "hash" [] none
    ([pathElem r] ++ (isort (fun a b => strLe a.fmt b.fmt) r.entries).map (fun e => entryElem e (some e.digest))
      ++ prevElems r)

/-- `_directory_hash_xml_element` -/
def dirElem (tag : String) (withPath : Bool) (r : XRecord) : Elem :=
  .mk tag [] none
    ((if withPath then [pathElem r] else []) ++
     [.mk "content" [] none (r.entries.map fun e => entryElem e (some e.digest)),
      .mk "structure" [] none (r.entries.map fun e => entryElem e e.shash)] ++ prevElems r)

def authorElem (a : XAuthor) : Elem :=
  .mk "author" (optAttr "role" a.role ++ optAttr "email" a.email ++ optAttr "phone" a.phone) a.name []

def creatorElem (c : XCreator) : Elem :=
  .mk "creatorinfo" [] none
    ([.mk "creationdate" [] c.creationdate [], .mk "hostname" [] c.hostname [],
      .mk "tool" (optAttr "version" c.toolVersion) c.toolName []]
     ++ c.authors.map authorElem
     ++ (match c.location with | some l => [.mk "location" [] (some l) []] | none => [])
     ++ (match c.comment with | some l => [.mk "comment" [] (some l) []] | none => []))

def processElem (g : XGen) : Elem :=
  .mk "processinfo" [] none
    ([.mk "process" [] g.process []]
     ++ (match g.rootHash with
         | some r => if r.entries.isEmpty then [] else [dirElem "roothash" false r]
         | none => [])
     ++ [.mk "ignore" [] none (g.ignore.map fun p => .mk "pattern" [] (some p) [])])

def refElem (r : XRef) : Elem :=
  .mk "hashlistreference" [] none [.mk "path" [] r.path [], .mk "c4" [] r.c4 []]

/-- `write_hash_list` (after the repair: no empty `<hashes>`) -/
def toXml (g : XGen) : Elem :=
  .mk "hashlist" [("version", "2.0")] none
    ([creatorElem g.creator, processElem g]
     ++ (if g.records.isEmpty then [] else
          [.mk "hashes" [] none (g.records.map fun r => if r.isDir then dirElem "directoryhash" true r else fileElem r)])
     ++ (if g.refs.isEmpty then [] else [.mk "references" [] none (g.refs.map refElem)]))

/-! ## events -/

inductive Event where
  | start (tag : String)
  | finish (tag : String) (attrs : List (String × String)) (text : Option String)
  deriving Repr, DecidableEq

mutual
/-- what `iterparse(events=("start","end"))` delivers; text of an element as read back from the file -/
def events : Elem → List Event
  | .mk t a x cs => [.start t] ++ eventsList cs ++ [.finish t a (normText x)]
def eventsList : List Elem → List Event
  | [] => []
  | c :: cs => events c ++ eventsList cs
end

/-! ## reader -/

/-- `current_object` -/
inductive Cur where
  | none
  | creator (c : XCreator)
  | process (proc : Option String) (root : Option XRecord)
  | ignoreSpec
  | media (r : XRecord)
  | ref (r : XRef)
  deriving Repr, Inhabited

structure PState where
  cur : Cur := .none
  stack : List Cur := []
  isStruct : Bool := false
  patterns : List String := []
  out : XGen := {}
  deriving Repr, Inhabited

def setLastAuthor (c : XCreator) (f : XAuthor → XAuthor) : XCreator :=
  match c.authors.reverse with
  | [] => c       -- the code would raise IndexError; an <author> start always precedes
  | a :: rest => { c with authors := (f a :: rest).reverse }

def isFormatTag (t : String) : Bool := Gen.supportedFormats.contains t

/-- `int(size)`: decimal digits only (the writer writes `str(int)`) -/
def parseNat (s : String) : Option Nat :=
  if s.isEmpty || !s.toList.all (fun c => '0' ≤ c && c ≤ '9') then none
  else some (s.toList.foldl (fun r c => r * 10 + (c.toNat - 48)) 0)

def startStep (s : PState) (tag : String) : PState :=
  -- a new container?
  let cur : Cur := match s.cur with
    | .none =>
      if tag == "creatorinfo" then .creator {}
      else if tag == "processinfo" then .process none none
      else if tag == "hash" then .media { path := "" }
      else if tag == "directoryhash" then .media { path := "", isDir := true }
      else if tag == "hashlistreference" then .ref {}
      else .none
    | c => c
  match cur with
  | .process p r =>
    if tag == "ignore" then { s with cur := .ignoreSpec, stack := .process p r :: s.stack }
    else if tag == "roothash" then { s with cur := .media { path := "", isDir := true }, stack := .process p r :: s.stack }
    else { s with cur := cur }
  | .creator c =>
    if tag == "author" then { s with cur := .creator { c with authors := c.authors ++ [{}] } }
    else { s with cur := cur }
  | .media _ =>
    if tag == "structure" then { s with cur := cur, isStruct := true }
    else if tag == "content" then { s with cur := cur, isStruct := false }
    else { s with cur := cur }
  | _ => { s with cur := cur }

def popStack (s : PState) : Cur × List Cur :=
  match s.stack with
  | c :: rest => (c, rest)
  | [] => (.none, [])

def endStep (s : PState) (tag : String) (attrs : List (String × String)) (text : Option String) : PState :=
  match s.cur with
  | .none => s
  | .creator c =>
    if tag == "creationdate" then { s with cur := .creator { c with creationdate := text } }
    else if tag == "tool" then { s with cur := .creator { c with toolName := text, toolVersion := alookup "version" attrs } }
    else if tag == "hostname" then { s with cur := .creator { c with hostname := text } }
    else if tag == "location" then { s with cur := .creator { c with location := text } }
    else if tag == "comment" then { s with cur := .creator { c with comment := text } }
    else if tag == "creatorinfo" then { s with cur := .none, out := { s.out with creator := c } }
    else if tag == "author" then
      { s with cur := .creator (setLastAuthor c fun a =>
          { name := a.name.orElse fun _ => text,
            role := a.role.orElse fun _ => alookup "role" attrs,
            email := a.email.orElse fun _ => alookup "email" attrs,
            phone := a.phone.orElse fun _ => alookup "phone" attrs }) }
    else if tag == "name" then { s with cur := .creator (setLastAuthor c fun a => { a with name := text }) }
    else if tag == "role" then { s with cur := .creator (setLastAuthor c fun a => { a with role := text }) }
    else if tag == "email" then { s with cur := .creator (setLastAuthor c fun a => { a with email := text }) }
    else if tag == "phone" then { s with cur := .creator (setLastAuthor c fun a => { a with phone := text }) }
    else s
  | .process p r =>
    if tag == "process" then { s with cur := .process text r }
    else if tag == "processinfo" then
      { s with cur := .none, out := { s.out with process := p, rootHash := r } }
    else s
  | .ignoreSpec =>
    if tag == "pattern" then { s with patterns := s.patterns ++ [text.getD ""] }
    else if tag == "ignore" then let (c, rest) := popStack s; { s with cur := c, stack := rest }
    else { s with cur := .none }
  | .media r =>
    if tag == "path" then
      { s with cur := .media { r with path := text.getD "", size := (alookup "size" attrs).bind parseNat } }
    else if isFormatTag tag then
      if r.isDir then
        if !s.isStruct then
          { s with cur := .media { r with entries := r.entries ++
              [{ fmt := tag, digest := text.getD "", action := alookup "action" attrs, hashdate := alookup "hashdate" attrs }] } }
        else
          -- find the entry of this format (first match) and set its structure hash
          let rec setFirst : List XEntry → List XEntry
            | [] => []
            | e :: es => if e.fmt == tag then { e with shash := text } :: es else e :: setFirst es
          { s with cur := .media { r with entries := setFirst r.entries } }
      else
        { s with cur := .media { r with entries := r.entries ++
            [{ fmt := tag, digest := text.getD "", action := alookup "action" attrs, hashdate := alookup "hashdate" attrs }] } }
    else if tag == "hash" || tag == "directoryhash" then
      -- `append_hash`: a record whose path is "." becomes the root hash
      if r.path == "." then { s with cur := .none, out := { s.out with rootHash := some r } }
      else { s with cur := .none, out := { s.out with records := s.out.records ++ [r] } }
    else if tag == "roothash" then
      let root := { r with isDir := true, path := "." }
      let (c, rest) := popStack s
      match c with
      | .process p _ => { s with cur := .process p (some root), stack := rest }
      | other => { s with cur := other, stack := rest }
    else if tag == "previousPath" then { s with cur := .media { r with prev := text } }
    else s
  | .ref r =>
    if tag == "path" then { s with cur := .ref { r with path := text } }
    else if tag == "c4" then { s with cur := .ref { r with c4 := text } }
    else if tag == "hashlistreference" then { s with cur := .none, out := { s.out with refs := s.out.refs ++ [r] } }
    else s

def step (s : PState) : Event → PState
  | .start t => startStep s t
  | .finish t a x => endStep s t a x

/-- `hashlist_xml_parser.parse`: fold over the events; at the end the collected patterns become the ignore spec
(`MHLIgnoreSpec(existing_ignore_patterns)`: no patterns ⇒ the defaults) -/
def parseEvents (evs : List Event) : XGen :=
  let s := evs.foldl step {}
  { s.out with ignore := setPatterns (some s.patterns) [] [] }

def parse (e : Elem) : XGen := parseEvents (events e)

/-- the documented representation shift between what was written and what the reader returns -/
def norm (g : XGen) : XGen :=
  let nrec (r : XRecord) : XRecord :=
    { r with lastmod := none,
             entries := if r.isDir then r.entries else isort (fun a b => strLe a.fmt b.fmt) r.entries }
  { g with
    rootHash := (g.rootHash.bind fun r => if r.entries.isEmpty then none else
      some { (nrec r) with path := ".", isDir := true, size := none }),
    ignore := setPatterns (some g.ignore) [] [],
    records := g.records.map nrec }

/-! ## chain file -/

structure XChainEntry where
  seq : Option String := none
  path : Option String := none
  fmt : Option String := none
  digest : Option String := none
  deriving Repr, DecidableEq, Inhabited

def chainEntryElem (c : XChainEntry) : Elem :=
  .mk "hashlist" (optAttr "sequencenr" c.seq) none
    [.mk "path" [] c.path [], .mk (c.fmt.getD "c4") [] c.digest []]

def chainToXml (cs : List XChainEntry) : Elem := .mk "ascmhldirectory" [] none (cs.map chainEntryElem)

structure CState where
  cur : Option XChainEntry := none
  out : List XChainEntry := []
  deriving Repr, Inhabited

def chainStep (s : CState) : Event → CState
  | .start t => match s.cur with
    | none => if t == "hashlist" then { s with cur := some {} } else s
    | some _ => s
  | .finish t a x => match s.cur with
    | none => s
    | some c =>
      if t == "path" then { s with cur := some { c with path := x } }
      else if isFormatTag t then { s with cur := some { c with fmt := some t, digest := x } }
      else if t == "hashlist" then { s with cur := none, out := s.out ++ [{ c with seq := alookup "sequencenr" a }] }
      else s

def parseChain (e : Elem) : List XChainEntry := ((events e).foldl chainStep {}).out

end MhlModel.Xml
