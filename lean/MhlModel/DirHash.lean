/-
The compositional definition of directory hashes (the SPECIFICATION side of C07).

  content hash of a directory   = H( concat( sort( content digests of its visible children ) decoded ) )
  structure hash of a directory = H( concat( sort( H( utf8(child name) ++ decoded(bind digest of the child) ) ) decoded ) )

where the content digest of a file is the digest of its bytes, of a sub-directory its content hash; the bind digest of a
file is the digest of its bytes, of a sub-directory its STRUCTURE hash.  Children are the entries that the ignore
patterns do not exclude.  The implementation-shaped computation (per-folder contexts filled while folding over the
post-order traversal) is `createVisit` / `verifyDh` in Commands.lean.
-/
import MhlModel.Seal

namespace MhlModel

/-- name, content digest, bind digest of one child -/
structure KidHash where
  name : String
  content : String
  bind : String
  deriving Repr, DecidableEq

/-- the string that enters the parent's structure list for a child -/
def bindName (H : HashFn) (D : DecodeFn) (fmt : String) (k : KidHash) : String :=
  H fmt (k.name.toUTF8.toList ++ (D fmt k.bind).getD [])

mutual
/-- (content digest, bind digest) of a node located at path `here` (relative to the traversal root) -/
def nodeHashes (H : HashFn) (D : DecodeFn) (fmt : String) (hit : RelPath → Bool) (here : RelPath) :
    Node → String × String
  | .file _ c => (H fmt c, H fmt c)
  | .dir _ cs _ =>
    let vis := (kidHashes H D fmt hit here cs).filter fun k => !hit (here ++ [k.name])
    (hashOfList H D fmt (vis.map (·.content)), hashOfList H D fmt (vis.map (bindName H D fmt)))
def kidHashes (H : HashFn) (D : DecodeFn) (fmt : String) (hit : RelPath → Bool) (here : RelPath) :
    List Node → List KidHash
  | [] => []
  | c :: cs =>
    let h := nodeHashes H D fmt hit (here ++ [c.name]) c
    ⟨c.name, h.1, h.2⟩ :: kidHashes H D fmt hit here cs
end

/-- the directory hashes the specification assigns to the directory at `p` below the root `t` -/
def specDirHash (H : HashFn) (D : DecodeFn) (fmt : String) (hit : RelPath → Bool) (t : Node) (p : RelPath) :
    Option (String × String) :=
  match t.at? p with
  | some (.dir n cs h) => some (nodeHashes H D fmt hit p (.dir n cs h))
  | _ => none

def Node.rename (n' : String) : Node → Node
  | .file _ c => .file n' c
  | .dir _ cs h => .dir n' cs h

end MhlModel
