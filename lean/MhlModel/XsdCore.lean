/-
A generic validator of element trees against the content models of an XML Schema (the subset the two ASC MHL schemas
use).  The schemas themselves are regenerated from the .xsd files into Gen/Xsd.lean.

Content models are matched greedily, left to right; for the deterministic content models XML Schema requires
(unique particle attribution) greedy matching is complete.  Namespaces are not modelled (every element of a written
file is in the file's default namespace).
-/
import MhlModel.Xml

namespace MhlModel.Xsd
open MhlModel.Xml

inductive SimpleType where
  | base (name : String)          -- string | integer | dateTime | …
  | enum (vals : List String)
  | pattern (re : String)
  deriving Repr, DecidableEq

inductive Particle where
  | elem (name : String) (type : String) (min : Nat) (max : Option Nat)
  | seq (ps : List Particle) (min : Nat) (max : Option Nat)
  | choice (ps : List Particle) (min : Nat) (max : Option Nat)
  deriving Repr

structure AttrDecl where
  name : String
  type : String
  required : Bool
  fixed : Option String
  deriving Repr, DecidableEq

inductive TypeDef where
  | simple (t : SimpleType)
  | complex (p : Particle) (attrs : List AttrDecl)
  | simpleContent (base : String) (attrs : List AttrDecl)
  | any
  deriving Repr

structure Schema where
  rootName : String
  rootType : String
  types : List (String × TypeDef)
  deriving Repr

/-! ### lexical spaces -/

def isDigitC (c : Char) : Bool := '0' ≤ c && c ≤ '9'

/-- xs:integer: optional sign, at least one digit -/
def isInteger (s : String) : Bool :=
  let cs := s.toList
  let body := match cs with
    | '+' :: r => r
    | '-' :: r => r
    | r => r
  !body.isEmpty && body.all isDigitC

def num2 (a b : Char) : Nat := (a.toNat - 48) * 10 + (b.toNat - 48)

/-- timezone suffix: empty, Z, or (+|-)hh:mm with hh ≤ 14 -/
def isTz : List Char → Bool
  | [] => true
  | ['Z'] => true
  | [s, h1, h2, ':', m1, m2] =>
    (s == '+' || s == '-') && isDigitC h1 && isDigitC h2 && isDigitC m1 && isDigitC m2 &&
      (num2 h1 h2 < 14 || (num2 h1 h2 == 14 && num2 m1 m2 == 0)) && num2 m1 m2 < 60
  | _ => false

/-- xs:dateTime: -?YYYY-MM-DDThh:mm:ss(.s+)?(zzzzzz)? (4-digit years suffice here) -/
def isDateTime (s : String) : Bool :=
  let cs := match s.toList with
    | '-' :: r => r
    | r => r
  match cs with
  | y1 :: y2 :: y3 :: y4 :: '-' :: mo1 :: mo2 :: '-' :: d1 :: d2 :: 'T' :: h1 :: h2 :: ':' :: mi1 :: mi2 :: ':' :: s1 :: s2 :: rest =>
    [y1, y2, y3, y4, mo1, mo2, d1, d2, h1, h2, mi1, mi2, s1, s2].all isDigitC &&
    1 ≤ num2 mo1 mo2 && num2 mo1 mo2 ≤ 12 && 1 ≤ num2 d1 d2 && num2 d1 d2 ≤ 31 &&
    num2 h1 h2 ≤ 23 && num2 mi1 mi2 ≤ 59 && num2 s1 s2 ≤ 59 &&
    (match rest with
     | '.' :: fr =>
       let digits := fr.takeWhile isDigitC
       !digits.isEmpty && isTz (fr.dropWhile isDigitC)
     | r => isTz r)
  | _ => false

/-! a small regular-expression matcher for the pattern facets: literals, `.`, escapes `\x`, classes `[^…]`/`[…]`, each
optionally followed by `+` or `*`; anchored at both ends as XSD patterns are -/

inductive Atom where
  | any
  | lit (c : Char)
  | cls (neg : Bool) (cs : List Char)
  deriving Repr, DecidableEq

def Atom.matches : Atom → Char → Bool
  | .any, c => c != '\n'
  | .lit x, c => x == c
  | .cls neg cs, c => cs.contains c != neg

/-- (atom, min, unbounded?) -/
abbrev Piece := Atom × Nat × Bool

def parseClass : List Char → List Char × List Char
  | [] => ([], [])
  | ']' :: r => ([], r)
  | '\\' :: c :: r => let (cs, rest) := parseClass r; (c :: cs, rest)
  | c :: r => let (cs, rest) := parseClass r; (c :: cs, rest)

def parseRegex (fuel : Nat) (cs : List Char) : List Piece :=
  match fuel with
  | 0 => []
  | fuel + 1 =>
    let (atom, rest) : Option Atom × List Char := match cs with
      | [] => (none, [])
      | '.' :: r => (some .any, r)
      | '\\' :: c :: r => (some (.lit c), r)
      | '[' :: '^' :: r => let (k, rest) := parseClass r; (some (.cls true k), rest)
      | '[' :: r => let (k, rest) := parseClass r; (some (.cls false k), rest)
      | c :: r => (some (.lit c), r)
    match atom with
    | none => []
    | some a =>
      match rest with
      | '+' :: r => (a, 1, true) :: parseRegex fuel r
      | '*' :: r => (a, 0, true) :: parseRegex fuel r
      | r => (a, 1, false) :: parseRegex fuel r

/-- backtracking match of the pieces against the whole string -/
def matchPieces : List Piece → List Char → Bool
  | [], s => s.isEmpty
  | (a, mn, unb) :: ps, s =>
    if unb then
      -- consume k ≥ mn matching characters, try every k (longest first is not needed for a Bool)
      let rec go (fuel : Nat) (k : Nat) (s : List Char) : Bool :=
        match fuel with
        | 0 => false
        | fuel + 1 =>
          (k ≥ mn && matchPieces ps s) ||
          (match s with
           | c :: t => a.matches c && go fuel (k + 1) t
           | [] => false)
      go (s.length + 1) 0 s
    else
      match s with
      | c :: t => a.matches c && matchPieces ps t
      | [] => false

def matchesPattern (re s : String) : Bool := matchPieces (parseRegex (re.length + 1) re.toList) s.toList

def validSimple (t : SimpleType) (s : String) : Bool :=
  match t with
  | .base "integer" => isInteger s
  | .base "dateTime" => isDateTime s
  | .base _ => true
  | .enum vs => vs.contains s
  | .pattern re => matchesPattern re s

def lookupType (sch : Schema) (n : String) : Option TypeDef := alookup n sch.types

/-- text validity for a type name that denotes a simple type (builtin or named); complex names accept any text -/
def validText (sch : Schema) (ty : String) (s : String) : Bool :=
  match lookupType sch ty with
  | some (.simple t) => validSimple t s
  | some _ => true
  | none => validSimple (.base ty) s

def validAttrs (sch : Schema) (decls : List AttrDecl) (attrs : List (String × String)) : Bool :=
  attrs.all (fun (k, v) =>
    match decls.find? (fun d => d.name == k) with
    | some d => validText sch d.type v && (match d.fixed with | some f => f == v | none => true)
    | none => false) &&
  decls.all (fun d => !d.required || attrs.any (fun a => a.1 == d.name)) &&
  (attrs.map (·.1)).eraseDups.length == attrs.length

/-- no text, or white space only -/
def isBlank (t : Option String) : Bool :=
  match t with
  | none => true
  | some s => s.toList.all fun c => c == ' ' || c == '\n' || c == '\t' || c == '\r'

mutual
/-- is `e` a valid element of type `ty`? -/
def validElem (fuel : Nat) (sch : Schema) (ty : String) (e : Elem) : Bool :=
  match fuel with
  | 0 => false
  | fuel + 1 =>
    match lookupType sch ty with
    | some .any => true
    | some (.simple t) => e.children.isEmpty && e.attrs.isEmpty && validSimple t ((e.text).getD "")
    | some (.simpleContent base attrs) =>
      e.children.isEmpty && validAttrs sch attrs e.attrs && validText sch base ((e.text).getD "")
    | some (.complex p attrs) =>
      -- element-only content: no character data other than white space
      isBlank e.text && validAttrs sch attrs e.attrs && (match matchParticle fuel sch p e.children with
        | some [] => true
        | _ => false)
    | none => e.children.isEmpty && e.attrs.isEmpty && validSimple (.base ty) ((e.text).getD "")

/-- consume a prefix of the children that matches the particle (greedy); `none` = no match -/
def matchParticle (fuel : Nat) (sch : Schema) (p : Particle) (cs : List Elem) : Option (List Elem) :=
  match fuel with
  | 0 => none
  | fuel + 1 =>
    match p with
    | .elem name ty mn mx => matchRepeat fuel sch (fun cs => match cs with
        | c :: rest => if c.tag == name && validElem fuel sch ty c then some rest else none
        | [] => none) mn mx cs 0
    | .seq ps mn mx => matchRepeat fuel sch (fun cs => matchSeq fuel sch ps cs) mn mx cs 0
    | .choice ps mn mx => matchRepeat fuel sch (fun cs => matchChoice fuel sch ps cs) mn mx cs 0

def matchSeq (fuel : Nat) (sch : Schema) (ps : List Particle) (cs : List Elem) : Option (List Elem) :=
  match fuel with
  | 0 => none
  | fuel + 1 =>
    match ps with
    | [] => some cs
    | p :: rest =>
      match matchParticle fuel sch p cs with
      | some cs' => matchSeq fuel sch rest cs'
      | none => none

def matchChoice (fuel : Nat) (sch : Schema) (ps : List Particle) (cs : List Elem) : Option (List Elem) :=
  match fuel with
  | 0 => none
  | fuel + 1 =>
    match ps with
    | [] => none
    | p :: rest =>
      match matchParticle fuel sch p cs with
      | some cs' => if cs'.length < cs.length then some cs' else matchChoice fuel sch rest cs
      | none => matchChoice fuel sch rest cs

/-- repeat `one` greedily between `mn` and `mx` times (an iteration must consume something to be repeated) -/
def matchRepeat (fuel : Nat) (sch : Schema) (one : List Elem → Option (List Elem)) (mn : Nat) (mx : Option Nat)
    (cs : List Elem) (done : Nat) : Option (List Elem) :=
  match fuel with
  | 0 => none
  | fuel + 1 =>
    let atMax : Bool := match mx with | some m => decide (done ≥ m) | none => false
    if atMax then some cs
    else
      match one cs with
      | some cs' =>
        if cs'.length < cs.length then matchRepeat fuel sch one mn mx cs' (done + 1)
        else if done + 1 ≥ mn then some cs' else matchRepeat fuel sch one mn mx cs' (done + 1)
      | none => if done ≥ mn then some cs else none
end

/-- size of a tree, used as fuel -/
def Elem.size : Elem → Nat
  | .mk _ _ _ cs => 1 + sizeList cs
where sizeList : List Elem → Nat
  | [] => 0
  | c :: cs => Elem.size c + sizeList cs

/-- the document is valid: root element name and type -/
def validate (sch : Schema) (e : Elem) : Bool :=
  e.tag == sch.rootName && validElem (8 * Elem.size e + 64) sch sch.rootType e

end MhlModel.Xsd
