/-
Text codecs of digests: lower-case hex (`HexHasher`) and the C4 base-58 rendering of SHA-512 (`C4`).
Every numeric parameter comes from `Gen.Consts`, i.e. from the current source.
-/
import MhlModel.Basic
import MhlModel.Gen.Consts

namespace MhlModel.Codec

/-! ## big-endian bytes ↔ natural numbers (`int(hexdigest, 16)`, `int.to_bytes(n, "big")`) -/

def ofBytesBE (b : Bytes) : Nat := b.foldl (fun r x => r * 256 + x.toNat) 0

/-- least significant first -/
def toBytesLE : Nat → Nat → Bytes
  | 0, _ => []
  | k + 1, n => UInt8.ofNat (n % 256) :: toBytesLE k (n / 256)

def toBytesBE (k n : Nat) : Bytes := (toBytesLE k n).reverse

/-! ## hex -/

def hexChars : List Char := "0123456789abcdef".toList

def hexDigit (n : Nat) : Char := hexChars.getD n '0'

def hexVal (c : Char) : Option Nat :=
  if '0' ≤ c ∧ c ≤ '9' then some (c.toNat - 48)
  else if 'a' ≤ c ∧ c ≤ 'f' then some (c.toNat - 87)
  else if 'A' ≤ c ∧ c ≤ 'F' then some (c.toNat - 55)   -- binascii.unhexlify accepts upper case too
  else none

def hexOfBytes (b : Bytes) : List Char :=
  b.flatMap fun x => [hexDigit (x.toNat / 16), hexDigit (x.toNat % 16)]

/-- `binascii.unhexlify`: `none` stands for `binascii.Error` (odd length or a non-hex character) -/
def unhex : List Char → Option Bytes
  | [] => some []
  | [_] => none
  | a :: b :: rest =>
    match hexVal a, hexVal b, unhex rest with
    | some x, some y, some r => some (UInt8.ofNat (x * 16 + y) :: r)
    | _, _, _ => none

/-! ## C4 -/

def c4Alphabet : List Char := Gen.c4Charset.toList

/-- the `while hash_value != 0` loop, least significant digit first -/
def digitsRev (base : Nat) (n : Nat) : List Nat :=
  if _h : n = 0 ∨ base < 2 then [] else (n % base) :: digitsRev base (n / base)
termination_by n
decreasing_by
  have : 2 ≤ base := by omega
  exact Nat.div_lt_self (by omega) this

def digits (base n : Nat) : List Nat := (digitsRev base n).reverse

/-- `str.rjust(w, z)` -/
def rjust {α : Type} (w : Nat) (z : α) (l : List α) : List α := List.replicate (w - l.length) z ++ l

def c4ZeroChar : Char := Gen.c4EncZero.toList.headD '1'

/-- `C4.string_digest` applied to the integer value of the SHA-512 digest -/
def c4EncodeNat (n : Nat) : List Char :=
  Gen.c4Prefix.toList ++
    rjust (Gen.c4EncLength - Gen.c4PrefixLen) c4ZeroChar ((digits Gen.c4EncBase n).map fun d => c4Alphabet.getD d '?')

def c4OfBytes (digest : Bytes) : List Char := c4EncodeNat (ofBytesBE digest)

/-- `C4.charset.index(ch)`; `none` stands for `ValueError` -/
def c4Index (c : Char) : Option Nat :=
  let i := c4Alphabet.idxOf c
  if i < c4Alphabet.length then some i else none

/-- one iteration of the decode loop: `result = result * base58 + charset.index(ch)` -/
def c4Step (r : Option Nat) (c : Char) : Option Nat :=
  match r, c4Index c with
  | some r, some d => some (r * Gen.c4DecBase + d)
  | _, _ => none

/-- the decode loop over positions `c4DecStart .. c4DecLength-1`; `none` stands for `IndexError` (string too
short) or `ValueError` (character outside the alphabet) -/
def c4DecodeNat (s : List Char) : Option Nat :=
  if s.length < Gen.c4DecLength then none
  else ((s.take Gen.c4DecLength).drop Gen.c4DecStart).foldl c4Step (some 0)

/-- `C4.bytes_from_string_digest`; additionally `none` for `OverflowError` of `to_bytes` -/
def c4ToBytes (s : List Char) : Option Bytes :=
  match c4DecodeNat s with
  | some n => if n < 256 ^ Gen.c4DecBytes then some (toBytesBE Gen.c4DecBytes n) else none
  | none => none

/-! ## dispatch on the codec named in `Gen.hashTable` -/

inductive CodecKind where | hex | c4
  deriving DecidableEq, Repr

def codecOfFormat (fmt : String) : Option CodecKind :=
  match Gen.hashTable.find? (fun t => t.1 == fmt) with
  | some (_, _, "hex") => some .hex
  | some (_, _, "c4") => some .c4
  | _ => none

/-- `string_digest()` for a raw digest -/
def encodeDigest (k : CodecKind) (digest : Bytes) : String :=
  match k with
  | .hex => String.ofList (hexOfBytes digest)
  | .c4 => String.ofList (c4OfBytes digest)

/-- `bytes_from_string_digest` -/
def decodeDigest (k : CodecKind) (s : String) : Option Bytes :=
  match k with
  | .hex => unhex s.toList
  | .c4 => c4ToBytes s.toList

end MhlModel.Codec
