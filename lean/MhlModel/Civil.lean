/-
Civil-date rendering behind the manifest file names and the ISO dates.

ascmhl names a manifest `NNNN_<folder>_<stamp>Z.mhl` with stamp = `datetime.utcnow().strftime("%Y-%m-%d_%H%M%S")`
and writes dates as `YYYY-MM-DDTHH:MM:SS+HH:MM` (local wall-clock fields plus the UTC offset).  `MhlModel/Time.lean`
models the zone logic on plain second counts; this file is the step from a count of seconds to the calendar fields:
the proleptic Gregorian calendar after Howard Hinnant's `civil_from_days` / `days_from_civil`.

ROUNDING.  In Lean 4 core `/` and `%` on `Int` are `Int.ediv` / `Int.emod` (Euclidean): `(-7 : Int) / 2 = -4`,
`(-7 : Int) % 2 = 1`.  For a POSITIVE divisor Euclidean division is floor division (`Int.ediv = Int.fdiv` there) and
the remainder is in `[0, divisor)`.  Every divisor below is a positive literal, so `/` and `%` are used deliberately
as floor division / non-negative remainder; that is what makes negative day counts (dates before 1970) and negative
second counts work (`Int.tdiv`, which rounds toward zero as C does, would be wrong here and is the reason Hinnant's C
code needs the `z >= 0 ? z : z - 146096` correction, which is NOT needed with floor division).  `omega` understands
`/` and `%` by literals.
-/
import MhlModel.Time

namespace MhlModel.Civil

open MhlModel.Time (pad2 offsetText)

/-- Gregorian leap year (proleptic, astronomical year numbering: year 0 is a leap year) -/
def isLeap (y : Int) : Bool := y % 4 == 0 && (y % 100 != 0 || y % 400 == 0)

/-- length of month `m` (1..12) of year `y`; 0 for a month number out of range -/
def daysInMonth (y : Int) (m : Nat) : Nat :=
  match m with
  | 1 => 31 | 2 => if isLeap y then 29 else 28 | 3 => 31 | 4 => 30 | 5 => 31 | 6 => 30
  | 7 => 31 | 8 => 31 | 9 => 30 | 10 => 31 | 11 => 30 | 12 => 31
  | _ => 0

/-- days since 1970-01-01 ↦ (year, month 1..12, day 1..31).  Hinnant's `civil_from_days`: the count is shifted to
0000-03-01 (719468 days before the epoch), split into 400-year eras of 146097 days, and the year is counted from
March so that the leap day is the last day of the year. -/
def civilFromDays (z : Int) : Int × Nat × Nat :=
  let z := z + 719468
  let era := z / 146097                                             -- floor
  let doe := z - era * 146097                                       -- day of era, 0 .. 146096
  let yoe := (doe - doe / 1460 + doe / 36524 - doe / 146096) / 365  -- year of era, 0 .. 399
  let y := yoe + era * 400
  let doy := doe - (365 * yoe + yoe / 4 - yoe / 100)                -- day of the March-based year, 0 .. 365
  let mp := (5 * doy + 2) / 153                                     -- March-based month, 0 .. 11
  let d := doy - (153 * mp + 2) / 5 + 1                             -- 1 .. 31
  let m := if mp < 10 then mp + 3 else mp - 9                       -- 1 .. 12
  (if m ≤ 2 then y + 1 else y, m.toNat, d.toNat)

/-- (year, month, day) ↦ days since 1970-01-01.  Hinnant's `days_from_civil`. -/
def daysFromCivil (y : Int) (m d : Nat) : Int :=
  let y := if m ≤ 2 then y - 1 else y
  let era := y / 400                                                -- floor
  let yoe := y - era * 400                                          -- 0 .. 399
  let mp : Int := if m > 2 then (m : Int) - 3 else (m : Int) + 9
  let doy := (153 * mp + 2) / 5 + (d : Int) - 1
  let doe := yoe * 365 + yoe / 4 - yoe / 100 + doy
  era * 146097 + doe - 719468

/-- second of the day (0 ≤ s < 86400) ↦ (hour, minute, second) -/
def hms (s : Int) : Nat × Nat × Nat := ((s / 3600).toNat, (s % 3600 / 60).toNat, (s % 60).toNat)

/-- the year as `%Y` prints it: zero padded to 4 digits.  Faithful to Python/glibc for 1000 ≤ y ≤ 9999 (glibc does
not pad years below 1000; `datetime.isoformat` does).  A negative year gets a leading '-' (never reached by the tool,
`datetime` only knows the years 1..9999). -/
def pad4 (y : Int) : String :=
  let n := y.natAbs
  (if y < 0 then "-" else "") ++
    (if n < 10 then "000" else if n < 100 then "00" else if n < 1000 then "0" else "") ++ toString n

/-- the six calendar fields of a count of seconds: (year, month, day, hour, minute, second); day count =
floor(t / 86400), second of the day = t mod 86400 (non-negative), so that negative counts work -/
def fields (t : Int) : Int × Nat × Nat × Nat × Nat × Nat :=
  let c := civilFromDays (t / 86400)
  let h := hms (t % 86400)
  (c.1, c.2.1, c.2.2, h.1, h.2.1, h.2.2)

/-- `strftime("%Y-%m-%d_%H%M%S")` of the UTC instant `t` seconds after the epoch -/
def stampOfEpoch (t : Int) : String :=
  let f := fields t
  pad4 f.1 ++ "-" ++ pad2 f.2.1 ++ "-" ++ pad2 f.2.2.1 ++ "_" ++ pad2 f.2.2.2.1 ++ pad2 f.2.2.2.2.1 ++ pad2 f.2.2.2.2.2

/-- `isoformat()` of an aware date without microseconds: the wall-clock fields of the LOCAL second count followed by
the UTC offset -/
def isoOfLocal (localSecs : Int) (off : Int) : String :=
  let f := fields localSecs
  pad4 f.1 ++ "-" ++ pad2 f.2.1 ++ "-" ++ pad2 f.2.2.1 ++ "T" ++ pad2 f.2.2.2.1 ++ ":" ++ pad2 f.2.2.2.2.1 ++ ":" ++
    pad2 f.2.2.2.2.2 ++ offsetText off

end MhlModel.Civil
