/-
Basic types shared by all layers of the model of ascmitc/mhl.
Model files import nothing beyond core Lean (so that the driver can run them with `lean --run`).
-/
namespace MhlModel

abbrev Bytes := List UInt8

/-- How a command ends when it does not end normally.  `exit n` is a `click.ClickException` with that exit
code (the codes are in `Gen.exitCodes`); `internal k` is an uncaught Python exception of class `k`
(process exit status 1).  "Never aborts with an internal error" is a statement about this type. -/
inductive Err where
  | exit (code : Nat)
  | internal (kind : String)
  deriving Repr, DecidableEq, Inhabited

/-- last-write-wins lookup in an association list that models a Python dict which is only inserted into -/
def alookup {α : Type} [DecidableEq κ] (k : κ) : List (κ × α) → Option α
  | [] => none
  | (k', v) :: rest => if k' = k then some v else alookup k rest

/-- `d[k] = v` on an insertion-ordered dict -/
def ainsert {α : Type} [DecidableEq κ] (k : κ) (v : α) : List (κ × α) → List (κ × α)
  | [] => [(k, v)]
  | (k', v') :: rest => if k' = k then (k', v) :: rest else (k', v') :: ainsert k v rest

/-- insertion sort with an explicit `≤` test; Python's `list.sort()` / `sorted` is stable and so is this -/
def insertSorted {α : Type} (le : α → α → Bool) (a : α) : List α → List α
  | [] => [a]
  | x :: xs => if le a x then a :: x :: xs else x :: insertSorted le a xs

def isort {α : Type} (le : α → α → Bool) : List α → List α
  | [] => []
  | x :: xs => insertSorted le x (isort le xs)

/-- `x not in l`-guarded append, the idiom of `MHLIgnoreSpec._append_patterns_list` and of every
"do not permit duplicate entries" loop in commands.py -/
def appendNew {α : Type} [DecidableEq α] (l : List α) (x : α) : List α :=
  if x ∈ l then l else l ++ [x]

end MhlModel
