def hello := "world"
