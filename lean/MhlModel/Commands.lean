/-
The commands (ascmhl/commands.py): create (folder / -sf / -n / -dr / -i), verify, verify -sf, verify -dh, diff,
flatten, info.  Each takes the tree (with the structured content of its `ascmhl` folders) and returns what is
observable: how it ends, which paths it reports in which category, and the generations it writes.
-/
import MhlModel.Seal

namespace MhlModel

/-- the parameters shared by all commands -/
structure Env where
  H : HashFn
  D : DecodeFn
  hit : Matcher
  /-- name of the folder the command is run on (`os.path.basename(os.path.normpath(root_path))`) -/
  rootName : String
  /-- UTC stamp for file names (`%Y-%m-%d_%H%M%SZ` of now) -/
  stamp : String := "1970-01-01_000000Z"

structure Report where
  mismatch : List String := []
  missing : List String := []
  new : List String := []
  renamed : List (String × String) := []
  dirMismatch : List String := []
  lines : List String := []
  deriving Repr, Inhabited

structure Outcome where
  err : Option Err := none
  report : Report := {}
  written : List Written := []
  deriving Repr, Inhabited

def Outcome.exitCode (o : Outcome) : Nat :=
  match o.err with
  | none => 0
  | some (.exit n) => n
  | some (.internal _) => 1

/-! ## expected paths -/

/-- per history: paths (relative to the command root) expected to exist: for every generation in order, drop the
previous paths of its renamed records, then add all its record paths (`set_of_expected_file_paths`) -/
def expectedOfGens (root : RelPath) (gens : List LGen) : List RelPath :=
  gens.foldl (fun acc g =>
    let prevs := g.gen.records.filterMap fun r => r.prev.map fun p => root ++ splitPath p
    let acc := acc.filter fun p => !prevs.contains p
    g.gen.records.foldl (fun a r => appendNew a (root ++ splitPath r.path)) acc) []

def expectedPaths (h : Hist) : List RelPath :=
  (h :: allDescendants h).foldl (fun acc x => (expectedOfGens x.root x.gens).foldl appendNew acc) []

/-- a path is excluded when the path itself or one of the folders above it is matched: the traversal never descends
into a matched folder (`is_ignored` in `test_for_missing_files`) -/
def hitAbove (hit : RelPath → Bool) (p : RelPath) : Bool :=
  (List.range p.length).any fun i => hit (p.take (i + 1))

/-- `test_for_missing_files`: the not-found paths that are not excluded (relative to the root) -/
def missingAfter (hit : RelPath → Bool) (notFound : List RelPath) : List RelPath :=
  notFound.filter fun p => !hitAbove hit p

def fileContent (t : Node) (p : RelPath) : Bytes :=
  match t.at? p with
  | some (.file _ c) => c
  | _ => []

/-! ## create (folder mode) -/

structure CreateOpts where
  formats : List String := [Gen.defaultFormat]
  noDirHashes : Bool := false
  detectRenaming : Bool := false
  ignoreCli : List String := []
  ignoreFile : List String := []
  singleFiles : List RelPath := []
  deriving Repr, Inhabited

/-- state threaded through the traversal of `create_for_folder_subcommand` -/
structure CreateState where
  session : Session
  failed : Nat := 0
  mismatch : List String := []
  found : List RelPath := []
  newPaths : List RelPath := []
  /-- folder ↦ format ↦ (content, structure) of the already finished sub-folders -/
  dirHashes : List (RelPath × List (String × String × String)) := []
  deriving Inhabited

def isNewPath (rootHist : Hist) (p : RelPath) : Bool :=
  rootHist.gens.any fun g => !(g.gen.records.any fun r => r.path == posix p)

def createVisit (env : Env) (t : Node) (rootHist : Hist) (fmts : List String) (noDir : Bool)
    (st : CreateState) (v : Visit) : CreateState :=
  let ctx0 : List (String × DirCtx) := if noDir then [] else (fmts.foldl (fun a f => ainsert f ({} : DirCtx) a) [])
  let (st, ctx) := v.children.foldl (fun (acc : CreateState × List (String × DirCtx)) ch =>
      let (st, ctx) := acc
      let p := v.folder ++ [ch.1]
      let st := { st with found := st.found ++ [p],
                          newPaths := if isNewPath rootHist p then appendNew st.newPaths p else st.newPaths }
      if ch.2 then
        if noDir then (st, ctx)
        else
          let sub := (alookup p st.dirHashes).getD []
          let ctx := ctx.map fun (f, c) =>
            match sub.find? (fun x => x.1 == f) with
            | some (_, ch', sh) => (f, c.add env.H env.D f ch.1 ch' sh)
            | none => (f, c)
          ({ st with dirHashes := st.dirHashes.filter fun x => x.1 != p }, ctx)
      else
        let (s, res) := sealFile env.H rootHist st.session p (fileContent t p) fmts
        let nfail := (res.filter fun r => !r.2.2).length
        let st := { st with session := s, failed := st.failed + nfail,
                            mismatch := if nfail > 0 then appendNew st.mismatch (posix p) else st.mismatch }
        let ctx := ctx.map fun (f, c) =>
          match res.find? (fun x => x.1 == f) with
          | some (_, d, _) => (f, c.add env.H env.D f ch.1 d d)
          | none => (f, c)
        (st, ctx)) (st, ctx0)
  let hashes : List (String × String × String) := ctx.map fun (f, c) =>
    (f, hashOfList env.H env.D f c.content, hashOfList env.H env.D f c.structure_)
  let st := if noDir then st else { st with dirHashes := st.dirHashes ++ [(v.folder, hashes)] }
  { st with session := appendDirHashes rootHist st.session v.folder hashes }

/-- rename detection (`-dr`): for every new path × every not-found path, compare the first recorded digest of the old
path with the digest of the new path in that format; a hit records the old path as previous path of the new
record and takes the old path off the missing list. -/
def detectRenames (env : Env) (t : Node) (rootHist : Hist) (s : Session) (newPaths notFound : List RelPath) :
    Session × List RelPath × List (String × String) :=
  newPaths.foldl (fun (acc : Session × List RelPath × List (String × String)) np =>
    notFound.foldl (fun (acc : Session × List RelPath × List (String × String)) nf =>
      let (s, foundOld, ren) := acc
      let (oh, orel) := route rootHist nf
      match findFirstAny oh.gens (posix orel) with
      | none => acc   -- a folder recorded without directory hashes has nothing to compare (skipped)
      | some oldE =>
        -- the record of the new path in the session: first list (in insertion order) that has it
        let holder := s.lists.findSome? fun l =>
          if isPrefixOf l.root np then (l.find (posix (np.drop l.root.length))).map fun r => (l, r) else none
        match holder with
        | none => acc
        | some (l, r) =>
          let setPrev (s : Session) : Session :=
            if r.path == "." then
              match parentRoot rootHist l.root with
              | some pr =>
                let pl := s.get pr
                s.put { pl with records := pl.records.map fun x =>
                  if x.path == posix (np.drop pr.length) then { x with prev := some (posix orel) } else x }
              | none => s
            else
              s.put { l with records := l.records.map fun x =>
                if x.path == r.path then { x with prev := some (posix orel) } else x }
          match r.entries.find? (fun e => e.fmt == oldE.fmt) with
          | some e =>
            if e.digest == oldE.digest then
              (setPrev s, appendNew foundOld nf, ren ++ [(posix orel, posix np)])
            else acc
          | none =>
            match t.at? np with
            | some (.file _ c) =>
              if env.H oldE.fmt c == oldE.digest then
                (setPrev s, appendNew foundOld nf, ren ++ [(posix orel, posix np)])
              else acc
            | _ => acc) acc) (s, [], [])

/-- how folder-mode `create` ends: failed verification (11) over missing files (10) over a vanished nested
history (30) -/
def createExit (failed : Nat) (missing missingHist : List RelPath) : Option Err :=
  if failed > 0 then some errVerifyFailed
  else if !missing.isEmpty then some errMissingFiles
  else if !missingHist.isEmpty then some errNoHistory
  else none

def createFolder (env : Env) (t : Node) (o : CreateOpts) : Outcome :=
  match loadHistory t with
  | .error e => { err := some e }
  | .ok rootHist =>
    let patterns := setPatterns (latestIgnore rootHist.gens) o.ignoreCli o.ignoreFile
    let hit := env.hit patterns
    let fmts := isort strLe o.formats
    let visits := traverse hit [] t
    let st := visits.foldl (createVisit env t rootHist fmts o.noDirHashes)
      { session := { patterns := patterns } }
    let notFound := (expectedPaths rootHist).filter fun p => !st.found.contains p
    -- nested histories referenced by the latest generation whose folder vanished
    let missingHist : List RelPath := match rootHist.gens.getLast? with
      | none => []
      | some g => g.gen.refs.filterMap fun ref =>
          let p := (splitPath ref).dropLast.dropLast
          match t.at? p with
          | some n => if n.hist.isSome then none else some p
          | none => some p
    let (session, notFound, renamed) :=
      if o.detectRenaming then
        -- the not-found paths are visited in the sorted order of their path strings (`sorted(not_found_paths)`)
        let (s, foundOld, ren) := detectRenames env t rootHist st.session st.newPaths
          (isort (fun a b => strLe (posix a) (posix b)) notFound)
        (s, notFound.filter fun p => !foundOld.contains p, ren)
      else (st.session, notFound, [])
    match commit rootHist session env.rootName env.stamp "in-place" with
    | .error e => { err := some e }
    | .ok written =>
      let missing := missingAfter hit notFound
      { err := createExit st.failed missing missingHist,
        report := { mismatch := st.mismatch, missing := missing.map posix, renamed := renamed },
        written := written }

/-! ## create -sf -/

/-- files below a named folder: the traversal starts at the folder, patterns are matched relative to the root -/
def filesBelow (hit : RelPath → Bool) (t : Node) (folder : RelPath) : List RelPath :=
  match t.at? folder with
  | some n => (traverse hit folder n).flatMap fun v =>
      v.children.filterMap fun c => if c.2 then none else some (v.folder ++ [c.1])
  | none => []

def createSingleFiles (env : Env) (t : Node) (o : CreateOpts) : Outcome :=
  match loadHistory t with
  | .error e => { err := some e }
  | .ok rootHist =>
    let patterns := setPatterns (latestIgnore rootHist.gens) o.ignoreCli o.ignoreFile
    let hit := env.hit patterns
    let fmts := isort strLe o.formats
    let first := fmts.headD ""
    let targets : List RelPath := o.singleFiles.foldl (fun acc p =>
      match t.at? p with
      | some (.dir _ _ _) => (filesBelow hit t p).foldl appendNew acc
      | _ => appendNew acc p) []
    let (session, failed, mism) := targets.foldl (fun (acc : Session × Nat × List String) p =>
      let (s, failed, mism) := acc
      let (s, res) := sealFile env.H rootHist s p (fileContent t p) fmts
      -- success is judged on the first format only
      match res.find? (fun x => x.1 == first) with
      | some (_, _, ok) => if ok then (s, failed, mism) else (s, failed + 1, appendNew mism (posix p))
      | none => (s, failed, mism)) (({ patterns := patterns } : Session), 0, [])
    match commit rootHist session env.rootName env.stamp "in-place" with
    | .error e => { err := some e }
    | .ok written =>
      { err := if failed > 0 then some errVerifyFailed else none,
        report := { mismatch := mism }, written := written }

def create (env : Env) (t : Node) (o : CreateOpts) : Outcome :=
  if o.singleFiles.isEmpty then createFolder env t o else createSingleFiles env t o

/-! ## verify / diff -/

/-- the look-up of the recorded name of a (possibly renamed) file in the history it belongs to: for each
generation in order, a record with this path replaces the path by its previous path -/
def recordedName (gens : List LGen) (path : String) : String :=
  gens.foldl (fun p g =>
    match g.gen.records.find? (fun r => r.path == p) with
    | some r => r.prev.getD p
    | none => p) path

structure VerifyOpts where
  ignoreCli : List String := []
  ignoreFile : List String := []
  singleFile : Option RelPath := none
  deriving Repr, Inhabited

/-- what verify / diff conclude about one visible file -/
inductive FileVerdict where
  | new | mismatch | ok
  deriving Repr, DecidableEq

/-- the per-file decision of `verify_entire_folder` (`hashing = true`) and of `diff` (`hashing = false`): route the
file to its history, look up the name it was recorded under, find the ORIGINAL entry; no original ⇒ new file;
otherwise (verify only) hash the file in the original's format and compare -/
def judgeFile (env : Env) (t : Node) (rootHist : Hist) (hashing : Bool) (p : RelPath) : FileVerdict :=
  let (h, hrel) := route rootHist p
  let name := recordedName h.gens (posix hrel)
  match findOriginal h.gens name with
  | none => .new
  | some e => if hashing && env.H e.fmt (fileContent t p) != e.digest then .mismatch else .ok

/-- how `verify` ends: mismatch (11) over new files (21) over a single file that was not found (20) over missing
files (10) -/
def verifyExit (mism news : List String) (singleAsked foundSingle : Bool) (missing : List RelPath) : Option Err :=
  if !mism.isEmpty then some errVerifyFailed
  else if !news.isEmpty then some errNewFiles
  else if singleAsked && !foundSingle then some errSingleFileNotFound
  else if !missing.isEmpty then some errMissingFiles
  else none

/-- how `diff` ends: missing files (10) over new files (21) -/
def diffExit (news : List String) (missing : List RelPath) : Option Err :=
  if !missing.isEmpty then some errMissingFiles
  else if !news.isEmpty then some errNewFiles
  else none

/-- `verify_entire_folder` against the history (`hashing = true`) and `diff` (`hashing = false`) -/
def verifyOrDiff (env : Env) (t : Node) (o : VerifyOpts) (hashing : Bool)
    (packingList : Option Generation := none) : Outcome :=
  let loaded : Except Err Hist := match packingList with
    | some g => pure (.mk [] [⟨1, g⟩] [] true [])
    | none => loadHistory t
  match loaded with
  | .error e => { err := some e }
  | .ok rootHist =>
    if rootHist.gens.isEmpty then { err := some errNoHistory }
    else
      let patterns := setPatterns (latestIgnore rootHist.gens) o.ignoreCli o.ignoreFile
      let hit := env.hit patterns
      let vis := visiblePaths hit t
      let found := vis.map (·.1)
      let files := (vis.filter fun x => !x.2).map (·.1)
      let considered := files.filter fun p => o.singleFile.isNone || o.singleFile == some p
      let news := (considered.filter fun p => judgeFile env t rootHist hashing p == .new).map posix
      let mism := (considered.filter fun p => judgeFile env t rootHist hashing p == .mismatch).map posix
      let foundSingle := considered.any fun p => judgeFile env t rootHist hashing p != .new
      let notFound := (expectedPaths rootHist).filter fun p => !found.contains p
      let missing := missingAfter hit notFound
      let err := if hashing then verifyExit mism news o.singleFile.isSome foundSingle missing
                 else diffExit news missing
      { err := err, report := { mismatch := mism, missing := missing.map posix, new := news } }

def verify (env : Env) (t : Node) (o : VerifyOpts) : Outcome := verifyOrDiff env t o true
def diff (env : Env) (t : Node) (o : VerifyOpts) : Outcome := verifyOrDiff env t { o with singleFile := none } false

/-! ## verify -dh -/

structure DhOpts where
  format : Option String := none
  ignoreCli : List String := []
  ignoreFile : List String := []
  calculateOnly : Bool := false
  rootOnly : Bool := false
  deriving Repr, Inhabited

/-- `find_directory_hash_entries_for_path` with generation numbers -/
def dirEntriesFor (h : Hist) (path : String) : List Entry :=
  let recs := h.gens.flatMap fun g =>
    match g.gen.find path with
    | some r => if r.isDir then r.entries else []
    | none => []
  let roots := if path == "." then h.gens.flatMap fun g => (g.gen.rootHash.getD []) else []
  recs ++ roots

/-- `_compare_and_log_directory_hashes` = 2 if both match, 1 otherwise -/
def compareDir (e : Entry) (content structure_ : String) : Nat :=
  if e.digest == content && e.shash == some structure_ then 2 else 1

structure DhState where
  dirHashes : List (RelPath × List (String × String × String)) := []
  failedFormats : List String := []
  dirMismatch : List String := []
  lines : List String := []
  deriving Inhabited

/-- the formats `verify -dh` computes: the one given with `-h`, else every format found in a root hash of any
generation (c4 if there is none), sorted -/
def dhFormats (rootHist : Hist) (format : Option String) : List String :=
  let fmts0 : List String := match format with
    | some f => [f]
    | none =>
      let fs := rootHist.gens.foldl (fun acc g =>
        (g.gen.rootHash.getD []).foldl (fun a e => appendNew a e.fmt) acc) []
      if fs.isEmpty then ["c4"] else fs
  isort strLe fmts0

/-- comparing the recorded entries of one folder with the computed hashes: an entry in a computed format whose
content or structure hash differs marks its format as failed -/
def dhCompare (fmts : List String) (count : Bool) (label : String) (computed : List (String × String × String))
    (st : DhState) (recorded : List Entry) : DhState :=
  recorded.foldl (fun (st : DhState) e =>
    if !fmts.contains e.fmt then st
    else match computed.find? (fun x => x.1 == e.fmt) with
      | some (_, c', s') =>
        if compareDir e c' s' == 1 then
          { st with failedFormats := if count then appendNew st.failedFormats e.fmt else st.failedFormats,
                    dirMismatch := if count || label == "." then appendNew st.dirMismatch label else st.dirMismatch }
        else st
      | none => st) st

/-- one yielded folder of the traversal: fill the contexts, compare the sub-folders with what is recorded for them,
compute the folder's own hashes -/
def dhVisit (env : Env) (t : Node) (rootHist : Hist) (fmts : List String) (o : DhOpts) (st : DhState) (v : Visit) :
    DhState :=
  let ctx0 : List (String × DirCtx) := fmts.foldl (fun a f => ainsert f ({} : DirCtx) a) []
  let (st, ctx) := v.children.foldl (fun (acc : DhState × List (String × DirCtx)) ch =>
    let (st, ctx) := acc
    let p := v.folder ++ [ch.1]
    if ch.2 then
      let (h, hrel) := route rootHist p
      let recorded := dirEntriesFor h (posix hrel)
      let sub := (alookup p st.dirHashes).getD []
      let ctx := ctx.map fun (f, c) =>
        match sub.find? (fun x => x.1 == f) with
        | some (_, ch', sh) => (f, c.add env.H env.D f ch.1 ch' sh)
        | none => (f, c)
      let st := { st with dirHashes := st.dirHashes.filter fun x => x.1 != p }
      -- with -ro the sub-folders are not compared at all
      let st := if o.rootOnly then st else dhCompare fmts true (posix p) sub st recorded
      (st, ctx)
    else
      let content := fileContent t p
      let ctx := ctx.map fun (f, c) => let d := env.H f content; (f, c.add env.H env.D f ch.1 d d)
      (st, ctx)) (st, ctx0)
  let hashes : List (String × String × String) := ctx.map fun (f, c) =>
    (f, hashOfList env.H env.D f c.content, hashOfList env.H env.D f c.structure_)
  let st := { st with dirHashes := st.dirHashes ++ [(v.folder, hashes)] }
  if o.calculateOnly && !(o.rootOnly && !v.folder.isEmpty) then
    { st with lines := st.lines ++ hashes.map fun (f, c, s) => posix v.folder ++ " " ++ f ++ " " ++ c ++ " " ++ s }
  else st

/-- "if even one format verified, consider the entire process verified": 12 iff every computed format failed -/
def dhExit (fmts failedFormats : List String) : Option Err :=
  if !failedFormats.isEmpty && failedFormats.length == (fmts.foldl appendNew []).length
  then some errDirVerifyFailed else none

/-- `verify -dh`.  The root folder is the last one the traversal yields; it is compared against the root hashes of
EVERY generation (always logged, counted unless -ro). -/
def verifyDh (env : Env) (t : Node) (o : DhOpts) : Outcome :=
  match loadHistory t with
  | .error e => { err := some e }
  | .ok rootHist =>
    let patterns := setPatterns (latestIgnore rootHist.gens) o.ignoreCli o.ignoreFile
    let hit := env.hit patterns
    let fmts := dhFormats rootHist o.format
    let st := (traverse hit [] t).foldl (dhVisit env t rootHist fmts o) ({} : DhState)
    let rootHashes := (alookup ([] : RelPath) st.dirHashes).getD []
    let st := rootHist.gens.foldl (fun (st : DhState) g =>
      dhCompare fmts (!o.rootOnly) "." rootHashes st (g.gen.rootHash.getD [])) st
    { err := dhExit fmts st.failedFormats, report := { dirMismatch := st.dirMismatch, lines := st.lines } }

/-! ## flatten -/

/-- the records of the packing list: for every file record of every generation in order, every entry that did not
fail, unless the path already has an entry of that format -/
def flattenRecords (gens : List LGen) : List Record :=
  gens.foldl (fun acc g =>
    g.gen.records.foldl (fun acc r =>
      if r.isDir then acc
      else r.entries.foldl (fun (acc : List Record) e =>
        if e.action == "failed" then acc
        else match acc.find? (fun x => x.path == r.path) with
          | none => acc ++ [{ path := r.path, size := r.size, entries := [e] }]
          | some x =>
            if x.entries.any (fun y => y.fmt == e.fmt) then acc
            else acc.map fun y => if y.path == r.path then { y with entries := y.entries ++ [e] } else y) acc) acc) []

def flatten (env : Env) (t : Node) (ignoreCli ignoreFile : List String) : Outcome :=
  match loadHistory t with
  | .error e => { err := some e }
  | .ok rootHist =>
    if rootHist.gens.isEmpty then { err := some errNoHistory }
    else
      let patterns := setPatterns (latestIgnore rootHist.gens) ignoreCli ignoreFile
      let g : Generation :=
        { fileName := "packinglist_" ++ env.rootName ++ "_" ++ env.stamp ++ Gen.fileExtension,
          process := "flatten", rootHash := none,
          ignore := setPatterns none patterns [],
          records := (flattenRecords rootHist.gens).map fun r =>
            { r with entries := isort (fun a b => strLe a.fmt b.fmt) r.entries } }
      -- the session only gets a list for the collection when at least one digest is taken over
      { written := if g.records.isEmpty then [] else [⟨[], 1, g⟩] }

/-! ## info -/

mutual
/-- `log_child_histories`: the generations of the history, then every child history (pre-order) -/
def infoLines : Hist → List (RelPath × Nat)
  | .mk r gens _ _ cs => gens.map (fun g => (r, g.number)) ++ infoLinesList cs
def infoLinesList : List Hist → List (RelPath × Nat)
  | [] => []
  | c :: cs => infoLines c ++ infoLinesList cs
end

def info (t : Node) : Except Err (List (RelPath × Nat)) := do
  let h ← loadHistory t
  if h.gens.isEmpty then throw errNoHistory
  pure (infoLines h)

mutual
/-- `find_history_for_path`: the deepest loaded history whose root folder lies on the path (the history itself when no
nested one does).  Roots are relative to the folder the command loaded. -/
def ownerHist : Hist → RelPath → Hist
  | .mk r gens ch e cs, p =>
    match ownerHistList cs p with
    | some o => o
    | none => .mk r gens ch e cs
def ownerHistList : List Hist → RelPath → Option Hist
  | [], _ => none
  | c :: cs, p => if c.root.isPrefixOf p then some (ownerHist c p) else ownerHistList cs p
end

/-- `info -sf FILE` with the history at the root: one line per digest recorded for the path in the generations of the
NEAREST ENCLOSING history of the file (the loaded root history or a nested one), looked up under the path relative to
that history's root: (generation, format, digest, action) -/
def infoSingleFile (t : Node) (file : RelPath) : Except Err (List (Nat × String × String × String)) := do
  let h ← loadHistory t
  if h.gens.isEmpty then throw errNoHistory
  let o := ownerHist h file
  let rel := file.drop o.root.length
  pure (o.gens.flatMap fun g =>
    match g.gen.find (posix rel) with
    | none => []
    | some r => r.entries.map fun e => (g.number, e.fmt, e.digest, e.action))

end MhlModel
