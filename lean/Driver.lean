/-
Line-protocol driver: runs the executable definitions of the model.  One JSON object per input line, one JSON object
per output line.  Run with `lake env lean --run Driver.lean`.

The digest functions are supplied by the harness as a finite table (format, pre-image hex) ↦ digest text; a pre-image
that is not in the table yields the token "MISS:<fmt>:<hex>", which the harness resolves and re-sends.
-/
import Lean.Data.Json
import MhlModel

open Lean MhlModel MhlModel.Codec
open MhlModel (Time.Zone)

structure DState where
  tree : Node := .dir "root" [] none
  table : Std.HashMap String String := {}
  /-- the generation written by the last `flatten` (the packing list) -/
  packing : Option Generation := none

def hexOf (b : Bytes) : String := String.ofList (hexOfBytes b)
def unhexStr (s : String) : Bytes := (unhex s.toList).getD []

def mkH (tbl : Std.HashMap String String) : HashFn := fun fmt b =>
  let k := fmt ++ ":" ++ hexOf b
  match tbl.get? k with
  | some d => d
  | none => "MISS:" ++ k

def mkD : DecodeFn := fun fmt s =>
  -- an unresolved digest decodes to its own token text, so that the pre-image of the enclosing hash names it
  if s.startsWith "MISS:" then some (s ++ ";").toUTF8.toList else
  match codecOfFormat fmt with
  | some k => decodeDigest k s
  | none => none

/-! ### the fragment matcher for gitwildmatch patterns (base-name literals and globs, `name/` directory patterns) -/

partial def globMatch : List Char → List Char → Bool
  | [], [] => true
  | [], _ => false
  | '*' :: ps, s => globMatch ps s || (match s with | [] => false | _ :: t => globMatch ('*' :: ps) t)
  | '?' :: ps, _ :: t => globMatch ps t
  | '?' :: _, [] => false
  | '[' :: ps, c :: t =>
    -- character class up to the closing bracket; supports ranges and leading '!'
    let (cls, rest) := (ps.takeWhile (· != ']'), (ps.dropWhile (· != ']')).drop 1)
    let (neg, cls) := match cls with | '!' :: r => (true, r) | r => (false, r)
    let rec inCls : List Char → Bool
      | a :: '-' :: b :: r => (a ≤ c && c ≤ b) || inCls r
      | a :: r => a == c || inCls r
      | [] => false
    if inCls cls != neg then globMatch rest t else false
  | '[' :: _, [] => false
  | p :: ps, c :: t => p == c && globMatch ps t
  | _ :: _, [] => false

def splitSlash (cs : List Char) : List (List Char) :=
  cs.foldr (fun c acc => if c == '/' then [] :: acc else match acc with | h :: t => (c :: h) :: t | [] => [[c]]) [[]]

/-- one pattern (without a leading `!`).  No slash except possibly at the end: matched against every component (a
matching folder hides what is below it).  A slash at the beginning or in the middle anchors the pattern at the root:
its components are matched against the leading components of the path.  A trailing slash demands a directory: since
the tool asks without a trailing slash, something has to follow the matched part. -/
def patternHitsCore (cs : List Char) (p : RelPath) : Bool :=
  if cs.isEmpty then false
  else
    let dirOnly := cs.getLast? == some '/'
    let body := if dirOnly then cs.dropLast else cs
    if !body.contains '/' then
      (if dirOnly then p.dropLast else p).any fun comp => globMatch body comp.toList
    else
      let comps := splitSlash (match body with | '/' :: r => r | r => r)
      let k := comps.length
      (if dirOnly then decide (p.length > k) else decide (p.length ≥ k)) &&
        (List.zip comps (p.take k)).all fun (c, s) => globMatch c s.toList

def patternHits (pat : String) (p : RelPath) : Bool := patternHitsCore pat.toList p

/-- gitwildmatch: the LAST pattern that matches decides; `!pattern` re-includes -/
def fragmentMatcher : Matcher := fun pats p =>
  pats.foldl (fun acc pat =>
    match pat.toList with
    | '!' :: r => if patternHitsCore r p then false else acc
    | cs => if patternHitsCore cs p then true else acc) false

/-! ### JSON decoding -/

def jstr (j : Json) (k : String) : String := (j.getObjValAs? String k).toOption.getD ""
def jbool (j : Json) (k : String) : Bool := (j.getObjValAs? Bool k).toOption.getD false
def jarr (j : Json) (k : String) : Array Json := ((j.getObjVal? k).toOption.bind fun a => a.getArr?.toOption).getD #[]
def jstrs (j : Json) (k : String) : List String := (jarr j k).toList.filterMap fun x => x.getStr?.toOption
def jpath (j : Json) (k : String) : RelPath :=
  match (j.getObjVal? k).toOption with
  | some (.str s) => splitPath (if s == "" then "." else s)
  | _ => []
def jpaths (j : Json) (k : String) : List RelPath :=
  (jstrs j k).map fun s => splitPath (if s == "" then "." else s)
/-- a JSON integer (may be negative); 0 when absent -/
def jint (j : Json) (k : String) : Int := (j.getObjValAs? Int k).toOption.getD 0
def jhas (j : Json) (k : String) : Bool := (j.getObjVal? k).toOption.isSome
def jopt (j : Json) (k : String) : Option String :=
  match (j.getObjVal? k).toOption with
  | some (.str s) => some s
  | _ => none

partial def nodeOfJson (j : Json) : Node :=
  let name := jstr j "name"
  match (j.getObjVal? "children").toOption with
  | some (.arr cs) => .dir name (cs.toList.map nodeOfJson) none
  | _ => .file name (unhexStr (jstr j "content"))

/-! ### tree surgery -/

partial def updateAt (t : Node) (p : RelPath) (f : Node → Node) : Node :=
  match p, t with
  | [], t => f t
  | n :: rest, .dir nm cs h => .dir nm (cs.map fun c => if c.name == n then updateAt c rest f else c) h
  | _, t => t

def insertChild (t : Node) (dir : RelPath) (c : Node) : Node :=
  updateAt t dir fun d => match d with
    | .dir nm cs h => .dir nm ((cs.filter fun x => x.name != c.name) ++ [c]) h
    | x => x

def removeAt (t : Node) (p : RelPath) : Node :=
  match p.getLast? with
  | none => t
  | some n => updateAt t p.dropLast fun d => match d with
    | .dir nm cs h => .dir nm (cs.filter fun x => x.name != n) h
    | x => x

partial def mkdirs (t : Node) (p : RelPath) : Node :=
  let rec go (t : Node) (done : RelPath) : RelPath → Node
    | [] => t
    | n :: rest =>
      let t := match t.at? (done ++ [n]) with
        | some _ => t
        | none => insertChild t done (.dir n [] none)
      go t (done ++ [n]) rest
  go t [] p

def renameNode (n : Node) (nm : String) : Node :=
  match n with
  | .file _ c => .file nm c
  | .dir _ cs h => .dir nm cs h

/-! ### JSON encoding -/

def entryJ (e : Entry) : Json :=
  Json.mkObj [("fmt", e.fmt), ("digest", e.digest), ("action", if e.action == "" then Json.null else e.action),
    ("structure", match e.shash with | some s => Json.str s | none => Json.null)]

def recordJ (r : Record) : Json :=
  Json.mkObj [("path", r.path), ("kind", if r.isDir then "dir" else "file"),
    ("size", match r.size with | some n => Json.str (toString n) | none => Json.null),
    ("prev", match r.prev with | some p => Json.str p | none => Json.null),
    ("entries", Json.arr (r.entries.map entryJ).toArray)]

def genJ (g : Generation) : Json :=
  Json.mkObj [("file", g.fileName), ("process", g.process),
    ("roothash", match g.rootHash with | some es => Json.arr (es.map entryJ).toArray | none => Json.null),
    ("ignore", Json.arr (g.ignore.map Json.str).toArray),
    ("records", Json.arr (g.records.map recordJ).toArray),
    ("references", Json.arr (g.refs.map Json.str).toArray)]

def errJ : Option Err → Json
  | none => Json.null
  | some (.exit n) => Json.mkObj [("exit", n)]
  | some (.internal k) => Json.mkObj [("internal", k)]

def sortedStrs (l : List String) : Json := Json.arr ((isort strLe l).map Json.str).toArray

def outcomeJ (o : Outcome) : Json :=
  Json.mkObj [("exit", o.exitCode), ("err", errJ o.err),
    ("mismatch", sortedStrs o.report.mismatch), ("missing", sortedStrs o.report.missing),
    ("new", sortedStrs o.report.new), ("dirmismatch", sortedStrs o.report.dirMismatch),
    ("lines", Json.arr (o.report.lines.map Json.str).toArray),
    ("written", Json.arr (o.written.map fun w =>
      Json.mkObj [("hist", posix w.histRoot), ("number", w.number), ("gen", genJ w.gen)]).toArray)]

/-! ### XML layer (C10 / C11) -/

open MhlModel.Xml in
def jostr (j : Json) (k : String) : Option String :=
  match (j.getObjVal? k).toOption with
  | some (.str s) => some s
  | _ => none

open MhlModel.Xml in
def xentryOf (j : Json) : XEntry :=
  { fmt := jstr j "fmt", digest := jstr j "digest", action := jostr j "action", hashdate := jostr j "hashdate", shash := jostr j "shash" }

open MhlModel.Xml in
def xrecordOf (j : Json) : XRecord :=
  { path := jstr j "path", isDir := jbool j "isDir", size := (j.getObjValAs? Nat "size").toOption,
    lastmod := jostr j "lastmod", prev := jostr j "prev", entries := (jarr j "entries").toList.map xentryOf }

open MhlModel.Xml in
def xgenOf (j : Json) : XGen :=
  let c := (j.getObjVal? "creator").toOption.getD Json.null
  { creator := { creationdate := jostr c "creationdate", hostname := jostr c "hostname", toolName := jostr c "toolName",
                 toolVersion := jostr c "toolVersion", location := jostr c "location", comment := jostr c "comment",
                 authors := (jarr c "authors").toList.map fun a =>
                   { name := jostr a "name", role := jostr a "role", email := jostr a "email", phone := jostr a "phone" } },
    process := jostr j "process",
    rootHash := match (j.getObjVal? "roothash").toOption with
      | some (.obj o) => some (xrecordOf (.obj o))
      | _ => none,
    ignore := jstrs j "ignore",
    records := (jarr j "records").toList.map xrecordOf,
    refs := (jarr j "refs").toList.map fun r => { path := jostr r "path", c4 := jostr r "c4" } }

open MhlModel.Xml in
partial def elemOf (j : Json) : Elem :=
  let attrs : List (String × String) := match (j.getObjVal? "attrs").toOption with
    | some (.obj o) => o.toList.filterMap fun (k, v) => v.getStr?.toOption.map fun s => (k, s)
    | _ => []
  .mk (jstr j "tag") attrs (jostr j "text") ((jarr j "children").toList.map elemOf)

def jopts (o : Option String) : Json := match o with | some s => Json.str s | none => Json.null

open MhlModel.Xml in
partial def elemJ : Elem → Json
  | .mk t a x cs => Json.mkObj [("tag", t), ("attrs", Json.mkObj (a.map fun (k, v) => (k, Json.str v))),
      ("text", jopts (normText x)), ("children", Json.arr (cs.map elemJ).toArray)]

open MhlModel.Xml in
def xentryJ (e : XEntry) : Json :=
  Json.mkObj [("fmt", e.fmt), ("digest", e.digest), ("action", jopts e.action), ("hashdate", jopts e.hashdate), ("shash", jopts e.shash)]

open MhlModel.Xml in
def xrecordJ (r : XRecord) : Json :=
  Json.mkObj [("path", r.path), ("isDir", r.isDir), ("size", match r.size with | some n => Json.num n | none => Json.null),
    ("lastmod", jopts r.lastmod), ("prev", jopts r.prev), ("entries", Json.arr (r.entries.map xentryJ).toArray)]

open MhlModel.Xml in
def xgenJ (g : XGen) : Json :=
  Json.mkObj [("creator", Json.mkObj [("creationdate", jopts g.creator.creationdate), ("hostname", jopts g.creator.hostname),
      ("toolName", jopts g.creator.toolName), ("toolVersion", jopts g.creator.toolVersion),
      ("location", jopts g.creator.location), ("comment", jopts g.creator.comment),
      ("authors", Json.arr (g.creator.authors.map fun a => Json.mkObj [("name", jopts a.name), ("role", jopts a.role),
        ("email", jopts a.email), ("phone", jopts a.phone)]).toArray)]),
    ("process", jopts g.process),
    ("roothash", match g.rootHash with | some r => xrecordJ r | none => Json.null),
    ("ignore", Json.arr (g.ignore.map Json.str).toArray),
    ("records", Json.arr (g.records.map xrecordJ).toArray),
    ("refs", Json.arr (g.refs.map fun r => Json.mkObj [("path", jopts r.path), ("c4", jopts r.c4)]).toArray)]

/-! ### commands -/

def envOf (st : DState) (j : Json) (sub : Node) : Env :=
  { H := mkH st.table, D := mkD, hit := fragmentMatcher, rootName := sub.name,
    stamp := jstr j "stamp" }

def createOpts (j : Json) : CreateOpts :=
  { formats := let f := jstrs j "h"; if f.isEmpty then [Gen.defaultFormat] else f,
    noDirHashes := jbool j "n", detectRenaming := jbool j "dr",
    ignoreCli := jstrs j "i", ignoreFile := jstrs j "ii", singleFiles := jpaths j "sf" }

def step (st : DState) (j : Json) : DState × Json :=
  let op := jstr j "op"
  let at_ := jpath j "at"
  let sub : Node := (st.tree.at? at_).getD (.dir "?" [] none)
  match op with
  | "reset" => ({ st with tree := nodeOfJson ((j.getObjVal? "tree").toOption.getD Json.null) }, Json.mkObj [("ok", true)])
  | "table" =>
    let tbl := (jarr j "entries").foldl (fun t e =>
      match e.getArr?.toOption with
      | some #[.str f, .str h, .str d] => t.insert (f ++ ":" ++ h) d
      | _ => t) st.table
    ({ st with table := tbl }, Json.mkObj [("ok", true), ("size", tbl.size)])
  | "write" =>
    let p := jpath j "path"
    let t := mkdirs st.tree p.dropLast
    ({ st with tree := insertChild t p.dropLast (.file (p.getLast?.getD "") (unhexStr (jstr j "content"))) },
      Json.mkObj [("ok", true)])
  | "mkdir" => ({ st with tree := mkdirs st.tree (jpath j "path") }, Json.mkObj [("ok", true)])
  | "rm" => ({ st with tree := removeAt st.tree (jpath j "path") }, Json.mkObj [("ok", true)])
  | "mv" =>
    let src := jpath j "src"; let dst := jpath j "dst"
    match st.tree.at? src with
    | some n =>
      let t := removeAt st.tree src
      let t := mkdirs t dst.dropLast
      ({ st with tree := insertChild t dst.dropLast (renameNode n (dst.getLast?.getD n.name)) }, Json.mkObj [("ok", true)])
    | none => (st, Json.mkObj [("ok", false)])
  | "tamper" =>
    -- set the state of one manifest of the history at `hist`
    let hp := jpath j "hist"; let file := jstr j "file"
    let state := match jstr j "state" with | "modified" => FileState.modified | "missing" => .missing | _ => .ok
    let t := updateAt st.tree hp fun d => match d with
      | .dir nm cs (some s) => .dir nm cs (some { s with gens := s.gens.map fun g =>
          if g.fileName == file then { g with state := state } else g })
      | x => x
    ({ st with tree := t }, Json.mkObj [("ok", true)])
  | "orphan" =>
    -- a manifest file in the ascmhl folder that the chain does not list (what an interrupted create leaves behind):
    -- a copy of the stored manifest `file` under the name `as`
    let hp := jpath j "hist"; let file := jstr j "file"; let nm2 := jstr j "as"
    let t := updateAt st.tree hp fun d => match d with
      | .dir nm cs (some s) =>
        match s.gens.find? (fun g => g.fileName == file) with
        | some g => .dir nm cs (some { s with gens := s.gens ++ [{ g with fileName := nm2 }] })
        | none => .dir nm cs (some s)
      | x => x
    ({ st with tree := t }, Json.mkObj [("ok", true)])
  | "rmchain" =>
    let t := updateAt st.tree (jpath j "hist") fun d => match d with
      | .dir nm cs (some s) => .dir nm cs (some { s with chainPresent := jbool j "present" })
      | x => x
    ({ st with tree := t }, Json.mkObj [("ok", true)])
  | "rmhist" =>
    let t := updateAt st.tree (jpath j "hist") fun d => match d with
      | .dir nm cs _ => .dir nm cs none
      | x => x
    ({ st with tree := t }, Json.mkObj [("ok", true)])
  | "create" =>
    let env := envOf st j sub
    let o := create env sub (createOpts j)
    let st := if jbool j "commit" then
        { st with tree := updateAt st.tree at_ fun _ => applyWritten sub o.written }
      else st
    (st, outcomeJ o)
  | "verify" =>
    let env := envOf st j sub
    let sf : Option RelPath := (jopt j "sf").map (fun s => splitPath s)
    let vo : VerifyOpts := { ignoreCli := jstrs j "i", ignoreFile := jstrs j "ii", singleFile := sf }
    (st, outcomeJ (verify env sub vo))
  | "diff" =>
    let env := envOf st j sub
    let vo : VerifyOpts := { ignoreCli := jstrs j "i", ignoreFile := jstrs j "ii" }
    (st, outcomeJ (diff env sub vo))
  | "verifydh" =>
    let env := envOf st j sub
    let dop : DhOpts := { format := jopt j "h", ignoreCli := jstrs j "i", ignoreFile := jstrs j "ii", calculateOnly := jbool j "co", rootOnly := jbool j "ro" }
    (st, outcomeJ (verifyDh env sub dop))
  | "flatten" =>
    let env := envOf st j sub
    let o := flatten env sub (jstrs j "i") (jstrs j "ii")
    ({ st with packing := (o.written.head?.map (·.gen)).orElse fun _ => st.packing }, outcomeJ o)
  | "verifypl" =>
    let env := envOf st j sub
    let vo : VerifyOpts := { ignoreCli := jstrs j "i", ignoreFile := jstrs j "ii" }
    match st.packing with
    | some g => (st, outcomeJ (verifyOrDiff env sub vo true (some g)))
    | none => (st, Json.mkObj [("error", "no packing list")])
  | "info" =>
    match info sub with
    | .ok ls => (st, Json.mkObj [("exit", (0:Nat)), ("gens", Json.arr (ls.map fun (r, n) =>
        Json.arr #[Json.str (posix r), Json.num n]).toArray)])
    | .error e => (st, Json.mkObj [("exit", ({ err := some e } : Outcome).exitCode), ("err", errJ (some e))])
  | "infosf" =>
    match infoSingleFile sub (jpath j "file") with
    | .ok ls => (st, Json.mkObj [("exit", (0:Nat)), ("lines", Json.arr (ls.map fun (n, f, d, a) =>
        Json.arr #[Json.num n, Json.str f, Json.str d, Json.str a]).toArray)])
    | .error e => (st, Json.mkObj [("exit", ({ err := some e } : Outcome).exitCode), ("err", errJ (some e))])
  -- codec layer (C01)
  | "c4enc" => (st, Json.mkObj [("s", String.ofList (c4OfBytes (unhexStr (jstr j "hex"))))])
  | "c4dec" => (st, Json.mkObj [("hex", match c4ToBytes (jstr j "s").toList with
      | some b => Json.str (hexOf b) | none => Json.null)])
  -- path glue of the command line (posixpath)
  | "normpath" => (st, Json.mkObj [("r", MhlModel.Paths.normpath (jstr j "s"))])
  | "joinpath" => (st, Json.mkObj [("r", MhlModel.Paths.joinPath (jstr j "a") (jstr j "b"))])
  | "relpath" => (st, Json.mkObj [("r", MhlModel.Paths.relpath (jstr j "cwd") (jstr j "path") (jstr j "start"))])
  | "sfpath" =>
    let f := if jstr j "cmd" == "verify" then MhlModel.Paths.sfOfVerify else MhlModel.Paths.sfOfCreate
    (st, Json.mkObj [("r", f (jstr j "cwd") (jstr j "root") (jstr j "sf"))])
  | "hexenc" => (st, Json.mkObj [("s", hexOf (unhexStr (jstr j "hex")))])
  -- civil-date rendering (MhlModel/Civil.lean)
  | "civil" =>
    let c := MhlModel.Civil.civilFromDays (jint j "days")
    (st, Json.mkObj [("y", Json.num c.1), ("m", Json.num c.2.1), ("d", Json.num c.2.2)])
  | "stamp" => (st, Json.mkObj [("r", MhlModel.Civil.stampOfEpoch (jint j "t"))])
  | "unhex" => (st, Json.mkObj [("hex", match unhex (jstr j "s").toList with
      | some b => Json.str (hexOf b) | none => Json.null)])
  | "chunks" =>
    let n := (j.getObjValAs? Nat "len").toOption.getD 0
    let size := (j.getObjValAs? Nat "size").toOption.getD Gen.chunkSingle
    -- lengths of the chunks the model's read loop sees for a file of length n
    let full := n / size
    let lens := List.replicate full size ++ (if n % size == 0 then [] else [n % size])
    (st, Json.mkObj [("lens", Json.arr (lens.map fun (x : Nat) => Json.num x).toArray), ("chunk", Gen.chunkSingle)])
  | "patterns" =>
    let ex := match (j.getObjVal? "existing").toOption with
      | some (.arr a) => some (a.toList.filterMap fun x => x.getStr?.toOption)
      | _ => none
    (st, Json.mkObj [("list", Json.arr ((setPatterns ex (jstrs j "i") (jstrs j "ii")).map Json.str).toArray)])
  | "match" =>
    (st, Json.mkObj [("hit", fragmentMatcher (jstrs j "patterns") (jpath j "path"))])
  | "genname" =>
    (st, Json.mkObj [("n", match parseGenName (jstr j "name") with | some n => Json.num n | none => Json.null)])
  | "xml" =>
    let g := xgenOf ((j.getObjVal? "gen").toOption.getD Json.null)
    let e := Xml.toXml g
    (st, Json.mkObj [("tree", elemJ e), ("parsed", xgenJ (Xml.parse e)), ("norm", xgenJ (Xml.norm g)),
      ("valid", Xsd.validate Gen.manifestSchema e)])
  | "xsd" =>
    let e := elemOf ((j.getObjVal? "tree").toOption.getD Json.null)
    let sch := if jstr j "schema" == "directory" then Gen.directorySchema else Gen.manifestSchema
    (st, Json.mkObj [("valid", Xsd.validate sch e)])
  | "xmlchain" =>
    let cs : List Xml.XChainEntry := (jarr j "entries").toList.map fun c =>
      { seq := jostr c "seq", path := jostr c "path", fmt := jostr c "fmt", digest := jostr c "digest" }
    let e := Xml.chainToXml cs
    (st, Json.mkObj [("tree", elemJ e), ("parsed", Json.arr ((Xml.parseChain e).map fun c =>
      Json.mkObj [("seq", jopts c.seq), ("path", jopts c.path), ("fmt", jopts c.fmt), ("digest", jopts c.digest)]).toArray)])
  | "iso" =>
    -- two request shapes share the name: {"local":N,"off":N} renders the ISO text of a local second count;
    -- the older {"base":..,"transitions":..,"t":..} runs the zone logic of MhlModel/Time.lean
    if jhas j "local" then
      (st, Json.mkObj [("r", MhlModel.Civil.isoOfLocal (jint j "local") (jint j "off"))])
    else
    -- zone: base offset and a list of [instant, offset] transitions (ascending)
    let base := (j.getObjValAs? Int "base").toOption.getD 0
    let trs : List (Int × Int) := (jarr j "transitions").toList.filterMap fun x =>
      match x.getArr?.toOption with
      | some #[a, b] => match a.getInt?.toOption, b.getInt?.toOption with
        | some a, some b => some (a, b)
        | _, _ => none
      | _ => none
    let z : Time.Zone := fun u => trs.foldl (fun acc (T, off) => if T ≤ u then off else acc) base
    let t := (j.getObjValAs? Int "t").toOption.getD 0
    let d := Time.fromTimestamp z t
    let parts := Time.isoParts z d
    (st, Json.mkObj [("local", Json.num d.secs), ("fold", d.fold), ("mktime", Json.num (Time.mktime z d)),
      ("iso_local", Json.num parts.1), ("iso_off", Json.num parts.2), ("offtext", Time.offsetText parts.2),
      ("denote", Json.num (Time.denote parts))])
  | _ => (st, Json.mkObj [("error", "bad-op")])

partial def loop (h : IO.FS.Stream) (out : IO.FS.Stream) (st : DState) : IO Unit := do
  let line ← h.getLine
  if line.isEmpty then return ()
  let line := line.trimAscii.toString
  if line.isEmpty then loop h out st else
  match Json.parse line with
  | .error e =>
    out.putStrLn (Json.mkObj [("error", "parse: " ++ e)]).compress
    out.flush
    loop h out st
  | .ok j =>
    let (st', r) := step st j
    out.putStrLn r.compress
    out.flush
    loop h out st'

def main : IO Unit := do
  loop (← IO.getStdin) (← IO.getStdout) {}
