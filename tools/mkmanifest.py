#!/usr/bin/env python3
"""Writes /verif/MANIFEST.json from the table below (one entry per claimed property)."""
import json, os

HERE = os.path.dirname(os.path.dirname(os.path.abspath(__file__)))
props = [json.loads(l) for l in open(os.path.join(HERE, "properties.jsonl"))]

COMMON_NOTE = (
    "Trusted base: Lean 4.33.0 kernel; axioms propext, Classical.choice, Quot.sound only (audited with #print axioms on every run; "
    "no sorry/admit/native_decide/bv_decide/own axioms); the translators tools/extract_consts.py and tools/xsd2lean.py; the correspondence harness "
    "(generators, canonicaliser, independent expat reader). The model is hand-written and tied to /repo by the correspondence check, constants and schemas are regenerated from /repo on every run."
)

CLAIMS = {
    "C01": {
        "text": "Theorems for all contents, all read schedules (any chunking, short reads), all format lists and all 512-bit values: read loop = one-shot digest, read-once multi-format loop = single-format result, C4 text form has 90 characters / prefix c4 / alphabet / decodes back to the 64 digest bytes / is injective, hex round-trip, the format table regenerated from the source equals the specified one. Tie: spied update() traces of the real hashers refine the model hypothesis; C4/hex codec of implementation, model and an independent reference agree on boundary and random values; every entry point (library calls, streaming use, create, verify, hash command) agrees with the libraries' one-shot digests.",
        "note": "The digest primitives (hashlib/xxhash) are a parameter obeying the streaming law: that hashlib.md5 is MD5 is trusted (cross-checked against coreutils), not proved. " + COMMON_NOTE,
        "technique": "Lean 4 proof (induction over chunk lists and base-58 digits; decide +kernel over regenerated tables) + differential correspondence of codec/read loop + entry-point monitor",
        "design_ref": "7 C01",
    },
    "C04": {
        "text": "Theorems over arbitrary histories of one path (any number of generations, any format lists, any digest function): a digest is marked original iff no earlier generation holds an original entry; for a recorded format verified iff it equals the EARLIEST recorded digest of that format, failed otherwise; appending generations never changes the reference; a digest in a new format is recorded only if no check of a recorded format failed; on an unaltered file no entry fails, every requested format succeeds, validation before writing never aborts, and by induction EVERY sequence of format choices succeeds. Tie: multi-generation scenarios (quick: sampled; thorough: all 63x63 two-generation format-subset sequences) run on implementation and model, folder and -sf mode, root and nested histories, content altered/restored; monitor: the property's statement evaluated on action attributes read by an independent XML reader.",
        "note": "Path identity within one history without renames (renames are C17). " + COMMON_NOTE,
        "technique": "Lean 4 proof (invariant over the history as a log, induction over sequences of generations) + scenario differential + independent action monitor",
        "design_ref": "7 C04",
    },
}


def main():
    checks = []
    na = []
    for p in props:
        pid = p["id"]
        c = CLAIMS.get(pid)
        if c is None:
            na.append({"property_id": pid, "reason": "check not built yet (in progress; see DESIGN.md section 13)"})
            continue
        checks.append(
            {
                "property_id": pid,
                "quick_cmd": f"./check {pid} --tier quick",
                "thorough_cmd": f"./check {pid} --tier thorough",
                "evidence_file": f"/verif/evidence/{pid}.json",
                "replay_cmd_template": f"./check {pid} --replay {{path}}",
                "engine": "lean4-model+correspondence",
                "level_claimed": {"category": "proof", "text": c["text"], "design_ref": "DESIGN.md section " + c["design_ref"]},
                "level_note": c["note"],
                "technique": c["technique"],
            }
        )
    m = {
        "version": 1,
        "setup_cmd": "./setup.sh",
        "hooks": {
            "guard": "ASCMITC_MHL_VERIF",
            "enable": "no hooks are needed: the harness imports ascmhl from /repo's working tree in-process and controls clock (freezegun), TZ, directory listing order, update server (stubbed requests.get) and file-system observation (audit/wrappers) from outside",
            "baseline_off_cmd": "cd /repo && /venv/bin/python -m pytest -ra -q -p no:cacheprovider --timeout=900 --continue-on-collection-errors",
            "source_commits": [],
            "add_only": True,
        },
        "engines": [
            {"name": "lean4-model+correspondence", "path": "/verif/lean", "serves_properties": [c["property_id"] for c in checks], "kind_free_text": "Lean 4 model (MhlModel) + property theorems (MhlProps) + Python correspondence harness driving the real ascmhl code and the Lean driver on the same inputs"}
        ],
        "checks": checks,
        "notes": "All checks: ./check <id> [--tier quick|thorough]; seeds via VERIF_SEED. Genuine defects repaired as `fix:` commits in /repo are listed in known_findings.json (fixed:) with their witnesses in harness/witnesses.py; one recorded finding (C15 D6b).",
        "not_applicable": na,
    }
    json.dump(m, open(os.path.join(HERE, "MANIFEST.json"), "w"), indent=1)
    print("claimed", len(checks), "not_applicable", len(na))


if __name__ == "__main__":
    main()
