#!/usr/bin/env python3
"""Writes /verif/MANIFEST.json from the table below (one entry per claimed property)."""
import json, os

HERE = os.path.dirname(os.path.dirname(os.path.abspath(__file__)))
props = [json.loads(l) for l in open(os.path.join(HERE, "properties.jsonl"))]

COMMON_NOTE = (
    "Trusted base: Lean 4.33.0 kernel; axioms propext, Classical.choice, Quot.sound only (audited with #print axioms on every run; "
    "no sorry/admit/native_decide/bv_decide/own axioms); the translators tools/extract_consts.py and tools/xsd2lean.py; the correspondence harness "
    "(generators, canonicaliser, independent expat reader). The model is hand-written and tied to /repo by the correspondence check, constants and schemas are regenerated from /repo on every run."
)

CLAIMS = {
    "C01": {
        "text": "Theorems for all contents, all read schedules (any chunking, short reads), all format lists and all 512-bit values: read loop = one-shot digest, read-once multi-format loop = single-format result, C4 text form has 90 characters / prefix c4 / alphabet / decodes back to the 64 digest bytes / is injective, hex round-trip, the format table regenerated from the source equals the specified one. Tie: spied update() traces of the real hashers refine the model hypothesis; C4/hex codec of implementation, model and an independent reference agree on boundary and random values; every entry point (library calls, streaming use, create, verify, hash command) agrees with the libraries' one-shot digests.",
        "note": "The digest primitives (hashlib/xxhash) are a parameter obeying the streaming law: that hashlib.md5 is MD5 is trusted (cross-checked against coreutils), not proved. " + COMMON_NOTE,
        "technique": "Lean 4 proof (induction over chunk lists and base-58 digits; decide +kernel over regenerated tables) + differential correspondence of codec/read loop + entry-point monitor",
        "design_ref": "7 C01",
    },
    "C04": {
        "text": "Theorems over arbitrary histories of one path (any number of generations, any format lists, any digest function): a digest is marked original iff no earlier generation holds an original entry; for a recorded format verified iff it equals the EARLIEST recorded digest of that format, failed otherwise; appending generations never changes the reference; a digest in a new format is recorded only if no check of a recorded format failed; on an unaltered file no entry fails, every requested format succeeds, validation before writing never aborts, and by induction EVERY sequence of format choices succeeds. Tie: multi-generation scenarios (quick: sampled; thorough: all 63x63 two-generation format-subset sequences) run on implementation and model, folder and -sf mode, root and nested histories, content altered/restored; monitor: the property's statement evaluated on action attributes read by an independent XML reader.",
        "note": "Path identity within one history without renames (renames are C17). " + COMMON_NOTE,
        "technique": "Lean 4 proof (invariant over the history as a log, induction over sequences of generations) + scenario differential + independent action monitor",
        "design_ref": "7 C04",
    },
    "C02": {
        "text": "Theorems for all trees and all ignore predicates: a path is visited by the traversal that every command shares exactly when it is in the tree and neither it nor an ancestor below the root is ignored (visible_iff); visited paths are non-empty lists of node names (relative, never escaping); with distinct sibling names every entry is visited exactly once and resolves to the node on disk; post-order. Recorded digests are the digests of the file's content and every requested format is present unless a check failed (C04's sealEntries theorems). Tie: scenario differential incl. record order; monitor: independent walk of the disk with pathspec as the definition of 'excluded' versus the records of every manifest written (exactly one record per non-ignored entry, right history, kind, size, digests recomputed with the libraries), for folder mode, -sf mode, nested histories, path spellings.",
        "note": "The step from 'visited' to 'recorded' (createVisit appends one record per visited child) is covered by the correspondence and the monitor, not by a theorem. " + COMMON_NOTE,
        "technique": "Lean 4 proof (mutual structural induction over the tree) + scenario differential + independent disk-walk monitor",
        "design_ref": "7 C02",
    },
    "C06": {
        "text": "Theorems: the generated manifest name parses back to its generation number for every number, folder and stamp (exact condition: no line feed in folder or stamp); the zero-padded number is injective; writeOne numbers a generation latest+1 and names it NNNN_<folder>_<stamp>.mhl; for ascending loaded generations latest is the maximum, so the new name is fresh; adding a generation keeps every old manifest and every old chain entry at its index and appends exactly one; updating one history leaves every other ascmhl folder untouched; reload of generations 1..n plus the new one yields 1..n+1, by induction for any number of runs. Tie/monitor: byte snapshot of every pre-existing file of every ascmhl folder before/after each create, numbering, name shape under the injected clock (several runs per second), chain entries vs c4 of the bytes on disk, long histories (11-14 generations).",
        "note": "Manifest bytes and their c4 digest are symbolic in the model (the monitor recomputes them from disk). " + COMMON_NOTE,
        "technique": "Lean 4 proof (digit arithmetic, sortedness invariant, induction over runs) + scenario differential + byte-level monitor",
        "design_ref": "7 C06",
    },
    "C07": {
        "text": "Theorems about the compositional definition (nodeHashes) for arbitrary digest and decode functions: invariant under any permutation of any directory listing anywhere in the tree; content hash invariant under renaming a file or folder in place (at any depth, when old and new location are equally visible); empty / fully ignored directory hashes as the empty input; file hashes independent of the name; the content hash binds contents and the structure hash binds names and contents exactly under explicitly stated digest inequalities on the two concrete pre-images (iff versions; necessity shown by constant-H and non-decoding-D examples). Tie: the implementation-shaped computation in the model (contexts filled over the post-order traversal, as create and verify -dh do) is compared with the real code on every scenario; monitor: independent reference evaluation of the compositional definition with library digests versus every recorded <directoryhash>/<roothash> and the output of verify -dh -co.",
        "note": "The equality 'implementation-shaped fold = compositional definition' inside the model is checked by the monitor's reference evaluation on every scenario, not yet by a theorem. No global collision-freeness is assumed anywhere. " + COMMON_NOTE,
        "technique": "Lean 4 proof (permutation invariance via sorted-permutation uniqueness, induction over the tree) + scenario differential + reference evaluation monitor",
        "design_ref": "7 C07",
    },
    "C08": {
        "text": "Theorems: a path is routed to the root history or to a nested history whose root is a component-wise prefix of it, the returned path is relative to that root, and no nested history with a longer matching root exists (deepest wins; string-prefix siblings are not confused); the post-order walk commits children before parents; a history that has no list in the session and no child that wrote is skipped; the references written are exactly the direct children that wrote in this run as <child>/ascmhl/<new manifest>. Tie: nested scenarios (chains to depth 4, prefix siblings, any creation order, folder and -sf mode); monitor: partition by the deepest history, nested root present in the parent with the child's own root hash, references recomputed from the bytes of the referenced files, generations written in exactly the expected histories.",
        "note": COMMON_NOTE,
        "technique": "Lean 4 proof (maximum-by-length fold invariant) + nested scenario differential + independent partition/reference monitor",
        "design_ref": "7 C08",
    },
    "C12": {
        "text": "Theorems: appending patterns keeps the existing list as a prefix, adds each new pattern once in the given order and never creates duplicates (also for a batch that repeats a pattern); without a previous generation the list starts with the three defaults; every -i/-ii pattern is in the list; the list written into any (nested) history in a run is that history's previous list followed by the session's patterns; an ignored path is never visited by the traversal all four commands share (C02.ignored_nowhere). Tie: scenario differential; the Lean fragment matcher vs pathspec on 10^4 (patterns, path) pairs; monitor: <ignore> lists of successive manifests; trees sealed with and without ignored entries present give identical generations; editing/adding/deleting only ignored entries leaves verify, verify -dh, diff and create at exit 0.",
        "note": "The matcher (pathspec gitwildmatch) is a parameter of the model; its fragment {base-name literal, base-name glob, name/} is implemented in the driver and cross-checked. " + COMMON_NOTE,
        "technique": "Lean 4 proof (list prefix/nodup invariants) + scenario differential + matcher differential + consistency monitor",
        "design_ref": "7 C12",
    },
    "C18": {
        "text": "Theorems for arbitrary generation lists: the flattened records contain no directory record, pairwise distinct paths, pairwise distinct formats per record, no failed entry; a path has a record iff some generation has a file record of it with a non-failed entry; every entry is the EARLIEST non-failed entry of its (path, format) and conversely every such earliest entry is present. Tie/monitor: the packing list read independently vs the history read independently; source tree and history byte-identical before/after flatten; verify -pl exits 0 on the unchanged tree and non-zero on an altered one.",
        "note": "Histories without nested child histories and without renames (the property's domain). " + COMMON_NOTE,
        "technique": "Lean 4 proof (fold invariant over generations/records/entries) + scenario differential + independent packing-list monitor",
        "design_ref": "7 C18",
    },
}


def main():
    checks = []
    na = []
    for p in props:
        pid = p["id"]
        c = CLAIMS.get(pid)
        if c is None:
            na.append({"property_id": pid, "reason": "check not built yet (in progress; see DESIGN.md section 13)"})
            continue
        checks.append(
            {
                "property_id": pid,
                "quick_cmd": f"./check {pid} --tier quick",
                "thorough_cmd": f"./check {pid} --tier thorough",
                "evidence_file": f"/verif/evidence/{pid}.json",
                "replay_cmd_template": f"./check {pid} --replay {{path}}",
                "engine": "lean4-model+correspondence",
                "level_claimed": {"category": "proof", "text": c["text"], "design_ref": "DESIGN.md section " + c["design_ref"]},
                "level_note": c["note"],
                "technique": c["technique"],
            }
        )
    m = {
        "version": 1,
        "setup_cmd": "./setup.sh",
        "hooks": {
            "guard": "ASCMITC_MHL_VERIF",
            "enable": "no hooks are needed: the harness imports ascmhl from /repo's working tree in-process and controls clock (freezegun), TZ, directory listing order, update server (stubbed requests.get) and file-system observation (audit/wrappers) from outside",
            "baseline_off_cmd": "cd /repo && /venv/bin/python -m pytest -ra -q -p no:cacheprovider --timeout=900 --continue-on-collection-errors",
            "source_commits": [],
            "add_only": True,
        },
        "engines": [
            {"name": "lean4-model+correspondence", "path": "/verif/lean", "serves_properties": [c["property_id"] for c in checks], "kind_free_text": "Lean 4 model (MhlModel) + property theorems (MhlProps) + Python correspondence harness driving the real ascmhl code and the Lean driver on the same inputs"}
        ],
        "checks": checks,
        "notes": "All checks: ./check <id> [--tier quick|thorough]; seeds via VERIF_SEED. Genuine defects repaired as `fix:` commits in /repo are listed in known_findings.json (fixed:) with their witnesses in harness/witnesses.py; one recorded finding (C15 D6b).",
        "not_applicable": na,
    }
    json.dump(m, open(os.path.join(HERE, "MANIFEST.json"), "w"), indent=1)
    print("claimed", len(checks), "not_applicable", len(na))


if __name__ == "__main__":
    main()
