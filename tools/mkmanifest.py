#!/usr/bin/env python3
"""Writes /verif/MANIFEST.json from the table below (one entry per claimed property)."""
import json, os

HERE = os.path.dirname(os.path.dirname(os.path.abspath(__file__)))
props = [json.loads(l) for l in open(os.path.join(HERE, "properties.jsonl"))]

COMMON_NOTE = (
    "Trusted base: Lean 4.33.0 kernel; axioms propext, Classical.choice, Quot.sound only (audited with #print axioms on every run; "
    "no sorry/admit/native_decide/bv_decide/own axioms); the translators tools/extract_consts.py and tools/xsd2lean.py; the correspondence harness "
    "(generators, canonicaliser, independent expat reader). The model is hand-written and tied to /repo by the correspondence check, constants and schemas are regenerated from /repo on every run."
)

CLAIMS = {
    "C01": {
        "text": "Theorems for all contents, all read schedules (any chunking, short reads), all format lists and all 512-bit values: read loop = one-shot digest, read-once multi-format loop = single-format result, C4 text form has 90 characters / prefix c4 / alphabet / decodes back to the 64 digest bytes / is injective, hex round-trip, the format table regenerated from the source equals the specified one. Tie: spied update() traces of the real hashers refine the model hypothesis; C4/hex codec of implementation, model and an independent reference agree on boundary and random values; every entry point (library calls, streaming use, create, verify, hash command) agrees with the libraries' one-shot digests.",
        "note": "The digest primitives (hashlib/xxhash) are a parameter obeying the streaming law: that hashlib.md5 is MD5 is trusted (cross-checked against coreutils), not proved. " + COMMON_NOTE,
        "technique": "Lean 4 proof (induction over chunk lists and base-58 digits; decide +kernel over regenerated tables) + differential correspondence of codec/read loop + entry-point monitor",
        "design_ref": "7 C01",
    },
    "C04": {
        "text": "Theorems over arbitrary histories of one path (any number of generations, any format lists, any digest function): a digest is marked original iff no earlier generation holds an original entry; for a recorded format verified iff it equals the EARLIEST recorded digest of that format, failed otherwise; appending generations never changes the reference; a digest in a new format is recorded only if no check of a recorded format failed; on an unaltered file no entry fails, every requested format succeeds, validation before writing never aborts, and by induction EVERY sequence of format choices succeeds. Tie: multi-generation scenarios (quick: sampled; thorough: all 63x63 two-generation format-subset sequences) run on implementation and model, folder and -sf mode, root and nested histories, content altered/restored; monitor: the property's statement evaluated on action attributes read by an independent XML reader.",
        "note": "Path identity within one history without renames (renames are C17). " + COMMON_NOTE,
        "technique": "Lean 4 proof (invariant over the history as a log, induction over sequences of generations) + scenario differential + independent action monitor",
        "design_ref": "7 C04",
    },
    "C02": {
        "text": "Theorems for all trees and all ignore predicates: a path is visited by the traversal that every command shares exactly when it is in the tree and neither it nor an ancestor below the root is ignored (visible_iff); visited paths are non-empty lists of node names (relative, never escaping); with distinct sibling names every entry is visited exactly once and resolves to the node on disk; post-order. Recorded digests are the digests of the file's content and every requested format is present unless a check failed (C04's sealEntries theorems). Tie: scenario differential incl. record order; monitor: independent walk of the disk with pathspec as the definition of 'excluded' versus the records of every manifest written (exactly one record per non-ignored entry, right history, kind, size, digests recomputed with the libraries), for folder mode, -sf mode, nested histories, path spellings.",
        "note": "Folder mode: C02rec (one history) and C08part (nested, any depth) prove that the written generations hold exactly one record per visited entry, in the deepest history; -sf mode: C02sf proves that exactly the named files / the visible files below named folders are recorded (under SfOk, which click's exists=True validation of -sf and ROOT_PATH establishes). The path glue of the command line (os.path.join/normpath/relpath as the tool calls them) is modelled on strings in MhlModel/Paths.lean and tied to posixpath and to the real create -sf / verify -sf: a file below the root gets a clean history-relative POSIX path that is neither absolute nor escaping (historyRelative_below), whatever the spelling (sf_spelling_irrelevant). " + COMMON_NOTE,
        "technique": "Lean 4 proof (mutual structural induction over the tree) + scenario differential + independent disk-walk monitor",
        "design_ref": "7 C02",
    },
    "C06": {
        "text": "Theorems: the generated manifest name parses back to its generation number for every number, folder and stamp (exact condition: no line feed in folder or stamp); the zero-padded number is injective; writeOne numbers a generation latest+1 and names it NNNN_<folder>_<stamp>.mhl; for ascending loaded generations latest is the maximum, so the new name is fresh; adding a generation keeps every old manifest and every old chain entry at its index and appends exactly one; updating one history leaves every other ascmhl folder untouched; reload of generations 1..n plus the new one yields 1..n+1, by induction for any number of runs. Tie/monitor: byte snapshot of every pre-existing file of every ascmhl folder before/after each create, numbering, name shape under the injected clock (several runs per second), chain entries vs c4 of the bytes on disk, long histories (11-14 generations).",
        "note": "Manifest bytes and their c4 digest are symbolic in the model (the monitor recomputes them from disk). The <UTC time> of the name is the model's stampOfEpoch (Civil: calendar round trips, stamp_injective - runs in different seconds never share a stamp). " + COMMON_NOTE,
        "technique": "Lean 4 proof (digit arithmetic, sortedness invariant, induction over runs) + scenario differential + byte-level monitor",
        "design_ref": "7 C06",
    },
    "C07": {
        "text": "Theorems about the compositional definition (nodeHashes) for arbitrary digest and decode functions: invariant under any permutation of any directory listing anywhere in the tree; content hash invariant under renaming a file or folder in place (at any depth, when old and new location are equally visible); empty / fully ignored directory hashes as the empty input; file hashes independent of the name; the content hash binds contents and the structure hash binds names and contents exactly under explicitly stated digest inequalities on the two concrete pre-images (iff versions; necessity shown by constant-H and non-decoding-D examples). Tie: the implementation-shaped computation in the model (contexts filled over the post-order traversal, as create and verify -dh do) is compared with the real code on every scenario; monitor: independent reference evaluation of the compositional definition with library digests versus every recorded <directoryhash>/<roothash> and the output of verify -dh -co.",
        "note": "C07impl proves that the implementation-shaped fold of create (contexts, popped child hashes) equals the compositional definition for every tree, predicate and format list; C09e2e proves the same for verify -dh. No global collision-freeness is assumed anywhere: where a hash has to change, the digest inequality on the concrete pre-images is an explicit hypothesis. " + COMMON_NOTE,
        "technique": "Lean 4 proof (permutation invariance via sorted-permutation uniqueness, induction over the tree) + scenario differential + reference evaluation monitor",
        "design_ref": "7 C07",
    },
    "C08": {
        "text": "Theorems: a path is routed to the root history or to a nested history whose root is a component-wise prefix of it, the returned path is relative to that root, and no nested history with a longer matching root exists (deepest wins; string-prefix siblings are not confused); the post-order walk commits children before parents; a history that has no list in the session and no child that wrote is skipped; the references written are exactly the direct children that wrote in this run as <child>/ascmhl/<new manifest>. Tie: nested scenarios (chains to depth 4, prefix siblings, any creation order, folder and -sf mode); monitor: partition by the deepest history, nested root present in the parent with the child's own root hash, references recomputed from the bytes of the referenced files, generations written in exactly the expected histories.",
        "note": COMMON_NOTE,
        "technique": "Lean 4 proof (maximum-by-length fold invariant) + nested scenario differential + independent partition/reference monitor",
        "design_ref": "7 C08",
    },
    "C12": {
        "text": "Theorems: appending patterns keeps the existing list as a prefix, adds each new pattern once in the given order and never creates duplicates (also for a batch that repeats a pattern); without a previous generation the list starts with the three defaults; every -i/-ii pattern is in the list; the list written into any (nested) history in a run is that history's previous list followed by the session's patterns; an ignored path is never visited by the traversal all four commands share (C02.ignored_nowhere). Tie: scenario differential; the Lean fragment matcher vs pathspec on 10^4 (patterns, path) pairs; monitor: <ignore> lists of successive manifests; trees sealed with and without ignored entries present give identical generations; editing/adding/deleting only ignored entries leaves verify, verify -dh, diff and create at exit 0.",
        "note": "The matcher (pathspec gitwildmatch) is a parameter of the model; the fragment {literal or glob per component, name/, patterns anchored by a leading or inner slash, !negation with last-match-wins} is implemented in the driver and compared with pathspec on 10^4 generated pairs per run. C12nested proves the whole-command clauses on nested trees (pattern list of every written generation, ignored paths never recorded / hashed / reported); C06seq proves monotone accumulation along arbitrary runs. " + COMMON_NOTE,
        "technique": "Lean 4 proof (list prefix/nodup invariants) + scenario differential + matcher differential + consistency monitor",
        "design_ref": "7 C12",
    },
    "C18": {
        "text": "Theorems for arbitrary generation lists: the flattened records contain no directory record, pairwise distinct paths, pairwise distinct formats per record, no failed entry; a path has a record iff some generation has a file record of it with a non-failed entry; every entry is the EARLIEST non-failed entry of its (path, format) and conversely every such earliest entry is present. Tie/monitor: the packing list read independently vs the history read independently; source tree and history byte-identical before/after flatten; verify -pl exits 0 on the unchanged tree and non-zero on an altered one.",
        "note": "Histories without nested child histories and without renames (the property's domain). " + COMMON_NOTE,
        "technique": "Lean 4 proof (fold invariant over generations/records/entries) + scenario differential + independent packing-list monitor",
        "design_ref": "7 C18",
    },
    "C03": {
        "text": "Theorems for every tree, history (flat or nested, any number of generations) and ignore predicate, once the history loads: the exit codes of the current source (10,11,12,20,21,30-33, pairwise distinct); complete characterisation of how verify / diff / create end (11 over 21 over 20 over 10; 10 over 21; 11 over 10 over 30); a file is judged mismatch iff it has an original entry whose digest differs from the file's, new iff it has none; every reported mismatch / new / missing path is genuine (no false report) and every visible mismatching or unrecorded file and every expected, unvisited, non-ignored path is reported with the stated exit code (completeness); a clean tree exits 0; a path with an ignored component is reported nowhere. Tie: seal-then-mutate scenarios with harness-side ground truth (alter/append/truncate, delete files and empty directories, add files, touch mtimes, edit ignored files; flat and nested, several generations, path spellings) on implementation and model; monitor: exit code and reported path sets against the ground truth.",
        "note": "'Unchanged since sealed' refers to folder-mode create. C03e2e composes createFolder, applyWritten and verify/diff/create of the model: a freshly sealed tree verifies with exit 0 and empty reports, every later create succeeds, an altered file gives 11 naming exactly that file (for every tree, option set and digest function); C04nested extends the unchanged-tree half to nested histories of any depth; missing_not_on_disk: nothing that is on disk is reported missing, whatever the patterns (D16).  C03nested: the same pipeline for a folder that contains already sealed nested histories of any depth (loads after sealing, verifies with exit 0, an altered / removed / added file gives 11 / 10 / 21 naming exactly that path relative to the command root)." + COMMON_NOTE,
        "technique": "Lean 4 proof (decision logic stated outright + membership characterisations over the shared traversal) + mutation scenarios with ground truth + differential",
        "design_ref": "7 C03",
    },
    "C05": {
        "text": "Theorems: the chain check passes iff every chain entry resolves to an intact manifest; with a clean prefix the first damaged entry decides (31 modified, 33 missing/unknown); a missing chain file of an existing ascmhl folder gives 32; loading fails iff some history in the tree (any depth) is damaged, and the error is that of the first damaged store in walk order (a history before its nested ones, siblings by name - independent of the stored order); if loading fails, create, create -sf, verify, verify -dh, diff, flatten, info, info -sf all end with that error, an empty report and NOTHING written. Tie/monitor: for (nested) multi-generation histories x edit kinds {bit flip at first/last/random position, insert, delete, truncate, empty, appended newline, removal, chain removal; mtime preserved or not} x all eight command forms: exit code and byte snapshot of the whole tree before/after, flatten destination absent.",
        "note": "The detection hypothesis is the specific state 'bytes differ from what the chain entry hashed' (symbolic in the model: a manifest is ok / modified / missing); that differing bytes give a differing C4 is observed on the implementation, not assumed globally.  C05e2e composes the statement with arbitrary runs of creates (C06seq): after any run, damage to any chained manifest (or a missing manifest / chain file) makes all nine command forms refuse with 31/33/32 and write nothing, at any nesting depth; a manifest the chain does not list is not part of the history (D17)." + COMMON_NOTE,
        "technique": "Lean 4 proof (first-fault lemma over the chain fold and the sorted walk) + fault-injection differential + snapshot monitor",
        "design_ref": "7 C05",
    },
    "C09": {
        "text": "Theorems: verify -dh never ends with an internal error (its result is 0, 12 or the refusal code of loading) on any input; a format is marked failed iff a recorded entry in a computed format differs in content or structure hash; exit 12 iff every computed format failed; the computed formats are exactly the formats occurring in recorded root hashes; if the root hash of the tree differs from what every generation recorded (in every recorded format) the exit is 12 - including changes directly in the root folder (the former defect); if nothing fails the exit is 0. The false wording 'some generation has a root hash' is refuted by a witness (a root hash without entries) and replaced by 'with at least one entry'. Tie/monitor: sealed trees (flat folders without sub-directories, nested histories in other formats, -n generations, several generations) with one mutation at any depth (content, rename, add, remove, empty directories) or none: expected 12 / 0, never an exception.",
        "note": "That a changed tree has a different root hash rests on the digest inequalities made explicit in C07; the scenarios use contents whose digests differ (observed).  C09nested: which recorded entries each folder is compared with on nested trees, exit 0 after sealing from the outer root (iterable), and 12 exactly when every verified format has a compared entry that differs from the compositional definition of the current tree." + COMMON_NOTE,
        "technique": "Lean 4 proof (fold invariant over the traversal, decision logic) + mutation scenarios + differential",
        "design_ref": "7 C09",
    },
    "C13": {
        "text": "Theorems for trees with distinct sibling names related by any permutation of any directory listing at any depth: the traversal yields EQUAL visit lists (children sorted by code-point order), path look-ups agree, loading the (nested) histories gives the same result including which error is reported, and verify, diff, verify -dh, create (folder and -sf mode, full outcome including every written generation), flatten and info give EQUAL outcomes; counterexamples show distinct names are needed. The model has no access to the absolute location at all: every path it handles is relative to the command root (the repaired code matches patterns against root-relative paths). Tie/monitor: the same scenario sealed at two absolute locations (parents named ascmhl / matching a user pattern / with spaces; trailing slash, dot segments, relative invocation, cwd invocation) and under seeded permutations of os.listdir/os.walk: byte comparison of all ascmhl folders; a sealed tree copied elsewhere verifies as at the original place.",
        "note": "Mount independence is structural in the model (no absolute path exists in it) and carried by the tie (second world on another file system, filled in another order, below a sealed volume); listing independence is a theorem. D19 (the order in which create -dr visited missing paths depended on the mount point) was found by this machinery and repaired; detectRenames_order_independent states when the order cannot matter. " + COMMON_NOTE,
        "technique": "Lean 4 proof (permutation invariance through sorted-permutation uniqueness, congruence over all commands) + two-location / permuted-listing differential on the implementation",
        "design_ref": "7 C13",
    },
    "C14": {
        "text": "Theorems: verify (all modes), diff and verify -dh return no written generation on any input and exit path; if loading fails create writes nothing; everything create writes comes from one successful commit and belongs to a history of the loaded tree (all or nothing); flatten returns at most one manifest that is placed outside the tree. Tie/monitor (this property is carried by the tie): Python audit events (open for writing, mkdir, rename/replace, remove, rmdir, utime, chmod, truncate, shutil.*) recorded around every command of every scenario must lie inside the ascmhl folders of the histories that wrote (create) / below the destination (flatten) / be absent (read-only commands, also on trees without history); full snapshot (type, bytes, mode, mtime) before/after; no leftover files; media files never change content, size, mode or mtime.",
        "note": "Partial by nature: a theorem about the model says nothing about a stray write in code the model does not mention; the audit/snapshot monitor is what decides. " + COMMON_NOTE,
        "technique": "Lean 4 proof (outcome shape) + audit-hook and snapshot monitor over all scenario commands",
        "design_ref": "7 C14",
    },
    "C16": {
        "text": "Theorems about CPython's naive-local-time resolution as written (fromtimestamp fold detection, local_to_seconds) over arbitrary offset functions: in a constant zone and in any zone with one transition the round trip mktime(fromtimestamp(t)) = t holds for ALL instants iff the offset drops by at most the 24 h probe window (exact condition, with witnesses beyond it); hence the printed value denotes the file's instant and carries the offset in force at that instant, independent of 'now'; the former formatter is off by exactly z(t) - z(now) and right iff both lie on the same side of the switch; the fold bit is set exactly in the second pass of a repeated interval and dropping it yields the first pass; the offset text has the shape [+-]hh:mm for whole-minute offsets and is injective; the size attribute is present for every length (0 included) and injective. Tie/monitor: datetime_isostring through the real libc path under 12-17 zones (IANA and POSIX rule strings, half-hour and 45-minute offsets, both hemispheres) at every 2026 transition -2h..+2h (both passes, both sides of gaps) vs an independent ISO parser and zoneinfo; model vs implementation on the same zone tables; whole create runs: size, lastmodificationdate, hashdate, creationdate, UTC file name.",
        "note": "libc's zone data is trusted and exercised, not proved. The rendering of the civil fields is modelled (MhlModel/Civil.lean: day count <-> calendar date round trips for all integers, stamp_injective) and tied to datetime arithmetic and to the names the real create writes. " + COMMON_NOTE,
        "technique": "Lean 4 proof (integer arithmetic over offset functions, omega) + zone-table differential + independent ISO parser monitor",
        "design_ref": "7 C16",
    },
    "C17": {
        "text": "Theorems: one generation step of the expected-path computation (drop the previous paths of the generation's renamed records, add its record paths); a path renamed away in some generation and not recorded again later is not expected, whatever came before (the former defect: a->b then b->c expects only c); the recorded-name look-up steps back to the previous path exactly under stated side conditions; no duplicates; rename detection only ever takes paths off the given missing list and does nothing without new paths. Tie/monitor: rename scenarios (renames in place, moves into existing and new directories, 1-3 rename generations, unrelated new files, format changes, -n) with pairwise distinct contents: create -dr exits 0, records each moved file under its new path with its former path, reports none missing; afterwards verify/diff/create accept the tree, verify fails when a renamed file was also changed; without -dr missing (10).",
        "note": "C17detect proves the rename-detection double loop sound and complete (a pair is linked iff the digests in the first recorded format agree), that it changes nothing but previousPath fields, and the whole flow end to end (seal, move one file, create -dr exits 0 with the previous path recorded, verify/diff/create accept the tree; without -dr: missing plus new). Pairwise distinct contents are the property's own premise (a Lean witness shows what happens without it); the not-found paths are visited in sorted order and detectRenames_order_independent proves the result independent of that order under the premise. " + COMMON_NOTE,
        "technique": "Lean 4 proof (fold lemmas over generations) + rename scenarios differential + independent previousPath monitor",
        "design_ref": "7 C17",
    },
    "C19": {
        "text": "Theorems: info fails with 30 exactly when the loaded history has no generation; its lines are the history's own generations in ascending order followed by every nested history in pre-order, exactly one line per (history, generation); info -sf prints, generation by generation, exactly the entries of the record the tool's look-up finds for the path in the NEAREST ENCLOSING history of the file (ownerHist_deepest, loadHistory_WF, infoSingleFile_nearest; the defect D18 - only the root history was searched - was found here and repaired). Tie/monitor: stdout of info / info -sf (with and without explicit root: upward search for the nearest history) parsed into tuples vs the manifests read independently, creation dates included; no-history cases.",
        "note": COMMON_NOTE,
        "technique": "Lean 4 proof (structural recursion over the history tree) + output differential + independent manifest monitor",
        "design_ref": "7 C19",
    },
    "C10": {
        "text": "Theorems about the writer (toXml), the event stream and the event-driven reader (state machine with current object, object stack, structure flag) of the model: parse(toXml g) = norm g for every well-formed generation, where WfGen is proved to be EXACTLY the weakest condition (iff) and norm is the documented representation shift (last-modification dates written but not read, file entries sorted by format, root hash path '.', ignore list de-duplicated / defaulted); the reader never returns an unsupported format or a record named '.'; norm is idempotent; equal element trees give equal normal forms (an independent reader of the infoset extracts the same values); chain files read back as written and appending an entry leaves the earlier ones unchanged; sizes including 0 and an author named '-' round-trip (the former defects). Tie: random well-formed generations and chains built as ascmhl objects -> write_hash_list/write_chain -> the tool's reader AND an independent ElementTree reader, compared field by field with what was written and with the model's tree / parse / norm; strings with XML specials, non-ASCII, astral, NFC/NFD, U+2028/2029, leading/trailing/multiple spaces.",
        "note": "The lexical XML layer (lxml/libxml2 escaping, encoding, pretty printing) is exercised by the tie, not modelled; hash dates are compared as instants.  C19seq: info after arbitrary runs lists exactly 1..n; on nested trees exactly the loaded generations of every history in pre-order; info -sf lines after sealing and after further (altering or not) runs are the entries C04 predicts." + COMMON_NOTE,
        "technique": "Lean 4 proof (fold over the event list, per-subtree lemmas, invariant of the reader) + object-level write/read differential with an independent reader",
        "design_ref": "7 C10",
    },
    "C11": {
        "text": "Theorems about a GENERIC schema validator applied to the content models REGENERATED from xsd/ASCMHL.xsd and xsd/ASCMHLDirectory.xsd on every run: for every generation satisfying XsdWf (dates in the xs:dateTime lexical space, process and actions in the enumerations, e-mail matching the pattern, per record pairwise distinct supported formats - sorted by the writer for files, already in schema order for directories - non-empty ignore list) the written manifest is valid, including generations without records (no <hashes> element: the former defect) and with references only; every non-empty chain is valid; per-element-builder validity with explicit fuel bounds; negative sanity (empty <hashes/>, repeated format, wrong order, missing version, action 'new', chain entry without c4, text in element-only content are INVALID). Tie/monitor: every distinct manifest / chain / collection file written in the scenario pool (all option combinations, nested parents that receive only references, empty folders, failing runs, flatten) validated with lxml.etree.XMLSchema AND the JDK validator; the model's validator vs lxml on these files and on structurally mutated variants (both directions); the model's writer on random well-formed generations.",
        "note": "Namespaces are not modelled in the Lean validator (lxml and the JDK check them on the real files). " + COMMON_NOTE,
        "technique": "Lean 4 proof over a regenerated schema value (greedy content-model matcher with explicit fuel bounds) + two independent schema validators on all written files + validator differential",
        "design_ref": "7 C11",
    },
    "C15": {
        "text": "Theorems about the write protocol of the repaired code (manifest and chain each written to <name>.tmp and moved into place with an atomic replace; children before parents) for EVERY crash state (every prefix of the operations, the last write torn at any byte) and every file system: every other path keeps its bytes (all previously committed manifests, all media); the chain is the old one or the complete new one, never partial; the manifest is absent or complete; a new chain implies a complete manifest; the only partial files are the two temporaries, which the loader never looks at; stale temporaries of an earlier crash change nothing; for several histories the crash state is some complete commits followed by one interrupted commit, and a parent's chain is new only if all its children's commits are complete; with at least one prior generation no crash state is refused with 32. The residual is a theorem too: a FIRST-ever create has crash states (after mkdir / between the two replaces) that every command refuses with 32 - recorded as known finding D6b because C05 demands exactly that refusal. Tie/monitor: the recorded file-system operations of the real create must be accepted by the model's protocol automaton; every crash state is materialised on a copy of the pre-state and examined with info/verify (committed manifests identical, chain parses and lists them, no partial generation visible).",
        "note": "Process kill, not power loss (no reordering of writes); os.replace atomic.  Two enumerations on the real code: kill states (every prefix of the recorded operations, last write whole/absent/torn, and the same prefixes with user-space buffers lost) and interruptions that unwind through the tool's handlers (Ctrl-C / failing system call at every mutating call); each state is examined with info, verify and a following create (history loads, info shows exactly what the chain lists, the chain stays gap-free). D17 (unlisted leftover manifest) was found and repaired through this; C06.interrupted_generation_absent is the corresponding theorem." + COMMON_NOTE,
        "technique": "Lean 4 proof (phase characterisation of every crash state) + operation-trace refinement + exhaustive crash-state replay on the implementation The known finding D6b is identified by a signature that CrashRun states as theorems: in the order the code has (hash everything, then commit) every refusing crash point lies in the window after which nothing is read any more; a run that makes the folder before hashing refuses outside it.",
        "design_ref": "7 C15",
    },
    "C20": {
        "text": "Theorems about a labelled transition system main thread || daemon checker thread || server, for EVERY command, EVERY server behaviour (reply with any version flags, garbage, request exception, other exception, never) and EVERY interleaving: the exit code is the command's; stdout is the command's output optionally followed by exactly the notice, never for a command that raised; the process exits at most the join timeout after the command finished; the notice appears only if a strictly newer final release was stored BEFORE it was read; the main thread is never blocked (no deadlock, strict progress); tracebacks of the checker reach only stderr; exited states with and without the notice are both reachable for a newer version (the race is real). Tie/monitor: both CLI groups run in a fresh interpreter per case with requests.get stubbed before the import that starts the thread: 17 server behaviours x commands ending with 0/10/11/30: exit code, stdout minus one trailing notice, duration within 1 s (+slack) of the bare command; a process that does not terminate is a violation.",
        "note": "CPython's scheduler, click's result-callback plumbing and daemon-thread teardown are exercised by the tie, not modelled. " + COMMON_NOTE,
        "technique": "Lean 4 proof (inductive invariant over all interleavings of the LTS) + fresh-interpreter behavioural monitor",
        "design_ref": "7 C20",
    },
}


def main():
    checks = []
    na = []
    for p in props:
        pid = p["id"]
        c = CLAIMS.get(pid)
        if c is None:
            na.append({"property_id": pid, "reason": "check not built yet (in progress; see DESIGN.md section 13)"})
            continue
        checks.append(
            {
                "property_id": pid,
                "quick_cmd": f"./check {pid} --tier quick",
                "thorough_cmd": f"./check {pid} --tier thorough",
                "evidence_file": f"/verif/evidence/{pid}.json",
                "replay_cmd_template": f"./check {pid} --replay {{path}}",
                "engine": "lean4-model+correspondence",
                "level_claimed": {"category": "proof", "text": c["text"], "design_ref": "DESIGN.md section " + c["design_ref"]},
                "level_note": c["note"],
                "technique": c["technique"],
            }
        )
    m = {
        "version": 1,
        "setup_cmd": "./setup.sh",
        "hooks": {
            "guard": "ASCMITC_MHL_VERIF",
            "enable": "no hooks are needed: the harness imports ascmhl from /repo's working tree in-process and controls clock (freezegun), TZ, directory listing order, update server (stubbed requests.get) and file-system observation (audit/wrappers) from outside",
            "baseline_off_cmd": "cd /repo && /venv/bin/python -m pytest -ra -q -p no:cacheprovider --timeout=900 --continue-on-collection-errors",
            "source_commits": [],
            "add_only": True,
        },
        "engines": [
            {"name": "lean4-model+correspondence", "path": "/verif/lean", "serves_properties": [c["property_id"] for c in checks], "kind_free_text": "Lean 4 model (MhlModel) + property theorems (MhlProps) + Python correspondence harness driving the real ascmhl code and the Lean driver on the same inputs"}
        ],
        "checks": checks,
        "notes": "All checks: ./check <id> [--tier quick|thorough]; seeds via VERIF_SEED. Genuine defects repaired as `fix:` commits in /repo are listed in known_findings.json (fixed:) with their witnesses in harness/witnesses.py; one recorded finding (C15 D6b).",
        "not_applicable": na,
    }
    json.dump(m, open(os.path.join(HERE, "MANIFEST.json"), "w"), indent=1)
    print("claimed", len(checks), "not_applicable", len(na))


if __name__ == "__main__":
    main()
