#!/usr/bin/env python3
"""Prints the markdown table of DESIGN.md section 13 from seeded/*/meta.json and seeded/RESULTS.json."""
import json, os, glob, re

V = os.path.dirname(os.path.dirname(os.path.abspath(__file__)))
res = json.load(open(os.path.join(V, "seeded", "RESULTS.json")))
print("| Change | What it does (from the author's notes) | Result of the property's quick check | First finding |")
print("|---|---|---|---|")
for d in sorted(glob.glob(os.path.join(V, "seeded", "C*_*"))):
    mid = os.path.basename(d)
    meta = json.load(open(os.path.join(d, "meta.json")))
    note = meta.get("needs_to_manifest", "")
    first = re.sub(r"^Change:\s*", "", note.strip().split("\n")[0])
    first = re.split(r"(?<=[a-z\)])\. ", first)[0][:170].replace("|", "/")
    r = res.get(mid, {})
    ff = (r.get("first_finding") or "").replace("|", "/").replace("\n", " ")[:110]
    print(f"| {mid} (r{meta.get('round', 1)}) | {first} | {r.get('status', 'not run')} | {ff} |")
