#!/usr/bin/env python3
"""Translator: reads constants and tables out of /repo's Python sources with `ast` (no import, so it sees
the working tree even if it does not run) and writes lean/MhlModel/Gen/Consts.lean.

Only literal values are extracted.  If the shape it expects is gone it exits 3 and writes a description of what
it could not find to stdout; the caller treats that as a broken proof obligation, never as a default.
"""
import ast, sys, os, json

REPO = os.environ.get("VERIF_REPO", "/repo")
OUT = sys.argv[1] if len(sys.argv) > 1 else os.path.join(os.path.dirname(os.path.dirname(os.path.abspath(__file__))), "lean", "MhlModel", "Gen", "Consts.lean")


class Missing(Exception):
    pass


def parse(rel):
    p = os.path.join(REPO, rel)
    try:
        with open(p, encoding="utf-8") as f:
            return ast.parse(f.read(), p)
    except (OSError, SyntaxError) as e:
        raise Missing(f"{rel}: {e}")


def find_class(mod, name):
    for n in mod.body:
        if isinstance(n, ast.ClassDef) and n.name == name:
            return n
    raise Missing(f"class {name}")


def find_func(node, name):
    for n in ast.walk(node):
        if isinstance(n, (ast.FunctionDef,)) and n.name == name:
            return n
    raise Missing(f"function {name}")


def const_eval(e):
    """evaluate literal expressions incl. 1024 * 1024"""
    if isinstance(e, ast.Constant):
        return e.value
    if isinstance(e, ast.BinOp) and isinstance(e.op, ast.Mult):
        return const_eval(e.left) * const_eval(e.right)
    if isinstance(e, ast.BinOp) and isinstance(e.op, ast.Sub):
        return const_eval(e.left) - const_eval(e.right)
    if isinstance(e, ast.BinOp) and isinstance(e.op, ast.Add):
        return const_eval(e.left) + const_eval(e.right)
    if isinstance(e, ast.List):
        return [const_eval(x) for x in e.elts]
    if isinstance(e, ast.UnaryOp) and isinstance(e.op, ast.USub):
        return -const_eval(e.operand)
    raise Missing(f"not a literal: {ast.dump(e)[:80]}")


def local_assign(fn, var):
    for n in ast.walk(fn):
        if isinstance(n, ast.Assign) and len(n.targets) == 1 and isinstance(n.targets[0], ast.Name) and n.targets[0].id == var:
            try:
                return const_eval(n.value)
            except Missing:
                continue
    raise Missing(f"{fn.name}: assignment to {var}")


def module_assign(mod, var):
    for n in mod.body:
        if isinstance(n, ast.Assign) and len(n.targets) == 1 and isinstance(n.targets[0], ast.Name) and n.targets[0].id == var:
            return const_eval(n.value)
    raise Missing(f"module variable {var}")


def dotted(e):
    if isinstance(e, ast.Attribute):
        return dotted(e.value) + "." + e.attr
    if isinstance(e, ast.Name):
        return e.id
    raise Missing("dotted name")


def lean_str(s):
    out = '"'
    for ch in s:
        if ch == '"':
            out += '\\"'
        elif ch == "\\":
            out += "\\\\"
        elif ch == "\n":
            out += "\\n"
        elif ch == "\t":
            out += "\\t"
        elif ord(ch) < 32:
            out += "\\x%02x" % ord(ch)
        else:
            out += ch
    return out + '"'


def lean_list(xs, f):
    return "[" + ", ".join(f(x) for x in xs) + "]"


def main():
    c = {}
    H = parse("ascmhl/hasher.py")
    c4 = find_class(H, "C4")
    for n in c4.body:
        if isinstance(n, ast.Assign) and n.targets[0].id == "charset":
            c["c4Charset"] = const_eval(n.value)
    if "c4Charset" not in c:
        raise Missing("C4.charset")
    sd = find_func(c4, "string_digest")
    bd = find_func(c4, "bytes_from_string_digest")
    c["c4EncBase"] = local_assign(sd, "base58")
    c["c4EncLength"] = local_assign(sd, "c4id_length")
    c["c4EncZero"] = local_assign(sd, "zero")
    # prefix literal and width expression of: c4_string = "c4" + c4_string.rjust(c4id_length - 2, zero)
    pref, minus = None, None
    for n in ast.walk(sd):
        if isinstance(n, ast.BinOp) and isinstance(n.op, ast.Add) and isinstance(n.left, ast.Constant) and isinstance(n.left.value, str) and isinstance(n.right, ast.Call) and getattr(n.right.func, "attr", None) == "rjust":
            pref = n.left.value
            w = n.right.args[0]
            if isinstance(w, ast.BinOp) and isinstance(w.op, ast.Sub) and isinstance(w.left, ast.Name) and w.left.id == "c4id_length":
                minus = const_eval(w.right)
            if not (isinstance(n.right.args[1], ast.Name) and n.right.args[1].id == "zero"):
                raise Missing("rjust fill is not `zero`")
    if pref is None or minus is None:
        raise Missing("C4.string_digest: prefix + rjust(c4id_length - k, zero)")
    c["c4Prefix"], c["c4PrefixLen"] = pref, minus
    # int(sha512_string, 16)
    if not any(isinstance(n, ast.Call) and getattr(n.func, "id", None) == "int" and len(n.args) == 2 and const_eval(n.args[1]) == 16 for n in ast.walk(sd)):
        raise Missing("C4.string_digest: int(hex, 16)")
    c["c4DecBase"] = local_assign(bd, "base58")
    c["c4DecLength"] = local_assign(bd, "c4id_length")
    c["c4DecStart"] = local_assign(bd, "i")
    tb = [n for n in ast.walk(bd) if isinstance(n, ast.Call) and getattr(n.func, "attr", None) == "to_bytes"]
    if len(tb) != 1:
        raise Missing("C4.bytes_from_string_digest: to_bytes")
    c["c4DecBytes"] = const_eval(tb[0].args[0])
    bo = [k.value for k in tb[0].keywords if k.arg == "byteorder"]
    c["c4DecByteorder"] = const_eval(bo[0]) if bo else (const_eval(tb[0].args[1]) if len(tb[0].args) > 1 else "big")
    # read chunk sizes
    c["chunkSingle"] = local_assign(find_func(find_class(H, "Hasher"), "hash_file"), "size")
    c["chunkAggregate"] = local_assign(find_func(find_class(H, "AggregateHasher"), "hash_file"), "size")
    # HashType enum -> class -> (algorithm, codec)
    classes = {n.name: n for n in H.body if isinstance(n, ast.ClassDef)}
    table = []
    for n in find_class(H, "HashType").body:
        if isinstance(n, ast.Assign) and isinstance(n.value, ast.Name):
            fmt, cls = n.targets[0].id, n.value.id
            cd = classes.get(cls)
            if cd is None:
                raise Missing(f"class {cls}")
            ht = find_func(cd, "hashlib_type")
            rets = [r for r in ast.walk(ht) if isinstance(r, ast.Return)]
            alg = dotted(rets[0].value)
            bases = [dotted(b) for b in cd.bases]
            if "HexHasher" in bases:
                # HexHasher: hexdigest / unhexlify
                hh = classes["HexHasher"]
                sdig = find_func(hh, "string_digest")
                ok = any(isinstance(x, ast.Call) and getattr(x.func, "attr", None) == "hexdigest" for x in ast.walk(sdig))
                ok2 = any(isinstance(x, ast.Call) and getattr(x.func, "attr", None) == "unhexlify" for x in ast.walk(find_func(hh, "bytes_from_string_digest")))
                if not (ok and ok2):
                    raise Missing("HexHasher codec")
                codec = "hex"
            elif cls == "C4":
                codec = "c4"
            else:
                raise Missing(f"codec of {cls}")
            table.append((fmt, alg, codec))
    c["hashTable"] = table
    V = parse("ascmhl/__version__.py")
    for k in ["ascmhl_folder_name", "ascmhl_file_extension", "ascmhl_chainfile_name", "ascmhl_collectionfile_name", "ascmhl_supported_hashformats", "ascmhl_default_hashformat", "ascmhl_reference_hash_format"]:
        c[k] = module_assign(V, k)
    E = parse("ascmhl/errors.py")
    ex = []
    for n in E.body:
        if isinstance(n, ast.ClassDef):
            for b in n.body:
                if isinstance(b, ast.Assign) and b.targets[0].id == "exit_code":
                    ex.append((n.name, const_eval(b.value)))
    c["exitCodes"] = ex
    I = parse("ascmhl/ignore.py")
    rets = [r for r in ast.walk(find_func(I, "default_ignore_list")) if isinstance(r, ast.Return)]
    c["defaultIgnore"] = const_eval(rets[0].value)
    Hi = parse("ascmhl/history.py")
    for n in find_class(Hi, "MHLHistory").body:
        if isinstance(n, ast.Assign) and n.targets[0].id == "history_file_name_regex":
            c["historyFileNameRegex"] = const_eval(n.value)
    fnm = find_func(Hi, "_new_generation_filename")
    fs = [n for n in ast.walk(fnm) if isinstance(n, ast.JoinedStr)]
    # f"{index:04d}_{folder_name}_{date_string}{ascmhl_file_extension}"
    shape = []
    for v in fs[0].values:
        if isinstance(v, ast.Constant):
            shape.append("lit:" + v.value)
        else:
            spec = ""
            if v.format_spec is not None:
                spec = ":" + "".join(x.value for x in v.format_spec.values if isinstance(x, ast.Constant))
            shape.append("var:" + dotted(v.value) + spec)
    c["generationFileNameShape"] = shape
    U = parse("ascmhl/utils.py")
    fn = find_func(U, "datetime_now_filename_string")
    fmts = [n.value for n in ast.walk(fn) if isinstance(n, ast.Constant) and isinstance(n.value, str) and "%" in n.value]
    c["fileNameTimeFormat"] = fmts[0]
    c["fileNameTimeIsUtc"] = any(isinstance(n, ast.Attribute) and n.attr == "utc" for n in ast.walk(fn))
    P = parse("ascmhl/hashlist_xml_parser.py")
    mh = find_func(P, "_media_hash_xml_element")
    lam = [n for n in ast.walk(mh) if isinstance(n, ast.Lambda)]
    c["hashEntrySortKey"] = lam[0].body.attr if lam and isinstance(lam[0].body, ast.Attribute) else "NONE"
    Cm = parse("ascmhl/commands.py")
    procs = []
    for n in ast.walk(Cm):
        if isinstance(n, ast.Call) and getattr(n.func, "id", None) == "MHLProcess" and n.args:
            procs.append(const_eval(n.args[0]))
    c["processTypes"] = procs
    # reader tag list for hash formats: the parsers use ascmhl_supported_hashformats
    c["parserUsesSupportedFormats"] = any(isinstance(n, ast.Name) and n.id == "ascmhl_supported_hashformats" for n in ast.walk(find_func(P, "parse")))

    L = []
    a = L.append
    a("-- GENERATED by tools/extract_consts.py from the working tree of ascmitc/mhl. Do not edit.")
    a("namespace MhlModel.Gen")
    a("")
    S = lean_str
    a(f"def c4Charset : String := {S(c['c4Charset'])}")
    a(f"def c4EncBase : Nat := {c['c4EncBase']}")
    a(f"def c4EncLength : Nat := {c['c4EncLength']}")
    a(f"def c4EncZero : String := {S(c['c4EncZero'])}")
    a(f"def c4Prefix : String := {S(c['c4Prefix'])}")
    a(f"def c4PrefixLen : Nat := {c['c4PrefixLen']}")
    a(f"def c4DecBase : Nat := {c['c4DecBase']}")
    a(f"def c4DecLength : Nat := {c['c4DecLength']}")
    a(f"def c4DecStart : Nat := {c['c4DecStart']}")
    a(f"def c4DecBytes : Nat := {c['c4DecBytes']}")
    a(f"def c4DecByteorder : String := {S(c['c4DecByteorder'])}")
    a(f"def chunkSingle : Nat := {c['chunkSingle']}")
    a(f"def chunkAggregate : Nat := {c['chunkAggregate']}")
    a("/-- (format, library algorithm, text codec) as declared by `HashType` and the `Hasher` subclasses -/")
    a("def hashTable : List (String × String × String) := " + lean_list(c["hashTable"], lambda t: f"({S(t[0])}, {S(t[1])}, {S(t[2])})"))
    a(f"def folderName : String := {S(c['ascmhl_folder_name'])}")
    a(f"def fileExtension : String := {S(c['ascmhl_file_extension'])}")
    a(f"def chainFileName : String := {S(c['ascmhl_chainfile_name'])}")
    a(f"def collectionFileName : String := {S(c['ascmhl_collectionfile_name'])}")
    a("def supportedFormats : List String := " + lean_list(c["ascmhl_supported_hashformats"], S))
    a(f"def defaultFormat : String := {S(c['ascmhl_default_hashformat'])}")
    a(f"def referenceFormat : String := {S(c['ascmhl_reference_hash_format'])}")
    a("def exitCodes : List (String × Nat) := " + lean_list(c["exitCodes"], lambda t: f"({S(t[0])}, {t[1]})"))
    a("def defaultIgnore : List String := " + lean_list(c["defaultIgnore"], S))
    a(f"def historyFileNameRegex : String := {S(c['historyFileNameRegex'])}")
    a("def generationFileNameShape : List String := " + lean_list(c["generationFileNameShape"], S))
    a(f"def fileNameTimeFormat : String := {S(c['fileNameTimeFormat'])}")
    a(f"def fileNameTimeIsUtc : Bool := {'true' if c['fileNameTimeIsUtc'] else 'false'}")
    a(f"def hashEntrySortKey : String := {S(c['hashEntrySortKey'])}")
    a("def processTypes : List String := " + lean_list(c["processTypes"], S))
    a(f"def parserUsesSupportedFormats : Bool := {'true' if c['parserUsesSupportedFormats'] else 'false'}")
    a("")
    a("end MhlModel.Gen")
    text = "\n".join(L) + "\n"
    os.makedirs(os.path.dirname(OUT), exist_ok=True)
    old = None
    if os.path.exists(OUT):
        with open(OUT, encoding="utf-8") as f:
            old = f.read()
    if old != text:
        with open(OUT, "w", encoding="utf-8") as f:
            f.write(text)
    print(json.dumps({"ok": True, "changed": old != text, "out": OUT}))


if __name__ == "__main__":
    try:
        main()
    except Missing as e:
        print(json.dumps({"ok": False, "missing": str(e)}))
        sys.exit(3)
    except Exception as e:  # shape changed in a way the extractor does not understand
        print(json.dumps({"ok": False, "missing": f"{type(e).__name__}: {e}"}))
        sys.exit(3)
