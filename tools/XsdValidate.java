// Validates XML files against an XSD with the JDK's validator (javax.xml.validation).
// usage: java XsdValidate.java <main.xsd> <dir with the repo's xsd files>   ; file paths on stdin, one per line
// prints "OK <path>" or "INVALID <path> :: <message>"
import javax.xml.XMLConstants;
import javax.xml.transform.stream.StreamSource;
import javax.xml.validation.*;
import org.w3c.dom.ls.*;
import java.io.*;

public class XsdValidate {
    public static void main(String[] a) throws Exception {
        final File dir = new File(a[1]);
        SchemaFactory f = SchemaFactory.newInstance(XMLConstants.W3C_XML_SCHEMA_NS_URI);
        f.setResourceResolver(new LSResourceResolver() {
            public LSInput resolveResource(String type, String ns, String publicId, String systemId, String baseURI) {
                if (systemId == null) return null;
                String name = systemId.substring(systemId.lastIndexOf('/') + 1);
                final File local = new File(dir, name);
                if (!local.exists()) return null;
                return new LSInput() {
                    public Reader getCharacterStream() { return null; }
                    public void setCharacterStream(Reader r) {}
                    public InputStream getByteStream() { try { return new FileInputStream(local); } catch (IOException e) { return null; } }
                    public void setByteStream(InputStream s) {}
                    public String getStringData() { return null; }
                    public void setStringData(String s) {}
                    public String getSystemId() { return local.toURI().toString(); }
                    public void setSystemId(String s) {}
                    public String getPublicId() { return null; }
                    public void setPublicId(String s) {}
                    public String getBaseURI() { return null; }
                    public void setBaseURI(String s) {}
                    public String getEncoding() { return null; }
                    public void setEncoding(String s) {}
                    public boolean getCertifiedText() { return false; }
                    public void setCertifiedText(boolean b) {}
                };
            }
        });
        Schema schema = f.newSchema(new File(a[0]));
        BufferedReader in = new BufferedReader(new InputStreamReader(System.in, "UTF-8"));
        String line;
        while ((line = in.readLine()) != null) {
            if (line.isEmpty()) continue;
            try {
                Validator v = schema.newValidator();
                v.validate(new StreamSource(new File(line)));
                System.out.println("OK " + line);
            } catch (Exception e) {
                System.out.println("INVALID " + line + " :: " + String.valueOf(e.getMessage()).replace('\n', ' '));
            }
        }
    }
}
