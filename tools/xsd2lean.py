#!/usr/bin/env python3
"""Translator: /repo/xsd/ASCMHL.xsd and ASCMHLDirectory.xsd -> lean/MhlModel/Gen/Xsd.lean (content models as a Lean value).

Supported XSD subset (everything the two schemas use): named complexType with sequence / choice / element particles
(minOccurs / maxOccurs), nested sequences, anonymous complexType with simpleContent extension, simpleContent extension
with attributes, complexContent extension of anyType, simpleType restriction with enumeration / pattern, attributes
with type / use / fixed, builtin types string / integer / dateTime.  Anything else -> exit 3 (broken obligation).
"""
import sys, os, json
import xml.etree.ElementTree as ET

REPO = os.environ.get("VERIF_REPO", "/repo")
OUT = os.path.join(os.path.dirname(os.path.dirname(os.path.abspath(__file__))), "lean", "MhlModel", "Gen", "Xsd.lean")
XS = "{http://www.w3.org/2001/XMLSchema}"


class Unsupported(Exception):
    pass


def S(s):
    return '"' + s.replace("\\", "\\\\").replace('"', '\\"') + '"'


def local(q):
    return q.split(":")[-1] if q else q


def occurs(e):
    mn = int(e.get("minOccurs", "1"))
    mx = e.get("maxOccurs", "1")
    return mn, ("none" if mx == "unbounded" else f"(some {int(mx)})")


class Tr:
    def __init__(self, prefix):
        self.types = []  # (name, lean text)
        self.prefix = prefix

    def attrs(self, node):
        out = []
        for a in node.findall(XS + "attribute"):
            fixed = a.get("fixed")
            out.append(f"⟨{S(a.get('name'))}, {S(local(a.get('type', 'string')))}, {'true' if a.get('use') == 'required' else 'false'}, {('some ' + S(fixed)) if fixed is not None else 'none'}⟩")
        return "[" + ", ".join(out) + "]"

    def particle(self, node, owner):
        t = node.tag
        if t == XS + "element":
            mn, mx = occurs(node)
            name = node.get("name")
            ty = node.get("type")
            if ty is None:
                ct = node.find(XS + "complexType")
                if ct is None:
                    raise Unsupported(f"element {name} without type")
                ty = f"{owner}.{name}"
                self.complex(ty, ct)
            return f".elem {S(name)} {S(local(ty))} {mn} {mx}"
        if t in (XS + "sequence", XS + "choice"):
            mn, mx = occurs(node)
            kids = [self.particle(c, owner) for c in node if c.tag in (XS + "element", XS + "sequence", XS + "choice")]
            k = "seq" if t == XS + "sequence" else "choice"
            return f".{k} [" + ", ".join(kids) + f"] {mn} {mx}"
        raise Unsupported(f"particle {t}")

    def complex(self, name, ct):
        sc = ct.find(XS + "simpleContent")
        cc = ct.find(XS + "complexContent")
        if sc is not None:
            ext = sc.find(XS + "extension")
            if ext is None:
                raise Unsupported(f"{name}: simpleContent without extension")
            self.types.append((name, f".simpleContent {S(local(ext.get('base')))} {self.attrs(ext)}"))
            return
        if cc is not None:
            ext = cc.find(XS + "extension")
            if ext is not None and local(ext.get("base")) == "anyType":
                self.types.append((name, ".any"))
                return
            raise Unsupported(f"{name}: complexContent")
        body = None
        for c in ct:
            if c.tag in (XS + "sequence", XS + "choice"):
                body = self.particle(c, name)
        if body is None:
            body = ".seq [] 1 (some 1)"
        self.types.append((name, f".complex ({body}) {self.attrs(ct)}"))

    def simple(self, name, st):
        r = st.find(XS + "restriction")
        if r is None:
            raise Unsupported(f"{name}: simpleType without restriction")
        enums = [e.get("value") for e in r.findall(XS + "enumeration")]
        pats = [e.get("value") for e in r.findall(XS + "pattern")]
        base = local(r.get("base"))
        if enums:
            self.types.append((name, ".simple (.enum [" + ", ".join(S(x) for x in enums) + "])"))
        elif pats:
            self.types.append((name, f".simple (.pattern {S(pats[0])})"))
        else:
            self.types.append((name, f".simple (.base {S(base)})"))

    def schema(self, path):
        root = ET.parse(path).getroot()
        rootel = None
        for c in root:
            if c.tag == XS + "complexType":
                self.complex(c.get("name"), c)
            elif c.tag == XS + "simpleType":
                self.simple(c.get("name"), c)
            elif c.tag == XS + "element":
                rootel = (c.get("name"), local(c.get("type")))
            elif c.tag in (XS + "import", XS + "annotation"):
                pass
            else:
                raise Unsupported(f"top-level {c.tag}")
        if rootel is None:
            raise Unsupported("no root element")
        return rootel


def main():
    m = Tr("m")
    mroot = m.schema(os.path.join(REPO, "xsd", "ASCMHL.xsd"))
    d = Tr("d")
    droot = d.schema(os.path.join(REPO, "xsd", "ASCMHLDirectory.xsd"))
    L = ["-- GENERATED by tools/xsd2lean.py from xsd/ASCMHL.xsd and xsd/ASCMHLDirectory.xsd of ascmitc/mhl. Do not edit.", "import MhlModel.XsdCore", "", "namespace MhlModel.Gen", "open MhlModel.Xsd", ""]

    def emit(name, tr, root, extra=()):
        L.append(f"def {name} : Schema :=")
        L.append(f"  {{ rootName := {S(root[0])}, rootType := {S(root[1])},")
        L.append("    types := [")
        items = list(tr.types) + list(extra)
        for i, (n, t) in enumerate(items):
            L.append(f"      ({S(n)}, {t})" + ("," if i < len(items) - 1 else ""))
        L.append("    ] }")
        L.append("")

    emit("manifestSchema", m, mroot)
    # the directory schema refers to two types of the manifest schema
    shared = [(n, t) for n, t in m.types if n in ("RelativePathType", "HashFormatType", "ActionAttributeType")]
    emit("directorySchema", d, droot, shared)
    L.append("end MhlModel.Gen")
    text = "\n".join(L) + "\n"
    old = open(OUT, encoding="utf-8").read() if os.path.exists(OUT) else None
    if old != text:
        os.makedirs(os.path.dirname(OUT), exist_ok=True)
        open(OUT, "w", encoding="utf-8").write(text)
    print(json.dumps({"ok": True, "changed": old != text, "out": OUT}))


if __name__ == "__main__":
    try:
        main()
    except Unsupported as e:
        print(json.dumps({"ok": False, "missing": "xsd2lean: " + str(e)}))
        sys.exit(3)
    except Exception as e:
        print(json.dumps({"ok": False, "missing": f"xsd2lean: {type(e).__name__}: {e}"}))
        sys.exit(3)
