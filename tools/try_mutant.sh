#!/bin/sh
# usage: tools/try_mutant.sh <patch.diff> <Cxx> [more Cxx...]  -- apply a seeded change to /repo, run the checks, undo it
P="$1"; shift
cd /repo || exit 9
git diff --quiet || { echo "/repo not clean"; exit 9; }
git apply "$P" || { echo "patch does not apply"; exit 9; }
cd /verif
for c in "$@"; do
  echo "=== $c on $(basename $(dirname $P))"
  ./check $c 2>&1 | tail -4
  echo "rc=$?"
done
cd /repo && git checkout -- . && git status --short | head -3
cd /verif && python3 tools/extract_consts.py >/dev/null
