#!/usr/bin/env python3
"""Runs every seeded change in /verif/seeded against the quick check of the property it breaks.
usage: tools/mutant_matrix.py [--worktree DIR] [--harvest] [--seed N] [ids...]   (default: apply to /repo and undo, as the brief prescribes)"""
import os, sys, json, subprocess, glob, re, time

V = os.path.dirname(os.path.dirname(os.path.abspath(__file__)))
args = sys.argv[1:]
wt = None
if args and args[0] == "--worktree":
    wt = args[1]
    args = args[2:]
harvest = False
if args and args[0] == "--harvest":
    harvest = True
    args = args[1:]
seed = None
if args and args[0] == "--seed":
    seed = args[1]
    args = args[2:]
out_name = "RESULTS.json" if seed is None else f"RESULTS_seed{seed}.json"
repo = wt or "/repo"
ids = args or sorted(os.path.basename(d) for d in glob.glob(os.path.join(V, "seeded", "C*_*")))
res = {}
for mid in ids:
    prop = mid.split("_")[0]
    patch = os.path.join(V, "seeded", mid, "patch.diff")
    if not os.path.exists(patch):
        res[mid] = {"status": "superseded", "detail": json.load(open(os.path.join(V, "seeded", mid, "meta.json"))).get("superseded", "")[:300]}
        print(mid, "superseded", flush=True)
        continue
    subprocess.run(["git", "-C", repo, "checkout", "-q", "--", "."], check=True)
    a = subprocess.run(["git", "-C", repo, "apply", patch], capture_output=True, text=True)
    if a.returncode != 0:
        res[mid] = {"status": "patch-does-not-apply", "detail": a.stderr[-200:]}
        continue
    env = dict(os.environ)
    if wt:
        env["VERIF_REPO"] = wt
    if seed is not None:
        env["VERIF_SEED"] = seed
    t = time.time()
    p = subprocess.run([os.path.join(V, "check"), prop], capture_output=True, text=True, env=env, cwd=V)
    subprocess.run(["git", "-C", repo, "checkout", "-q", "--", "."], check=True)
    out = p.stdout.strip().split("\n")
    vio = [l for l in out if l.startswith("VIOLATION")]
    what = ""
    if vio:
        m = re.search(r"replay=(\S+)", vio[0])
        try:
            d = json.load(open(m.group(1)))
            what = (d.get("failures") or [{}])[0].get("what", "") or "; ".join(d.get("no_longer_checks", []))[:300]
            if harvest:
                # keep the (minimised) failing scenario as a regression input: the corpus runs first in every check
                for f in d.get("failures") or []:
                    sc = f.get("replay_minimised") or f.get("replay")
                    if isinstance(sc, dict) and "ops" in sc and "tree" in sc:
                        cd = os.path.join(V, "corpus", prop)
                        os.makedirs(cd, exist_ok=True)
                        sc = dict(sc)
                        sc["origin"] = f"failing input found for seeded change {mid}: {f.get('what', '')[:200]}"
                        json.dump(sc, open(os.path.join(cd, f"seeded_{mid}.json"), "w"), indent=1, ensure_ascii=False)
                        break
        except Exception:
            pass
    status = "missed" if p.returncode == 0 else ("caught-no-failing-input" if vio and "no-failing-input-found" in vio[0] else ("caught" if vio else f"error rc={p.returncode}"))
    res[mid] = {"status": status, "seconds": round(time.time() - t, 1), "first_finding": what[:300]}
    print(mid, status, what[:160].replace("\n", " "), flush=True)
# leave generated files in the state of the real repository
subprocess.run([sys.executable, os.path.join(V, "tools", "extract_consts.py")], capture_output=True)
subprocess.run([sys.executable, os.path.join(V, "tools", "xsd2lean.py")], capture_output=True)
if not args or seed is not None:
    json.dump(res, open(os.path.join(V, "seeded", out_name), "w"), indent=1)
else:
    # a partial run updates the entries it ran
    path = os.path.join(V, "seeded", out_name)
    old = json.load(open(path)) if os.path.exists(path) else {}
    old.update(res)
    json.dump(dict(sorted(old.items())), open(path, "w"), indent=1)
