#!/usr/bin/env python3
"""Rewrites the generated table of DESIGN.md section 13 (rounds 2 and later) from seeded/*/meta.json and seeded/RESULTS.json."""
import json, os, glob, re

V = os.path.dirname(os.path.dirname(os.path.abspath(__file__)))
res = json.load(open(os.path.join(V, "seeded", "RESULTS.json")))
rows = []
for d in glob.glob(os.path.join(V, "seeded", "C*_*")):
    mid = os.path.basename(d)
    meta = json.load(open(os.path.join(d, "meta.json")))
    if meta.get("round", 1) < 2:
        continue
    note = re.sub(r"^Change[^:]{0,40}:\s*", "", meta.get("needs_to_manifest", "").strip().replace("\n", " "))
    r = res.get(mid, {})
    st = r.get("status", "not run")
    ff = (r.get("first_finding") or r.get("detail") or "").replace("|", "/").replace("\n", " ")
    if st == "caught-no-failing-input":
        ff = "**no-failing-input-found**: " + ff
    elif st == "superseded":
        ff = "*superseded*: " + ff
    elif st != "caught":
        ff = f"**{st}** " + ff
    p, n = mid.split("_")
    rows.append((p, int(n), f"| {mid} | {note[:140].replace('|', '/')} | {ff[:100]} |"))
rows.sort()
lines = ["| Change | Gist of the author's note | First finding reported (replay file has the input) |", "|---|---|---|"] + [r[2] for r in rows]
p = os.path.join(V, "DESIGN.md")
s = open(p).read()
a = s.index("| Change | Gist of the author's note |")
b = s.index("\n\n", a)
s = s[:a] + "\n".join(lines) + s[b:]
open(p, "w").write(s)
print(len(rows), "rows")
