#!/bin/sh
# build the Lean project from files on disk only (offline)
set -e
cd "$(dirname "$0")"
exec ./check --setup
