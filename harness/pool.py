"""Runs a pool of generated scenarios through implementation and model; shrinking; distribution statistics."""
import json, os, collections, copy, hashlib
from . import gen, scenario, rt
from .model import Driver

CORPUS = os.path.join(rt.VERIF, "corpus")


def corpus_scenarios(prop):
    d = os.path.join(CORPUS, prop)
    out = []
    if os.path.isdir(d):
        for f in sorted(os.listdir(d)):
            if f.endswith(".json"):
                out.append(json.load(open(os.path.join(d, f))))
    return out


def run_pool(scenarios, monitor=None, diff_filter=None, with_model=True):
    """monitor(sc, res) -> list of failures (dict what/replay/signature).  diff_filter(text) -> bool keep."""
    drv = Driver() if with_model else None
    stats = collections.Counter()
    exits = collections.Counter()
    diffs, fails = [], []
    n = 0
    try:
        for sc in scenarios:
            try:
                res = scenario.run_scenario(sc, drv, impl_only=(not with_model) or bool(sc.get("impl_only")))
            except RuntimeError as e:
                diffs.append({"what": f"model driver failed: {e}"[:300], "replay": sc})
                drv = Driver()
                continue
            n += 1
            d = gen.describe(sc)
            stats["files"] += d["files"]
            stats["dirs"] += d["dirs"]
            stats["max_depth"] = max(stats["max_depth"], d["depth"])
            stats["nested_creates"] += d["nested"]
            for st in res["steps"]:
                stats["op:" + st["op"]["op"]] += 1
                if st["impl"] is not None:
                    exits[f"{st['op']['op']}:{st['impl']['exit']}" + (":" + st["impl"]["exc"] if st["impl"]["exc"] else "")] += 1
            for x in res["diffs"]:
                if diff_filter is None or diff_filter(x):
                    diffs.append({"what": x[:500], "replay": sc})
            for st in res["steps"]:
                for u in (st["impl"] or {}).get("unparsable", []) if isinstance(st["impl"], dict) else []:
                    fails.append({"what": f"{st['op']['op']} left {u['file']} behind, which is not a well-formed manifest ({u['error']}); exit {st['impl']['exit']} {st['impl']['exc'] or ''}", "replay": sc})
            if monitor:
                for f in monitor(sc, res) or []:
                    fails.append(f)
    finally:
        if drv:
            calls = drv.calls
            drv.close()
        else:
            calls = 0
    return {"n": n, "diffs": diffs, "fails": fails, "stats": dict(stats), "exits": dict(exits), "driver_calls": calls}


def shrink(sc, still_fails, budget=60):
    """greedy: drop operations, then files, while the failure persists"""
    best = copy.deepcopy(sc)
    tries = 0
    changed = True
    while changed and tries < budget:
        changed = False
        for i in range(len(best["ops"]) - 1, -1, -1):
            if tries >= budget:
                break
            cand = copy.deepcopy(best)
            del cand["ops"][i]
            tries += 1
            try:
                if still_fails(cand):
                    best = cand
                    changed = True
            except Exception:
                pass
        for k in list(best["tree"].keys()):
            if tries >= budget:
                break
            cand = copy.deepcopy(best)
            del cand["tree"][k]
            # drop ops that mention the removed path
            cand["ops"] = [o for o in cand["ops"] if k.rstrip("/") not in (o.get("path"), o.get("src"))]
            tries += 1
            try:
                if still_fails(cand):
                    best = cand
                    changed = True
            except Exception:
                pass
    return best


def save_corpus(prop, sc):
    d = os.path.join(rt.VERIF, "out", "corpus_candidates", prop)
    os.makedirs(d, exist_ok=True)
    h = hashlib.sha1(json.dumps(sc, sort_keys=True).encode()).hexdigest()[:12]
    p = os.path.join(d, h + ".json")
    json.dump(sc, open(p, "w"), ensure_ascii=False, indent=1)
    return p
