"""Process-wide audit-hook recorder of file-system mutations (C14).  Python audit hooks cannot be removed, so the hook
is installed once and switched on/off."""
import sys, os

_EVENTS = []
_ON = [False]
_INSTALLED = [False]

MUTATING = {"os.mkdir", "os.rename", "os.remove", "os.rmdir", "os.utime", "os.chmod", "os.chown", "os.truncate", "os.link", "os.symlink", "shutil.copyfile", "shutil.copymode", "shutil.copystat", "shutil.copytree", "shutil.move", "shutil.rmtree", "os.chflags", "os.setxattr", "os.removexattr"}


def _hook(event, args):
    if not _ON[0]:
        return
    if event == "open":
        path, mode, flags = args
        if isinstance(mode, str) and any(c in mode for c in "wax+"):
            _EVENTS.append(("open:" + mode, _s(path)))
        elif mode is None and isinstance(flags, int) and flags & (os.O_WRONLY | os.O_RDWR | os.O_CREAT | os.O_TRUNC | os.O_APPEND):
            _EVENTS.append(("open:flags", _s(path)))
    elif event in MUTATING:
        _EVENTS.append((event,) + tuple(_s(a) for a in args[:2]))


def _s(p):
    try:
        p = os.fspath(p)
    except TypeError:
        return repr(p)
    if isinstance(p, bytes):
        p = p.decode("utf-8", "surrogateescape")
    return p


def record(fn):
    if not _INSTALLED[0]:
        sys.addaudithook(_hook)
        _INSTALLED[0] = True
    del _EVENTS[:]
    _ON[0] = True
    try:
        r = fn()
    finally:
        _ON[0] = False
    return list(_EVENTS), r
