"""Runs create (with non-ASCII creator fields and names) in THIS interpreter, which the caller starts under a non-UTF-8
locale (LC_ALL=C, UTF-8 mode off): what is written declares UTF-8 and has to BE UTF-8 whatever the process locale.
argv: repo root-dir.  Prints one JSON line."""
import sys, os, json, glob, locale

repo, root = sys.argv[1:3]
sys.path.insert(0, repo)
from click.testing import CliRunner
import ascmhl.commands as C

comment = "Straße 日本 ✓"
r = CliRunner().invoke(C.create, [root, "-h", "md5", "--comment", comment, "--location", "Zürich", "--author_name", "Renée"])
exc = None if r.exception is None or isinstance(r.exception, SystemExit) else type(r.exception).__name__
ms = sorted(glob.glob(os.path.join(root, "ascmhl", "*.mhl")))
out = {"exit": r.exit_code, "exc": exc, "locale": locale.getpreferredencoding(False), "manifests": len(ms)}
if ms:
    b = open(ms[-1], "rb").read()
    try:
        t = b.decode("utf-8")
        out["utf8"] = True
        out["has_comment"] = comment in t
    except UnicodeDecodeError as e:
        out["utf8"] = False
        out["error"] = str(e)
print(json.dumps(out))
