"""Client of the Lean driver (lake env lean --run Driver.lean): one JSON line in, one JSON line out.

The model is generic in the digest functions; the driver gets them as a table.  A pre-image it needs and does not
have comes back as the token MISS:<fmt>:<hex>; resolve() computes it with the libraries' one-shot calls and re-sends.
"""
import json, os, re, subprocess, threading
from . import rt

LEAN_DIR = os.path.join(rt.VERIF, "lean")
_MISS = re.compile(r"MISS:([a-z0-9]+):([0-9a-f]*)")
_MISSB = re.compile(rb"MISS:([a-z0-9]+):([0-9a-f]*);")


class Driver:
    def __init__(self):
        exe = os.path.join(LEAN_DIR, ".lake", "build", "bin", "mhldriver")
        # the compiled driver (built by `lake build mhldriver`, kept up to date by every check) when present,
        # the interpreter otherwise; both run the same definitions
        cmd = [exe] if os.path.exists(exe) and not os.environ.get("VERIF_INTERPRETED_DRIVER") else ["lake", "env", "lean", "--run", "Driver.lean"]
        self.compiled = cmd[0] == exe
        self.p = subprocess.Popen(
            cmd,
            cwd=LEAN_DIR,
            stdin=subprocess.PIPE,
            stdout=subprocess.PIPE,
            stderr=subprocess.PIPE,
            text=True,
            bufsize=1,
        )
        self.known = set()
        self.calls = 0
        self.miss_rounds = 0

    def send(self, obj):
        self.calls += 1
        self.p.stdin.write(json.dumps(obj, ensure_ascii=False) + "\n")
        self.p.stdin.flush()
        line = self.p.stdout.readline()
        if not line:
            err = self.p.stderr.read()
            raise RuntimeError("Lean driver died: " + err[-2000:])
        return json.loads(line)

    def add_table(self, entries):
        new = [e for e in entries if (e[0], e[1]) not in self.known]
        if new:
            for e in new:
                self.known.add((e[0], e[1]))
            self.send({"op": "table", "entries": new})

    def add_contents(self, contents, fmts=("md5", "sha1", "xxh128", "xxh3", "xxh64", "c4")):
        ents = []
        for b in contents:
            h = b.hex()
            for f in fmts:
                if (f, h) not in self.known:
                    ents.append([f, h, rt.digest(f, b)])
        self.add_table(ents)

    def command(self, obj, commit=False, max_rounds=80):
        """send a command; resolve MISS tokens by iteration; finally (for create) send with commit"""
        o = dict(obj)
        o["commit"] = False
        for _ in range(max_rounds):
            r = self.send(o)
            text = json.dumps(r)
            misses = set(_MISS.findall(text))
            if not misses:
                break
            self.miss_rounds += 1
            # a pre-image may itself name unresolved digests (their token text is embedded); resolve innermost first
            todo, seen = list(misses), set()
            ready = []
            while todo:
                f, h = todo.pop()
                if (f, h) in seen:
                    continue
                seen.add((f, h))
                b = bytes.fromhex(h)
                inner = _MISSB.findall(b)
                if inner:
                    todo.extend((a.decode(), c.decode()) for a, c in inner)
                else:
                    ready.append([f, h, rt.digest(f, b)])
            self.add_table(ready)
        else:
            raise RuntimeError("MISS iteration did not converge")
        if commit:
            o["commit"] = True
            r = self.send(o)
        return r

    def close(self):
        try:
            self.p.stdin.close()
            self.p.wait(timeout=10)
        except Exception:
            self.p.kill()
