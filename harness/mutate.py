"""Seal-then-mutate scenarios with harness-side ground truth (C03, C09)."""
import random, copy
import pathspec
from . import gen


def sealed_world(rnd, nested_p=0.4, multi_gen_p=0.4, patterns_p=0.25, no_dirhash_p=0.0):
    """returns (tree dict, seal ops, fs sim, patterns) - a tree sealed by folder-mode creates (root last)"""
    fs = gen.FsSim()
    gen.gen_tree(rnd, fs, max_depth=rnd.choice([1, 2, 3]))
    tree = gen.tree_dict(fs)
    ops = []
    t = [0]

    def now():
        t[0] += 1
        return "2026-03-01 12:00:%02d" % (t[0] % 60)

    pats = []
    if rnd.random() < patterns_p:
        pats = rnd.sample(["*.tmp", "*.bak", "tmp", "A", "*.mov", "keep.bak", "s/", ".*"], rnd.randint(1, 2))
        if rnd.random() < 0.4:
            # order matters: a negation re-includes what an earlier pattern excluded
            pats = list(rnd.choice([["*.txt", "!a.txt"], ["*.tmp", "!data.tmp"], ["*.bak", "!keep.bak"], ["*.mov", "!A001.mov"], ["d*", "!d e.txt"], ["*.txt", "!*.txt"]]))
    if rnd.random() < nested_p:
        cands = [d for d in sorted(fs.dirs) if d]
        rnd.shuffle(cands)
        for d in cands[: rnd.randint(1, 2)]:
            ops.append({"op": "create", "at": d, "h": gen.fmt_subset(rnd, (1, 2)), "now": now()})
            fs.hist.add(d)
            if rnd.random() < 0.6:
                # a sibling whose name merely STARTS like the nested history's folder belongs to the parent
                sib = d + rnd.choice(["_proxy", "2", " copy"])
                if sib not in fs.dirs and sib not in fs.files:
                    fs.add_dir(sib)
                    fs.files[sib + "/p.txt"] = "sibling of " + d
        tree = gen.tree_dict(fs)
    first = {"op": "create", "at": "", "h": gen.fmt_subset(rnd, (1, 2)), "now": now()}
    if pats:
        first["i"] = pats
    ops.append(first)
    if rnd.random() < multi_gen_p:
        for _ in range(rnd.randint(1, 2)):
            ops.append({"op": "create", "at": "", "h": gen.fmt_subset(rnd, (1, 2)), "now": now()})
    if no_dirhash_p and rnd.random() < no_dirhash_p:
        # generations without directory hashes (-n): all of them, or a random part
        every = rnd.random() < 0.5
        for o in ops:
            if every or rnd.random() < 0.5:
                o["n"] = True
    return tree, ops, fs, pats


def hidden(path, pats):
    if not pats:
        return False
    spec = pathspec.PathSpec.from_lines("gitwildmatch", [".DS_Store", "ascmhl", "ascmhl/"] + pats)
    parts = path.split("/")
    return any(spec.match_file("/".join(parts[: i + 1])) for i in range(len(parts)))


def mutations(rnd, fs, pats, kmax=3, kinds=("alter", "remove", "add", "touch", "rmdir", "ignored")):
    """returns (ops, truth) with truth = dict(altered=set, removed=set, added=set) of VISIBLE paths"""
    ops = []
    truth = {"altered": set(), "removed": set(), "added": set()}
    files = sorted(fs.files)
    sealed = dict(fs.files)   # contents at the time of the seal: "altered" is judged against these, not against the previous edit
    for _ in range(rnd.randint(1, kmax)):
        k = rnd.choice(kinds)
        files = sorted(p for p in fs.files if p not in truth["removed"])
        if k == "alter" and files:
            p = rnd.choice(files)
            if p in truth["added"]:
                continue
            old = fs.files[p]
            mode = rnd.choice(["flip", "append", "truncate", "replace"])
            if mode == "flip" and old:
                new = chr((ord(old[0]) ^ 1) & 0x7F or 65) + old[1:]
            elif mode == "append":
                new = old + "+"
            elif mode == "truncate" and len(old) > 1:
                new = old[:-1]
            else:
                new = "replaced " + old
            if new == old or new == sealed.get(p):
                new = old + "x"
            fs.files[p] = new
            ops.append({"op": "write", "path": p, "data": gen.enc(new)})
            if mode == "flip" and len(new.encode("utf-8", "surrogatepass")) == len(old.encode("utf-8", "surrogatepass")) and rnd.random() < 0.6:
                ops[-1]["mtime"] = 1760000000  # bit rot: same length, the modification time of the sealed file
            if not hidden(p, pats):
                truth["altered"].add(p)
        elif k == "remove" and files:
            p = rnd.choice(files)
            if p in truth["added"] or p in truth["altered"]:
                continue
            ops.append({"op": "rm", "path": p})
            del fs.files[p]
            if not hidden(p, pats):
                truth["removed"].add(p)
        elif k == "add":
            d = rnd.choice(sorted(fs.dirs))
            nm = rnd.choice(["added1.txt", "added2.bin", "neu é.txt"])
            p = (d + "/" if d else "") + nm
            if p in fs.files or p in fs.dirs or p in truth["removed"]:
                continue
            fs.files[p] = "fresh " + p
            ops.append({"op": "write", "path": p, "data": "fresh " + p})
            if not hidden(p, pats):
                truth["added"].add(p)
        elif k == "touch" and files:
            ops.append({"op": "touch", "path": rnd.choice(files), "mtime": 1500000000 + rnd.randint(0, 10**8)})
        elif k == "rmdir":
            # (the root folder of a nested history is never "empty": it holds that history)
            empties = [d for d in sorted(fs.dirs) if d and d not in fs.hist and not any(x.startswith(d + "/") for x in list(fs.files) + list(fs.dirs))]
            if empties:
                d = rnd.choice(empties)
                fs.dirs.discard(d)
                ops.append({"op": "rm", "path": d})
                if not hidden(d, pats):
                    truth["removed"].add(d)
        elif k == "ignored" and pats:
            d = rnd.choice(sorted(fs.dirs))
            nm = {"*.tmp": "zz.tmp", "*.bak": "zz.bak", "*.mov": "zz.mov", "keep.bak": "keep.bak"}.get(pats[0])
            if nm:
                p = (d + "/" if d else "") + nm
                if p not in fs.files and p not in fs.dirs:
                    ops.append({"op": "write", "path": p, "data": "ignored new"})
                    fs.files[p] = "ignored new"
    truth["altered"] = {p for p in truth["altered"] if fs.files.get(p) != sealed.get(p)}
    return ops, truth
