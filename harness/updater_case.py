"""Runs ONE command through mhltool_cli / mhldebugtool_cli in a fresh interpreter with requests.get stubbed BEFORE the
module import that starts the checker thread.  argv: repo behaviour group cmd args...   Prints one JSON line."""
import os, sys, time, json, threading

repo, behav, group = sys.argv[1:4]
args = sys.argv[4:]
sys.path.insert(0, repo)
os.environ["TZ"] = "UTC"
import requests


class Resp:
    def __init__(s, body, status=200):
        s.body, s.status = body, status

    def raise_for_status(s):
        if s.status >= 400:
            raise requests.exceptions.HTTPError("boom")

    def json(s):
        if s.body is None:
            raise requests.exceptions.JSONDecodeError("x", "", 0)
        return s.body


def fake_get(url, *a, **k):
    b = behav
    if b == "newer":
        return Resp({"tag_name": "v99.0"})
    if b == "older":
        return Resp({"tag_name": "v0.0.1"})
    if b == "same":
        import ascmhl.__version__ as V

        return Resp({"tag_name": V.ascmhl_tool_version})
    if b == "pre":
        return Resp({"tag_name": "v99.0rc1"})
    if b == "dev":
        return Resp({"tag_name": "v99.0.dev1"})
    if b == "garbage":
        return Resp({"tag_name": "release-2026 nightly"})
    if b == "garbage_slow":
        time.sleep(0.4)
        return Resp({"tag_name": "nightly"})
    if b == "notag_slow":
        time.sleep(0.4)
        return Resp({"name": "no tag here"})
    if b == "longtag":
        return Resp({"tag_name": "continuous-integration-nightly-snapshot-build"})
    if b == "hugetag":
        return Resp({"tag_name": "release-" + "a-" * 4000 + "x"})
    if b == "digittag":
        # a build-stamp style tag: long runs of digits, dots and letters that no version scheme accepts
        return Resp({"tag_name": "nightly-2026092703150001234567890123456789+g1a2b3c4"})
    if b == "dottag":
        return Resp({"tag_name": "v" + "1." * 40 + "x!"})
    if b == "notag":
        return Resp({})
    if b == "list":
        return Resp([1, 2])
    if b == "nojson":
        return Resp(None)
    if b == "http404":
        return Resp({}, 404)
    if b == "http500":
        return Resp({}, 500)
    if b == "connerr":
        raise requests.exceptions.ConnectionError("x")
    if b == "timeout":
        raise requests.exceptions.Timeout("x")
    if b == "oserror":
        raise OSError("x")
    if b == "slow":
        time.sleep(0.5)
        return Resp({"tag_name": "v99.0"})
    if b == "late":
        time.sleep(3)
        return Resp({"tag_name": "v99.0"})
    if b == "hang":
        threading.Event().wait()
    if b == "none":
        return Resp({"tag_name": "v0.0.1"})
    raise RuntimeError("unknown behaviour")


# behaviours "srv:*" answer over a REAL socket (a local server in this process): what matters there is how the
# client's transport behaves when the answer is incomplete, which a stubbed response object cannot show
if behav.startswith("srv:"):
    import socket

    srv = socket.socket()
    srv.bind(("127.0.0.1", 0))
    srv.listen(4)
    port = srv.getsockname()[1]
    mode = behav[4:]

    def serve():
        while True:
            try:
                c, _ = srv.accept()
            except OSError:
                return
            try:
                c.recv(65536)
                body = b'{"tag_name": "v99.0"}'
                head = b"HTTP/1.1 200 OK\r\nContent-Type: application/json\r\nContent-Length: %d\r\nConnection: close\r\n\r\n"
                if mode == "ok":
                    c.sendall(head % len(body) + body)
                    c.close()
                elif mode == "stall_headers":
                    threading.Event().wait()
                elif mode == "stall_body":
                    c.sendall(head % 1000)  # headers promise a body that never comes
                    threading.Event().wait()
                elif mode == "stall_midbody":
                    c.sendall(head % 1000 + body[:9])
                    threading.Event().wait()
                elif mode == "close_midbody":
                    c.sendall(head % 1000 + body[:9])
                    c.close()
                elif mode == "trickle":
                    c.sendall(head % len(body))
                    for ch in body:
                        time.sleep(0.35)
                        c.sendall(bytes([ch]))
                    c.close()
            except OSError:
                pass

    threading.Thread(target=serve, daemon=True).start()
    real_get = requests.get

    def fake_get(url, *a, **k):  # noqa: F811
        return real_get("http://127.0.0.1:%d/releases/latest" % port, *a, **k)


requests.get = fake_get
if os.environ.get("VERIF_CLOCK") == "backwards":
    # the wall clock is set back by one hour shortly after the program started (end of daylight-saving time under a
    # local clock, a time-server step): every reading of the wall clock - time.time, datetime.now/utcnow/today - shows
    # it; durations (time.monotonic) are unaffected.  Installed BEFORE the tool is imported.
    import datetime as _dtm

    _m0 = time.monotonic()
    _realtime = time.time
    _realdt = _dtm.datetime

    def _off():
        return -3600.0 if time.monotonic() - _m0 > 0.15 else 0.0

    class _SteppedDT(_realdt):
        @classmethod
        def now(cls, tz=None):
            return _realdt.fromtimestamp(_realtime() + _off(), tz)

        @classmethod
        def utcnow(cls):
            return _realdt.fromtimestamp(_realtime() + _off(), _dtm.timezone.utc).replace(tzinfo=None)

        @classmethod
        def today(cls):
            return cls.now()

    _dtm.datetime = _SteppedDT
    time.time = lambda: _realtime() + _off()
import click
from click.testing import CliRunner

t_import = time.monotonic()
if group == "main":
    from ascmhl.cli.ascmhl import mhltool_cli as cli
elif group == "debug":
    from ascmhl.cli.ascmhl_debug import mhldebugtool_cli as cli
else:
    # reference: the bare command without the update checker
    import ascmhl.commands as C

    cli = None
# a command that itself takes longer than the one-second grace period of the update check
_slow = float(os.environ.get("VERIF_SLOW", "0") or 0)
if _slow:
    import ascmhl.commands as _C0

    def _mk(cb):
        def w(*a, **k):
            time.sleep(_slow)
            return cb(*a, **k)

        return w

    for _nm in dir(_C0):
        _o = getattr(_C0, _nm)
        if isinstance(_o, click.Command) and _o.callback is not None:
            _o.callback = _mk(_o.callback)
# a wall clock that stands still (or is being set back) while the command runs: the grace period of the update check is
# a DURATION, it must not depend on the wall clock
if os.environ.get("VERIF_CLOCK") == "stopped":
    _t0 = time.time()
    time.time = lambda: _t0
try:
    r0 = CliRunner(mix_stderr=False)
except TypeError:
    r0 = CliRunner()
t = time.monotonic()
try:
    if cli is not None:
        r = r0.invoke(cli, args)
    else:
        r = r0.invoke(getattr(C, args[0].replace("-", "_")), args[1:])
except BaseException as _e:
    # the command runner itself was brought down (e.g. its output streams were exchanged under it by another thread):
    # reported like any other abnormal end of the command
    sys.__stdout__.write(json.dumps({"exit": None, "exc": "runner stopped: " + type(_e).__name__ + ": " + str(_e)[:120], "stdout": "", "dt": time.monotonic() - t}) + "\n")
    sys.__stdout__.flush()
    os._exit(0)
dt = time.monotonic() - t
exc = None
if r.exception is not None and not isinstance(r.exception, SystemExit):
    exc = type(r.exception).__name__
# (to the interpreter's original standard output: code under test may have replaced sys.stdout)
try:
    _so = r.stdout
except Exception as _e:  # the runner's capture was taken away from under it
    _so, exc = "", exc or ("stdout capture lost: " + type(_e).__name__)
sys.__stdout__.write(json.dumps({"exit": r.exit_code, "exc": exc, "stdout": _so, "dt": dt}) + "\n")
sys.__stdout__.flush()
# leave like a real process: daemon threads must not keep it alive
