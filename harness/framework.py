"""Shared machinery of the checks: regenerate -> build -> audit -> correspondence -> monitor -> verdict/evidence."""
import os, sys, re, json, time, subprocess, hashlib, glob, shutil
from . import rt

VERIF = rt.VERIF
LEAN = os.path.join(VERIF, "lean")
STD_AXIOMS = {"propext", "Classical.choice", "Quot.sound"}
FORBIDDEN = re.compile(r"\bsorry\b|\badmit\b|^\s*axiom\s|native_decide|bv_decide|implemented_by|\bunsafe\s|maxHeartbeats\s+0")

TRUSTED_BASE = [
    "Lean 4.33.0 kernel (thorough tier: re-checked with leanchecker); axioms allowed: propext, Classical.choice, Quot.sound",
    "tools/extract_consts.py and tools/xsd2lean.py (translators that regenerate Gen/Consts.lean and Gen/Xsd.lean from /repo on every run)",
    "the correspondence harness (harness/*.py): generators, canonicaliser, independent expat reader, library one-shot digests",
    "modelled, not verified: hashlib/xxhash primitives, pathspec outside the checked pattern fragment, lxml/libxml2 lexical layer, libc time zones, OS file-system calls, CPython threads, click's exit-code plumbing",
]


class Ctx:
    def __init__(self, prop, tier, seed):
        self.prop, self.tier, self.seed = prop, tier, seed
        self.t0 = time.time()
        self.notes = []
        self.broken = []  # names of theorems / extraction / correspondence that no longer check
        self.obligations = 0
        self.discharged = 0
        self.theorems = []
        self.axioms = {}

    @property
    def thorough(self):
        return self.tier == "thorough"

    def scale(self, quick, thorough):
        return thorough if self.thorough else quick


def sh(cmd, cwd=None, timeout=3600, env=None):
    e = dict(os.environ)
    if env:
        e.update(env)
    p = subprocess.run(cmd, cwd=cwd, stdout=subprocess.PIPE, stderr=subprocess.STDOUT, text=True, timeout=timeout, env=e)
    return p.returncode, p.stdout


def regen(ctx):
    ok = True
    for tool in ("extract_consts.py", "xsd2lean.py"):
        tp = os.path.join(VERIF, "tools", tool)
        if not os.path.exists(tp):
            continue
        rc, out = sh([sys.executable, tp])
        if rc != 0:
            ok = False
            ctx.broken.append(f"translator {tool}: {out.strip()[-300:]}")
    return ok


def lake_build(ctx, targets):
    # the compiled driver is rebuilt together with the model so that it never lags behind it
    if "MhlModel" in targets and "mhldriver" not in targets:
        targets = list(targets) + ["mhldriver"]
    rc, out = sh(["lake", "build"] + targets, cwd=LEAN, timeout=3000)
    if rc != 0:
        errs = [l for l in out.split("\n") if "error" in l][:8]
        ctx.broken.append("lake build " + " ".join(targets) + ": " + " | ".join(errs)[-1500:])
        ctx.build_log = out
        return False
    return True


# property theorems may be spread over several files (statements added later live in their own module)
PROP_MODULES = {"C07": ["C07", "C07impl"], "C02": ["C02", "C02rec", "C02sf", "Paths"], "C12": ["C12", "C12nested"], "C09": ["C09", "C09e2e", "C09nested"], "C03": ["C03", "C03e2e", "C03nested"], "C06": ["C06", "C06seq", "Civil"], "C18": ["C18", "C18e2e", "C18order"], "C17": ["C17", "C17detect"], "C08": ["C08", "C08part"], "C04": ["C04", "C04nested"], "C05": ["C05", "C05e2e"], "C19": ["C19", "C19seq"], "C16": ["C16", "Civil"], "C15": ["C15", "CrashRun"]}


def modules_for(prop):
    return PROP_MODULES.get(prop, [prop])


def prop_sources(prop):
    """the property files and every project file they (transitively) import"""
    seen, todo = [], [os.path.join(LEAN, "MhlProps", m + ".lean") for m in modules_for(prop)]
    while todo:
        f = todo.pop()
        if f in seen or not os.path.exists(f):
            continue
        seen.append(f)
        for m in re.findall(r"^import\s+((?:MhlModel|MhlProps)[\w.]*)", open(f, encoding="utf-8").read(), re.M):
            todo.append(os.path.join(LEAN, *m.split(".")) + ".lean")
    return seen


def strip_comments(text):
    text = re.sub(r"/-.*?-/", "", text, flags=re.S)
    return re.sub(r"--.*", "", text)


def audit(ctx):
    """no sorry/admit/axiom/native_decide... in the sources; #print axioms of every theorem of the property file"""
    ok = True
    for f in prop_sources(ctx.prop):
        body = strip_comments(open(f, encoding="utf-8").read())
        for i, line in enumerate(body.split("\n")):
            if FORBIDDEN.search(line):
                ok = False
                ctx.broken.append(f"forbidden construct in {os.path.relpath(f, LEAN)}: {line.strip()[:120]}")
    src = "\n".join(strip_comments(open(os.path.join(LEAN, "MhlProps", m + ".lean"), encoding="utf-8").read()) + "\n" for m in modules_for(ctx.prop))
    # qualify every theorem by the namespaces open at its position
    names = []
    stack = []
    for line in src.split("\n"):
        m = re.match(r"^\s*namespace\s+([\w.]+)", line)
        if m:
            stack.append(m.group(1))
            continue
        m = re.match(r"^\s*end\s+([\w.]+)\s*$", line)
        if m and stack and stack[-1] == m.group(1):
            stack.pop()
            continue
        m = re.match(r"^\s*(?:protected\s+|private\s+)?theorem\s+([\w.'?!]+)", line)
        if m:
            names.append(".".join(stack + [m.group(1)]))
    ns = ""
    ctx.theorems = names
    ctx.obligations = len(names)
    if not names:
        ctx.broken.append("property file states no theorem")
        return False
    tmp = os.path.join(LEAN, ".lake", f"audit_{ctx.prop}_{os.getpid()}.lean")
    os.makedirs(os.path.dirname(tmp), exist_ok=True)
    with open(tmp, "w") as f:
        f.write("".join(f"import MhlProps.{m}\n" for m in modules_for(ctx.prop)) + "".join(f"#print axioms {n}\n" for n in names))
    rc, out = sh(["lake", "env", "lean", tmp], cwd=LEAN, timeout=1200)
    os.remove(tmp)
    if rc != 0:
        ctx.broken.append("axiom audit failed to run: " + out[-400:])
        return False
    # parse: "'X' depends on axioms: [a, b]" or "'X' does not depend on any axioms"
    found = {}
    flat = re.sub(r"\s+", " ", out)
    for m in re.finditer(r"'([\w.'?!]+?)' depends on axioms: \[([^\]]*)\]", flat):
        found[m.group(1)] = {a.strip() for a in m.group(2).split(",") if a.strip()}
    for m in re.finditer(r"'([\w.'?!]+?)' does not depend on any axioms", flat):
        found[m.group(1)] = set()
    for n in names:
        full = n
        ax = found.get(full)
        if ax is None:
            ok = False
            ctx.broken.append(f"theorem {full}: no axiom report")
        elif not ax <= STD_AXIOMS:
            ok = False
            ctx.broken.append(f"theorem {full} depends on non-standard axioms {sorted(ax - STD_AXIOMS)}")
        else:
            ctx.discharged += 1
            ctx.axioms[full] = sorted(ax)
    return ok


def leanchecker(ctx):
    mods = []
    for f in prop_sources(ctx.prop):
        mods.append(os.path.relpath(f, LEAN)[:-5].replace(os.sep, "."))
    rc, out = sh(["lake", "env", "leanchecker"] + mods, cwd=LEAN, timeout=3000)
    if rc != 0:
        ctx.broken.append("leanchecker: " + out[-400:])
        return False
    return True


# ----------------------------------------------------------------------------------- known findings
def known_findings(prop):
    kf = json.load(open(os.path.join(VERIF, "known_findings.json")))
    return [k for k in kf.get("known", []) if k["property"] == prop]


# ----------------------------------------------------------------------------------- verdict
def finish(ctx, coverage, failures, corr_diffs, assumptions=None, extra=None):
    """failures: list of dict(what=..., replay=<json-able>, signature=<str or None>) from the monitor / search.
    corr_diffs: list of dict(what=..., replay=...) where model and implementation differ."""
    kf = known_findings(ctx.prop)
    sigs = {k["signature"]: k for k in kf}
    unknown = [f for f in failures if f.get("signature") not in sigs]
    known = [f for f in failures if f.get("signature") in sigs]
    out_dir = os.path.join(VERIF, "out", "replay")
    os.makedirs(out_dir, exist_ok=True)
    rc = 0
    lines = []
    seen_sig = set()
    for f in known:
        if f["signature"] in seen_sig:
            continue
        seen_sig.add(f["signature"])
        lines.append(f"KNOWN-FINDING: property={ctx.prop} {sigs[f['signature']]['id']}: {sigs[f['signature']]['what'][:200]}")
    replay_path = None
    if unknown:
        rc = 1
        replay_path = os.path.join(out_dir, f"{ctx.prop}_{ctx.tier}_{ctx.seed}.json")
        with open(replay_path, "w") as fh:
            json.dump({"property": ctx.prop, "kind": "failing-input", "failures": unknown[:5], "broken": ctx.broken, "correspondence_diffs": corr_diffs[:3]}, fh, indent=1, ensure_ascii=False, default=str)
        lines.append(f"VIOLATION property={ctx.prop} replay={replay_path}")
    elif ctx.broken or corr_diffs:
        rc = 1
        replay_path = os.path.join(out_dir, f"{ctx.prop}_{ctx.tier}_{ctx.seed}.json")
        with open(replay_path, "w") as fh:
            json.dump({"property": ctx.prop, "kind": "no-failing-input-found", "no_longer_checks": ctx.broken + [f"correspondence: {d['what']}" for d in corr_diffs[:5]], "correspondence_diffs": corr_diffs[:3], "note": "a proof obligation or the model/implementation correspondence is broken; the search of model and implementation found no concrete input on which the property fails"}, fh, indent=1, ensure_ascii=False, default=str)
        lines.append(f"VIOLATION property={ctx.prop} replay={replay_path} no-failing-input-found")
    cov = dict(coverage)
    cov.setdefault("obligations", max(1, ctx.obligations))
    cov.setdefault("discharged", ctx.discharged)
    cov.setdefault("checker_cmd", f"cd lean && lake build MhlProps.{ctx.prop} && lake env lean <#print axioms of every theorem>" + (" && lake env leanchecker <modules>" if ctx.thorough else ""))
    cov.setdefault("trusted_base", TRUSTED_BASE)
    cov["theorems"] = ctx.theorems
    cov["axioms_used"] = sorted({a for v in ctx.axioms.values() for a in v})
    cov["broken_obligations"] = ctx.broken
    cov["correspondence_disagreements"] = len(corr_diffs)
    cov["known_findings_hit"] = sorted(seen_sig)
    if extra:
        cov.update(extra)
    ev = {
        "property_id": ctx.prop,
        "tier": ctx.tier,
        "seed": ctx.seed,
        "level": "proof",
        "coverage": cov,
        "assumptions": assumptions or [],
        "wall_s": round(time.time() - ctx.t0, 2),
        "violations": len(unknown) + (1 if (not unknown and (ctx.broken or corr_diffs)) else 0),
    }
    os.makedirs(os.path.join(VERIF, "evidence"), exist_ok=True)
    with open(os.path.join(VERIF, "evidence", ctx.prop + ".json"), "w") as fh:
        json.dump(ev, fh, indent=1, ensure_ascii=False, default=str)
    for l in lines:
        print(l)
    if rc == 0:
        print(f"OK property={ctx.prop} tier={ctx.tier} seed={ctx.seed} theorems={ctx.discharged}/{ctx.obligations} wall={ev['wall_s']}s")
    return rc
