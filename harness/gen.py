"""Scenario generators.  Every random choice comes from one random.Random(seed); scenarios are explicit JSON so a
replay never depends on the PRNG."""
import random, json, copy

FORMATS = ["md5", "sha1", "xxh128", "xxh3", "xxh64", "c4"]
FILE_NAMES = ["a.txt", "b.txt", "c.bin", "d e.txt", "ü.txt", "x&y.txt", "z<1>.txt", "q'\".txt", "日本.txt", "data.tmp", "keep.bak", "A001.mov", "a001.mov", "é.txt", "é.txt", "long" + "n" * 40 + ".dat", "-.txt", "#h.txt", "[b].txt", "li\u2028ne.txt", "𝄞 clef.txt", "take\\3.mov", "100%.txt", "%s %d.bin", "._A001.mov", "._notes"]
DIR_NAMES = ["A", "AB", "a", "s", "t", "sub dir", "é", "pa\u2029ra", "Clips", "Clips_proxy", "tmp", "B", "x&y", "d.tmp", "win\\dir", "50%done", "%H%M", ".hidden", "._res"]
CONTENTS = ["", "a", "b", "hello", "HELLO", "hello\n", "0", "\x00\xff", "same", "same", "x" * 100]
PATTERNS = ["*.tmp", "*.bak", "tmp", "tmp/", "a.txt", "A", "s/", "*.mov", "d?e.txt", "[ab].txt", "Clips", "é", "data.*", "t", "s/t", "/a.txt", "A/*.txt", "s/*.bin"]
# order matters in these: a negation re-includes what an EARLIER pattern excluded
# (negations of FILE-name patterns only: a negation that matches a folder on the way to an `ascmhl` folder, such as "!A",
# re-includes that history folder as well - outside the domain of every property, see DESIGN.md section 9)
PATTERN_SETS = [["*.txt", "!a.txt"], ["*.tmp", "!data.tmp"], ["*.bak", "!keep.bak"], ["*.bin", "!c.bin"], ["*.mov", "!A001.mov", "a001.mov"], ["!a.txt", "*.txt"], ["/s", "!b.txt"], ["d*", "!d e.txt"]]


class FsSim:
    """what the generator believes the tree looks like (so that it can produce mostly-valid operations)"""

    def __init__(self):
        self.files = {}  # path -> content (str)
        self.dirs = set([""])
        self.hist = set()  # dirs with an ascmhl folder

    def add_dir(self, p):
        parts = p.split("/")
        for i in range(1, len(parts) + 1):
            self.dirs.add("/".join(parts[:i]))

    def children(self, d):
        pre = d + "/" if d else ""
        return [p for p in list(self.files) + list(self.dirs) if p and p.startswith(pre) and "/" not in p[len(pre) :]]

    def below(self, d):
        pre = d + "/" if d else ""
        return [p for p in self.files if p.startswith(pre)]


def gen_tree(rnd, fs, max_depth=3, fan=(1, 4)):
    def fill(d, depth):
        n = rnd.randint(*fan)
        names = set()
        for _ in range(n):
            if depth < max_depth and rnd.random() < 0.35:
                nm = rnd.choice(DIR_NAMES)
                if nm in names:
                    continue
                names.add(nm)
                p = (d + "/" if d else "") + nm
                fs.add_dir(p)
                if rnd.random() < 0.85:
                    fill(p, depth + 1)
            else:
                nm = rnd.choice(FILE_NAMES)
                if nm in names:
                    continue
                names.add(nm)
                p = (d + "/" if d else "") + nm
                c = rnd.choice(CONTENTS) if rnd.random() < 0.5 else "content of " + p
                fs.files[p] = c

    fill("", 0)


def tree_dict(fs):
    t = {}
    for d in sorted(fs.dirs):
        if d:
            t[d + "/"] = None
    for p, c in fs.files.items():
        t[p] = enc(c)
    return t


def enc(c):
    try:
        c.encode("utf-8")
        if "\x00" in c or c.startswith("hex:"):
            raise ValueError
        return c
    except Exception:
        return "hex:" + c.encode("latin-1").hex()


def fmt_subset(rnd, k=(1, 3)):
    fs = rnd.sample(FORMATS, rnd.randint(*k))
    if rnd.random() < 0.08:
        fs.append(rnd.choice(fs))  # -h given twice for one format
    return fs


def gen_scenario(seed, profile="general", n_ops=(3, 9)):
    rnd = random.Random(seed)
    fs = FsSim()
    gen_tree(rnd, fs, max_depth=rnd.choice([1, 2, 3, 3]))
    hl = {}
    if rnd.random() < 0.15 and fs.files:
        src = rnd.choice(sorted(fs.files))
        dst = (rnd.choice(sorted(fs.dirs)) + "/hardlink of " + src.rsplit("/", 1)[-1]).lstrip("/")
        if dst not in fs.files and dst not in fs.dirs:
            fs.files[dst] = fs.files[src]
            hl[dst] = src
    sc = {"seed": seed, "profile": profile, "hardlinks": hl, "root": rnd.choice(["root", "root", "ro ot", "Rö&t", "ascmhl_x", "media", "100%done", "r%Y_%d", "Footage [4K]", "take?*"]), "tree": tree_dict(fs), "ops": []}
    t = 0
    base_now = "2026-03-01 12:00:%02d"
    ops = sc["ops"]

    def now():
        nonlocal t
        # several runs within the same clock second are intended
        if rnd.random() < 0.6:
            t += 1
        return base_now % (t % 60)

    def plain_dirs():
        return sorted(fs.dirs)

    def a_create(at=None, **kw):
        at = at if at is not None else ""
        op = {"op": "create", "at": at, "h": kw.get("h") or fmt_subset(rnd), "now": now()}
        for k in ("n", "dr", "sf", "i", "ii"):
            if kw.get(k):
                op[k] = kw[k]
        ops.append(op)
        if not kw.get("sf"):
            fs.hist.add(at)
        else:
            fs.hist.add(at)
        return op

    # first seal(s): maybe nested ones first
    if profile in ("general", "nested") and rnd.random() < (0.7 if profile == "nested" else 0.35):
        cands = [d for d in plain_dirs() if d]
        rnd.shuffle(cands)
        for d in cands[: rnd.randint(1, 3)]:
            a_create(d, n=rnd.random() < 0.15)
    a_create("", n=rnd.random() < 0.15, i=[rnd.choice(PATTERNS)] if rnd.random() < 0.3 else None)

    n = rnd.randint(*n_ops)
    for _ in range(n):
        r = rnd.random()
        files = sorted(fs.files)
        if r < 0.12 and files:
            p = rnd.choice(files)
            c = rnd.choice(CONTENTS + [fs.files[p] + "!"])
            fs.files[p] = c
            ops.append({"op": "write", "path": p, "data": enc(c)})
        elif r < 0.18:
            d = rnd.choice(plain_dirs())
            nm = rnd.choice(FILE_NAMES + ["new1.txt", "new2.txt"])
            p = (d + "/" if d else "") + nm
            if p not in fs.dirs:
                c = rnd.choice(CONTENTS + ["fresh " + p])
                fs.files[p] = c
                ops.append({"op": "write", "path": p, "data": enc(c)})
        elif r < 0.24 and files:
            p = rnd.choice(files)
            del fs.files[p]
            ops.append({"op": "rm", "path": p})
        elif r < 0.30 and files:
            p = rnd.choice(files)
            d = rnd.choice(plain_dirs() + ["newdir"])
            nm = rnd.choice([p.split("/")[-1], "moved_" + p.split("/")[-1]])
            q = (d + "/" if d else "") + nm
            if q != p and q not in fs.files and q not in fs.dirs:
                fs.files[q] = fs.files.pop(p)
                fs.add_dir(d) if d else None
                ops.append({"op": "mv", "src": p, "dst": q})
        elif r < 0.33:
            d = rnd.choice(plain_dirs())
            q = (d + "/" if d else "") + rnd.choice(["empty1", "empty2"])
            if q not in fs.files:
                fs.add_dir(q)
                ops.append({"op": "mkdir", "path": q})
        elif r < 0.36 and files:
            ops.append({"op": "touch", "path": rnd.choice(files), "mtime": 1700000000 + rnd.randint(0, 10**7)})
        elif r < 0.55:
            at = ""
            if rnd.random() < 0.25:
                at = rnd.choice(plain_dirs())
            kw = {}
            if rnd.random() < 0.15:
                kw["n"] = True
            if rnd.random() < 0.25:
                kw["dr"] = True
            if rnd.random() < 0.25:
                # with replacement: the same pattern twice in one batch is intended
                kw["i"] = rnd.choices(PATTERNS, k=rnd.randint(1, 3)) if rnd.random() < 0.4 else rnd.sample(PATTERNS, rnd.randint(1, 2))
                if rnd.random() < 0.3:
                    kw["i"] = list(rnd.choice(PATTERN_SETS))
            if rnd.random() < 0.12:
                # a pattern file has one pattern per line: a pattern may contain blanks
                kw["ii"] = rnd.choices(PATTERNS[:6] + ["sub dir", "d e.txt", "*  spaced", "sub dir/"], k=rnd.randint(1, 4))
            if rnd.random() < 0.2:
                below = [p for p in fs.below(at)] + [d for d in fs.dirs if d and d.startswith(at + "/" if at else "")]
                if below:
                    pre = len(at) + 1 if at else 0
                    kw["sf"] = [x[pre:] for x in rnd.choices(below, k=rnd.randint(1, 2))]
            a_create(at, **kw)
        elif r < 0.68:
            at = rnd.choice([""] * 3 + [d for d in sorted(fs.hist)])
            op = {"op": "verify", "at": at}
            if rnd.random() < 0.15:
                below = fs.below(at)
                if below:
                    pre = len(at) + 1 if at else 0
                    op["sf"] = rnd.choice(below)[pre:]
            if rnd.random() < 0.15:
                op["i"] = [rnd.choice(PATTERNS)]
            ops.append(op)
        elif r < 0.78:
            at = rnd.choice([""] * 3 + [d for d in sorted(fs.hist)])
            op = {"op": "verifydh", "at": at}
            if rnd.random() < 0.2:
                op["h"] = rnd.choice(FORMATS)
            if rnd.random() < 0.15:
                op["co"] = True
            if rnd.random() < 0.1:
                op["ro"] = True
            ops.append(op)
        elif r < 0.86:
            ops.append({"op": "diff", "at": rnd.choice([""] * 3 + sorted(fs.hist))})
        elif r < 0.91:
            ops.append({"op": "info", "at": rnd.choice([""] * 3 + sorted(fs.hist))})
        elif r < 0.95 and files:
            ops.append({"op": "infosf", "at": "", "file": rnd.choice(files)})
        else:
            ops.append({"op": "flatten", "at": ""})
    # the leftover of an interrupted create (a manifest the chain does not list) somewhere in the middle
    if rnd.random() < 0.12:
        cs = [i for i, o in enumerate(ops) if o["op"] == "create" and not o.get("at")]
        if cs:
            k = rnd.choice(cs) + 1
            # (under a name of its own: a re-run in the very same clock second would reuse the leftover's name and
            # overwrite it - the model covers that case, `interrupted_generation_absent`; the byte-level monitors
            # would have to tell a leftover from a manifest)
            ops.insert(k, {"op": "orphan", "hist": "", "other_name": True})
    # spell some root paths / -sf paths in a non-canonical way (trailing slash, dot segments, relative invocation)
    for o in ops:
        if o["op"] in ("create", "verify", "verifydh", "diff", "info", "flatten") and rnd.random() < 0.2:
            o["spell"] = rnd.choice(["slash", "dot", "dotdot", "relative", "cwd", "symlink"])
        if o["op"] in ("create", "verify") and o.get("sf") is not None and "spell" not in o and rnd.random() < 0.25:
            o["sf_rel"] = rnd.choice(["base", "root", "sub"])
            if rnd.random() < 0.3:
                o["sf_rel_root"] = False
        if o["op"] == "create" and o.get("sf") and rnd.random() < 0.4:
            raws = []
            for x in o["sf"]:
                k = rnd.random()
                if k < 0.3:
                    raws.append("./" + x)
                elif k < 0.6 and "/" in x:
                    d, b = x.rsplit("/", 1)
                    raws.append(d + "/../" + d.split("/")[-1] + "/" + b)
                elif k < 0.8:
                    raws.append(x.replace("/", "//", 1))
                else:
                    raws.append(x)
            o["sf_raw"] = raws
    # always end with the read-only commands on the root
    ops.append({"op": "verify", "at": ""})
    ops.append({"op": "diff", "at": ""})
    return sc


def gen_nested(seed):
    """nested histories: chains to depth 4, sibling names that are prefixes of each other, any creation order"""
    rnd = random.Random(seed)
    tree = {
        "top.txt": "top",
        "A/a.txt": "a",
        "A/X/x.txt": "x",
        "A/X/Y/y.txt": "y",
        "A/X/Y/Z/z.txt": "z",
        "A/X/Y/Z/sub/zs.txt": "zs",
        "AB/b.txt": "b",
        "AB/A/ba.txt": "ba",
        "Clips/c.mov": "c",
        "Clips_proxy/p.mov": "p",
        "Clips_proxy/deep/q.mov": "q",
        "Reel1/r.txt": "r1",
        "Reel10/r.txt": "r10",
        "plain/n.txt": "n",
        "empty/": None,
        ".proxies/cam1/p1.txt": "p1",
        "CamA/Clips/ca.mov": "ca",
        "CamB/Clips/cb.mov": "cb",
        ".proxies/h.txt": "hidden folder file",
    }
    for k in list(tree):
        if rnd.random() < 0.15 and k not in ("top.txt",):
            del tree[k]
    cands = ["A", "A/X", "A/X/Y", "A/X/Y/Z", "AB", "Clips", "Reel1", "AB/A", ".proxies/cam1", "CamA/Clips", "CamB/Clips"]
    dirs = set()
    for k in tree:
        parts = k.rstrip("/").split("/")
        for i in range(1, len(parts) + (1 if k.endswith("/") else 0)):
            dirs.add("/".join(parts[:i]))
    cands = [c for c in cands if c in dirs]
    chosen = [c for c in cands if rnd.random() < 0.55]
    rnd.shuffle(chosen)
    ops = []
    t = 0
    root_first = rnd.random() < 0.3
    if root_first:
        # the outer folder is sealed BEFORE the nested histories come into being (some of them through a partial -sf run)
        ops.append({"op": "create", "at": "", "h": fmt_subset(rnd, (1, 2)), "now": "2026-03-01 11:59:58"})
    for c in chosen:
        t += rnd.choice([0, 1])
        ops.append({"op": "create", "at": c, "h": fmt_subset(rnd, (1, 2)), "now": "2026-03-01 12:00:%02d" % t, **({"n": True} if rnd.random() < 0.15 else {})})
        below = sorted(k[len(c) + 1:] for k, v in tree.items() if v is not None and k.startswith(c + "/"))
        if root_first and below and rnd.random() < 0.6:
            ops[-1]["sf"] = [rnd.choice(below)]
            ops[-1].pop("n", None)
    t += 1
    ops.append({"op": "create", "at": "", "h": fmt_subset(rnd, (1, 2)), "now": "2026-03-01 12:00:%02d" % t})
    files = [k for k, v in tree.items() if v is not None]
    for _ in range(rnd.randint(2, 6)):
        r = rnd.random()
        t += 1
        now = "2026-03-01 12:00:%02d" % (t % 60)
        if r < 0.2:
            p = rnd.choice(files)
            ops.append({"op": "write", "path": p, "data": "changed " + p})
        elif r < 0.45:
            at = rnd.choice(["", ""] + chosen)
            below = [f for f in files if not at or f.startswith(at + "/")]
            if below:
                pre = len(at) + 1 if at else 0
                k = rnd.randint(1, 2)
                sf = [x[pre:] for x in rnd.sample(below, min(k, len(below)))]
                if rnd.random() < 0.3:
                    d = rnd.choice(below)[pre:]
                    if "/" in d:
                        sf.append(d.rsplit("/", 1)[0])
                ops.append({"op": "create", "at": at, "h": fmt_subset(rnd, (1, 2)), "sf": sf, "now": now})
        elif r < 0.65:
            ops.append({"op": "create", "at": rnd.choice(["", ""] + chosen), "h": fmt_subset(rnd, (1, 2)), "now": now, **({"i": [rnd.choice(["Clips", "*.mov", "A", "plain", "Z", "Reel1"])]} if rnd.random() < 0.3 else {})})
        elif r < 0.8:
            ops.append({"op": rnd.choice(["verify", "diff", "verifydh"]), "at": rnd.choice(["", ""] + chosen)})
        elif r < 0.9:
            ops.append({"op": "info", "at": rnd.choice(["", ""] + chosen)})
        else:
            nm = rnd.choice(["new.txt", "A/new.txt", "A/X/Y/new.txt", "AB/new.txt", "Clips_proxy/new.txt"])
            ops.append({"op": "write", "path": nm, "data": "new " + nm})
            files.append(nm)
    ops += [{"op": "verify", "at": ""}, {"op": "diff", "at": ""}, {"op": "info", "at": ""}]
    return {"seed": seed, "profile": "nested", "root": rnd.choice(["root", "Reel"]), "tree": tree, "ops": ops}


def gen_longhist(seed, n=None):
    """many generations in one history"""
    rnd = random.Random(seed)
    tree = {"a.txt": "a", "s/b.txt": "b"}
    n = n or rnd.randint(11, 14)
    ops = []
    for i in range(n):
        op = {"op": "create", "at": "", "h": fmt_subset(rnd, (1, 2)), "now": "2026-03-01 12:%02d:%02d" % (i // 60, (i // 2) % 60)}
        if rnd.random() < 0.2:
            op["sf"] = ["a.txt"]
        ops.append(op)
        if rnd.random() < 0.15:
            ops.append({"op": "write", "path": "n%d.txt" % i, "data": "n%d" % i})
    ops += [{"op": "verify", "at": ""}, {"op": "info", "at": ""}, {"op": "infosf", "at": "", "file": "a.txt"}, {"op": "flatten", "at": ""}]
    return {"seed": seed, "profile": "longhist", "root": "root", "tree": tree, "ops": ops}


def unsteady_clock(sc, rnd, p=0.6):
    """the wall clock is not monotone across generations (a workstation whose clock was set back, generations written on
    different machines): every create after the first gets, with probability p, a time EARLIER than everything before"""
    k = 0
    seen = False
    for o in sc["ops"]:
        if o["op"] != "create":
            continue
        if seen and rnd.random() < p:
            k += 1
            o["now"] = "2026-02-%02d %02d:%02d:%02d" % (max(1, 27 - k), (23 - k) % 24, (59 - 7 * k) % 60, (k * 13) % 60)
        seen = True
    sc["unsteady_clock"] = True
    return sc


def describe(sc):
    """distribution features of a scenario for the evidence file"""
    ops = [o["op"] for o in sc["ops"]]
    return {
        "files": sum(1 for k, v in sc["tree"].items() if v is not None),
        "dirs": sum(1 for k, v in sc["tree"].items() if v is None),
        "depth": max([k.count("/") for k in sc["tree"]] + [0]),
        "ops": ops,
        "nested": sum(1 for o in sc["ops"] if o["op"] == "create" and o.get("at")),
    }
