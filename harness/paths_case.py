"""The path glue of the command line (MhlModel/Paths.lean) tied to the code: (a) the model's normpath / join / relpath
against CPython's posixpath on generated strings - the library functions the tool calls; (b) the history-relative path
the model predicts for a (working directory, ROOT spelling, -sf spelling) triple against the path the REAL `create -sf`
records and against what `verify -sf` finds."""
import os, random, posixpath as P, glob
from . import rt
from .model import Driver

ALPHA = ["a", "b", "..", ".", "/", "//", "é", " ", "c.txt"]
FIXED = ["", ".", "/", "//", "///", "//a", "/..", "/../a", "..", "../..", "a/..", "a/../..", "a/./b//c/", "/a/b/../../../c", "./..", "a/b/../../../c", "a//b/../c/.", "////a", "//..", "/./", "a/", "é/../ "]


def _rnd(rng, n=8):
    return "".join(rng.choice(ALPHA) for _ in range(rng.randint(0, n)))


def _abspath(cwd, s):
    return P.normpath(s if P.isabs(s) else P.join(cwd, s))


def _relpath(cwd, path, start):
    if not path:
        return "."
    sl = [x for x in _abspath(cwd, start).split("/") if x]
    pl = [x for x in _abspath(cwd, path).split("/") if x]
    i = 0
    while i < min(len(sl), len(pl)) and sl[i] == pl[i]:
        i += 1
    rl = [".."] * (len(sl) - i) + pl[i:]
    return "/".join(rl) if rl else "."


def library(seed, n):
    """returns (diffs, cases): model vs posixpath"""
    rng = random.Random(seed * 7919 + 3)
    drv = Driver()
    diffs, cases = [], 0
    try:
        for s in FIXED + [_rnd(rng) for _ in range(n)]:
            cases += 1
            r = drv.send({"op": "normpath", "s": s})["r"]
            if r != P.normpath(s):
                diffs.append({"what": f"normpath({s!r}): model {r!r}, posixpath {P.normpath(s)!r}", "replay": {"op": "normpath", "s": s}})
        for _ in range(n):
            a, b = _rnd(rng, 5), _rnd(rng, 5)
            cases += 1
            r = drv.send({"op": "joinpath", "a": a, "b": b})["r"]
            if r != P.join(a, b):
                diffs.append({"what": f"join({a!r}, {b!r}): model {r!r}, posixpath {P.join(a, b)!r}", "replay": {"op": "joinpath", "a": a, "b": b}})
        real = os.getcwd()
        for _ in range(n):
            cwd = rng.choice([real, "/" + _rnd(rng, 4)])
            path, start = _rnd(rng, 6), _rnd(rng, 6)
            exp = _relpath(cwd, path, start)
            if cwd == real and path and start:
                assert exp == P.relpath(path, start), (path, start)
            cases += 1
            r = drv.send({"op": "relpath", "cwd": cwd, "path": path, "start": start})["r"]
            if r != exp:
                diffs.append({"what": f"relpath({path!r}, {start!r}) in {cwd!r}: model {r!r}, posixpath {exp!r}", "replay": {"op": "relpath", "cwd": cwd, "path": path, "start": start}})
    finally:
        drv.close()
    return diffs[:5], cases


def command_line(seed, n):
    """returns (fails, diffs, cases): the recorded path of `create -sf` and the answer of `verify -sf` for spellings of
    ROOT and FILE relative to several working directories, against the model's sfOfCreate / sfOfVerify"""
    rng = random.Random(seed * 104723 + 11)
    drv = Driver()
    fails, diffs, cases = [], [], 0
    files = ["a.mov", "clips/b.mov", "clips/day 1/c.mov", "clips/é.mov"]
    try:
        for k in range(n):
            with rt.tempdir("paths_") as d:
                d = os.path.realpath(d)
                root = os.path.join(d, "vol", "card")
                rt.mk(root, {f: "content of " + f for f in files})
                os.makedirs(os.path.join(d, "vol", "other"))
                rt.run("create", [root, "-h", "md5"], "2026-03-01 12:00:00")
                f = rng.choice(files)
                cwd = rng.choice([d, os.path.join(d, "vol"), root, os.path.join(root, "clips"), os.path.join(d, "vol", "other")])
                absf = os.path.join(root, f)
                rootsp = rng.choice([root, os.path.relpath(root, cwd), os.path.relpath(root, cwd) + "/", os.path.join(os.path.relpath(root, cwd), "."), os.path.join(root, "clips", "..")])
                sfsp = rng.choice([absf, os.path.relpath(absf, cwd), "./" + os.path.relpath(absf, cwd), os.path.relpath(absf, root), os.path.join(os.path.dirname(os.path.relpath(absf, cwd)) or ".", ".", os.path.basename(f)),
                                   os.path.join(root, "clips", "..", f)])
                cases += 1
                # create -sf
                pc = drv.send({"op": "sfpath", "cmd": "create", "cwd": cwd, "root": rootsp, "sf": sfsp})["r"]
                target = os.path.normpath(sfsp if os.path.isabs(sfsp) else os.path.join(cwd, sfsp))
                if os.path.isfile(target) and target.startswith(root + os.sep):
                    x = rt.run("create", [rootsp, "-h", "md5", "-sf", sfsp], "2026-03-01 12:00:05", cwd)
                    ms = sorted(glob.glob(os.path.join(glob.escape(root), "ascmhl", "0002_*.mhl")))
                    rec = [r["path"] for r in rt.read_manifest(ms[0])["records"] if r["kind"] == "file"] if ms else None
                    desc = f"create {rootsp!r} -sf {sfsp!r} from {os.path.relpath(cwd, d)!r}"
                    if x.exit != 0 or rec is None:
                        fails.append({"what": f"{desc}: exit {x.exit} {x.exc or ''}, manifests {[os.path.basename(m) for m in ms]}", "replay": {"cwd": os.path.relpath(cwd, d), "root": rootsp, "sf": sfsp}})
                    else:
                        if rec != [os.path.relpath(target, root)]:
                            fails.append({"what": f"{desc}: records {rec}, the named file is {os.path.relpath(target, root)!r} relative to the history root", "replay": {"cwd": os.path.relpath(cwd, d), "root": rootsp, "sf": sfsp}})
                        if rec != [pc]:
                            diffs.append({"what": f"{desc}: the tool records {rec}, the model's sfOfCreate gives {pc!r}", "replay": {"cwd": cwd, "root": rootsp, "sf": sfsp}})
                # verify -sf: resolved against ROOT when relative
                pv = drv.send({"op": "sfpath", "cmd": "verify", "cwd": cwd, "root": rootsp, "sf": sfsp})["r"]
                x = rt.run("verify", [rootsp, "-sf", sfsp], "2026-03-01 12:00:06", cwd)
                found = pv in files
                if (x.exit == 0) != found and x.exit in (0, 20):
                    diffs.append({"what": f"verify {rootsp!r} -sf {sfsp!r} from {os.path.relpath(cwd, d)!r}: exit {x.exit}, the model's sfOfVerify gives {pv!r} ({'a recorded file' if found else 'no recorded file'})", "replay": {"cwd": cwd, "root": rootsp, "sf": sfsp}})
    finally:
        drv.close()
    return fails[:5], diffs[:5], cases
