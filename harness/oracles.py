"""Independent oracles for the monitors.  Nothing here imports ascmhl or consults the Lean model: the tree on disk is
walked from the snapshot, `pathspec` applied to root-relative paths is the *definition* of "excluded", digests come
from the libraries' one-shot calls, manifests are read with ElementTree."""
import os, io, re
import xml.etree.ElementTree as ET
import pathspec
from . import rt


def rel(p, base):
    """POSIX path of p relative to base ('' = scenario root)"""
    if base in ("", "."):
        return p
    if p == base:
        return "."
    assert p.startswith(base + "/"), (p, base)
    return p[len(base) + 1 :]


def join(a, b):
    if a in ("", "."):
        return b
    if b in ("", "."):
        return a
    return a + "/" + b


def spec_of(patterns):
    return pathspec.PathSpec.from_lines("gitwildmatch", patterns)


def entries_below(media, at):
    """{path relative to at: bytes|None} for everything strictly below `at` in the media snapshot"""
    out = {}
    for p, v in media.items():
        if p == ".":
            pp = ""
        else:
            pp = p
        if at in ("", "."):
            if pp:
                out[pp] = v[0]
        elif pp.startswith(at + "/"):
            out[pp[len(at) + 1 :]] = v[0]
    return out


def visible(media, at, patterns):
    """entries below `at` that no pattern excludes (an excluded directory hides everything beneath it)"""
    sp = spec_of(patterns)
    ents = entries_below(media, at)
    out = {}
    for p, v in ents.items():
        parts = p.split("/")
        hidden = any(sp.match_file("/".join(parts[: i + 1])) for i in range(len(parts)))
        if not hidden:
            out[p] = v
    return out


def visible_below(media, at, patterns, folder):
    """what a walk that STARTS at `folder` (named with -sf) meets: the entries below it of which neither the path itself
    nor a folder between it and `folder` is excluded - `folder` itself and the folders above it are not asked"""
    sp = spec_of(patterns)
    k = len(folder.split("/")) if folder else 0
    out = {}
    for p, v in entries_below(media, at).items():
        parts = p.split("/")
        if folder and parts[:k] != folder.split("/") or len(parts) <= k:
            continue
        if not any(sp.match_file("/".join(parts[: i + 1])) for i in range(k, len(parts))):
            out[p] = v
    return out


def history_roots(asc):
    """directories (relative to the scenario root, '' for the root) that have an ascmhl folder"""
    roots = set()
    for p in asc:
        parts = p.split("/")
        if "ascmhl" in parts:
            i = parts.index("ascmhl")
            roots.add("/".join(parts[:i]))
    return roots


def within(r, at):
    return at in ("", ".") or r == at or r.startswith(at + "/")


def owner(path, roots, at):
    """deepest history root (among the roots at or below `at`) that is a PROPER ancestor of path; `at` otherwise.
    path and roots are relative to the scenario root ('' = the root)."""
    at = "" if at == "." else at
    cands = [r for r in roots if r != path and within(r, at) and (r == "" or path.startswith(r + "/"))]
    cands.append(at)
    return max(cands, key=len)


def parse_manifest_bytes(b):
    root = ET.parse(io.BytesIO(b)).getroot()
    tmp = "/tmp/_unused"
    out = {"records": [], "references": [], "ignore": [], "roothash": None, "process": None, "creationdate": None}
    ci = root.find(rt.NS_M + "creatorinfo")
    if ci is not None:
        cd = ci.find(rt.NS_M + "creationdate")
        out["creationdate"] = None if cd is None else cd.text
    pi = root.find(rt.NS_M + "processinfo")
    if pi is not None:
        for ch in pi:
            t = rt._lt(ch)
            if t == "process":
                out["process"] = ch.text
            elif t == "ignore":
                out["ignore"] = [p.text for p in ch]
            elif t == "roothash":
                out["roothash"] = rt._read_dirhash(ch)
    hs = root.find(rt.NS_M + "hashes")
    for h in hs if hs is not None else []:
        t = rt._lt(h)
        rec = {"kind": "dir" if t == "directoryhash" else "file", "entries": [], "prev": None}
        for ch in h:
            ct = rt._lt(ch)
            if ct == "path":
                rec["path"] = ch.text
                rec["size"] = ch.attrib.get("size")
                rec["lastmod"] = ch.attrib.get("lastmodificationdate")
            elif ct == "previousPath":
                rec["prev"] = ch.text
            elif ct in ("content", "structure", "metadata"):
                pass
            else:
                rec["entries"].append({"fmt": ct, "digest": ch.text, "action": ch.attrib.get("action"), "hashdate": ch.attrib.get("hashdate")})
        if t == "directoryhash":
            rec["entries"] = rt._read_dirhash(h)
        out["records"].append(rec)
    refs = root.find(rt.NS_M + "references")
    for r in refs if refs is not None else []:
        out["references"].append({"path": r.find(rt.NS_M + "path").text, "c4": r.find(rt.NS_M + "c4").text})
    return out


def parse_chain_bytes(b):
    root = ET.parse(io.BytesIO(b)).getroot()
    out = []
    for h in root:
        d = {"seq": h.attrib.get("sequencenr")}
        for ch in h:
            t = rt._lt(ch)
            if t == "path":
                d["path"] = ch.text
            else:
                d["fmt"], d["digest"] = t, ch.text
        out.append(d)
    return out


def histories(asc):
    """{history root: {"gens": [(num, name, bytes)] ascending, "chain": bytes|None, "other": [names]}}"""
    out = {}
    for p, b in asc.items():
        parts = p.split("/")
        i = parts.index("ascmhl")
        root = "/".join(parts[:i])
        name = "/".join(parts[i + 1 :])
        h = out.setdefault(root, {"gens": [], "chain": None, "other": []})
        m = re.match(r"^(\d{4,})(?:_(.+))?\.mhl$", name)
        if m and not name.startswith("._"):
            h["gens"].append((int(m.group(1)), name, b))
        elif name == "ascmhl_chain.xml":
            h["chain"] = b
        else:
            h["other"].append(name)
    for h in out.values():
        h["gens"].sort()
        # a generation exists when the chain file lists its manifest (reading adopted, DESIGN.md section 9): a manifest
        # file without chain entry - the leftover of an interrupted create - is kept apart
        h["unlisted"] = []
        if h["chain"] is not None:
            try:
                root = ET.parse(io.BytesIO(h["chain"])).getroot()
                listed = {ch.text for hl in root for ch in hl if ch.tag.split("}", 1)[-1] == "path"}
                h["unlisted"] = [g for g in h["gens"] if g[1] not in listed]
                h["gens"] = [g for g in h["gens"] if g[1] in listed]
            except ET.ParseError:
                pass
    return out


# ------------------------------------------------------------------ reference directory hashes (compositional)
def ref_dirhashes(vis, fmt):
    """vis: {relpath: bytes|None} of the visible entries below a root.  Returns {dir relpath or '.': (content, structure)}
    by the compositional definition."""
    children = {}
    for p in vis:
        parent = p.rsplit("/", 1)[0] if "/" in p else "."
        children.setdefault(parent, []).append(p)
    memo = {}

    def H(b):
        return rt.digest(fmt, b)

    def dec(s):
        return rt.digest_bytes(fmt, s)

    def node(p):
        """returns (content_digest, bind_digest) where bind is what the parent's structure hash binds the name to"""
        v = vis.get(p) if p != "." else None
        if p != "." and v is not None:
            d = H(v)
            return d, d
        if p in memo:
            return memo[p]
        cds, sds = [], []
        for c in children.get(p, []):
            cd, bd = node(c)
            name = c.rsplit("/", 1)[-1]
            cds.append(cd)
            sds.append(H(name.encode("utf-8") + dec(bd)))
        content = H(b"".join(dec(x) for x in sorted(cds)))
        structure = H(b"".join(dec(x) for x in sorted(sds)))
        memo[p] = (content, structure)
        return content, structure

    out = {}
    dirs = ["."] + [p for p, v in vis.items() if v is None]
    for d in dirs:
        c, s = node(d)
        out[d] = memo[d] if d in memo else (c, s)
    return out
