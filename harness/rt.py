"""Runtime for the correspondence harness: runs the real ascmhl code in-process on real temp dirs.

The implementation under test is imported from VERIF_REPO (default /repo), i.e. from the working
tree as it is now.  Nothing in this module shares code with ascmhl except the calls into it.
"""
import os, sys, io, json, time, shutil, tempfile, hashlib, re, contextlib, random
import xml.etree.ElementTree as ET

REPO = os.environ.get("VERIF_REPO", "/repo")
VERIF = os.path.dirname(os.path.dirname(os.path.abspath(__file__)))
if sys.path[0] != REPO:
    sys.path.insert(0, REPO)
os.environ.setdefault("TZ", "UTC")
time.tzset()

# the update checker starts a thread at import of ascmhl.cli.*; we never import those here.
import click
from click.testing import CliRunner
from freezegun import freeze_time
import platform

platform.node = lambda: "verif.local"

_C = None
_HOME = None


def commands():
    global _C
    if _C is None:
        # the tool is imported while the working directory is a small scratch folder of its own: code that (wrongly)
        # remembers the working directory of import time then works on that folder, not on the harness's own tree
        global _HOME
        import atexit

        _HOME = tempfile.mkdtemp(prefix="mhlv_home_", dir="/dev/shm" if os.path.isdir("/dev/shm") else None)
        with open(os.path.join(_HOME, "marker.txt"), "w") as f_:
            f_.write("import-time working directory of the harness\n")
        atexit.register(shutil.rmtree, _HOME, True)
        # the same for what the environment says about places: a stale $PWD (the harness changes directory without
        # telling the environment, like any program started with cwd=...) and $HOME point at the scratch folder
        os.environ["PWD"] = _HOME
        os.environ["HOME"] = _HOME
        old_ = os.getcwd()
        os.chdir(_HOME)
        try:
            import ascmhl.commands as C
        finally:
            os.chdir(old_)

        assert os.path.realpath(C.__file__).startswith(os.path.realpath(REPO) + os.sep), (C.__file__, REPO)
        _C = C
    return _C


_RUNNER = None


def runner():
    global _RUNNER
    if _RUNNER is None:
        try:
            _RUNNER = CliRunner(mix_stderr=True)
        except TypeError:
            _RUNNER = CliRunner()
    return _RUNNER


class Result:
    __slots__ = ("exit", "exc", "out", "cmd", "args")

    def __init__(self, exit, exc, out, cmd, args):
        self.exit, self.exc, self.out, self.cmd, self.args = exit, exc, out, cmd, args

    def as_dict(self):
        return {"cmd": self.cmd, "args": self.args, "exit": self.exit, "exc": self.exc, "out": self.out}


def run(cmd, args, now=None, cwd=None):
    """Run one ascmhl click command in-process.  exc is None or the class name of an uncaught exception."""
    C = commands()
    f = getattr(C, cmd)
    args = [str(a) for a in args]
    ctx = freeze_time(now, tick=False) if now else contextlib.nullcontext()
    old = os.getcwd()
    if cwd:
        os.chdir(cwd)
    try:
        with ctx:
            r = runner().invoke(f, args)
    finally:
        os.chdir(old)
    exc = None
    if r.exception is not None and not isinstance(r.exception, SystemExit):
        exc = type(r.exception).__name__
    return Result(r.exit_code, exc, r.output, cmd, args)


# ---------------------------------------------------------------- temp dirs
_TMPBASE = "/dev/shm" if os.path.isdir("/dev/shm") and os.access("/dev/shm", os.W_OK) else None


def mktemp(prefix="mhlv_"):
    return tempfile.mkdtemp(prefix=prefix, dir=_TMPBASE)


@contextlib.contextmanager
def tempdir(prefix="mhlv_"):
    d = mktemp(prefix)
    try:
        yield d
    finally:
        shutil.rmtree(d, ignore_errors=True)


def mk(root, files, mtime=None):
    """files: {relpath: bytes|str|None}; None or a trailing '/' means directory."""
    for p, c in files.items():
        fp = os.path.join(root, p)
        if c is None or p.endswith("/"):
            os.makedirs(fp, exist_ok=True)
            continue
        os.makedirs(os.path.dirname(fp), exist_ok=True)
        with open(fp, "wb") as f:
            f.write(c if isinstance(c, bytes) else c.encode("utf-8"))
        if mtime is not None:
            os.utime(fp, (mtime, mtime))


# ---------------------------------------------------------------- independent readers
NS_M = "{urn:ASC:MHL:v2.0}"
NS_D = "{urn:ASC:MHL:DIRECTORY:v2.0}"
FORMATS = ["md5", "sha1", "xxh128", "xxh3", "xxh64", "c4", "xxh32"]


def _lt(e):
    return e.tag.split("}", 1)[-1]


def read_manifest(path):
    """Independent (expat/ElementTree) reader of a manifest; returns a canonical dict."""
    root = ET.parse(path).getroot()
    out = {"file": os.path.basename(path), "records": [], "references": [], "ignore": [], "roothash": None}
    ci = root.find(NS_M + "creatorinfo")
    if ci is not None:
        d = {}
        for ch in ci:
            t = _lt(ch)
            if t == "author":
                d.setdefault("authors", []).append({"name": ch.text, **dict(ch.attrib)})
            elif t == "tool":
                d["tool"] = [ch.text, ch.attrib.get("version")]
            else:
                d[t] = ch.text
        out["creatorinfo"] = d
    pi = root.find(NS_M + "processinfo")
    if pi is not None:
        for ch in pi:
            t = _lt(ch)
            if t == "process":
                out["process"] = ch.text
            elif t == "ignore":
                out["ignore"] = [p.text for p in ch]
            elif t == "roothash":
                out["roothash"] = _read_dirhash(ch)
    hs = root.find(NS_M + "hashes")
    out["has_hashes_section"] = hs is not None
    if hs is not None:
        for h in hs:
            t = _lt(h)
            rec = {"kind": "dir" if t == "directoryhash" else "file", "entries": []}
            for ch in h:
                ct = _lt(ch)
                if ct == "path":
                    rec["path"] = ch.text
                    rec["size"] = ch.attrib.get("size")
                    rec["lastmod"] = ch.attrib.get("lastmodificationdate")
                elif ct == "previousPath":
                    rec["prev"] = ch.text
                elif ct in ("content", "structure"):
                    pass
                else:
                    rec["entries"].append(
                        {"fmt": ct, "digest": ch.text, "action": ch.attrib.get("action"), "hashdate": ch.attrib.get("hashdate")}
                    )
            if t == "directoryhash":
                rec["entries"] = _read_dirhash(h)
            out["records"].append(rec)
    refs = root.find(NS_M + "references")
    if refs is not None:
        for r in refs:
            out["references"].append({"path": r.find(NS_M + "path").text, "c4": r.find(NS_M + "c4").text})
    return out


def _read_dirhash(el):
    content = el.find(NS_M + "content")
    structure = el.find(NS_M + "structure")
    ents = []
    if content is not None:
        sl = list(structure) if structure is not None else []
        for i, c in enumerate(content):
            s = sl[i] if i < len(sl) else None
            ents.append(
                {
                    "fmt": _lt(c),
                    "digest": c.text,
                    "structure": None if s is None else s.text,
                    "sfmt": None if s is None else _lt(s),
                    "action": c.attrib.get("action"),
                }
            )
    return ents


def read_chain(path):
    root = ET.parse(path).getroot()
    out = []
    for h in root:
        d = {"seq": h.attrib.get("sequencenr")}
        for ch in h:
            t = _lt(ch)
            if t == "path":
                d["path"] = ch.text
            else:
                d["fmt"], d["digest"] = t, ch.text
        out.append(d)
    return out


# ---------------------------------------------------------------- independent digests
_B58 = "123456789ABCDEFGHJKLMNPQRSTUVWXYZabcdefghijkmnopqrstuvwxyz"


def c4_of_bytes(b):
    n = int.from_bytes(hashlib.sha512(b).digest(), "big")
    s = ""
    while n:
        n, r = divmod(n, 58)
        s = _B58[r] + s
    return "c4" + s.rjust(88, "1")


def c4_decode(s):
    n = 0
    for ch in s[2:]:
        n = n * 58 + _B58.index(ch)
    return n.to_bytes(64, "big")


def digest(fmt, b):
    """One-shot library digests (reference; no ascmhl code)."""
    import xxhash

    if fmt == "md5":
        return hashlib.md5(b).hexdigest()
    if fmt == "sha1":
        return hashlib.sha1(b).hexdigest()
    if fmt == "xxh32":
        return xxhash.xxh32_hexdigest(b)
    if fmt == "xxh64":
        return xxhash.xxh64_hexdigest(b)
    if fmt == "xxh3":
        return xxhash.xxh3_64_hexdigest(b)
    if fmt == "xxh128":
        return xxhash.xxh3_128_hexdigest(b)
    if fmt == "c4":
        return c4_of_bytes(b)
    raise KeyError(fmt)


def digest_bytes(fmt, s):
    return c4_decode(s) if fmt == "c4" else bytes.fromhex(s)


# ---------------------------------------------------------------- snapshots
def snapshot(root, with_meta=True):
    """{relpath: (kind, bytes-or-None, mode, mtime_ns)} for everything below root (root itself as '.')."""
    out = {}
    for dp, dns, fns in os.walk(root):
        rel = os.path.relpath(dp, root)
        st = os.lstat(dp)
        out[rel] = ("d", None, st.st_mode, st.st_mtime_ns) if with_meta else ("d", None)
        for fn in fns:
            p = os.path.join(dp, fn)
            st = os.lstat(p)
            with open(p, "rb") as f:
                b = f.read()
            r = os.path.normpath(os.path.join(rel, fn))
            out[r] = ("f", b, st.st_mode, st.st_mtime_ns) if with_meta else ("f", b)
    return out


def ascmhl_dirs(root):
    """all ascmhl folders below root, as paths relative to root, sorted"""
    out = []
    for dp, dns, fns in os.walk(root):
        if os.path.basename(dp) == "ascmhl":
            out.append(os.path.relpath(dp, root))
            dns[:] = []
    return sorted(out)


# ---------------------------------------------------------------- output classification
_ANSI = re.compile(r"\x1b\[[0-9;]*m")


def classify_output(out):
    """Classify tool output into path sets.  Paths are as printed (relative to the invocation root)."""
    res = {"mismatch": [], "missing": [], "new": [], "renamed": [], "dirmismatch": [], "info": []}
    lines = _ANSI.sub("", out).split("\n")
    i = 0
    while i < len(lines):
        ln = lines[i]
        m = re.match(r"ERROR: hash mismatch\s+for\s+(.*?)\s+(?:old )?(md5|sha1|xxh128|xxh3|xxh64|c4|xxh32)(?: \(old\))?: ", ln)
        if m:
            res["mismatch"].append(m.group(1))
        m = re.match(r"ERROR: (\d+) missing file\(s\):", ln)
        if m:
            n = int(m.group(1))
            for j in range(n):
                if i + 1 + j < len(lines):
                    res["missing"].append(lines[i + 1 + j][2:])
            i += n
        m = re.match(r"found new file (.*)$", ln)
        if m:
            res["new"].append(m.group(1))
        m = re.match(r"a renamed (file|folder) was detected: from (.*) to (.*)$", ln)
        if m:
            res["renamed"].append([m.group(2), m.group(3)])
        m = re.match(r"ERROR: (content|structure) hash mismatch\s+for (.*?)(?: \(root folder in child history\))? old ", ln)
        if m:
            res["dirmismatch"].append([m.group(1), m.group(2)])
        i += 1
    return res
