"""Minimal witnesses of the defects found in ascmitc/mhl (DESIGN.md section 8), as executable scenarios.

Each witness function runs the real code and returns a list of strings describing how the property fails
(empty list = the property holds on this witness).  They are the 'corpus that runs first' of the monitors,
and they are how each `fix:` commit was confirmed (fails before, passes after).
"""
import os, glob, re, time, datetime
from . import rt
from .rt import run, mk, tempdir

NOW = "2026-03-01 12:00:00"


def _root(d, name="root"):
    r = os.path.join(d, name)
    os.makedirs(r)
    return r


def _last_manifest(r):
    return sorted(glob.glob(os.path.join(r, "ascmhl", "*.mhl")))[-1]


def D1():
    """C04: second generation drops the alphabetically first recorded format and adds a new one"""
    f = []
    with tempdir() as d:
        r = _root(d)
        mk(r, {"a.txt": "hello"})
        run("create", [r, "-h", "xxh64", "-h", "md5"], NOW)
        x = run("create", [r, "-h", "xxh64", "-h", "sha1"], NOW)
        if x.exit != 0:
            f.append(f"create -h xxh64 -h sha1 after -h xxh64 -h md5 on unchanged file: exit {x.exit} exc {x.exc}")
    return f


def D2a():
    """C09: flat folder, changed file, verify -dh"""
    f = []
    with tempdir() as d:
        r = _root(d)
        mk(r, {"a.txt": "hello", "b.txt": "b"})
        run("create", [r, "-h", "md5"], NOW)
        x = run("verify", [r, "-dh"], NOW)
        if x.exit != 0:
            f.append(f"verify -dh on unchanged flat folder: exit {x.exit} exc {x.exc}")
        mk(r, {"a.txt": "HELLO"})
        x = run("verify", [r, "-dh"], NOW)
        if x.exit != 12:
            f.append(f"verify -dh after root-level content change: exit {x.exit} exc {x.exc} (expected 12)")
    return f


def D2b():
    """C09: generation written with -n, then verify -dh"""
    f = []
    with tempdir() as d:
        r = _root(d)
        mk(r, {"a.txt": "hello", "s/b.txt": "b"})
        run("create", [r, "-h", "md5", "-n"], NOW)
        x = run("verify", [r, "-dh"], NOW)
        if x.exc is not None:
            f.append(f"verify -dh after create -n: internal error {x.exc}")
    return f


def D2c():
    """C09: nested child with another format / -dh -h other"""
    f = []
    with tempdir() as d:
        r = _root(d)
        mk(r, {"a.txt": "hello", "s/b.txt": "b"})
        run("create", [r + "/s", "-h", "md5"], NOW)
        run("create", [r, "-h", "xxh64"], NOW)
        x = run("verify", [r, "-dh"], NOW)
        if x.exc is not None or x.exit != 0:
            f.append(f"verify -dh, child md5 / parent xxh64, unchanged: exit {x.exit} exc {x.exc}")
    with tempdir() as d:
        r = _root(d)
        mk(r, {"a.txt": "hello", "s/b.txt": "b"})
        run("create", [r, "-h", "md5"], NOW)
        x = run("verify", [r, "-dh", "-h", "xxh64"], NOW)
        if x.exc is not None:
            f.append(f"verify -dh -h xxh64 on md5 history: internal error {x.exc}")
    return f


def D3():
    """C10/C16: size attribute of a 0-byte file"""
    f = []
    with tempdir() as d:
        r = _root(d)
        mk(r, {"empty.bin": b"", "one.bin": b"x"})
        run("create", [r, "-h", "md5"], NOW)
        m = rt.read_manifest(_last_manifest(r))
        sizes = {x["path"]: x["size"] for x in m["records"] if x["kind"] == "file"}
        if sizes.get("empty.bin") != "0":
            f.append(f"size attribute of 0-byte file: {sizes.get('empty.bin')!r} (expected '0')")
        import ascmhl.hashlist_xml_parser as P

        hl = P.parse(_last_manifest(r))
        got = hl.find_media_hash_for_path("empty.bin").file_size
        if got != 0:
            f.append(f"file_size of 0-byte file read back by the tool's reader: {got!r} (expected 0)")
    return f


def _xsd_ok(path):
    from lxml import etree

    xsd = etree.XMLSchema(etree.parse(os.path.join(rt.REPO, "xsd", "ASCMHL.xsd")))
    ok = xsd.validate(etree.parse(path))
    return ok, (str(xsd.error_log.last_error) if not ok else "")


def D4a():
    """C11: empty <hashes>"""
    f = []
    with tempdir() as d:
        r = _root(d)
        x = run("create", [r, "-h", "md5"], NOW)
        ok, err = _xsd_ok(_last_manifest(r))
        if not ok:
            f.append(f"create on an empty folder writes a schema-invalid manifest: {err}")
    with tempdir() as d:
        r = _root(d)
        mk(r, {"c/f.txt": "x", "t.txt": "t"})
        run("create", [r + "/c", "-h", "md5"], NOW)
        run("create", [r, "-h", "md5", "-sf", r + "/c/f.txt"], NOW)
        ok, err = _xsd_ok(_last_manifest(r))
        if not ok:
            f.append(f"create -sf child/file writes a schema-invalid parent manifest: {err}")
    return f


def D4b():
    """C11: the same file named twice with -sf"""
    f = []
    with tempdir() as d:
        r = _root(d)
        mk(r, {"a.txt": "x", "s/b.txt": "y"})
        run("create", [r, "-h", "md5", "-sf", r + "/a.txt", "-sf", r + "/a.txt"], NOW)
        ok, err = _xsd_ok(_last_manifest(r))
        if not ok:
            f.append(f"create -sf a.txt -sf a.txt writes a schema-invalid manifest: {err}")
    with tempdir() as d:
        r = _root(d)
        mk(r, {"a.txt": "x", "s/b.txt": "y"})
        run("create", [r, "-h", "md5", "-sf", r + "/s", "-sf", r + "/s/b.txt"], NOW)
        ok, err = _xsd_ok(_last_manifest(r))
        if not ok:
            f.append(f"create -sf s -sf s/b.txt writes a schema-invalid manifest: {err}")
    return f


def D5a():
    """C13/C12: root below a folder whose name matches an ignore pattern"""
    f = []
    with tempdir() as d:
        r = os.path.join(d, "ascmhl", "root")
        os.makedirs(r)
        mk(r, {"a.txt": "x", "s/b.txt": "y"})
        run("create", [r, "-h", "md5"], NOW)
        m = rt.read_manifest(_last_manifest(r))
        paths = sorted(x["path"] for x in m["records"])
        if paths != ["a.txt", "s", "s/b.txt"]:
            f.append(f"root at .../ascmhl/root records {paths} (expected ['a.txt','s','s/b.txt'])")
    with tempdir() as d:
        r = os.path.join(d, "media", "root")
        os.makedirs(r)
        mk(r, {"a.txt": "x", "s/b.txt": "y"})
        run("create", [r, "-h", "md5", "-i", "media"], NOW)
        m = rt.read_manifest(_last_manifest(r))
        paths = sorted(x["path"] for x in m["records"])
        if paths != ["a.txt", "s", "s/b.txt"]:
            f.append(f"root at .../media/root with -i media records {paths}")
        os.remove(r + "/a.txt")
        x = run("verify", [r], NOW)
        if x.exit != 10:
            f.append(f"root at .../media/root with -i media: verify after removing a.txt exits {x.exit} (expected 10)")
    return f


def D5b():
    """C13: reference order follows os.walk order"""
    f = []
    import os as _os

    orders = []
    for rev in (False, True):
        with tempdir() as d:
            r = _root(d)
            mk(r, {"A/a.txt": "a", "B/b.txt": "b", "C/c.txt": "c", "x.txt": "x"})
            for s in "ABC":
                run("create", [r + "/" + s, "-h", "md5"], NOW)
            ow = _os.walk

            def walk(top, *a, **k):
                for root, dirs, files in ow(top, *a, **k):
                    dirs.sort(reverse=rev)
                    files.sort(reverse=rev)
                    yield root, dirs, files

            _os.walk = walk
            try:
                run("create", [r, "-h", "md5"], NOW)
            finally:
                _os.walk = ow
            m = rt.read_manifest(_last_manifest(r))
            orders.append([x["path"].split("/")[0] for x in m["references"]])
    if orders[0] != orders[1]:
        f.append(f"<references> order depends on os.walk order: {orders[0]} vs {orders[1]}")
    return f


def D6():
    """C15: truncated chain / partial manifest after a kill"""
    f = []
    with tempdir() as d:
        r = _root(d)
        mk(r, {"a.txt": "aaa"})
        run("create", [r, "-h", "md5"], NOW)
        pre = rt.snapshot(r, False)
        # record the write trace of a second create and replay its prefixes
        from . import crash

        bad = crash.enumerate_crash_states(r, lambda: run("create", [r, "-h", "md5"], "2026-03-01 12:00:05"), limit=400)
        for st in bad["unrecoverable"][:3]:
            f.append("crash state not recoverable: " + st)
        if bad["unrecoverable"]:
            f.append(f"{len(bad['unrecoverable'])} of {bad['states']} crash states of a second create are not recoverable")
    return f


def D7():
    """C16: DST flag of now used for every date"""
    f = []
    old = os.environ.get("TZ")
    try:
        os.environ["TZ"] = "Europe/Berlin"
        time.tzset()
        from ascmhl import utils

        for ts, off in ((1768482000, "+01:00"), (1782907200, "+02:00")):  # 2026-01-15 13:00Z, 2026-07-01 12:00Z
            dt = datetime.datetime.fromtimestamp(ts)
            s = utils.datetime_isostring(dt)
            if not s.endswith(off):
                f.append(f"TZ=Europe/Berlin: local {dt.isoformat()} formatted as {s} (expected offset {off})")
    finally:
        if old is None:
            os.environ.pop("TZ", None)
        else:
            os.environ["TZ"] = old
        time.tzset()
    return f


def D8():
    """C17: move into a NEW directory with -dr and a format change"""
    f = []
    with tempdir() as d:
        r = _root(d)
        mk(r, {"a.txt": "aaa", "b.txt": "bbb"})
        run("create", [r, "-h", "md5"], NOW)
        os.mkdir(r + "/nd")
        os.rename(r + "/a.txt", r + "/nd/a.txt")
        x = run("create", [r, "-h", "xxh64", "-dr"], NOW)
        if x.exit != 0:
            f.append(f"create -dr -h xxh64 after moving a.txt into new dir nd: exit {x.exit} exc {x.exc}")
    return f


def D9():
    """C10: author name '-'"""
    f = []
    with tempdir() as d:
        r = _root(d)
        mk(r, {"a.txt": "aaa"})
        run("create", [r, "-h", "md5", "--author_name", "-", "--author_email", "a@b.c"], NOW)
        m = rt.read_manifest(_last_manifest(r))
        a = m["creatorinfo"].get("authors", [{}])[0]
        if a.get("name") != "-":
            f.append(f"--author_name '-' written as {a.get('name')!r}")
        import ascmhl.hashlist_xml_parser as P

        hl = P.parse(_last_manifest(r))
        if hl.creator_info.authors[0].name != "-":
            f.append(f"--author_name '-' read back as {hl.creator_info.authors[0].name!r}")
    return f


def D10():
    """C12: create -sf ignores -i"""
    f = []
    with tempdir() as d:
        r = _root(d)
        mk(r, {"a.txt": "hello", "s/b.txt": "b", "s/c.tmp": "c"})
        run("create", [r, "-h", "md5", "-sf", r + "/s", "-i", "*.tmp"], NOW)
        m = rt.read_manifest(_last_manifest(r))
        paths = sorted(x["path"] for x in m["records"])
        if "s/c.tmp" in paths:
            f.append(f"create -sf s -i '*.tmp' records {paths}")
        if "*.tmp" not in m["ignore"]:
            f.append(f"create -sf s -i '*.tmp' writes ignore list {m['ignore']}")
    return f


def D11():
    """C03: root rename whose new name equals a child-relative path"""
    f = []
    with tempdir() as d:
        r = _root(d)
        mk(r, {"old.txt": "root file", "s/a.txt": "child a"})
        run("create", [r + "/s", "-h", "md5"], NOW)
        run("create", [r, "-h", "md5"], NOW)
        os.rename(r + "/old.txt", r + "/a.txt")
        run("create", [r, "-h", "md5", "-dr"], NOW)
        for c in ("verify", "diff"):
            x = run(c, [r], NOW)
            if x.exit != 0:
                f.append(f"{c} on unchanged tree after root rename old.txt->a.txt with child s/a.txt: exit {x.exit}")
    return f


def D12():
    """C17: second rename in a later generation"""
    f = []
    with tempdir() as d:
        r = _root(d)
        mk(r, {"a.txt": "content a", "z.txt": "zzz"})
        run("create", [r, "-h", "md5"], NOW)
        os.rename(r + "/a.txt", r + "/b.txt")
        run("create", [r, "-h", "md5", "-dr"], NOW)
        os.rename(r + "/b.txt", r + "/c.txt")
        x = run("create", [r, "-h", "md5", "-dr"], NOW)
        if x.exit != 0:
            f.append(f"second create -dr (b->c): exit {x.exit}")
        for c, a in (("verify", [r]), ("diff", [r]), ("create", [r, "-h", "md5"])):
            x = run(c, a, NOW)
            if x.exit != 0:
                f.append(f"{c} after a->b, b->c renames: exit {x.exit}")
    return f


def D13():
    """C03: verify without -sf exits 20 when no file is met"""
    f = []
    with tempdir() as d:
        r = _root(d)
        os.makedirs(r + "/d/e")
        run("create", [r, "-h", "md5"], NOW)
        x = run("verify", [r], NOW)
        if x.exit != 0:
            f.append(f"verify on sealed tree of folders only: exit {x.exit}")
    with tempdir() as d:
        r = _root(d)
        mk(r, {"only.txt": "x", "d/": None})
        run("create", [r, "-h", "md5"], NOW)
        os.remove(r + "/only.txt")
        x = run("verify", [r], NOW)
        if x.exit != 10:
            f.append(f"verify after removing the only file: exit {x.exit} (expected 10)")
    return f


def D14():
    """C03: create -dr with a removed directory that was recorded without hashes (-n generation)"""
    f = []
    with tempdir() as d:
        r = _root(d)
        mk(r, {"a.txt": "aaa", "d/": None})
        run("create", [r, "-h", "md5", "-n"], NOW)
        os.rmdir(r + "/d")
        mk(r, {"b.txt": "bbb"})
        x = run("create", [r, "-h", "md5", "-dr"], NOW)
        if x.exit != 10 or x.exc is not None:
            f.append(f"create -dr after removing a directory recorded by a -n generation: exit {x.exit} exc {x.exc} (expected 10)")
    return f


def D15():
    """C10: unicode line/paragraph separators in names and creator fields"""
    f = []
    with tempdir() as d:
        r = _root(d, "ro\u2028ot")
        mk(r, {"a\u2028b.txt": "x", "s/c\u2029d.txt": "y", "plain.txt": "z"})
        x = run("create", [r, "-h", "md5", "--comment", "line\u2028sep", "--location", "p\u2029q"], NOW)
        m = rt.read_manifest(_last_manifest(r))
        paths = sorted(rec["path"] for rec in m["records"])
        if paths != sorted(["a\u2028b.txt", "s", "s/c\u2029d.txt", "plain.txt"]):
            f.append(f"paths with U+2028/U+2029 are written as {paths!r}")
        if m["creatorinfo"].get("comment") != "line\u2028sep" or m["creatorinfo"].get("location") != "p\u2029q":
            f.append(f"creator fields with U+2028/U+2029 are written as {m['creatorinfo'].get('comment')!r} / {m['creatorinfo'].get('location')!r}")
        x = run("verify", [r], NOW)
        if x.exit != 0:
            f.append(f"verify on the unchanged tree with such names: exit {x.exit}")
        ch = rt.read_chain(os.path.join(r, "ascmhl", "ascmhl_chain.xml"))
        if ch[0]["path"] != os.path.basename(_last_manifest(r)):
            f.append(f"chain entry path {ch[0]['path']!r} differs from the manifest name {os.path.basename(_last_manifest(r))!r}")
        x = run("info", [r], NOW)
        if x.exit != 0:
            f.append(f"info afterwards: exit {x.exit} {x.exc}")
    return f


def D16():
    """C03/C12: a recorded file below a folder that is ignored later, re-included by a negated pattern"""
    f = []
    with tempdir() as d:
        r = _root(d)
        mk(r, {"s/a.txt": "a", "s/b.bin": "b", "top.txt": "t"})
        run("create", [r, "-h", "md5"], NOW)
        for cmd, args in (("verify", []), ("diff", []), ("create", ["-h", "md5"])):
            for pats in (["s", "!a.txt"], ["*", "!*.txt"]):
                a = [r] + args
                for p in pats:
                    a += ["-i", p]
                x = run(cmd, a, NOW)
                if cmd != "create" and (x.exit != 0 or "missing" in x.out):
                    f.append(f"{cmd} -i {' -i '.join(pats)} on the unchanged tree: exit {x.exit}, output {x.out[-120:]!r}")
                if cmd == "create":
                    # judged on a fresh copy per pattern set (create stores the patterns)
                    if x.exit != 0:
                        f.append(f"create -i {' -i '.join(pats)} on the unchanged tree: exit {x.exit}, output {x.out[-120:]!r}")
                    break
    return f


def D17():
    """C15/C05: a create interrupted between the manifest's and the chain's replace leaves an unlisted manifest"""
    import ascmhl.chain_xml_parser as CP

    f = []
    with tempdir() as d:
        r = _root(d)
        mk(r, {"a.txt": "a", "s/b.txt": "b"})
        run("create", [r, "-h", "md5"], NOW)
        orig = CP.write_chain

        def boom(*a, **k):
            raise KeyboardInterrupt()

        CP.write_chain = boom
        try:
            try:
                run("create", [r, "-h", "md5"], "2026-03-01 12:00:07")
            except BaseException:
                pass
        finally:
            CP.write_chain = orig
        asc = os.path.join(r, "ascmhl")
        left = sorted(x for x in os.listdir(asc) if x.startswith("0002_") and x.endswith(".mhl"))
        if not left:
            return f  # the writer no longer leaves the manifest behind: nothing to judge
        x = run("info", [r], NOW)
        if "Generation 2" in x.out:
            f.append("info lists the interrupted generation 2 although the chain file does not list it")
        # the leftover is not protected by any chain entry: it must not be part of the history
        fp = os.path.join(asc, left[0])
        b = open(fp, "rb").read()
        open(fp, "wb").write(b.replace(b"a.txt", b"b.txt", 1))
        x = run("verify", [r], NOW)
        if x.exit != 0:
            f.append(f"verify after editing the unlisted leftover manifest: exit {x.exit}")
        x = run("create", [r, "-h", "md5"], "2026-03-01 12:00:09")
        ch = rt.read_chain(os.path.join(asc, "ascmhl_chain.xml"))
        seqs = [int(e["seq"]) for e in ch] if ch and "seq" in ch[0] else None
        if x.exit != 0 or (seqs is not None and seqs != list(range(1, len(seqs) + 1))):
            f.append(f"the next create exits {x.exit} and leaves the chain sequence numbers {seqs}")
    return f


def D18():
    """C19: info -sf FILE ROOT for a file of a nested history printed nothing (only the root history was searched)"""
    f = []
    with tempdir() as d:
        r = _root(d)
        mk(r, {"clip.mov": "root clip", "A/clip.mov": "nested clip", "A/only.mov": "only"})
        run("create", [os.path.join(r, "A"), "-h", "md5"], NOW)
        run("create", [r, "-h", "sha1"], "2026-03-01 12:00:07")
        x = run("info", [r, "-sf", os.path.join(r, "A", "only.mov")], NOW)
        lines = [l for l in x.out.splitlines() if "Generation" in l]
        # recorded in the nested history A: generation 1 md5 original, generation 2 md5 + sha1 verified
        if x.exit != 0 or len(lines) != 3 or "original" not in lines[0]:
            f.append(f"info -sf A/only.mov ROOT prints {len(lines)} digest lines (exit {x.exit}); its nearest enclosing history A records 3")
        x = run("info", [r, "-sf", os.path.join(r, "A", "clip.mov")], NOW)
        if rt.digest("sha1", b"root clip") in x.out or rt.digest("md5", b"nested clip") not in x.out:
            f.append("info -sf A/clip.mov ROOT does not print the digests recorded for that file in history A")
    return f


def D19():
    """C13: create -dr visited the vanished paths in the iteration order of a set of ABSOLUTE paths: with two vanished
    files of equal content the recorded previous path depended on where the tree is mounted"""
    f = []
    seen = {}
    with tempdir() as d:
        for loc in ("L1", "other/place", "x", "yy/zz", "q1", "q2", "media/cache", "a b/c"):
            r = os.path.join(d, loc, "root")
            os.makedirs(r)
            mk(r, {"a.txt": "same", "b.txt": "same", "k.txt": "k"}, mtime=1700000000)
            run("create", [r, "-h", "md5"], NOW)
            os.remove(os.path.join(r, "a.txt"))
            os.rename(os.path.join(r, "b.txt"), os.path.join(r, "c.txt"))
            run("create", [r, "-h", "md5", "-dr"], "2026-03-01 12:00:07")
            ms = sorted(x for x in os.listdir(os.path.join(r, "ascmhl")) if x.startswith("0002_"))
            b = open(os.path.join(r, "ascmhl", ms[0]), "rb").read() if ms else b""
            seen.setdefault(b, []).append(loc)
    if len(seen) != 1:
        f.append(f"the same tree and history sealed with -dr at different locations gives {len(seen)} different second manifests: {sorted(seen.values())}")
    return f


def _safe(fn):
    def g():
        try:
            return fn()
        except BaseException as e:  # the witness itself was stopped: that is a finding about the code under test
            return [f"the witness could not complete: {type(e).__name__}: {str(e)[:200]}"]

    g.__name__ = fn.__name__
    g.__doc__ = fn.__doc__
    return g


ALL = {
    k: _safe(v)
    for k, v in list(globals().items())
    if re.fullmatch(r"D\d+[a-c]?", k) and callable(v)
}

if __name__ == "__main__":
    import sys

    names = sys.argv[1:] or sorted(ALL)
    for n in names:
        try:
            res = ALL[n]()
        except Exception as e:  # noqa
            import traceback

            traceback.print_exc()
            res = [f"witness crashed: {e!r}"]
        print(n, "HOLDS" if not res else "FAILS", *res, sep="\n   " if res else " ")
