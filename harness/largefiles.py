"""Multi-chunk files through the whole command line: the scenario generators use small contents (the model is
parametric in the digest function), so files that span several read chunks are exercised here, by monitors only:
sizes around the read chunk taken from the current source, every hashing path a command can take (create = read-once
loop, verify = single-format loop, later create with other formats, verify -dh, flatten + verify -pl, -dr fallback)."""
import os, glob, random
from . import rt

MiB = 1024 * 1024


def _sizes(chunk):
    return {"exact.bin": chunk, "plus.bin": chunk + 4321, "s/two_and_half.bin": 2 * chunk + chunk // 2 + 13,
            "s/minus.bin": chunk - 1, "small.txt": 11, "empty.bin": 0}


def _latest(root):
    ms = sorted(glob.glob(os.path.join(root, "ascmhl", "[0-9]*.mhl")))
    return ms[-1] if ms else None


def _check_manifest(root, tree, fmts, what, fails, prop):
    m = _latest(root)
    if not m:
        fails.append({"what": f"{what}: no manifest written", "replay": {"case": "largefiles", "step": what}})
        return
    man = rt.read_manifest(m)
    seen = set()
    for rec in man["records"]:
        if rec["kind"] != "file":
            continue
        seen.add(rec["path"])
        data = tree.get(rec["path"])
        if data is None:
            continue
        if str(rec.get("size")) != str(len(data)):
            fails.append({"what": f"{what}: {rec['path']} recorded with size {rec.get('size')}, the file has {len(data)} bytes", "replay": {"case": "largefiles", "step": what, "path": rec["path"]}})
        got = {e["fmt"]: e for e in rec["entries"]}
        for f in fmts:
            if f not in got:
                fails.append({"what": f"{what}: {rec['path']} ({len(data)} bytes) has no {f} digest in the new generation", "replay": {"case": "largefiles", "step": what, "path": rec["path"], "fmt": f}})
            elif got[f]["digest"] != rt.digest(f, data):
                fails.append({"what": f"{what}: {rec['path']} ({len(data)} bytes) recorded with {f} {got[f]['digest']}, the digest of its content is {rt.digest(f, data)}", "replay": {"case": "largefiles", "step": what, "path": rec["path"], "size": len(data), "fmt": f}})
            elif got[f].get("action") == "failed":
                fails.append({"what": f"{what}: unaltered {rec['path']} ({len(data)} bytes) marked failed for {f}", "replay": {"case": "largefiles", "step": what, "path": rec["path"], "fmt": f}})
    if prop == "C02" and seen != set(tree):
        fails.append({"what": f"{what}: file records {sorted(seen)} but files on disk {sorted(tree)}", "replay": {"case": "largefiles", "step": what}})


def run_case(seed, chunk=MiB, prop="C02", thorough=False):
    """returns (fails, evaluations).  prop selects which part is judged: C02 records, C03 verification verdicts,
    C04 first-value judgement across format changes"""
    rnd = random.Random(seed * 31 + 5)
    fails, n = [], 0
    tree = {p: rnd.randbytes(s) for p, s in _sizes(chunk).items()}
    seqs = [(["md5", "xxh64"], ["sha1"], ["c4", "md5"])]
    if thorough:
        seqs += [(["xxh128"], ["xxh3", "xxh128"], ["xxh64"]), (["c4"], ["c4"], ["sha1", "xxh3"])]
    for f1, f2, f3 in seqs:
        with rt.tempdir("big_") as d:
            root = os.path.join(d, "root")
            os.makedirs(root)
            rt.mk(root, tree)

            def h(fs):
                a = []
                for f in fs:
                    a += ["-h", f]
                return a

            x = rt.run("create", [root] + h(f1), "2026-03-01 12:00:00"); n += 1
            if x.exit != 0:
                fails.append({"what": f"create -h {f1} on a fresh tree with multi-chunk files exits {x.exit} ({x.exc})", "replay": {"case": "largefiles", "fmts": f1}})
            if prop in ("C02", "C04"):
                _check_manifest(root, tree, f1, f"create -h {f1}", fails, prop)
            for cmd, args in (("verify", [root]), ("diff", [root]), ("verify", [root, "-dh"])):
                x = rt.run(cmd, args, "2026-03-01 12:00:01"); n += 1
                if x.exit != 0 and prop in ("C03", "C04") and cmd != "diff" and "-dh" not in args:
                    fails.append({"what": f"{cmd} on the untouched tree (files of {sorted(len(v) for v in tree.values())} bytes, sealed with {f1}) exits {x.exit}: {rt.classify_output(x.out)['mismatch']}", "replay": {"case": "largefiles", "fmts": f1, "cmd": cmd}})
                if x.exit != 0 and prop == "C09" and "-dh" in args:
                    fails.append({"what": f"verify -dh on the untouched tree with multi-chunk files exits {x.exit}", "replay": {"case": "largefiles", "fmts": f1}})
            x = rt.run("create", [root] + h(f2), "2026-03-01 12:00:02"); n += 1
            if x.exit != 0 and prop in ("C03", "C04"):
                fails.append({"what": f"second create -h {f2} on the untouched tree exits {x.exit}: {rt.classify_output(x.out)['mismatch']}", "replay": {"case": "largefiles", "fmts": [f1, f2]}})
            if prop in ("C02", "C04"):
                _check_manifest(root, tree, f2, f"second create -h {f2}", fails, prop)
            # flatten + verify -pl
            if prop in ("C18", "C03"):
                dest = os.path.join(d, "dest")
                os.makedirs(dest)
                x = rt.run("flatten", [root, dest], "2026-03-01 12:00:03"); n += 1
                pls = glob.glob(os.path.join(dest, "*.mhl"))
                if x.exit == 0 and pls:
                    x = rt.run("verify", ["-pl", pls[0], root], "2026-03-01 12:00:04"); n += 1
                    if x.exit != 0:
                        fails.append({"what": f"verify -pl of the untouched tree with multi-chunk files exits {x.exit}", "replay": {"case": "largefiles", "fmts": [f1, f2], "cmd": "verify -pl"}})
            # alter the LAST byte of a multi-chunk file (size and every full chunk stay the same)
            victim = "plus.bin"
            b = bytearray(tree[victim])
            b[-1] ^= 0x01
            with open(os.path.join(root, victim), "wb") as f:
                f.write(bytes(b))
            x = rt.run("verify", [root], "2026-03-01 12:00:05"); n += 1
            mm = rt.classify_output(x.out)["mismatch"]
            if prop in ("C03", "C04") and (x.exit != 11 or sorted(set(mm)) != [victim]):
                fails.append({"what": f"verify after flipping the last bit of {victim} ({len(b)} bytes): exit {x.exit}, mismatches {sorted(set(mm))}; expected 11 and exactly that file", "replay": {"case": "largefiles", "fmts": [f1, f2], "altered": victim}})
            if prop == "C09":
                x = rt.run("verify", [root, "-dh"], "2026-03-01 12:00:05"); n += 1
                if x.exit != 12:
                    fails.append({"what": f"verify -dh after flipping the last bit of {victim} ({len(b)} bytes) exits {x.exit}, expected 12", "replay": {"case": "largefiles", "altered": victim}})
            x = rt.run("create", [root] + h(f3), "2026-03-01 12:00:06"); n += 1
            mm = rt.classify_output(x.out)["mismatch"]
            if prop in ("C03", "C04") and (x.exit != 11 or sorted(set(mm)) != [victim]):
                fails.append({"what": f"create -h {f3} after flipping the last bit of {victim}: exit {x.exit}, mismatches {sorted(set(mm))}; expected 11 and exactly that file", "replay": {"case": "largefiles", "fmts": [f1, f2, f3], "altered": victim}})
    return fails, n


def extra(ctx):
    """the case for the property of ctx, with the read chunk size of the current source"""
    from . import framework as fw
    chunk = MiB
    try:
        for l in open(os.path.join(fw.LEAN, "MhlModel", "Gen", "Consts.lean")):
            if l.startswith("def chunkSingle") or l.startswith("def chunkAggregate"):
                chunk = max(chunk if chunk != MiB else 0, int(l.split(":=")[1])) or MiB
    except Exception:
        pass
    try:
        fails, n = run_case(ctx.seed, chunk, ctx.prop, ctx.thorough)
    except Exception as e:
        fails, n = [{"what": f"multi-chunk file case crashed: {e!r}", "replay": {"case": "largefiles"}}], 0
    return fails
