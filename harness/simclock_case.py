"""Runs one `create` in THIS interpreter under a simulated process clock that advances in big steps, so that a single run
crosses a daylight-saving switch of the zone in TZ (the real libc zone rules apply: datetime.fromtimestamp).  Every date
the run writes (hashdate, creationdate) has to denote one of the instants the clock actually showed during the run.
argv: repo root-dir start-epoch step-seconds.  Prints one JSON line."""
import sys, os, json, glob, time, datetime as _dt

repo, root, start, step = sys.argv[1], sys.argv[2], float(sys.argv[3]), float(sys.argv[4])
time.tzset()
_real = _dt.datetime
SIM = {"t": start, "shown": []}


def _tick():
    SIM["t"] += step
    SIM["shown"].append(SIM["t"])
    return SIM["t"]


class SimDT(_real):
    @classmethod
    def now(cls, tz=None):
        return _real.fromtimestamp(_tick(), tz)

    @classmethod
    def utcnow(cls):
        return _real.fromtimestamp(_tick(), _dt.timezone.utc).replace(tzinfo=None)

    @classmethod
    def today(cls):
        return cls.now()


_dt.datetime = SimDT
# every reading of any clock advances the simulated time (a run that takes long)
time.time = lambda: _tick()
time.monotonic = lambda: _tick() - start
time.perf_counter = time.monotonic
sys.path.insert(0, repo)
from click.testing import CliRunner
import ascmhl.commands as C

r = CliRunner().invoke(C.create, [root, "-h", "md5", "-h", "sha1"])
exc = None if r.exception is None or isinstance(r.exception, SystemExit) else type(r.exception).__name__
import xml.etree.ElementTree as ET

dates = []
for m in sorted(glob.glob(os.path.join(root, "ascmhl", "*.mhl"))):
    for el in ET.parse(m).getroot().iter():
        if "hashdate" in el.attrib:
            dates.append(el.attrib["hashdate"])
        if el.tag.endswith("creationdate") and el.text:
            dates.append(el.text)
names = sorted(os.path.basename(m) for m in glob.glob(os.path.join(root, "ascmhl", "*.mhl")))
print(json.dumps({"exit": r.exit_code, "exc": exc, "dates": dates, "shown": SIM["shown"], "names": names}))
