"""The civil-date rendering (MhlModel/Civil.lean) tied to the code: the model's stamp of an epoch second against
time.strftime over gmtime (generated instants, every day boundary around New Year and the end of February), and
against the name the REAL create gives a manifest under a frozen clock; the model's ISO text against the tool's
datetime_isostring for local fields and offsets."""
import os, random, time, calendar, glob, datetime
from . import rt
from .model import Driver


def instants(rng, n):
    out = [0, 1, 86399, 86400, -1, -86400, 951782400, 1735516800, 1798761600, 4102444800, 253402300799, -2208988800]
    for y in range(1999, 2032):
        t = calendar.timegm((y, 1, 1, 0, 0, 0))
        out += [t - 86401, t - 86400, t - 1, t, t + 1, t + 86399, t + 86400, t + 2 * 86400, t + 3 * 86400]
    for y in list(range(1896, 1912)) + list(range(1996, 2012)) + list(range(2096, 2105)):
        for (m, d) in ((2, 28), (2, 29) if calendar.isleap(y) else (3, 1), (3, 1)):
            t = calendar.timegm((y, m, d, 0, 0, 0))
            out += [t - 1, t, t + 86399]
    out += [rng.randint(-60_000_000_000, 250_000_000_000) for _ in range(n)]
    return out


def py_stamp(t):
    d = datetime.datetime(1970, 1, 1) + datetime.timedelta(seconds=t)
    return "%04d-%02d-%02d_%02d%02d%02d" % (d.year, d.month, d.day, d.hour, d.minute, d.second)


def library(seed, n):
    rng = random.Random(seed * 6151 + 5)
    drv = Driver()
    diffs, cases = [], 0
    try:
        for t in instants(rng, n):
            if not (-62_135_596_800 <= t <= 253_402_300_799):
                continue
            cases += 1
            r = drv.send({"op": "stamp", "t": t}).get("r")
            if r != py_stamp(t):
                diffs.append({"what": f"stamp of epoch second {t}: model {r!r}, datetime arithmetic {py_stamp(t)!r}", "replay": {"op": "stamp", "t": t}})
            if cases % 7 == 0:
                loc, off = t, rng.choice([0, 3600, -12600, 20700, 50400, -39600])
                r = drv.send({"op": "iso", "local": loc, "off": off}).get("r")
                sign = "+" if off >= 0 else "-"
                exp = py_stamp(loc).replace("_", "T")
                exp = exp[:13] + ":" + exp[13:15] + ":" + exp[15:] + "%s%02d:%02d" % (sign, abs(off) // 3600, abs(off) % 3600 // 60)
                if r != exp:
                    diffs.append({"what": f"iso text of local second {loc} with offset {off}: model {r!r}, expected {exp!r}", "replay": {"op": "iso", "local": loc, "off": off}})
    finally:
        drv.close()
    return diffs[:5], cases


def command_line(seed, n):
    """the name the real create gives its manifest under a frozen clock = NNNN_<folder>_<model stamp>Z.mhl"""
    rng = random.Random(seed * 7 + 1)
    drv = Driver()
    fails, diffs, cases = [], [], 0
    picks = [calendar.timegm((2024, 12, 30, 8, 0, 0)), calendar.timegm((2027, 1, 2, 23, 59, 59)), calendar.timegm((2021, 1, 1, 0, 0, 0)), calendar.timegm((2000, 2, 29, 12, 0, 0)), calendar.timegm((2038, 1, 19, 3, 14, 8))]
    picks += [rng.randint(946684800, 4102444799) for _ in range(n)]
    try:
        for t in picks:
            with rt.tempdir("civil_") as d:
                root = os.path.join(d, "reel")
                rt.mk(root, {"a.txt": "a"})
                now = time.strftime("%Y-%m-%d %H:%M:%S", time.gmtime(t))
                x = rt.run("create", [root, "-h", "md5"], now)
                cases += 1
                names = [os.path.basename(p) for p in glob.glob(os.path.join(root, "ascmhl", "*.mhl"))]
                st = drv.send({"op": "stamp", "t": t}).get("r")
                want = f"0001_reel_{st}Z.mhl"
                if x.exit != 0 or len(names) != 1:
                    fails.append({"what": f"create at epoch second {t} ({now} UTC): exit {x.exit}, manifests {names}", "replay": {"t": t}})
                elif names[0] != want:
                    (fails if names[0] != "0001_reel_" + py_stamp(t) + "Z.mhl" else diffs).append({"what": f"create at epoch second {t} ({now} UTC) names its manifest {names[0]}; the calendar date and time of that instant give {want}", "replay": {"t": t, "now": now}})
    finally:
        drv.close()
    return fails[:5], diffs[:5], cases
