"""Property monitors: the observable statement of a property evaluated on the implementation's outputs only."""
import json, re, os
from . import rt, oracles as O

CREATE_OK = (0, 10, 11)


def _f(what, sc, sig=None):
    return {"what": what, "replay": sc, "signature": sig}


def written_by_hist(io_, at):
    """{history root relative to scenario root: (file name, parsed manifest)} of the manifests a create wrote"""
    out = {}
    before, after = io_["asc_before"], io_["asc_after"]
    for p, b in after.items():
        if p not in before and p.endswith(".mhl"):
            parts = p.split("/")
            i = parts.index("ascmhl")
            out.setdefault("/".join(parts[:i]), []).append((parts[-1], O.parse_manifest_bytes(b), b))
    return out


# ------------------------------------------------------------------------------------------- C02
def m_c02(sc, res):
    fails = []
    for st in res["steps"]:
        op, io_ = st["op"], st["impl"]
        if op["op"] != "create" or io_ is None or io_["exc"] is not None or io_["exit"] not in CREATE_OK:
            continue
        at = op.get("at", "")
        wr = written_by_hist(io_, at)
        # the effective patterns by the rule of C12 (not what the run wrote): the list of the latest earlier generation in
        # its order, then the new ones (-i, then the lines of the -ii file) without duplicates
        hb = O.histories(io_["asc_before"])
        prev = O.parse_manifest_bytes(hb[at]["gens"][-1][2])["ignore"] if at in hb and hb[at]["gens"] else [".DS_Store", "ascmhl", "ascmhl/"]
        patterns = list(prev)
        for x in list(op.get("i", [])) + list(op.get("ii", [])):
            if x not in patterns:
                patterns.append(x)
        media = io_["media_after"]
        vis = O.visible(media, at, patterns)  # relative to at
        roots = O.history_roots(io_["asc_before"]) | {at}
        got = {}  # absolute (scenario-relative) path -> list of (hist, record)
        for h, lst in wr.items():
            if len(lst) != 1:
                fails.append(_f(f"history '{h}' got {len(lst)} new manifests in one run", sc))
            for name, m, _ in lst:
                for r in m["records"]:
                    p = r["path"]
                    where = f"{h}/ascmhl/{name} record {p!r}"
                    if p.startswith("/") or p == ".." or p.startswith("../") or "/../" in p or p.endswith("/..") or "\\" in p and False:
                        fails.append(_f(f"{where}: path is absolute or escapes the history root", sc))
                        continue
                    got.setdefault(O.join(h, p), []).append((h, r, name))
        sf = op.get("sf")
        if not sf:
            expected = {O.join(at, p): v for p, v in vis.items()}
        else:
            expected = {}
            for s in sf:
                full = O.join(at, s)
                if media.get(full or ".", (None,))[0] is None:  # a folder
                    # (the walk starts AT the named folder: patterns that exclude that folder or one above it are not asked)
                    for p, v in O.visible_below(media, at, patterns, s.rstrip("/")).items():
                        if v is not None:
                            expected[O.join(at, p)] = v
                else:
                    expected[full] = media[full][0]
        if at not in wr and (expected or not sf):
            fails.append(_f(f"create at '{at}'{' -sf '+str(sf) if sf else ''} wrote no generation for its own history (exit {io_['exit']}) although {len(expected)} entries were to be recorded", sc))
            continue
        for p, v in expected.items():
            recs = got.get(p, [])
            if len(recs) != 1:
                fails.append(_f(f"create at '{at}'{' -sf '+str(sf) if sf else ''}: {p!r} ({'dir' if v is None else 'file'}) has {len(recs)} records in the new generation(s), expected exactly 1", sc))
                continue
            h, r, name = recs[0]
            exp_owner = O.owner(p, roots, at)
            if h != exp_owner:
                fails.append(_f(f"{p!r} recorded in history '{h}', the deepest history containing it is '{exp_owner}'", sc))
            if (r["kind"] == "dir") != (v is None):
                fails.append(_f(f"{p!r} recorded as {r['kind']} but is a {'directory' if v is None else 'file'}", sc))
            if v is not None:
                fmts = sorted(set(op.get("h") or ["xxh128"]))
                ents = {e["fmt"]: e for e in r["entries"]}
                if len(ents) != len(r["entries"]):
                    fails.append(_f(f"{p!r}: repeated format elements in one record", sc))
                for f, e in ents.items():
                    if e["digest"] != rt.digest(f, v):
                        fails.append(_f(f"{h}/ascmhl/{name}: {f} digest of {p!r} is {e['digest']}, the file's {f} digest is {rt.digest(f, v)}", sc))
                if not any(e["action"] == "failed" for e in r["entries"]):
                    for f in fmts:
                        if f not in ents:
                            fails.append(_f(f"{h}/ascmhl/{name}: {p!r} (not failed) has no digest in requested format {f}", sc))
                if r.get("size") != str(len(v)):
                    fails.append(_f(f"{h}/ascmhl/{name}: size of {p!r} is {r.get('size')!r}, file has {len(v)} bytes", sc))
        for p, recs in got.items():
            if p not in expected:
                fails.append(_f(f"create at '{at}'{' -sf '+str(sf) if sf else ''}: record for {p!r} which is not {'a named file' if sf else 'a non-ignored entry of the tree'} (patterns {patterns})", sc))
    return fails


# ------------------------------------------------------------------------------------------- C06
_NAME = re.compile(r"^(\d{4,})_(.+)_(\d{4}-\d{2}-\d{2}_\d{6}Z)\.mhl$", re.S)


def m_c06(sc, res):
    fails = []
    for st in res["steps"]:
        op, io_ = st["op"], st["impl"]
        if io_ is None:
            continue
        before, after = io_["asc_before"], io_["asc_after"]
        if op["op"] == "create" and io_["exc"] is None:
            for p, b in before.items():
                if p.endswith("ascmhl_chain.xml"):
                    continue
                if after.get(p) != b:
                    fails.append(_f(f"create changed or removed existing file {p}", sc))
            hb, ha = O.histories(before), O.histories(after)
            for h, a in ha.items():
                old = hb.get(h, {"gens": [], "chain": None})
                newg = [g for g in a["gens"] if g[1] not in {x[1] for x in old["gens"]}]
                if len(newg) > 1:
                    fails.append(_f(f"history '{h}': {len(newg)} new manifests in one run", sc))
                if not newg:
                    if a["chain"] != old["chain"]:
                        fails.append(_f(f"history '{h}': chain rewritten although no manifest was added", sc))
                    continue
                num, name, b = newg[0]
                mx = max([g[0] for g in old["gens"]] + [0])
                if num != mx + 1:
                    fails.append(_f(f"history '{h}': new manifest {name} numbered {num}, highest existing generation is {mx}", sc))
                folder = (h.rsplit("/", 1)[-1]) if h else sc.get("root", "root")
                m = _NAME.match(name)
                stamp = None
                try:
                    import datetime

                    stamp = datetime.datetime.strptime(op.get("now", "2026-03-01 12:00:00"), "%Y-%m-%d %H:%M:%S").strftime("%Y-%m-%d_%H%M%SZ")
                except Exception:
                    pass
                if not m or m.group(2) != folder or len(m.group(1)) != 4 and num < 10000 or (stamp and m.group(3) != stamp):
                    fails.append(_f(f"history '{h}': new manifest is named {name!r}, expected {num:04d}_{folder}_{stamp}.mhl", sc))
                try:
                    oc = O.parse_chain_bytes(old["chain"]) if old["chain"] else []
                    nc = O.parse_chain_bytes(a["chain"]) if a["chain"] else None
                except Exception as e:
                    fails.append(_f(f"history '{h}': chain does not parse: {e}", sc))
                    continue
                if nc is None:
                    fails.append(_f(f"history '{h}': no chain file after create", sc))
                    continue
                if nc[: len(oc)] != oc:
                    fails.append(_f(f"history '{h}': earlier chain entries changed: {oc} -> {nc[:len(oc)]}", sc))
                if len(nc) != len(oc) + 1:
                    fails.append(_f(f"history '{h}': chain has {len(nc)} entries, expected {len(oc) + 1}", sc))
                else:
                    e = nc[-1]
                    if e.get("seq") != str(num) or e.get("path") != name or e.get("fmt") != "c4" or e.get("digest") != rt.c4_of_bytes(b):
                        fails.append(_f(f"history '{h}': new chain entry {e} does not match the new file ({num}, {name}, {rt.c4_of_bytes(b)[:16]}…)", sc))
        elif op["op"] in ("verify", "verifydh", "diff", "info", "infosf", "flatten"):
            if before != after:
                fails.append(_f(f"{op['op']} changed the ascmhl folders", sc))
        # reload: generations 1..n
        for h, a in O.histories(after).items():
            nums = [g[0] for g in a["gens"]]
            if nums != list(range(1, len(nums) + 1)):
                tampered = any(o["op"] in ("tamper", "rmhist", "rmchain") for o in sc["ops"])
                if not tampered:
                    fails.append(_f(f"history '{h}': generation numbers on disk are {nums}", sc))
    return fails


# ------------------------------------------------------------------------------------------- C07
def m_c07(sc, res):
    fails = []
    for st in res["steps"]:
        op, io_ = st["op"], st["impl"]
        if io_ is None or io_["exc"] is not None:
            continue
        if op["op"] == "create" and not op.get("sf") and not op.get("n") and io_["exit"] in CREATE_OK:
            at = op.get("at", "")
            wr = written_by_hist(io_, at)
            if at not in wr:
                continue
            # the effective patterns by the rule of C12 (not what the run wrote): the list of the latest earlier
            # generation in its order, then the new ones without duplicates; order matters for negations
            hs0 = O.histories(io_["asc_before"])
            prev = O.parse_manifest_bytes(hs0[at]["gens"][-1][2])["ignore"] if at in hs0 and hs0[at]["gens"] else [".DS_Store", "ascmhl", "ascmhl/"]
            patterns = list(prev)
            for x in list(op.get("i", [])) + list(op.get("ii", [])):
                if x not in patterns:
                    patterns.append(x)
            vis = O.visible(io_["media_after"], at, patterns)
            fmts = sorted(set(op.get("h") or ["xxh128"]))
            ref = {f: O.ref_dirhashes(vis, f) for f in fmts}
            for h, lst in wr.items():
                for name, m, _ in lst:
                    items = [(r["path"], r["entries"]) for r in m["records"] if r["kind"] == "dir"]
                    if m["roothash"] is not None:
                        items.append((".", m["roothash"]))
                    elif fmts:
                        fails.append(_f(f"{h}/ascmhl/{name}: no root hash although directory hashes were requested", sc))
                    for p, ents in items:
                        full = O.join(h, p) if p != "." else h
                        relp = O.rel(full, at) if full != at else "."
                        got = {e["fmt"]: (e["digest"], e["structure"]) for e in ents}
                        for f in fmts:
                            exp = ref[f].get(relp)
                            if exp is None:
                                continue
                            if got.get(f) != exp:
                                fails.append(_f(f"{h}/ascmhl/{name}: directory {relp!r} {f} content/structure {got.get(f)} but the compositional definition over the non-ignored entries gives {exp}", sc))
        if op["op"] == "verifydh" and op.get("co") and io_["exit"] in (0, 12):
            at = op.get("at", "")
            # the formats and hashes printed by -co
            out = rt._ANSI.sub("", io_["out"])
            printed = re.findall(r"calculated (?:root hash|directory hash for (.*?))\s+(md5|sha1|xxh128|xxh3|xxh64|c4): (\S+) \(content\), (\S+) \(structure\)", out)
            hs = O.histories(io_["asc_before"])
            if at in hs and hs[at]["gens"]:
                patterns = O.parse_manifest_bytes(hs[at]["gens"][-1][2])["ignore"] + list(op.get("i", []))
                vis = O.visible(io_["media_after"], at, patterns)
                cache = {}
                for d, f, c, s in printed:
                    if f not in cache:
                        cache[f] = O.ref_dirhashes(vis, f)
                    relp = d if d else "."
                    exp = cache[f].get(relp)
                    if exp is not None and (c, s) != exp:
                        fails.append(_f(f"verify -dh -co prints {f} hashes {(c, s)} for {relp!r}, the compositional definition gives {exp}", sc))
    return fails


# ------------------------------------------------------------------------------------------- C08
def m_c08(sc, res):
    fails = []
    for st in res["steps"]:
        op, io_ = st["op"], st["impl"]
        if op["op"] != "create" or io_ is None or io_["exc"] is not None or io_["exit"] not in CREATE_OK:
            continue
        at = op.get("at", "")
        wr = written_by_hist(io_, at)
        roots = sorted(r for r in (O.history_roots(io_["asc_before"]) | {at}) if O.within(r, at))
        if at not in wr:
            # a run that names existing files with -sf and succeeds has sealed them: the history at the command root gets a
            # generation (at least one that carries the references down to the owner of the files)
            named = [O.join(at, s) for s in (op.get("sf") or [])]
            if named and io_["exit"] == 0 and all(io_["media_after"].get(n or ".", (None,))[0] is not None for n in named):
                fails.append(_f(f"create at '{at}' -sf {op['sf']} exits 0 and writes no generation at all (new manifests: {sorted(wr)}), the named files exist", sc))
            continue
        patterns = wr[at][0][1]["ignore"]
        vis = O.visible(io_["media_after"], at, patterns)
        visible_roots = [r for r in roots if r == at or O.rel(r, at) in vis]
        sf = op.get("sf")
        if not sf:
            expect_written = set(visible_roots)
        else:
            expect_written = set()
            targets = []
            for s in sf:
                full = O.join(at, s)
                if io_["media_after"].get(full or ".", (None,))[0] is None:
                    pre = (s + "/") if s else ""
                    targets += [O.join(at, p) for p, v in vis.items() if v is not None and p.startswith(pre)]
                else:
                    targets.append(full)
            for t in targets:
                o = O.owner(t, set(roots), at)
                # the owner and every history above it up to `at`
                while True:
                    expect_written.add(o)
                    if o == at:
                        break
                    o = O.owner(o, set(roots), at)
        if set(wr) != expect_written:
            fails.append(_f(f"create at '{at}'{' -sf '+str(sf) if sf else ''}: new generations written in {sorted(wr)}, expected exactly {sorted(expect_written)}", sc))
        for h, lst in wr.items():
            name, m, b = lst[0]
            # direct children that wrote
            kids = [k for k in wr if k != h and O.owner(k, set(roots), at) == h]
            exp_refs = {O.join(O.rel(k, h) if h else k, "ascmhl/" + wr[k][0][0]): rt.c4_of_bytes(wr[k][0][2]) for k in kids}
            got_refs = {r["path"]: r["c4"] for r in m["references"]}
            if got_refs != exp_refs:
                fails.append(_f(f"{h}/ascmhl/{name}: references {sorted(got_refs.items())} expected {sorted(exp_refs.items())} (direct children that wrote: {kids})", sc))
            if len(m["references"]) != len(got_refs):
                fails.append(_f(f"{h}/ascmhl/{name}: duplicate references", sc))
            # a previous path is a history-relative path that was recorded before: by this history (a rename inside
            # it - the case C17 speaks about) or, when an entry moved over from another history of the tree, by that one.
            # A path that NO history ever recorded under that spelling (e.g. one relative to the wrong root) is none.
            prevs = [(r["path"], r["prev"]) for r in m["records"] if r.get("prev")]
            if prevs:
                earlier, own = set(), set()
                for h2, hd in O.histories(io_["asc_before"]).items():
                    for g in hd["gens"]:
                        try:
                            ps = {r["path"] for r in O.parse_manifest_bytes(g[2])["records"]}
                        except Exception:
                            ps = set()
                        earlier |= ps
                        if h2 == h:
                            own |= ps
                for pth, pv in prevs:
                    if pv not in earlier:
                        fails.append(_f(f"{h}/ascmhl/{name}: {pth!r} carries previous path {pv!r}, which no earlier generation of this or any other history of the tree recorded (paths are relative to the root of the history that records them; recorded in this one: {sorted(own)[:8]})", sc))
            # nested root appears in the parent as a directory entry equal to the child's root hash
            if not sf:
                for k in kids:
                    relk = O.rel(k, h) if h else k
                    recs = [r for r in m["records"] if r["path"] == relk]
                    if len(recs) != 1 or recs[0]["kind"] != "dir":
                        fails.append(_f(f"{h}/ascmhl/{name}: nested history root {relk!r} has {len(recs)} directory records in its parent", sc))
                        continue
                    child_rh = wr[k][0][1]["roothash"] or []
                    a = [(e["fmt"], e["digest"], e["structure"]) for e in recs[0]["entries"]]
                    c = [(e["fmt"], e["digest"], e["structure"]) for e in child_rh]
                    if a != c:
                        fails.append(_f(f"{h}/ascmhl/{name}: entry for nested root {relk!r} {a} differs from the child's own root hash {c}", sc))
    return fails


# ------------------------------------------------------------------------------------------- C12 (pattern lists)
def m_c12_lists(sc, res):
    fails = []
    for st in res["steps"]:
        op, io_ = st["op"], st["impl"]
        if op["op"] != "create" or io_ is None or io_["exc"] is not None or io_["exit"] not in CREATE_OK:
            continue
        at = op.get("at", "")
        wr = written_by_hist(io_, at)
        hb = O.histories(io_["asc_before"])
        new = list(op.get("i", [])) + list(op.get("ii", []))
        root_prev = None
        if at in hb and hb[at]["gens"]:
            root_prev = O.parse_manifest_bytes(hb[at]["gens"][-1][2])["ignore"]
        session = list(root_prev) if root_prev else [".DS_Store", "ascmhl", "ascmhl/"]
        for p in new:
            if p not in session:
                session.append(p)
        for h, lst in wr.items():
            name, m, _ = lst[0]
            prev = None
            if h in hb and hb[h]["gens"]:
                prev = O.parse_manifest_bytes(hb[h]["gens"][-1][2])["ignore"]
            base = list(prev) if prev else [".DS_Store", "ascmhl", "ascmhl/"]
            exp = list(base)
            for p in session:
                if p not in exp:
                    exp.append(p)
            got = m["ignore"]
            if got != exp:
                fails.append(_f(f"{h}/ascmhl/{name}: ignore list {got}; expected previous list {base} followed by the new patterns without duplicates: {exp}", sc))
            if len(set(got)) != len(got):
                fails.append(_f(f"{h}/ascmhl/{name}: duplicate patterns {got}", sc))
            for d in (".DS_Store", "ascmhl", "ascmhl/"):
                if d not in got:
                    fails.append(_f(f"{h}/ascmhl/{name}: default pattern {d} missing from {got}", sc))
    return fails
