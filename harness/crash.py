"""Crash-point enumeration for `create` (C15) and write-trace recording (C14).

record_trace(fn) runs fn() (which calls the real code in-process) while recording every file-system
mutation it performs through builtins.open (writing modes), os.mkdir/makedirs, os.replace/rename, os.remove,
os.rmdir, os.utime, os.chmod, os.truncate, shutil.*.  The trace is a list of ops:

  ["mkdir", path] ["open", path, mode] ["write", path, hexdata] ["close", path]
  ["replace", src, dst] ["remove", path] ["other", name, args]

A crash state is the pre-state with a prefix of the trace applied, the last write whole, absent or torn.
"""
import builtins, os, io, shutil, sys, glob, json
import xml.etree.ElementTree as ET
from . import rt


class _W:
    def __init__(self, f, path, trace):
        self._f, self._p, self._t = f, path, trace

    def write(self, b):
        if isinstance(b, str):
            b = b.encode(getattr(self._f, "encoding", None) or "utf-8")
        self._t.append(["write", self._p, bytes(b).hex()])
        return self._f.write(b) if not isinstance(self._f, io.TextIOBase) else self._f.write(b.decode())

    def flush(self):
        self._t.append(["flush", self._p])
        return self._f.flush()

    def close(self):
        if not self._f.closed:
            self._t.append(["close", self._p])
        return self._f.close()

    def __enter__(self):
        return self

    def __exit__(self, *a):
        self.close()

    def __getattr__(self, n):
        return getattr(self._f, n)


def record_trace(fn, watch_prefix=None, reads=False):
    trace = []
    o_open, o_mkdir, o_replace, o_rename, o_remove, o_rmdir = (
        builtins.open,
        os.mkdir,
        os.replace,
        os.rename,
        os.remove,
        os.rmdir,
    )
    o_makedirs, o_utime, o_chmod, o_truncate, o_unlink = os.makedirs, os.utime, os.chmod, os.truncate, os.unlink

    def watched(p):
        try:
            p = os.fspath(p)
        except TypeError:
            return False
        if isinstance(p, bytes):
            p = p.decode("utf-8", "surrogateescape")
        return watch_prefix is None or os.path.abspath(p).startswith(watch_prefix)

    def f_open(file, mode="r", *a, **k):
        f = o_open(file, mode, *a, **k)
        if any(c in mode for c in "wax+") and isinstance(file, (str, bytes, os.PathLike)) and watched(file):
            trace.append(["open", os.path.abspath(os.fspath(file)), mode])
            return _W(f, os.path.abspath(os.fspath(file)), trace)
        if reads and isinstance(file, (str, bytes, os.PathLike)) and watched(file) and (os.sep + "ascmhl" + os.sep) not in os.path.abspath(os.fspath(file)):
            # a media file opened for reading: no effect on disk, but a point in time (what the run has made before it
            # starts reading the media is exposed to a kill for as long as the hashing takes)
            trace.append(["readopen", os.path.abspath(os.fspath(file))])
        return f

    def wrap(name, orig, nargs):
        def g(*a, **k):
            r_ = orig(*a, **k)  # (a call that raises - mkdir of an existing folder inside makedirs - did not happen)
            if any(watched(x) for x in a[:nargs]):
                trace.append([name] + [os.path.abspath(os.fspath(x)) for x in a[:nargs]])
            return r_

        return g

    o_osopen = os.open

    def f_osopen(path, flags, *a, **k):
        # low-level creation of a file (lock files, mkstemp): recorded as an open that leaves an empty file
        if flags & os.O_CREAT and watched(path):
            trace.append(["open", os.path.abspath(os.fspath(path)), "x" if flags & os.O_EXCL else ("w" if flags & os.O_TRUNC else "a")])
        return o_osopen(path, flags, *a, **k)

    os.open = f_osopen
    builtins.open = f_open
    os.mkdir = wrap("mkdir", o_mkdir, 1)
    os.replace = wrap("replace", o_replace, 2)
    os.rename = wrap("replace", o_rename, 2)
    os.remove = wrap("remove", o_remove, 1)
    os.unlink = wrap("remove", o_unlink, 1)
    os.rmdir = wrap("rmdir", o_rmdir, 1)
    os.utime = wrap("utime", o_utime, 1)
    os.chmod = wrap("chmod", o_chmod, 1)
    os.truncate = wrap("truncate", o_truncate, 1)
    try:
        res = fn()
    finally:
        builtins.open = o_open
        os.open = o_osopen
        os.mkdir, os.replace, os.rename, os.remove, os.rmdir = o_mkdir, o_replace, o_rename, o_remove, o_rmdir
        os.makedirs, os.utime, os.chmod, os.truncate, os.unlink = o_makedirs, o_utime, o_chmod, o_truncate, o_unlink
    return trace, res


def apply_ops(root_src, root_dst, ops, torn=None, lazy=False):
    """apply ops (paths below root_src) onto the copy at root_dst.  torn = number of bytes of the LAST write to keep.
    lazy: what a `write()` hands to a file object stays in that object's user-space buffer until its flush()/close();
    a kill loses it.  (The buffer belongs to the open file, so it follows a rename of the file.)  The default (eager)
    is the other extreme: every write reaches the disk at once."""
    handles = {}
    pending = {}
    renamed = {}

    def mp(p):
        rel = os.path.relpath(p, root_src)
        return os.path.join(root_dst, rel)

    n = len(ops)
    for i, op in enumerate(ops):
        k = op[0]
        if k == "mkdir":
            os.mkdir(mp(op[1]))
        elif k == "open":
            m = op[2]
            if "w" in m:
                open(mp(op[1]), "wb").close()
            elif "a" in m or "x" in m:
                open(mp(op[1]), "ab").close()
        elif k == "write":
            data = bytes.fromhex(op[2])
            if i == n - 1 and torn is not None:
                data = data[:torn]
            if lazy:
                pending[op[1]] = pending.get(op[1], b"") + data
            else:
                with open(mp(op[1]), "ab") as f:
                    f.write(data)
        elif k in ("flush", "close"):
            if lazy and pending.get(op[1]):
                # the handle was opened under op[1]; the file may have been renamed meanwhile
                with open(mp(renamed.get(op[1], op[1])), "ab") as f:
                    f.write(pending.pop(op[1]))
        elif k == "replace":
            try:
                os.replace(mp(op[1]), mp(op[2]))
            except FileNotFoundError:
                pass  # (the source was created through a call the recorder does not see)
            if lazy:
                renamed[op[1]] = op[2]
        elif k == "remove":
            try:
                os.remove(mp(op[1]))
            except FileNotFoundError:
                pass
        elif k == "rmdir":
            try:
                os.rmdir(mp(op[1]))
            except OSError:
                pass
        else:
            pass


def crash_points(ops, torn_mode="sample"):
    """yield (prefix_len, torn) ; torn None = last op whole"""
    yield 0, None
    for i, op in enumerate(ops):
        if op[0] == "write":
            L = len(op[2]) // 2
            if L > 1:
                if torn_mode == "all":
                    cuts = range(1, L)
                else:
                    cuts = sorted({1, L // 2, L - 1})
                for c in cuts:
                    yield i + 1, c
        yield i + 1, None


def committed_state(root):
    """{ascmhl-dir: {"manifests": {name: bytes}, "chain": [entries] or None}} read independently"""
    out = {}
    for a in rt.ascmhl_dirs(root):
        ap = os.path.join(root, a)
        ms = {}
        for fn in sorted(os.listdir(ap)):
            if fn.endswith(".mhl"):
                with open(os.path.join(ap, fn), "rb") as f:
                    ms[fn] = f.read()
        ch = os.path.join(ap, "ascmhl_chain.xml")
        chain = None
        if os.path.exists(ch):
            try:
                chain = rt.read_chain(ch)
            except ET.ParseError:
                chain = "UNPARSEABLE"
        out[a] = {"manifests": ms, "chain": chain}
    return out


def check_recoverable(pre, crashed_root, post, label):
    """pre/post: committed_state before / after the complete run.  Returns list of problems."""
    probs = []
    cur = committed_state(crashed_root)
    for a, st in pre.items():
        if a not in cur:
            probs.append(f"{label}: ascmhl folder {a} vanished")
            continue
        for name, b in st["manifests"].items():
            if cur[a]["manifests"].get(name) != b:
                probs.append(f"{label}: committed manifest {a}/{name} changed or missing")
        if st["chain"] is not None:
            c = cur[a]["chain"]
            if c is None or c == "UNPARSEABLE":
                probs.append(f"{label}: chain of {a} {'missing' if c is None else 'does not parse'}")
            elif c[: len(st["chain"])] != st["chain"]:
                probs.append(f"{label}: chain of {a} no longer lists the committed generations")
    # next commands load normally
    for cmd, args in (("info", [crashed_root]), ("verify", [crashed_root])):
        x = rt.run(cmd, args, "2026-03-01 12:10:00")
        if x.exc is not None:
            probs.append(f"{label}: {cmd} aborts with {x.exc}")
        elif x.exit in (31, 32, 33):
            zero = [a for a, st in cur.items() if (pre.get(a) is None or not pre[a]["manifests"])]
            probs.append(f"{label}: {cmd} refuses with {x.exit}" + (" [zero-prior-generation history: %s]" % ",".join(zero) if zero else ""))
        elif x.exit not in ((0, 30) if cmd == "info" else (0, 10, 11, 21, 30)):
            # "loads the history normally": the only acceptable outcomes are the command's own verdicts on the tree
            probs.append(f"{label}: {cmd} ends with exit {x.exit}, which is none of its verdicts on a loadable history")
    # the interrupted generation is completely present or absent: what `info` shows as generations is what the chain
    # lists (a manifest without chain entry is not protected by anything and must not count as a generation)
    try:
        x = rt.run("info", [crashed_root], "2026-03-01 12:10:01")
        if x.exc is None and x.exit == 0:
            import re as _re
            shown = [int(n) for n in _re.findall(r"^\s+Generation (\d+) \(", x.out.split("Child History at")[0], _re.M)]
            rootkey = [a for a in cur if os.path.dirname(a) in ("", ".")]
            ch = cur[rootkey[0]]["chain"] if rootkey else None
            if isinstance(ch, list):
                listed = [int(e["seq"]) for e in ch]
                if shown != listed:
                    probs.append(f"{label}: info shows generations {shown} of the root history, its chain file lists {listed}: the interrupted generation is neither completely present nor absent")
    except Exception as e:  # the probe itself must not decide anything
        pass
    # ... and the next create works and leaves a gap-free chain
    x = rt.run("create", [crashed_root, "-h", "md5"], "2026-03-01 12:10:02")
    if x.exc is not None:
        probs.append(f"{label}: the next create aborts with {x.exc}")
    elif x.exit in (31, 32, 33):
        zero = [a for a, st in cur.items() if (pre.get(a) is None or not pre[a]["manifests"])]
        probs.append(f"{label}: create refuses with {x.exit}" + (" [zero-prior-generation history: %s]" % ",".join(zero) if zero else ""))
    elif x.exit not in (0, 10, 11):
        probs.append(f"{label}: the next create ends with exit {x.exit}")
    else:
        after = committed_state(crashed_root)
        for a, st in after.items():
            if isinstance(st["chain"], list):
                seqs = [int(e["seq"]) for e in st["chain"]]
                if seqs != list(range(1, len(seqs) + 1)):
                    probs.append(f"{label}: after the next create the chain of {a} lists sequence numbers {seqs}")
        try:
            x = rt.run("info", [crashed_root], "2026-03-01 12:10:03")
            if x.exc is None and x.exit == 0:
                import re as _re
                shown = [int(n) for n in _re.findall(r"^\s+Generation (\d+) \(", x.out.split("Child History at")[0], _re.M)]
                rootkey = [a for a in after if os.path.dirname(a) in ("", ".")]
                ch = after[rootkey[0]]["chain"] if rootkey else None
                if isinstance(ch, list) and shown != [int(e["seq"]) for e in ch]:
                    probs.append(f"{label}: after the next create info shows generations {shown}, the chain lists {[int(e['seq']) for e in ch]} (the leftover of the interrupted run came back as a generation)")
            elif x.exc is not None or x.exit not in (0, 30):
                probs.append(f"{label}: info after the next create ends with {x.exc or x.exit}")
        except Exception:
            pass
    # the interrupted generation is all or nothing
    for a, st in cur.items():
        for name, b in st["manifests"].items():
            if pre.get(a) and name in pre[a]["manifests"]:
                continue
            if post.get(a) and post[a]["manifests"].get(name) == b:
                continue
            probs.append(f"{label}: partial manifest {a}/{name} visible as a generation")
    return probs


def enumerate_crash_states(root, run_create, limit=None, torn_mode="sample"):
    """root: prepared world (pre-state).  run_create: callable running the real create on `root`.
    The create is run on a scratch copy to get the trace; every crash state is materialised on another copy."""
    base = os.path.dirname(root)
    work = rt.mktemp("crash_")
    res = {"states": 0, "unrecoverable": [], "ops": 0, "trace": None, "zero_gen_only": 0}
    try:
        pre = committed_state(root)
        # run the full create on `root` itself, but keep a pristine copy for the replays
        pristine = os.path.join(work, "pristine")
        shutil.copytree(root, pristine, symlinks=True)
        trace, r = record_trace(run_create, watch_prefix=os.path.abspath(root), reads=True)
        post = committed_state(root)
        res["ops"] = len(trace)
        res["trace_full"] = trace
        res["trace"] = [[o[0]] + [os.path.relpath(p, root) if isinstance(p, str) and p.startswith(root) else (p[:16] + "..." if o[0] == "write" and i == 1 else p) for i, p in enumerate(o[1:])] for o in trace]
        n = 0
        points = [(plen, torn, False) for plen, torn in crash_points(trace, torn_mode)]
        # the same prefixes with user-space buffers lost (only where that differs: after something other than a write)
        points += [(plen, None, True) for plen in range(1, len(trace) + 1) if trace[plen - 1][0] not in ("write", "open", "mkdir")]
        for plen, torn, lazy in points:
            if limit and n >= limit:
                break
            n += 1
            dst = os.path.join(work, "s", os.path.basename(root))
            shutil.rmtree(os.path.join(work, "s"), ignore_errors=True)
            os.makedirs(os.path.join(work, "s"))
            shutil.copytree(pristine, dst, symlinks=True)
            try:
                apply_ops(root, dst, trace[:plen], torn, lazy=lazy)
            except Exception as e:
                # the recorded operations cannot be replayed: the run did something the recorder does not understand
                res.setdefault("replay_errors", []).append(f"prefix of {plen} recorded operations cannot be replayed on a copy: {e!r}")
                continue
            label = f"after op {plen}/{len(trace)} ({trace[plen-1][0] if plen else 'start'}{'' if torn is None else f', last write torn at {torn}'}{', buffered data lost' if lazy else ''})"
            probs = check_recoverable(pre, dst, post, label)
            if probs:
                # was a media file read AFTER the run made an ascmhl folder?  (a run that makes the folder only when it
                # commits reads nothing afterwards)
                mk = next((j for j, o in enumerate(trace[:plen]) if o[0] == "mkdir" and os.path.basename(o[1]) == "ascmhl"), None)
                if mk is not None and any(o[0] == "readopen" for o in trace[mk + 1:plen]):
                    probs = [p_ + " [media files are read after the history folder was made]" for p_ in probs]
                res["unrecoverable"].extend(probs)
        res["states"] = n
    finally:
        shutil.rmtree(work, ignore_errors=True)
    return res


# ---------------------------------------------------------------- interruption that unwinds (Ctrl-C, I/O error)
def run_interrupted(fn, k, watch_prefix, exc=KeyboardInterrupt):
    """run fn(); the k-th (0-based) mutating file-system call below watch_prefix (open for writing, mkdir, replace /
    rename, remove) raises `exc` INSTEAD of being performed, so that the implementation's own handlers (except /
    finally / context managers) run while the exception unwinds.  Returns True if the point was reached."""
    cnt = [0]
    hit = [False]
    o_open, o_mkdir, o_replace, o_rename, o_remove, o_unlink = builtins.open, os.mkdir, os.replace, os.rename, os.remove, os.unlink

    def watched(p):
        try:
            p = os.fspath(p)
        except TypeError:
            return False
        return isinstance(p, str) and os.path.abspath(p).startswith(watch_prefix)

    def tick():
        if hit[0]:
            return  # only once: the handlers themselves may touch the file system
        if cnt[0] == k:
            hit[0] = True
            raise exc() if exc is KeyboardInterrupt else exc
        cnt[0] += 1

    class _WI:
        """a file opened for writing whose every write() is an interruption point as well (the data of the interrupted
        write is not written)"""

        def __init__(self, f):
            self._f = f

        def write(self, b):
            tick()
            return self._f.write(b)

        def __enter__(self):
            self._f.__enter__()
            return self

        def __exit__(self, *a):
            return self._f.__exit__(*a)

        def __getattr__(self, n):
            return getattr(self._f, n)

    def f_open(file, mode="r", *a, **kw):
        if any(c in mode for c in "wax+") and isinstance(file, (str, bytes, os.PathLike)) and watched(file):
            tick()
            return _WI(o_open(file, mode, *a, **kw))
        if isinstance(file, (str, bytes, os.PathLike)) and watched(file) and (os.sep + "ascmhl" + os.sep) not in os.path.abspath(os.fspath(file)):
            tick()  # the run is also interrupted while it reads the media (Ctrl-C during hashing, an unreadable file)
        return o_open(file, mode, *a, **kw)

    def wrap(orig, nargs):
        def g(*a, **kw):
            if any(watched(x) for x in a[:nargs]):
                tick()
            return orig(*a, **kw)

        return g

    builtins.open = f_open
    os.mkdir, os.replace, os.rename, os.remove, os.unlink = wrap(o_mkdir, 1), wrap(o_replace, 2), wrap(o_rename, 2), wrap(o_remove, 1), wrap(o_unlink, 1)
    try:
        try:
            fn()
        except BaseException:
            pass
    finally:
        builtins.open = o_open
        os.mkdir, os.replace, os.rename, os.remove, os.unlink = o_mkdir, o_replace, o_rename, o_remove, o_unlink
    return hit[0]


def enumerate_interrupt_states(root, make_run, limit=120, examine=None, exc=KeyboardInterrupt):
    """root: prepared world (left untouched).  make_run(copy_root) -> callable that runs the real create on that copy.
    For k = 0, 1, ...: a fresh copy, create interrupted at the k-th mutating call by an exception that unwinds, then the
    same examination as after a kill.  Stops when the run completes without reaching point k."""
    work = rt.mktemp("intr_")
    res = {"states": 0, "unrecoverable": []}
    try:
        pre = committed_state(root)
        # the complete run, for the "all or nothing" comparison
        full = os.path.join(work, "full", os.path.basename(root))
        os.makedirs(os.path.dirname(full))
        shutil.copytree(root, full, symlinks=True)
        make_run(full)()
        post = committed_state(full)
        for k in range(limit):
            dst = os.path.join(work, "s%d" % k, os.path.basename(root))
            os.makedirs(os.path.dirname(dst))
            shutil.copytree(root, dst, symlinks=True)
            reached = run_interrupted(make_run(dst), k, os.path.abspath(dst), exc=exc)
            if not reached:
                shutil.rmtree(os.path.dirname(dst), ignore_errors=True)
                break
            res["states"] += 1
            # names in `post` carry the same frozen time stamp, so the comparison by name works
            label = f"create interrupted (exception unwinding, e.g. Ctrl-C or a failing system call) at its mutating file-system call #{k}"
            probs = examine(pre, dst, post, label) if examine else check_recoverable(pre, dst, post, label)
            res["unrecoverable"].extend(probs)
            shutil.rmtree(os.path.dirname(dst), ignore_errors=True)
    finally:
        shutil.rmtree(work, ignore_errors=True)
    return res
