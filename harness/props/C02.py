"""C02 — a sealed generation records exactly the tree that is on disk."""
from . import _scn
from .. import monitors as M, largefiles


def run(ctx):
    scs = _scn.standard_pool(ctx, ctx.scale(70, 1200), ctx.scale(45, 600))
    return _scn.run_scn(ctx, scs, M.m_c02, extra_fails=largefiles.extra(ctx), witness_ids=("D5a", "D10", "D4b"),
        assumptions=["trees of regular files and directories (no symbolic links); names are valid UTF-8 without control characters",
                     "'excluded' is defined by pathspec gitwildmatch applied to the path relative to the command root"])


def replay(ctx, path):
    return _scn.replay_generic(ctx, path, M.m_c02)
