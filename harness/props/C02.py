"""C02 — a sealed generation records exactly the tree that is on disk."""
from . import _scn
from .. import monitors as M, largefiles


def run(ctx):
    scs = _scn.standard_pool(ctx, ctx.scale(70, 1200), ctx.scale(45, 600))
    # a pattern anchored at the root says nothing about entries of the same name further down
    for pats in (["/tmp"], ["/Sidecar.txt"], ["/tmp/", "/A/Sidecar.txt"]):
        scs.insert(0, {"profile": "c02-anchored", "root": "root", "tree": {"tmp/x.bin": "x", "Clips/tmp/y.bin": "y", "Sidecar.txt": "s", "A/Sidecar.txt": "as", "A/B/Sidecar.txt": "abs", "A/tmp/": None},
                       "ops": [{"op": "create", "at": "", "h": ["md5"], "now": "2026-03-01 12:00:01", "i": pats}, {"op": "verify", "at": ""}, {"op": "create", "at": "", "h": ["sha1"], "now": "2026-03-01 12:00:02"}]})
    # one -sf run that names files with the same name (relative to their own history) in different histories
    scs.insert(0, {"profile": "c02-sf-twins", "root": "card", "tree": {"clip.mov": "root clip", "A/clip.mov": "a clip", "B/clip.mov": "b clip", "B/sub/clip.mov": "deep"},
                   "ops": [{"op": "create", "at": "A", "h": ["md5"], "now": "2026-03-01 12:00:01"}, {"op": "create", "at": "B", "h": ["md5"], "now": "2026-03-01 12:00:02"},
                           {"op": "create", "at": "", "h": ["md5"], "now": "2026-03-01 12:00:03", "sf": ["clip.mov", "A/clip.mov", "B/clip.mov", "B/sub/clip.mov"]}, {"op": "verify", "at": ""}]})
    # generations whose number of records sits on round numbers (writers that batch their output)
    for n in (63, 64, 127, 128, 129, 256):
        t = {"f%03d.bin" % i: "content %d" % i for i in range(n - 1)}
        t["d/x.txt"] = "x"  # + 1 folder record + its file = n + 1 records in folder mode; flatten: n file paths
        scs.insert(0, {"profile": "c02-count", "impl_only": True, "root": "root", "tree": t, "ops": [{"op": "create", "at": "", "h": ["md5"], "now": "2026-03-01 12:00:01"}, {"op": "verify", "at": ""}]})
    # patterns are matched relative to the COMMAND root, also when -sf names a folder that belongs to a nested history
    for pat in ("C/x/skip.txt", "C/x/", "/C/x/skip.txt", "x/skip.txt"):
        scs.insert(0, {"profile": "c02-sf-anchored", "root": "root", "tree": {"C/x/skip.txt": "s", "C/x/keep.txt": "k", "C/y.txt": "y", "top.txt": "t", "x/skip.txt": "outer"},
                       "ops": [{"op": "create", "at": "C", "h": ["md5"], "now": "2026-03-01 12:00:01"}, {"op": "create", "at": "", "h": ["md5"], "now": "2026-03-01 12:00:02", "i": [pat]},
                               {"op": "create", "at": "", "h": ["sha1"], "now": "2026-03-01 12:00:03", "sf": ["C"]}, {"op": "create", "at": "", "h": ["xxh64"], "now": "2026-03-01 12:00:04", "sf": ["C/x", "top.txt"]},
                               {"op": "verify", "at": ""}]})
    # a pattern that the history already records, given again: the recorded order stays (the negation behind it keeps
    # re-including its file), in the root and in a nested history; and neighbours of ignored entries in one folder
    for again in (["*.log"], ["*.log", "*.tmp"], ["!keep.log", "*.log"]):
        scs.insert(0, {"profile": "c02-pattern-again", "root": "root", "tree": {"keep.log": "k", "a.log": "a", "b.txt": "b", "s/keep.log": "sk", "s/z.log": "z", "r1.tmp": "1", "r2.tmp": "2", "r3.txt": "3"},
                       "ops": [{"op": "create", "at": "s", "h": ["md5"], "now": "2026-03-01 12:00:01", "i": ["*.log", "!keep.log"]},
                               {"op": "create", "at": "", "h": ["md5"], "now": "2026-03-01 12:00:02", "i": ["*.log", "!keep.log", "*.tmp"]},
                               {"op": "create", "at": "", "h": ["md5"], "now": "2026-03-01 12:00:03", "i": again}, {"op": "create", "at": "s", "h": ["md5"], "now": "2026-03-01 12:00:04", "i": again},
                               {"op": "create", "at": "", "h": ["sha1"], "now": "2026-03-01 12:00:05"}, {"op": "verify", "at": ""}]})
    # a folder re-included after a file pattern excluded files in it: the last matching pattern decides
    for split in (False, True):
        first = {"op": "create", "at": "", "h": ["md5"], "now": "2026-03-01 12:00:01", "i": ["*.tmp"] if split else ["*.tmp", "!keep/"]}
        second = {"op": "create", "at": "", "h": ["md5"], "now": "2026-03-01 12:00:02", "i": ["!keep/"] if split else []}
        scs.insert(0, {"profile": "c02-folder-negation", "impl_only": True, "root": "root", "tree": {"keep/render.tmp": "r", "keep/sub/proxy.tmp": "p", "other/x.tmp": "x", "a.txt": "a", "top.tmp": "t"},
                       "ops": [first, second, {"op": "verify", "at": ""}]})
    # the path glue of the command line (MhlModel/Paths.lean): the library functions against posixpath, the recorded
    # path of create -sf / the answer of verify -sf against the model's prediction
    from .. import paths_case
    lib_diffs, lib_n = paths_case.library(ctx.seed, ctx.scale(1500, 40000))
    cl_fails, cl_diffs, cl_n = paths_case.command_line(ctx.seed, ctx.scale(40, 600))
    return _scn.run_scn(ctx, scs, M.m_c02, extra_fails=largefiles.extra(ctx) + cl_fails, extra_diffs=lib_diffs + cl_diffs, extra_cov={"path_glue": {"library_cases": lib_n, "command_line_cases": cl_n}}, witness_ids=("D5a", "D10", "D4b"),
        assumptions=["trees of regular files and directories (no symbolic links); names are valid UTF-8 without control characters",
                     "'excluded' is defined by pathspec gitwildmatch applied to the path relative to the command root"])


def replay(ctx, path):
    return _scn.replay_generic(ctx, path, M.m_c02)
