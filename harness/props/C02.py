"""C02 — a sealed generation records exactly the tree that is on disk."""
from . import _scn
from .. import monitors as M, largefiles


def run(ctx):
    scs = _scn.standard_pool(ctx, ctx.scale(70, 1200), ctx.scale(45, 600))
    # patterns are matched relative to the COMMAND root, also when -sf names a folder that belongs to a nested history
    for pat in ("C/x/skip.txt", "C/x/", "/C/x/skip.txt", "x/skip.txt"):
        scs.insert(0, {"profile": "c02-sf-anchored", "root": "root", "tree": {"C/x/skip.txt": "s", "C/x/keep.txt": "k", "C/y.txt": "y", "top.txt": "t", "x/skip.txt": "outer"},
                       "ops": [{"op": "create", "at": "C", "h": ["md5"], "now": "2026-03-01 12:00:01"}, {"op": "create", "at": "", "h": ["md5"], "now": "2026-03-01 12:00:02", "i": [pat]},
                               {"op": "create", "at": "", "h": ["sha1"], "now": "2026-03-01 12:00:03", "sf": ["C"]}, {"op": "create", "at": "", "h": ["xxh64"], "now": "2026-03-01 12:00:04", "sf": ["C/x", "top.txt"]},
                               {"op": "verify", "at": ""}]})
    return _scn.run_scn(ctx, scs, M.m_c02, extra_fails=largefiles.extra(ctx), witness_ids=("D5a", "D10", "D4b"),
        assumptions=["trees of regular files and directories (no symbolic links); names are valid UTF-8 without control characters",
                     "'excluded' is defined by pathspec gitwildmatch applied to the path relative to the command root"])


def replay(ctx, path):
    return _scn.replay_generic(ctx, path, M.m_c02)
