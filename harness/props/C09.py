"""C09 — directory-hash verification detects any change anywhere in the tree."""
import random, json
from . import _scn
from .. import mutate, gen, largefiles


def build(seed):
    rnd = random.Random(seed)
    flat = rnd.random() < 0.25
    fs = gen.FsSim()
    gen.gen_tree(rnd, fs, max_depth=0 if flat else rnd.choice([1, 2, 3]))
    if flat:
        for d in list(fs.dirs):
            if d:
                fs.dirs.discard(d)
        fs.files = {p: c for p, c in fs.files.items() if "/" not in p}
        if not fs.files:
            fs.files["only.txt"] = "only"
    force = None
    if rnd.random() < 0.12:
        # an entry whose name begins with "._" (resource-fork companions) is an entry like any other
        d0 = rnd.choice(sorted(fs.dirs))
        force = (d0 + "/" if d0 else "") + "._A001.mov"
        fs.files[force] = "resource fork"
    tree = gen.tree_dict(fs)
    pats = rnd.sample(["*.tmp", "*.bak", "tmp", "*.mov"], 1) if rnd.random() < 0.2 else []
    ops = []
    t = [0]

    def create(at, **kw):
        t[0] += 1
        op = {"op": "create", "at": at, "h": gen.fmt_subset(rnd, (1, 2)), "now": "2026-03-01 12:00:%02d" % t[0]}
        if pats:
            op["i"] = pats
        op.update(kw)
        ops.append(op)

    nested_pat = None
    if not flat and rnd.random() < 0.4:
        cands = [d for d in sorted(fs.dirs) if d]
        rnd.shuffle(cands)
        # a nested history may have patterns of its own that the enclosing history does not share
        nested_pat = rnd.choice(["*.bak", "*.log"]) if rnd.random() < 0.4 and "*.bak" not in pats else None
        for d in cands[: rnd.randint(1, 2)]:
            create(d, **({"i": list(pats) + [nested_pat]} if nested_pat else {}))
    create("")
    for _ in range(rnd.choice([0, 0, 1, 2])):
        if rnd.random() < 0.35:
            create("", n=True)
        else:
            create("")
    n_seal = len(ops)
    kind = rnd.choice(["none", "alter", "remove", "add", "rename", "mkdir", "rmdir", "root_alter", "root_add", "bitrot", "bitrot"])
    truth = False
    if nested_pat and rnd.random() < 0.6:
        kind = "add_outside_nested"
    files = sorted(fs.files)
    if force and kind != "add_outside_nested":
        files, kind = [force], rnd.choice(["alter", "remove", "bitrot"])
    rootfiles = [p for p in files if "/" not in p]
    if kind == "alter" and files:
        p = rnd.choice(files)
        ops.append({"op": "write", "path": p, "data": gen.enc(fs.files[p] + "~")})
        truth = not mutate.hidden(p, pats)
    elif kind == "bitrot" and [p for p in files if fs.files[p]]:
        # same length, same modification time: only the bytes differ
        p = rnd.choice([p for p in files if fs.files[p]])
        c = fs.files[p]
        c2 = c[:-1] + ("#" if c[-1] != "#" else "%")
        ops.append({"op": "write", "path": p, "data": gen.enc(c2), "mtime": 1760000000})
        truth = not mutate.hidden(p, pats) and len(c2.encode("utf-8", "surrogatepass")) == len(c.encode("utf-8", "surrogatepass"))
        if not truth and not mutate.hidden(p, pats):
            truth = True
    elif kind == "root_alter" and rootfiles:
        p = rnd.choice(rootfiles)
        ops.append({"op": "write", "path": p, "data": gen.enc(fs.files[p] + "~")})
        truth = not mutate.hidden(p, pats)
    elif kind == "remove" and files:
        p = rnd.choice(files)
        ops.append({"op": "rm", "path": p})
        truth = not mutate.hidden(p, pats)
    elif kind in ("add", "root_add"):
        d = "" if kind == "root_add" else rnd.choice(sorted(fs.dirs))
        p = (d + "/" if d else "") + "zz added.txt"
        if p not in fs.files:
            ops.append({"op": "write", "path": p, "data": "added"})
            truth = not mutate.hidden(p, pats)
    elif kind == "add_outside_nested":
        # a file that only the NESTED history's patterns would hide, added directly in the root folder
        p = "zz added" + nested_pat[1:]
        ops.append({"op": "write", "path": p, "data": "added"})
        truth = not mutate.hidden(p, pats)
    elif kind == "rename" and files:
        p = rnd.choice(files)
        q = p.rsplit("/", 1)[0] + "/renamed_x.dat" if "/" in p else "renamed_x.dat"
        if q not in fs.files and q not in fs.dirs:
            ops.append({"op": "mv", "src": p, "dst": q})
            truth = not mutate.hidden(p, pats) or not mutate.hidden(q, pats)
    elif kind == "mkdir":
        d = rnd.choice(sorted(fs.dirs))
        q = (d + "/" if d else "") + "new empty dir"
        if q not in fs.files and q not in fs.dirs:
            ops.append({"op": "mkdir", "path": q})
            truth = not mutate.hidden(q, pats)
    elif kind == "rmdir":
        empties = [d for d in sorted(fs.dirs) if d and not any(x.startswith(d + "/") for x in list(fs.files) + list(fs.dirs))]
        if empties:
            d = rnd.choice(empties)
            ops.append({"op": "rm", "path": d})
            truth = not mutate.hidden(d, pats)
    # the changed tree is sealed once more (same single format throughout): it still differs from what the EARLIER
    # generations recorded, so verify -dh has to fail although the newest generation matches
    resealed = truth and rnd.random() < 0.25
    if resealed:
        f0 = rnd.choice(gen.FORMATS)
        for o in ops:
            if o["op"] == "create":
                o["h"] = [f0]
                o.pop("n", None)
        t[0] += 1
        ops.append({"op": "create", "at": "", "h": [f0], "now": "2026-03-01 12:10:%02d" % t[0], **({"i": pats} if pats else {})})
    op = {"op": "verifydh", "at": ""}
    if rnd.random() < 0.2:
        op["spell"] = rnd.choice(["slash", "relative", "cwd"])
    ops.append(op)
    return {"seed": seed, "profile": "c09", "root": "root", "tree": tree, "ops": ops, "c09": {"kind": kind, "changed": truth, "n_seal": n_seal, "patterns": pats, "flat": flat, "resealed": resealed}}


def monitor(sc, res):
    meta = sc.get("c09")
    fails = []
    for st in res["steps"]:
        op, io_ = st["op"], st["impl"]
        if op["op"] != "verifydh" or io_ is None:
            continue
        if io_["exc"] is not None:
            fails.append({"what": f"verify -dh aborted with {io_['exc']} on a history the tool produced ({json.dumps(op)})", "replay": sc})
            continue
        if meta and not op.get("h") and not op.get("ro"):
            exp = 12 if meta["changed"] else 0
            if io_["exit"] != exp:
                fails.append({"what": f"verify -dh exits {io_['exit']}, expected {exp}: mutation {meta['kind']} (effective: {meta['changed']}), flat folder: {meta['flat']}, patterns {meta['patterns']}, sealed again after the change: {meta.get('resealed', False)}", "replay": sc})
    return fails


def pattern_change_scenarios():
    """generations sealed with different formats, a later one adding an ignore pattern that matches nothing in the tree:
    the directory hashes of ALL generations stay comparable"""
    out = []
    for changed in (False, True):
        for kind in ("alter", "add"):
            tree = {"a.txt": "alpha", "s/b.txt": "beta", "s/t/c.txt": "gamma"}
            ops = [{"op": "create", "at": "", "h": ["md5"], "now": "2026-03-01 12:00:01"}, {"op": "create", "at": "", "h": ["xxh64"], "now": "2026-03-01 12:00:02", "i": ["*.bak"]}]
            if changed:
                ops.append({"op": "write", "path": "s/b.txt", "data": "ALTERED"} if kind == "alter" else {"op": "write", "path": "s/new.txt", "data": "n"})
            ops.append({"op": "verifydh", "at": ""})
            out.append({"profile": "c09-pattern-change", "root": "root", "tree": tree, "ops": ops,
                        "c09": {"kind": kind if changed else "none", "changed": changed, "n_seal": 2, "patterns": ["*.bak"], "flat": False, "resealed": False}})
    return out


def anchored_scenarios():
    """a pattern anchored at the root says nothing about entries of the same name further down: they are part of the
    directory hashes, and a change to one of them is a change"""
    out = []
    for kind in ("none", "alter", "remove", "add"):
        tree = {"index.xml": "top", "Reel1/index.xml": "one", "Reel2/Sub/index.xml": "two", "Reel2/clip.mov": "c"}
        ops = [{"op": "create", "at": "", "h": ["md5"], "now": "2026-03-01 12:00:01", "i": ["/index.xml"]}]
        ops += {"none": [], "alter": [{"op": "write", "path": "Reel2/Sub/index.xml", "data": "ALTERED"}], "remove": [{"op": "rm", "path": "Reel1/index.xml"}], "add": [{"op": "write", "path": "Reel2/index.xml", "data": "n"}]}[kind]
        ops.append({"op": "verifydh", "at": ""})
        out.append({"profile": "c09-anchored", "root": "root", "tree": tree, "ops": ops, "c09": {"kind": kind, "changed": kind != "none", "n_seal": 1, "patterns": ["/index.xml"], "flat": False, "resealed": False}})
    return out


def separate_format_scenarios():
    """the outer folder sealed in one format, afterwards a nested history started (or continued) on its own in another:
    on the untouched tree verify -dh finds nothing"""
    out = []
    for order in ("outer-first", "nested-first"):
        tree = {"a.txt": "a", "child/b.txt": "b", "child/sub/c.txt": "c"}
        o1 = {"op": "create", "at": "", "h": ["xxh64"], "now": "2026-03-01 12:00:01"}
        o2 = {"op": "create", "at": "child", "h": ["md5"], "now": "2026-03-01 12:00:02"}
        ops = ([o1, o2] if order == "outer-first" else [o2, o1, dict(o2, now="2026-03-01 12:00:03", h=["sha1"])]) + [{"op": "verifydh", "at": ""}, {"op": "verifydh", "at": "child"}]
        out.append({"profile": "c09-separate-format", "root": "root", "tree": tree, "ops": ops, "c09": {"kind": "none", "changed": False, "n_seal": len(ops) - 2, "patterns": [], "flat": False, "resealed": False}})
    return out


def run(ctx):
    scs = separate_format_scenarios() + anchored_scenarios() + pattern_change_scenarios() + [build(ctx.seed * 1000507 + i) for i in range(ctx.scale(150, 2500))]
    # general scenarios: only the "never aborts" part is judged there
    scs += _scn.standard_pool(ctx, ctx.scale(25, 400), ctx.scale(15, 250))
    return _scn.run_scn(ctx, scs, monitor, extra_fails=largefiles.extra(ctx), witness_ids=("D2a", "D2b", "D2c"),
        assumptions=["reading adopted (DESIGN.md 9): exit 0 is required when the tree is what EVERY generation recorded, 12 when, in every format that is verified, it differs from what SOME directory-hash-bearing generation recorded (a later generation that matches does not excuse an earlier one); verify -dh without -h", "the changed content/name has a different digest in every format used (observed)"])


def replay(ctx, path):
    return _scn.replay_generic(ctx, path, monitor)
