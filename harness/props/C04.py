"""C04 — digests are always judged against the first recorded value."""
import os, random, itertools, json, io
import xml.etree.ElementTree as ET
from .. import rt, framework as fw, pool, gen, witnesses, largefiles

FORMATS = gen.FORMATS
SUBSETS = [list(c) for r in range(1, 7) for c in itertools.combinations(FORMATS, r)]  # 63


def seq_scenario(seq, mode="folder", nested=False, alter=None, restore=None, seed=0, twin=False, casetwin=None):
    """seq: list of format lists, one per generation.  alter = index of the generation before which b.txt is altered,
    restore = index before which it is restored."""
    # s_proxy is a sibling whose name starts with the name of the (possibly nested) history folder s
    # (files of 130, 200 and 241 bytes: the short-input code paths of the xxh family end at 128 and 240 bytes)
    tree = {"a.txt": "content A", "s/b.txt": "content B", "s/c.txt": "", "s_proxy/d.txt": "content D",
            "m130.bin": "m" * 130, "s/m200.bin": "n" * 200, "s_proxy/m241.bin": "o" * 241}
    ops = []
    if nested:
        ops.append({"op": "create", "at": "s", "h": ["md5"], "now": "2026-03-01 11:59:59"})
    for i, fmts in enumerate(seq):
        if alter is not None and i == alter:
            ops.append({"op": "write", "path": "s/b.txt", "data": "ALTERED"})
            if twin:
                # a NEW file in the (possibly nested) folder s with the same history-relative name as a recorded file of
                # the root folder, which is altered in the same step
                ops.append({"op": "write", "path": "s/a.txt", "data": "new twin of a.txt"})
                ops.append({"op": "write", "path": "a.txt", "data": "ALTERED A"})
        if restore is not None and i == restore:
            ops.append({"op": "write", "path": "s/b.txt", "data": "content B"})
        if casetwin is not None and i == casetwin:
            # NEW files whose paths differ only in case from files recorded earlier: they are other files, their first
            # record is 'original' and is never judged against the digests of the namesake
            ops.append({"op": "write", "path": "s/B.txt", "data": "another file, other case"})
            ops.append({"op": "write", "path": "A.TXT", "data": "another file in the root, other case"})
        op = {"op": "create", "at": "", "h": list(fmts), "now": "2026-03-01 12:00:%02d" % (i % 60)}
        if mode == "sf":
            op["sf"] = ["a.txt", "s/b.txt", "s_proxy/d.txt"]
            if casetwin is not None and i >= casetwin:
                op["sf"] += ["s/B.txt", "A.TXT"]
            elif (seed + i) % 2 == 1:
                op["sf_raw"] = ["s/../a.txt", "./s//b.txt", "s_proxy/./d.txt"]
            elif (seed + i) % 3 == 0:
                op["spell"] = "symlink"
            elif (seed + i) % 4 == 2:
                op["sf_rel"] = ["base", "root", "sub"][(seed + i) % 3]
        ops.append(op)
    return {"root": "root", "tree": tree, "ops": ops, "c04": {"seq": seq, "mode": mode, "nested": nested, "alter": alter, "restore": restore, "twin": twin, "casetwin": casetwin}}


def parse_manifests(asc):
    """asc: {relpath: bytes} of ascmhl folders -> {history dir: [(number, name, manifest dict)]} ascending"""
    out = {}
    # (generations = the manifests the chain file of their folder lists; an unlisted leftover is not one)
    from .. import oracles as O
    listed = {(h, g[1]) for h, d in O.histories(asc).items() for g in d["gens"]}
    for p, b in asc.items():
        if not p.endswith(".mhl"):
            continue
        if (os.path.dirname(os.path.dirname(p)), os.path.basename(p)) not in listed:
            continue
        hist = os.path.dirname(os.path.dirname(p))
        name = os.path.basename(p)
        try:
            num = int(name.split("_")[0])
        except ValueError:
            continue
        tmp = io.BytesIO(b)
        root = ET.parse(tmp).getroot()
        recs = []
        hs = root.find(rt.NS_M + "hashes")
        for h in hs if hs is not None else []:
            if rt._lt(h) != "hash":
                continue
            path = h.find(rt.NS_M + "path").text
            prev = h.find(rt.NS_M + "previousPath")
            ents = [(rt._lt(c), c.text, c.attrib.get("action")) for c in h if rt._lt(c) not in ("path", "previousPath", "metadata")]
            recs.append((path, ents, None if prev is None else prev.text))
        out.setdefault(hist, []).append((num, name, recs))
    for k in out:
        out[k].sort()
    return out


def renamed_scenarios():
    """the first recorded digest stays the reference across a rename recorded with -dr: the renamed file, altered later,
    fails; put back, it verifies again - in the root and in a nested history"""
    out = []
    for pre in ("", "s/", "", "s/"):
        for fm in (["md5"], ["sha1", "md5"]):
            ops = [{"op": "create", "at": "s", "h": ["md5"], "now": "2026-03-01 12:00:00"}, {"op": "create", "at": "", "h": ["md5"], "now": "2026-03-01 12:00:01"},
                   {"op": "mv", "src": pre + "a.txt", "dst": pre + "b.txt"}, {"op": "create", "at": "", "h": fm, "now": "2026-03-01 12:00:02", "dr": True},
                   {"op": "create", "at": "", "h": fm, "now": "2026-03-01 12:00:03"},
                   {"op": "write", "path": pre + "b.txt", "data": "ALTERED after the rename"}, {"op": "create", "at": "", "h": fm, "now": "2026-03-01 12:00:04"}, {"op": "verify", "at": ""},
                   {"op": "write", "path": pre + "b.txt", "data": "content A"}, {"op": "create", "at": "", "h": fm, "now": "2026-03-01 12:00:05"}]
            exp = [0, 0, None, 0, 0, None, 11, 11, None, 0]
            if len(out) >= 4:
                # the alteration follows the -dr generation directly
                del ops[4], exp[4]
            out.append({"root": "root", "profile": "c04-renamed", "tree": {"a.txt": "content A", "s/a.txt": "content A", "k.txt": "k"}, "ops": ops,
                        "c04r": {"path": pre + "b.txt", "expect": exp}})
    return out


def monitor_renamed(sc, res):
    fails = []
    exp = sc["c04r"]["expect"]
    for i, st in enumerate(res["steps"]):
        io_ = st["impl"]
        if io_ is None or exp[i] is None:
            continue
        if io_["exc"] is not None or io_["exit"] != exp[i]:
            fails.append({"what": f"step {i} {st['op']['op']} {st['op'].get('h', '')}: exit {io_['exit']} {io_['exc'] or ''}, expected {exp[i]} (profile {sc.get('profile')}: {sc['c04r']['path']} is altered and later put back; the first recorded digest stays the reference)", "replay": sc})
    return fails


def monitor(sc, res):
    """the property's statement evaluated on the action attributes read by an independent reader"""
    fails = []
    if sc.get("c04r"):
        return monitor_renamed(sc, res)
    if any(o.get("dr") for o in sc["ops"]):
        return fails
    last = None
    for st in res["steps"]:
        if st["impl"] is not None:
            last = st["impl"]
            if st["impl"]["exc"] is not None and st["op"]["op"] == "create":
                fails.append({"what": f"create aborted with {st['impl']['exc']}: op {json.dumps(st['op'], ensure_ascii=False)}", "replay": sc})
    if last is None:
        return fails
    hists = parse_manifests(last["asc_after"])
    for hist, gens in hists.items():
        first = {}  # (path, fmt) -> earliest digest
        has_original = set()
        for num, name, recs in gens:
            seen_in_gen = {}
            for path, ents, prev in recs:
                if prev is not None:
                    continue
                known_fmts = {f for (p, f) in first if p == path}
                acts = {}
                for f, d, a in ents:
                    where = f"{hist}/ascmhl/{name} {path} {f}"
                    if path not in has_original:
                        if a != "original":
                            fails.append({"what": f"{where}: first generation recording the path marks it {a!r}, expected 'original'", "replay": sc})
                    else:
                        if a == "original":
                            fails.append({"what": f"{where}: marked 'original' although an earlier generation recorded the path", "replay": sc})
                        elif (path, f) in first:
                            exp = "verified" if d == first[(path, f)] else "failed"
                            if a != exp:
                                fails.append({"what": f"{where}: marked {a!r}, but comparing with the earliest recorded {f} digest gives {exp!r}", "replay": sc})
                        else:
                            if a != "verified":
                                fails.append({"what": f"{where}: digest in a new format marked {a!r}, expected 'verified'", "replay": sc})
                    acts[f] = a
                if path in has_original:
                    newf = [f for f in acts if (path, f) not in first]
                    oldf = [f for f in acts if (path, f) in first]
                    if newf and (not any(acts[f] == "verified" for f in oldf) or any(acts[f] == "failed" for f in oldf)):
                        fails.append({"what": f"{hist}/ascmhl/{name} {path}: new format(s) {newf} recorded without a verified existing format (existing: {[(f, acts[f]) for f in oldf]})", "replay": sc})
                seen_in_gen[path] = ents
            for path, ents in seen_in_gen.items():
                has_original.add(path)
                for f, d, a in ents:
                    first.setdefault((path, f), d)
    # exit codes on unaltered content
    meta = sc.get("c04")
    if meta:
        altered = False
        changed = set()
        base = dict(sc["tree"])
        gi = 0
        for st in res["steps"]:
            op = st["op"]
            if op["op"] == "write":
                if op["path"] not in base:
                    base[op["path"]] = op["data"]  # a file that appears later: its first content is its reference
                (changed.add if op["data"] != base[op["path"]] else changed.discard)(op["path"])
                altered = bool(changed)
            if op["op"] == "create" and op.get("at", "") == "":
                io_ = st["impl"]
                if not altered and (io_["exit"] != 0 or io_["exc"]):
                    fails.append({"what": f"generation {gi+1} with formats {op['h']} on unaltered files: exit {io_['exit']} exc {io_['exc']} (sequence {meta['seq']}, mode {meta['mode']})", "replay": sc})
                if altered and io_["exit"] != 11:
                    fails.append({"what": f"generation {gi+1} with formats {op['h']} after altering {sorted(changed)}: exit {io_['exit']} (expected 11)", "replay": sc})
                gi += 1
    return fails


def run(ctx):
    rnd = random.Random(ctx.seed * 104729 + 4)
    ok = fw.regen(ctx) and fw.lake_build(ctx, ["MhlModel"] + ["MhlProps." + m for m in fw.modules_for("C04")])
    if ok:
        fw.audit(ctx)
        if ctx.thorough:
            fw.leanchecker(ctx)
    scs = list(pool.corpus_scenarios("C04"))
    n_corpus = len(scs)
    # the former defect D1 and its neighbours run first
    scs.append(seq_scenario([["xxh64", "md5"], ["xxh64", "sha1"]]))
    scs.append(seq_scenario([["xxh64", "md5"], ["xxh64", "sha1"]], mode="sf"))
    scs += renamed_scenarios()
    # project / day / camera / card: a file of the innermost history altered, sealed from the top
    deep = {"root": "project", "profile": "c04-four-levels", "tree": {"day1/camA/card1/clip.mov": "clip", "day1/camA/card1/sub/x.mov": "x", "day1/camA/notes.txt": "n", "day1/d.txt": "d", "p.txt": "p"},
            "ops": [{"op": "create", "at": at, "h": ["md5"], "now": "2026-03-01 12:00:0%d" % i} for i, at in enumerate(["day1/camA/card1", "day1/camA", "day1"])]
                   + [{"op": "write", "path": "day1/camA/card1/clip.mov", "data": "ALTERED"},
                      {"op": "create", "at": "", "h": ["md5"], "now": "2026-03-01 12:00:06"}, {"op": "verify", "at": ""}, {"op": "write", "path": "day1/camA/card1/clip.mov", "data": "clip"},
                      {"op": "create", "at": "", "h": ["sha1"], "now": "2026-03-01 12:00:07"}, {"op": "verify", "at": ""}],
            "c04r": {"path": "day1/camA/card1/clip.mov", "expect": [0, 0, 0, None, 11, 11, None, 0, 0]}}
    scs.append(deep)
    dot = {"root": "project", "profile": "c04-dot-folder-history", "tree": {".offline/day1/clip.mov": "clip", ".offline/day1/x.mov": "x", "p.txt": "p"},
           "ops": [{"op": "create", "at": ".offline/day1", "h": ["md5"], "now": "2026-03-01 12:00:01"}, {"op": "write", "path": ".offline/day1/clip.mov", "data": "ALTERED"},
                   {"op": "create", "at": "", "h": ["md5"], "now": "2026-03-01 12:00:02"}, {"op": "verify", "at": ""}, {"op": "write", "path": ".offline/day1/clip.mov", "data": "clip"},
                   {"op": "create", "at": "", "h": ["md5", "sha1"], "now": "2026-03-01 12:00:03"}, {"op": "verify", "at": ""}],
           "c04r": {"path": ".offline/day1/clip.mov", "expect": [0, None, 11, 11, None, 0, 0]}}
    scs.append(dot)
    for md in ("folder", "sf"):
        for nst in (False, True):
            scs.append(seq_scenario([["md5"], ["md5", "sha1"], ["xxh64"]], mode=md, nested=nst, casetwin=1))
        scs.append(seq_scenario([["xxh64", "xxh64"], ["xxh64"], ["md5", "sha1", "md5"], ["md5", "sha1"]], mode=md))
    if ctx.thorough:
        # all 63 x 63 two-generation sequences (folder mode), plus sampled variants
        for a in SUBSETS:
            for b in SUBSETS:
                scs.append(seq_scenario([a, b]))
        extra = 1500
    else:
        extra = 220
    for _ in range(extra):
        n = rnd.choice([2, 2, 3, 3, 4, 5])
        seq = [rnd.choice(SUBSETS) if rnd.random() < 0.8 else rnd.sample(FORMATS, rnd.randint(1, 2)) for _ in range(n)]
        if rnd.random() < 0.2:
            # a format named twice on one command line
            k_ = rnd.randrange(n)
            seq[k_] = list(seq[k_]) + [rnd.choice(seq[k_])]
        alter = restore = None
        r = rnd.random()
        if r < 0.35:
            alter = rnd.randint(1, n - 1)
            if rnd.random() < 0.5 and alter + 1 < n:
                restore = rnd.randint(alter + 1, n - 1)
        scs.append(seq_scenario(seq, mode=rnd.choice(["folder", "folder", "sf"]), nested=rnd.random() < 0.3, alter=alter, restore=restore, seed=rnd.randint(0, 9), twin=alter is not None and rnd.random() < 0.4,
                                casetwin=rnd.randint(1, n - 1) if rnd.random() < 0.15 else None))
        if _ % 4 == 3:
            gen.unsteady_clock(scs[-1], rnd, p=0.7)
    # ten and more generations: the reference of a file stays the FIRST recorded digest (here recorded in generation 3),
    # also when generations 10, 11, ... record failed digests
    for fm in (["md5"], ["xxh64", "sha1"]):
        ops = []
        for g in range(1, 14):
            if g == 3:
                ops.append({"op": "write", "path": "late.txt", "data": "recorded first in generation three"})
            if g == 10:
                ops.append({"op": "write", "path": "late.txt", "data": "ALTERED before generation ten"})
            ops.append({"op": "create", "at": "", "h": list(fm), "now": "2026-03-01 12:%02d:00" % g})
        ops += [{"op": "verify", "at": ""}]
        scs.append({"root": "root", "profile": "c04-long", "tree": {"a.txt": "content A", "s/b.txt": "content B"}, "ops": ops, "c04": {"seq": [fm] * 13, "mode": "folder", "nested": False, "alter": 9, "restore": None, "twin": False}})
    # general pool without rename detection
    for s in range(ctx.scale(25, 300)):
        sc = gen.gen_scenario(ctx.seed * 1000003 + s, "general")
        for o in sc["ops"]:
            o.pop("dr", None)
        scs.append(sc)
    r = pool.run_pool(scs, monitor=monitor)
    fails = r["fails"] + largefiles.extra(ctx)
    # witness of the repaired defect
    for w in ("D1",):
        for msg in witnesses.ALL[w]():
            fails.append({"what": f"regression of fixed defect {w}: {msg}", "replay": {"witness": w}})
    keys = set()
    for sc in scs:
        m = sc.get("c04")
        if m:
            keys.add(json.dumps(m, sort_keys=True))
    cov = {
        "evaluations": r["n"],
        "distinct_nontrivial": len(keys),
        "rule": "one evaluation = one multi-generation scenario run on implementation and model and judged by the independent monitor; distinct = distinct (format sequence, mode, nested, alter, restore) tuples of the C04 generator; non-trivial = at least two generations with at least one format change or content change",
        "samples": [scs[n_corpus]["c04"], scs[-30].get("c04", {"general": True})],
        "input_distribution": {"scenarios": len(scs), "corpus": n_corpus, "exits": r["exits"], "stats": r["stats"]},
        "monitor": {"cases": r["n"], "failing": len(fails)},
        "exhaustive": bool(ctx.thorough),
        "exhaustive_note": "thorough: all 63x63 two-generation format-subset sequences in folder mode are enumerated on the implementation" if ctx.thorough else "",
        "driver_calls": r["driver_calls"],
    }
    return fw.finish(ctx, cov, fails, r["diffs"], assumptions=["history-relative path identity (no renames) for the monitor", "digest inequality of the two contents used (observed, not assumed)"])


def replay(ctx, path):
    d = json.load(open(path))
    for f in d.get("failures", []) + d.get("correspondence_diffs", []):
        sc = f.get("replay")
        if isinstance(sc, dict) and "ops" in sc:
            r = pool.run_pool([sc], monitor=monitor)
            print(json.dumps({"diffs": [x["what"] for x in r["diffs"]], "fails": [x["what"] for x in r["fails"]]}, indent=1, ensure_ascii=False))
    return 0
