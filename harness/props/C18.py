"""C18 — a flattened manifest faithfully summarises the history."""
import random, json
from . import _scn
from .. import gen, oracles as O, rt, largefiles, mutate


def build(seed):
    rnd = random.Random(seed)
    fs = gen.FsSim()
    gen.gen_tree(rnd, fs, max_depth=rnd.choice([1, 2]))
    tree = gen.tree_dict(fs)
    ops = []
    t = 0
    n = rnd.randint(1, 5)
    restore_after = []
    # histories with their own ignore patterns, with matching files in the tree
    pats = rnd.sample(["*.tmp", "*.bak", "keep.bak", "tmp", "data.*", "*.mov", "d?e.txt"], rnd.randint(1, 2)) if rnd.random() < 0.4 else []
    if pats and rnd.random() < 0.6:
        fs.files.setdefault("data.tmp", "scratch")
        fs.files.setdefault("keep.bak", "backup")
        tree = gen.tree_dict(fs)
    for i in range(n):
        t += 1
        op = {"op": "create", "at": "", "h": gen.fmt_subset(rnd, (1, 3)), "now": "2026-03-01 12:00:%02d" % t}
        if pats and (i == 0 or rnd.random() < 0.3):
            op["i"] = pats if i == 0 else [rnd.choice(["*.bak", "c.bin", "a"])]
        files = sorted(fs.files)
        if i > 0 and rnd.random() < 0.3 and files:
            op["sf"] = rnd.sample(files, min(len(files), rnd.randint(1, 2)))
        if rnd.random() < 0.15:
            op["n"] = True
        ops.append(op)
        r = rnd.random()
        files = sorted(fs.files)
        if r < 0.3 and files:  # a failed generation follows
            p = rnd.choice(files)
            orig = fs.files[p]
            fs.files[p] = fs.files[p] + "!"
            ops.append({"op": "write", "path": p, "data": gen.enc(fs.files[p])})
            if rnd.random() < 0.4 and i + 1 < n:
                # ... and the file is put back afterwards (the generation after the failed one adds a format)
                restore_after.append((len(ops), p, orig))
        elif r < 0.45:
            p = rnd.choice(["late1.txt", "late2.txt", "s/late3.txt"])
            if p not in fs.files and p.split("/")[0] not in fs.files:
                # (a late file may be a COPY of a recorded one: same content, another path, both stay listed)
                fs.files[p] = fs.files[rnd.choice(sorted(fs.files))] if fs.files and rnd.random() < 0.4 else "late " + p
                ops.append({"op": "write", "path": p, "data": gen.enc(fs.files[p])})
    # restores: after the create that follows the damage
    for pos, p, orig in reversed(restore_after):
        nxt = next((k for k in range(pos, len(ops)) if ops[k]["op"] == "create"), None)
        if nxt is not None:
            ops.insert(nxt + 1, {"op": "write", "path": p, "data": gen.enc(orig)})
            fs.files[p] = orig
    if rnd.random() < 0.25 and len(fs.files) > 1:
        lost = rnd.choice(sorted(fs.files))
        del fs.files[lost]
        ops.append({"op": "rm", "path": lost})  # the packing list still has to carry every path ever recorded
    if rnd.random() < 0.2:
        ops.append({"op": "orphan", "hist": "", "other_name": True})  # flatten reads the source history, it never repairs it
    fl = {"op": "flatten", "at": ""}
    if rnd.random() < 0.3:
        fl["n"] = True  # (flatten never writes directory records, with or without -n)
    if rnd.random() < 0.2:
        fl["i"] = [rnd.choice(["*.bak", "late1.txt", "*.txt", "s"])]  # patterns given to flatten are recorded, they drop no record
    ops.append(fl)
    ops.append({"op": "verifypl", "at": ""})
    allpats = [x for o in ops for x in o.get("i", [])]
    files = [p for p in sorted(fs.files) if not mutate.hidden(p, allpats)]  # an ignored file may change freely
    if files and rnd.random() < 0.7:
        p = rnd.choice(files)
        ops.append({"op": "write", "path": p, "data": "ALTERED AFTER FLATTEN"})
        ops.append({"op": "verifypl", "at": ""})
    sc = {"seed": seed, "profile": "c18", "root": "root", "tree": tree, "ops": ops}
    if rnd.random() < 0.3:
        gen.unsteady_clock(sc, rnd)
    return sc


def monitor(sc, res):
    fails = []
    last_flat = None
    altered_after = False
    failed_state = False
    for st in res["steps"]:
        op, io_ = st["op"], st["impl"]
        if op["op"] == "write" and last_flat is not None:
            altered_after = True
        if io_ is None:
            continue
        if op["op"] == "flatten":
            if io_["exc"] is not None:
                fails.append({"what": f"flatten aborted with {io_['exc']}", "replay": sc})
                continue
            if io_["asc_before"] != io_["asc_after"] or io_["media_before"] != io_["media_after"]:
                fails.append({"what": "flatten modified the source tree / history", "replay": sc})
            hs = O.histories(io_["asc_before"])
            root = hs.get("", {"gens": []})
            if len(hs) > 1:
                continue  # nested histories: outside the property
            # expectation from the manifests, read independently
            exp = {}
            order = []
            for num, name, b in root["gens"]:
                m = O.parse_manifest_bytes(b)
                for r in m["records"]:
                    if r["kind"] != "file" or r.get("prev"):
                        continue
                    for e in r["entries"]:
                        if e["action"] == "failed":
                            continue
                        if r["path"] not in exp:
                            exp[r["path"]] = {}
                            order.append(r["path"])
                        exp[r["path"]].setdefault(e["fmt"], e["digest"])
            dest = io_.get("flatten_dest", {})
            pls = [k for k in dest if k.endswith(".mhl")]
            if not exp:
                continue
            if len(pls) != 1:
                fails.append({"what": f"flatten wrote {len(pls)} manifests: {sorted(dest)}", "replay": sc})
                continue
            m = O.parse_manifest_bytes(dest[pls[0]])
            last_flat = m
            if m["process"] != "flatten":
                fails.append({"what": f"packing list process type {m['process']!r}", "replay": sc})
            if any(r["kind"] == "dir" for r in m["records"]):
                fails.append({"what": "packing list contains directory records", "replay": sc})
            got = {}
            for r in m["records"]:
                if r["path"] in got:
                    fails.append({"what": f"packing list has two records for {r['path']!r}", "replay": sc})
                d = {}
                for e in r["entries"]:
                    if e["fmt"] in d:
                        fails.append({"what": f"packing list record {r['path']!r} has two {e['fmt']} digests", "replay": sc})
                    d[e["fmt"]] = e["digest"]
                got[r["path"]] = d
            if got != exp:
                fails.append({"what": f"packing list digests {got} differ from the earliest non-failed digest per (path, format) in the history {exp}", "replay": sc})
        if op["op"] == "verifypl" and last_flat is not None:
            if io_["exc"] is not None:
                fails.append({"what": f"verify -pl aborted with {io_['exc']}", "replay": sc})
            elif not altered_after and _tree_matches(sc, res, st) and io_["exit"] != 0:
                fails.append({"what": f"verify -pl on the unchanged tree exits {io_['exit']}: {io_['out'][-200:]!r}", "replay": sc})
            elif altered_after and io_["exit"] == 0:
                fails.append({"what": "verify -pl on an altered tree exits 0", "replay": sc})
    return fails


def _tree_matches(sc, res, st):
    """the tree equals what the packing list describes: no file altered since its first recording (failed generations
    mean the tree already deviates), nothing unrecorded"""
    ops = [s["op"] for s in res["steps"]]
    # any write before the flatten makes the expectation depend on which content was recorded first: only judge the
    # plain case (no write at all before this verify -pl)
    idx = res["steps"].index(st)
    return not any(o["op"] in ("write", "rm", "mv") for o in ops[:idx]) and not any(o["op"] == "create" and o.get("sf") for o in ops[:idx])


def same_destination_cases():
    """two histories flattened into the SAME destination folder on the same day: each packing list speaks for its own
    history only - its pattern list is that history's, and a recorded file altered afterwards fails verify -pl"""
    import os, glob
    fails = []
    with rt.tempdir("c18d_") as d:
        a, b, dest = os.path.join(d, "cardA"), os.path.join(d, "cardB"), os.path.join(d, "lists")
        rt.mk(a, {"x.mov": "x", "scratch.bak": "s"})
        rt.mk(b, {"y.mov": "y", "keep.bak": "k", "sub/z.bak": "z"})
        os.makedirs(dest)
        rt.run("create", [a, "-h", "md5", "-i", "*.bak"], "2026-03-01 12:00:01")
        rt.run("create", [b, "-h", "md5"], "2026-03-01 12:00:02")
        x1 = rt.run("flatten", [a, dest], "2026-03-01 12:00:03")
        x2 = rt.run("flatten", [b, dest], "2026-03-01 12:00:04")
        pls = sorted(glob.glob(os.path.join(dest, "*", "packinglist_cardB_*.mhl")))
        if x1.exit != 0 or x2.exit != 0 or len(pls) != 1:
            return [{"what": f"two flatten runs into one destination: exits {x1.exit}, {x2.exit}, packing lists of the second {pls}", "replay": {"case": "same destination"}}]
        m = rt.read_manifest(pls[0])
        if "*.bak" in m["ignore"]:
            fails.append({"what": f"the packing list of cardB (flattened into the folder that already holds cardA's) lists the patterns {m['ignore']}; '*.bak' belongs to cardA's history only", "replay": {"case": "same destination"}})
        got = sorted(r["path"] for r in m["records"])
        if got != ["keep.bak", "sub/z.bak", "y.mov"]:
            fails.append({"what": f"the packing list of cardB records {got}", "replay": {"case": "same destination"}})
        x = rt.run("verify", [b, "-pl", pls[0]], "2026-03-01 12:00:05")
        if x.exit != 0:
            fails.append({"what": f"verify -pl of the unchanged cardB exits {x.exit}", "replay": {"case": "same destination"}})
        open(os.path.join(b, "keep.bak"), "w").write("ALTERED")
        x = rt.run("verify", [b, "-pl", pls[0]], "2026-03-01 12:00:06")
        if x.exit != 11:
            fails.append({"what": f"verify -pl after altering the recorded keep.bak of cardB exits {x.exit}, expected 11 (the list was written into a folder that already held the packing list of a history ignoring *.bak)", "replay": {"case": "same destination"}})
    return fails


def run(ctx):
    scs = [build(ctx.seed * 1000403 + i) for i in range(ctx.scale(120, 2000))]
    # packing lists whose number of records sits on round numbers (writers that batch their output)
    for n in (127, 128, 129, 256):
        t = {"f%03d.bin" % i: "content %d" % i for i in range(n)}
        scs.insert(0, {"profile": "c18-count", "impl_only": True, "root": "root", "tree": t, "ops": [{"op": "create", "at": "", "h": ["md5"], "now": "2026-03-01 12:00:01"}, {"op": "flatten", "at": ""}, {"op": "verifypl", "at": ""}]})
    # copies: a path recorded for the first time with the content of another recorded path, by a generation that does
    # not list that other path (-sf), or after the other one went missing - both paths stay in the packing list
    for variant in ("sf", "lost"):
        ops = [{"op": "create", "at": "", "h": ["md5", "c4"], "now": "2026-03-01 12:00:01"}, {"op": "write", "path": "s/b.txt", "data": "same bytes"}]
        if variant == "sf":
            ops += [{"op": "create", "at": "", "h": ["md5"], "sf": ["s/b.txt"], "now": "2026-03-01 12:00:02"}]
        else:
            ops += [{"op": "rm", "path": "a.txt"}, {"op": "create", "at": "", "h": ["md5"], "now": "2026-03-01 12:00:02"}]
        ops += [{"op": "flatten", "at": ""}, {"op": "verifypl", "at": ""}]
        scs.insert(0, {"profile": "c18-copy", "root": "root", "tree": {"a.txt": "same bytes", "k.txt": "k", "s/": None}, "ops": ops})
    return _scn.run_scn(ctx, scs, monitor, extra_fails=largefiles.extra(ctx) + same_destination_cases(), assumptions=["histories without nested child histories and without renames (the property's domain)"])


def replay(ctx, path):
    return _scn.replay_generic(ctx, path, monitor)
