"""C08 — nested histories partition the tree and reference each other correctly."""
from . import _scn
from .. import monitors as M


def mon(sc, res):
    # the partition itself is the C02 oracle (deepest history, exactly one record); C08 adds references / written-iff
    return M.m_c08(sc, res) + [f for f in M.m_c02(sc, res) if "recorded in history" in f["what"] or "records in the new generation" in f["what"] or "escapes" in f["what"]]


def run(ctx):
    scs = _scn.standard_pool(ctx, ctx.scale(25, 400), ctx.scale(80, 1200))
    # patterns are matched relative to the COMMAND root: an anchored pattern of the outer run, carried into the nested
    # generations, says nothing about paths relative to those nested roots
    for pat in ("/Proxies", "/B", "Proxies/p.mov"):
        scs.insert(0, {"profile": "c08-anchored", "root": "root", "tree": {"A/Proxies/p.mov": "p", "A/a.mov": "a", "A/B/b.mov": "b", "top.txt": "t"},
                       "ops": [{"op": "create", "at": "A/Proxies", "h": ["md5"], "now": "2026-03-01 12:00:01"}, {"op": "create", "at": "A/B", "h": ["md5"], "now": "2026-03-01 12:00:02"},
                               {"op": "create", "at": "A", "h": ["md5"], "now": "2026-03-01 12:00:03"}, {"op": "create", "at": "", "h": ["md5"], "now": "2026-03-01 12:00:04", "i": [pat]},
                               {"op": "create", "at": "", "h": ["md5"], "now": "2026-03-01 12:00:05"}, {"op": "create", "at": "A", "h": ["sha1"], "now": "2026-03-01 12:00:06"},
                               {"op": "verify", "at": ""}, {"op": "info", "at": ""}]})
    # rename detection below nested histories: the root folder of a history two levels down is renamed; every history
    # names the old path relative to its own root
    for deep in (False, True):
        tree = {"Card/Clips/x.mov": "x", "Card/Clips/sub/z.mov": "z", "Card/y.mov": "y", "top.txt": "t"}
        ops = [{"op": "create", "at": "Card/Clips", "h": ["md5"], "now": "2026-03-01 12:00:01"}, {"op": "create", "at": "Card", "h": ["md5"], "now": "2026-03-01 12:00:02"},
               {"op": "create", "at": "", "h": ["md5"], "now": "2026-03-01 12:00:03"},
               {"op": "mv", "src": "Card/Clips/sub" if deep else "Card/Clips", "dst": "Card/Clips/takes" if deep else "Card/Takes"},
               {"op": "create", "at": "", "h": ["md5"], "now": "2026-03-01 12:00:04", "dr": True}, {"op": "verify", "at": ""}]
        scs.insert(0, {"profile": "c08-renamed-below", "impl_only": True, "root": "root", "tree": tree, "ops": ops})
    # -sf names a file of a nested history whose folder a recorded pattern of the enclosing history ignores: the named file
    # is sealed where it belongs, and the histories on the way get their generations
    scs.insert(0, {"profile": "c08-sf-into-ignored", "root": "root", "tree": {"B/BB/y.txt": "y", "B/BB/z.txt": "z", "B/x.txt": "x", "t.txt": "t"},
                   "ops": [{"op": "create", "at": "B/BB", "h": ["md5"], "now": "2026-03-01 12:00:01"}, {"op": "create", "at": "B", "h": ["md5"], "now": "2026-03-01 12:00:02"},
                           {"op": "create", "at": "", "h": ["md5"], "now": "2026-03-01 12:00:03", "i": ["BB"]}, {"op": "create", "at": "", "h": ["md5"], "now": "2026-03-01 12:00:04", "sf": ["B/BB/y.txt"]},
                           {"op": "info", "at": ""}]})
    # -sf naming files of sibling histories that have the same path relative to their own history root
    for sf in (["Cards/A001/index.xml", "Cards/A002/index.xml"], ["Cards/A001/index.xml", "Cards/A002/index.xml", "index.xml", "Cards/A001/index.xml"], ["Cards"]):
        tree = {"Cards/A001/index.xml": "one", "Cards/A002/index.xml": "two", "Cards/A002/clip.mov": "c", "index.xml": "top", "Cards/index.xml": "mid"}
        ops = [{"op": "create", "at": "Cards/A001", "h": ["md5"], "now": "2026-03-01 12:00:01"}, {"op": "create", "at": "Cards/A002", "h": ["md5"], "now": "2026-03-01 12:00:02"},
               {"op": "create", "at": "", "h": ["md5"], "now": "2026-03-01 12:00:03"}, {"op": "create", "at": "", "h": ["md5", "sha1"], "now": "2026-03-01 12:00:04", "sf": sf},
               {"op": "verify", "at": ""}]
        scs.insert(0, {"profile": "c08-sf-namesakes", "root": "root", "tree": tree, "ops": ops})
    return _scn.run_scn(ctx, scs, mon, witness_ids=("D5b", "D4a"))


def replay(ctx, path):
    return _scn.replay_generic(ctx, path, mon)
