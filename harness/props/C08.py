"""C08 — nested histories partition the tree and reference each other correctly."""
from . import _scn
from .. import monitors as M


def mon(sc, res):
    # the partition itself is the C02 oracle (deepest history, exactly one record); C08 adds references / written-iff
    return M.m_c08(sc, res) + [f for f in M.m_c02(sc, res) if "recorded in history" in f["what"] or "records in the new generation" in f["what"] or "escapes" in f["what"]]


def run(ctx):
    scs = _scn.standard_pool(ctx, ctx.scale(25, 400), ctx.scale(80, 1200))
    # patterns are matched relative to the COMMAND root: an anchored pattern of the outer run, carried into the nested
    # generations, says nothing about paths relative to those nested roots
    for pat in ("/Proxies", "/B", "Proxies/p.mov"):
        scs.insert(0, {"profile": "c08-anchored", "root": "root", "tree": {"A/Proxies/p.mov": "p", "A/a.mov": "a", "A/B/b.mov": "b", "top.txt": "t"},
                       "ops": [{"op": "create", "at": "A/Proxies", "h": ["md5"], "now": "2026-03-01 12:00:01"}, {"op": "create", "at": "A/B", "h": ["md5"], "now": "2026-03-01 12:00:02"},
                               {"op": "create", "at": "A", "h": ["md5"], "now": "2026-03-01 12:00:03"}, {"op": "create", "at": "", "h": ["md5"], "now": "2026-03-01 12:00:04", "i": [pat]},
                               {"op": "create", "at": "", "h": ["md5"], "now": "2026-03-01 12:00:05"}, {"op": "create", "at": "A", "h": ["sha1"], "now": "2026-03-01 12:00:06"},
                               {"op": "verify", "at": ""}, {"op": "info", "at": ""}]})
    return _scn.run_scn(ctx, scs, mon, witness_ids=("D5b", "D4a"))


def replay(ctx, path):
    return _scn.replay_generic(ctx, path, mon)
