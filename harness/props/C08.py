"""C08 — nested histories partition the tree and reference each other correctly."""
from . import _scn
from .. import monitors as M


def mon(sc, res):
    # the partition itself is the C02 oracle (deepest history, exactly one record); C08 adds references / written-iff
    return M.m_c08(sc, res) + [f for f in M.m_c02(sc, res) if "recorded in history" in f["what"] or "records in the new generation" in f["what"] or "escapes" in f["what"]]


def run(ctx):
    scs = _scn.standard_pool(ctx, ctx.scale(25, 400), ctx.scale(80, 1200))
    return _scn.run_scn(ctx, scs, mon, witness_ids=("D5b", "D4a"))


def replay(ctx, path):
    return _scn.replay_generic(ctx, path, mon)
