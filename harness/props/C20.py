"""C20 — the background update check can never change or stall a command."""
import os, sys, json, time, subprocess, random, shutil
from concurrent.futures import ThreadPoolExecutor
from .. import rt, framework as fw
from . import _scn

NOTICE = "Please update to the latest ascmhl version using `pip3 install -U ascmhl`."
BEHAVIOURS = ["newer", "older", "same", "pre", "dev", "garbage", "notag", "list", "nojson", "http404", "http500", "connerr", "timeout", "oserror", "slow", "late", "hang", "garbage_slow", "notag_slow", "longtag", "hugetag", "digittag", "dottag", "srv:ok", "srv:stall_headers", "srv:stall_body", "srv:stall_midbody", "srv:close_midbody", "srv:trickle"]
PY = "/venv/bin/python"


def run_case(behav, group, args, timeout=20, slow=0, clock=None):
    t = time.time()
    try:
        p = subprocess.run([PY, os.path.join(rt.VERIF, "harness", "updater_case.py"), rt.REPO, behav, group] + args, capture_output=True, text=True, timeout=timeout, env=dict(os.environ, VERIF_SLOW=str(slow or ""), VERIF_CLOCK=clock or ""))
    except subprocess.TimeoutExpired:
        return {"timeout": True, "wall": time.time() - t}
    wall = time.time() - t
    lines = [l for l in p.stdout.strip().split("\n") if l.startswith("{")]
    if not lines:
        return {"crash": p.stderr[-500:], "rc": p.returncode, "wall": wall}
    d = json.loads(lines[-1])
    d["wall"] = wall
    d["stderr_tail"] = p.stderr[-200:]
    return d


def run(ctx):
    _scn.build_and_audit(ctx)
    fails, evals = [], 0
    base = rt.mktemp("c20_")
    samples = []
    try:
        # worlds: fresh tree (create -> 0), sealed+altered (verify -> 11), sealed+removed (create -> 10), no history (info -> 30)
        def world(name, files, seal=True, alter=None, remove=None):
            r = os.path.join(base, name, "root")
            os.makedirs(r)
            rt.mk(r, files)
            if seal:
                rt.run("create", [r, "-h", "md5"], "2026-03-01 12:00:00")
            if alter:
                rt.mk(r, {alter: "ALTERED"})
            if remove:
                os.remove(os.path.join(r, remove))
            return r

        cases = []
        w_fresh = lambda i: world(f"fresh{i}", {"a.txt": "a", "s/b.txt": "b"}, seal=False)
        w_sealed = world("sealed", {"a.txt": "a", "s/b.txt": "b"})
        w_alt = world("alt", {"a.txt": "a", "s/b.txt": "b"}, alter="a.txt")
        w_rem = world("rem", {"a.txt": "a", "s/b.txt": "b"}, remove="a.txt")
        w_none = world("none", {"a.txt": "a"}, seal=False)
        behs = BEHAVIOURS if ctx.thorough else BEHAVIOURS
        plan = []
        for b in behs:
            plan.append((b, "main", ["info", w_sealed], 0))
            plan.append((b, "main", ["diff", w_rem], 10))
            plan.append((b, "main", ["info", w_none], 30))
            plan.append((b, "debug", ["verify", w_sealed], 0))
            plan.append((b, "debug", ["verify", w_alt], 11))
            plan.append((b, "debug", ["hash", "-h", "md5", os.path.join(w_sealed, "a.txt")], 0))
            # verbose runs: the command's diagnostic channel is standard output, the checker must stay off it
            plan.append((b, "main", ["info", "-v", w_sealed], 0))
            plan.append((b, "debug", ["verify", "-v", w_sealed], 0))
        plan = [c + (0,) for c in plan]
        # a command that runs longer than the grace period: the answer may come before, during or never
        for b in ("older", "newer", "slow", "hang", "connerr", "garbage", "srv:stall_body"):
            plan.append((b, "main", ["info", w_sealed], 0, 1.4))
            plan.append((b, "debug", ["verify", w_alt], 11, 1.4))
        plan = [c + (None,) for c in plan]
        for b in ("hang", "late", "newer", "srv:stall_headers"):
            plan.append((b, "main", ["info", w_sealed], 0, 0, "stopped"))
            plan.append((b, "main", ["info", w_sealed], 0, 0.3, "backwards"))
            plan.append((b, "debug", ["verify", w_sealed], 0, 0.3, "backwards"))
        # references without the checker
        refs = {}
        for _, _, args, _, slow, _clock in plan:
            k = json.dumps([args, slow])
            if k not in refs:
                refs[k] = run_case("none", "ref", args, slow=slow)
        with ThreadPoolExecutor(max_workers=12) as ex:
            results = list(ex.map(lambda c: run_case(c[0], c[1], c[2], slow=c[4], clock=c[5]), plan))
        for (b, group, args, expexit, slow, clock), res in zip(plan, results):
            evals += 1
            ref = refs[json.dumps([args, slow])]
            desc = f"server behaviour {b!r}, {'ascmhl' if group == 'main' else 'ascmhl-debug'} {' '.join(os.path.basename(a) if a.startswith('/') else a for a in args)}" + (f" (the command itself takes {slow} s)" if slow else "") + (" (wall clock standing still)" if clock == "stopped" else (" (wall clock set back one hour while the command runs)" if clock else ""))
            rp = {"behaviour": b, "group": group, "args": [a.replace(base, "<base>") for a in args], "command_takes_seconds": slow}
            if res.get("timeout"):
                fails.append({"what": f"{desc}: the process did not terminate within 20 s (the update check stalls the command)", "replay": rp})
                continue
            if "crash" in res:
                fails.append({"what": f"{desc}: driver crashed rc={res['rc']} {res['crash'][-200:]}", "replay": rp})
                continue
            if res["exit"] != ref["exit"] or res["exc"] != ref["exc"] or ref["exit"] != expexit:
                fails.append({"what": f"{desc}: exit code {res['exit']} (exception {res['exc']}), the command itself exits {ref['exit']} (expected {expexit})", "replay": rp})
            out = res["stdout"]
            body = out
            n_notice = out.count(NOTICE)
            if n_notice:
                body = out.replace(NOTICE + "\n", "", 1)
            if body != ref["stdout"] or n_notice > 1 or (n_notice == 1 and not out.endswith(NOTICE + "\n")):
                fails.append({"what": f"{desc}: standard output differs from the command's own output (apart from one trailing notice): {out[-200:]!r} vs {ref['stdout'][-200:]!r}", "replay": rp})
            if n_notice and (b not in ("newer", "slow", "srv:ok") or ref["exit"] != 0):
                fails.append({"what": f"{desc}: update notice printed although no strictly newer final release was reported / the command failed", "replay": rp})
            if res["dt"] > ref["dt"] + 1.0 + 0.8 or res["wall"] > ref["wall"] + 1.0 + 2.0:
                fails.append({"what": f"{desc}: took {res['dt']:.2f}s in-command / {res['wall']:.2f}s wall, the command alone {ref['dt']:.2f}s / {ref['wall']:.2f}s: delayed by more than the one second join", "replay": rp})
            if len(samples) < 4 and b in ("hang", "newer", "garbage", "late"):
                samples.append({"behaviour": b, "group": group, "cmd": args[0], "exit": res["exit"], "dt": round(res["dt"], 2), "notice": bool(n_notice)})
    finally:
        shutil.rmtree(base, ignore_errors=True)
    cov = {"evaluations": evals, "distinct_nontrivial": evals,
           "rule": "one evaluation = one (server behaviour, CLI group, command, world) run in a FRESH interpreter with requests.get stubbed before the import that starts the checker thread; compared with the same command run without the checker: exit code, stdout minus one trailing notice, duration <= +1 s (+ scheduling slack); 27 behaviours (six of them over a real local socket) x 8 command/world combinations (two of them with -v)",
           "samples": samples, "input_distribution": {"behaviours": BEHAVIOURS, "commands": ["info(0)", "diff(10)", "info(30)", "verify(0)", "verify(11)", "hash(0)", "info -v(0)", "verify -v(0)"]},
           "monitor": {"cases": evals, "failing": len(fails)}, "exhaustive": False}
    return fw.finish(ctx, cov, fails, [], assumptions=["CPython's scheduler and click's callback plumbing are exercised, not modelled", "timing slack 0.8 s in-process / 2.0 s process wall on top of the 1 s join"])


def replay(ctx, path):
    print(open(path).read()[:3000])
    return run(ctx)
