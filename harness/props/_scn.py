"""Common driver for the scenario-based properties."""
import json, os, random, hashlib, re
from .. import framework as fw, pool, gen, witnesses, rt


def build_and_audit(ctx, lean_module=None):
    lean_module = lean_module or ctx.prop
    ok = fw.regen(ctx) and fw.lake_build(ctx, ["MhlModel"] + ["MhlProps." + m for m in fw.modules_for(lean_module)])
    if ok:
        fw.audit(ctx)
        if ctx.thorough:
            fw.leanchecker(ctx)
    return ok


def standard_pool(ctx, n_general, n_nested, n_long=0, tweak=None):
    scs = []
    for s in range(n_general):
        scs.append(gen.gen_scenario(ctx.seed * 1000003 + s, "general"))
    for s in range(n_nested):
        scs.append(gen.gen_nested(ctx.seed * 1000033 + s))
    for s in range(n_long):
        scs.append(gen.gen_longhist(ctx.seed * 1000037 + s))
    # every sixth scenario runs with a wall clock that jumps back between generations
    crnd = random.Random(ctx.seed * 7 + 99)
    for i, sc in enumerate(scs):
        if i % 6 == 5:
            gen.unsteady_clock(sc, crnd)
    if tweak:
        for sc in scs:
            tweak(sc)
    return scs


def run_scn(ctx, scenarios, monitor, witness_ids=(), rule="", assumptions=None, diff_filter=None, extra_fails=None, nontrivial=None, extra_cov=None, shrink_pred=None, extra_diffs=None):
    build_and_audit(ctx)
    corpus = pool.corpus_scenarios(ctx.prop)
    scs = corpus + list(scenarios)
    r = pool.run_pool(scs, monitor=monitor, diff_filter=diff_filter)
    fails = list(r["fails"]) + list(extra_fails or [])
    r["diffs"] = list(r["diffs"]) + list(extra_diffs or [])
    for w in witness_ids:
        try:
            msgs = witnesses.ALL[w]()
        except Exception as e:
            msgs = [f"witness crashed: {e!r}"]
        for msg in msgs:
            fails.append({"what": f"regression of fixed defect {w}: {msg}", "replay": {"witness": f"harness/witnesses.py:{w}"}, "signature": None})
    # minimise the first unknown failure / disagreement (so that the replay is small)
    for lst, kind in ((fails, "fail"), (r["diffs"], "diff")):
        # scenarios that carry harness-side ground truth (keys c03, c05, c09, ...) are not shrunk: dropping an operation
        # would silently invalidate the ground truth and the "minimised" replay would fail on correct code as well
        if lst and isinstance(lst[0].get("replay"), dict) and "ops" in lst[0]["replay"] and len(lst[0]["replay"]["ops"]) > 2 \
                and not any(re.fullmatch(r"c\d\d", k) for k in lst[0]["replay"]) and not re.match(r"c\d\d-", str(lst[0]["replay"].get("profile", ""))):
            target = lst[0]
            key = target["what"][:40]

            def still(sc, key=key, kind=kind):
                rr = pool.run_pool([sc], monitor=monitor, diff_filter=diff_filter, with_model=(kind == "diff"))
                src = rr["fails"] if kind == "fail" else rr["diffs"]
                return any(x["what"][:40] == key for x in src)

            try:
                small = pool.shrink(target["replay"], still, budget=ctx.scale(25, 120))
                target["replay_minimised"] = small
            except Exception:
                pass
    distinct = set()
    for sc in scs:
        distinct.add(hashlib.sha1(json.dumps({"t": sc["tree"], "o": [{k: v for k, v in o.items() if k != "now"} for o in sc["ops"]]}, sort_keys=True, ensure_ascii=False).encode()).hexdigest())
    nt = len(distinct) if nontrivial is None else nontrivial(scs)
    sample = scs[len(corpus)] if len(scs) > len(corpus) else scs[0]
    cov = {
        "evaluations": r["n"],
        "distinct_nontrivial": nt,
        "rule": rule or "one evaluation = one multi-operation scenario executed on the real code (in-process CLI on a real temp dir) and on the Lean model and judged by the property monitor; distinct = distinct (tree, operation list) after removing clock values; every scenario has at least one create plus further operations",
        "samples": [{"root": sample.get("root"), "tree": sample["tree"], "ops": sample["ops"]}],
        "input_distribution": {"scenarios": len(scs), "corpus": len(corpus), "profiles": _count(scs), "stats": r["stats"], "exits": r["exits"]},
        "monitor": {"cases": r["n"], "failing": len(fails)},
        "driver_calls": r["driver_calls"],
        "exhaustive": False,
    }
    if extra_cov:
        cov.update(extra_cov)
    return fw.finish(ctx, cov, fails, r["diffs"], assumptions=assumptions)


def _count(scs):
    c = {}
    for s in scs:
        c[s.get("profile", "custom")] = c.get(s.get("profile", "custom"), 0) + 1
    return c


def replay_generic(ctx, path, monitor):
    d = json.load(open(path))
    n = 0
    for f in d.get("failures", []) + d.get("correspondence_diffs", []):
        sc = f.get("replay_minimised") or f.get("replay")
        if isinstance(sc, dict) and "ops" in sc:
            r = pool.run_pool([sc], monitor=monitor)
            print(json.dumps({"diffs": [x["what"] for x in r["diffs"]], "fails": [x["what"] for x in r["fails"]]}, indent=1, ensure_ascii=False))
            n += len(r["diffs"]) + len(r["fails"])
        elif isinstance(sc, dict) and "witness" in sc:
            w = sc["witness"].split(":")[-1]
            msgs = witnesses.ALL[w]()
            print(w, msgs)
            n += len(msgs)
    if n:
        print(f"VIOLATION property={ctx.prop} replay={path}")
        return 1
    return 0
