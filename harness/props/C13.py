"""C13 — results do not depend on where the tree is mounted or how the OS lists it."""
import os, random, json, shutil, contextlib
from . import _scn
from .. import gen, rt, scenario, framework as fw, pool, witnesses

LOCATIONS = [".staging/root", "plain/root", "ascmhl/root", "with space/root", "media/cache/root", "tmp/x.tmp/root", "a/b/c/d/root", "Clips/A/root", "Project [rushes]/root", "what?/st*r/root", "[ab]/root"]


def normalise_mtimes(root, t=1700000000):
    for dp, dns, fns in os.walk(root, topdown=False):
        if "ascmhl" in os.path.relpath(dp, root).split(os.sep):
            continue
        for fn in fns:
            os.utime(os.path.join(dp, fn), (t, t))
        os.utime(dp, (t, t))


@contextlib.contextmanager
def listing_order(seed):
    """make os.listdir / os.walk / os.scandir return a seeded permutation"""
    if seed is None:
        yield
        return
    o_listdir, o_walk, o_scandir = os.listdir, os.walk, os.scandir

    def perm(key, xs):
        r = random.Random(f"{seed}:{key}")
        xs = list(xs)
        r.shuffle(xs)
        return xs

    def listdir(p="."):
        return perm(os.path.basename(os.fspath(p)), sorted(o_listdir(p)))

    def walk(top, topdown=True, onerror=None, followlinks=False):
        for dp, dns, fns in o_walk(top, topdown, onerror, followlinks):
            d2 = perm("d" + os.path.basename(dp), sorted(dns))
            dns[:] = d2
            yield dp, dns, perm("f" + os.path.basename(dp), sorted(fns))

    class _Scan:
        def __init__(self, entries):
            self._it = iter(entries)

        def __iter__(self):
            return self

        def __next__(self):
            return next(self._it)

        def __enter__(self):
            return self

        def __exit__(self, *a):
            return False

        def close(self):
            pass

    def scandir(p="."):
        with o_scandir(p) as it:
            ents = sorted(it, key=lambda e: e.name)
        return _Scan(perm("s" + os.path.basename(os.fspath(p)), ents))

    os.listdir, os.walk, os.scandir = listdir, walk, scandir
    try:
        yield
    finally:
        os.listdir, os.walk, os.scandir = o_listdir, o_walk, o_scandir


def run_world(sc, base, location, order_seed, spell=None, enclosing=None):
    """run the scenario's ops with the root placed at base/location; returns {relpath in ascmhl folders: bytes}, exits.
    enclosing = ignore patterns: the folder ABOVE the root is a sealed volume of its own (sealed with these patterns
    before the tree arrives) - where a tree is mounted includes what its ancestors happen to contain"""
    root = os.path.join(base, location)
    if enclosing:
        vol = os.path.dirname(root)
        os.makedirs(vol)
        rt.mk(vol, {"volume notes.txt": "n", "other/clip.wav": "w"})
        rt.run("create", [vol, "-h", "md5"] + [x for p_ in enclosing for x in ("-i", p_)], "2026-02-01 10:00:00")
    os.makedirs(root)
    sc2 = dict(sc)
    imp = scenario.Impl.__new__(scenario.Impl)
    imp.sc, imp.base, imp.root = sc2, base, root
    imp.iifile = os.path.join(base, "_ii_" + str(abs(hash(location))) + ".txt")
    imp.flat_n = 0
    items = list(sc["tree"].items())
    if spell or enclosing:
        items.reverse()  # (the second world is filled in the opposite order: other inode numbers for the same names)
    for p, d in items:
        rt.mk(root, {p: scenario.data_bytes(d)})
    exits = []
    for op in sc["ops"]:
        op = dict(op)
        if spell and op["op"] in ("create", "verify", "diff", "verifydh"):
            op["spell"] = spell
        if op["op"] in ("create",):
            normalise_mtimes(root)
        with listing_order(order_seed):
            io_ = imp.run(op)
        if io_ is not None:
            exits.append((op["op"], io_["exit"], io_["exc"]))
    return imp.asc_snapshot(), exits, root


def scenario_for(seed):
    rnd = random.Random(seed)
    if rnd.random() < 0.5:
        sc = gen.gen_nested(seed)
    else:
        sc = gen.gen_scenario(seed)
    # keep only creates and tree edits (no flatten, whose destination is location dependent); -i with names of LOCATIONS' parents
    ops = [o for o in sc["ops"] if o["op"] in ("create", "write", "rm", "mv", "mkdir")]
    for o in ops:
        o.pop("spell", None)
        o.pop("sf_raw", None)
        if o["op"] == "create" and rnd.random() < 0.3:
            o["i"] = list(o.get("i", [])) + [rnd.choice(["media", "cache", "*.tmp", "Clips", "with space", "plain", "a", "/tmp", "/home", "/media", "/tmp/"])]
    # names that differ only in case, and names whose order differs between code-point and locale/case-folded sorting
    for k, v in {"Case.txt": "upper", "case.txt": "lower", "Dd/x.txt": "x", "dd/y.txt": "y", "Zeta.txt": "Z", "alpha.txt": "a", "_under.txt": "u", "Ébène.txt": "e"}.items():
        if k.split("/")[0] not in sc["tree"] and k.split("/")[0] + "/" not in sc["tree"]:
            sc["tree"][k] = v
    sc["ops"] = ops + [{"op": "verify", "at": ""}]
    sc["root"] = "root"
    return sc


def run(ctx):
    _scn.build_and_audit(ctx)
    rnd = random.Random(ctx.seed * 31 + 13)
    fails, evals, samples = [], 0, []
    n = ctx.scale(45, 700)
    dist = {"locations": {}, "orders": 0, "spellings": {}}
    other_fs = []
    # rename detection where several vanished files have the content of one new file (a deleted file and a renamed one
    # with equal bytes): which of them becomes the previous path must not depend on where the tree is mounted
    dup = {"root": "root", "tree": {"a.txt": "same", "b.txt": "same", "c/d.txt": "same", "k.txt": "k"},
           "ops": [{"op": "create", "at": "", "h": ["md5"], "now": "2026-03-01 12:00:01"}, {"op": "rm", "path": "a.txt"}, {"op": "rm", "path": "c/d.txt"}, {"op": "mv", "src": "b.txt", "dst": "renamed.txt"},
                   {"op": "create", "at": "", "h": ["md5"], "now": "2026-03-01 12:00:02", "dr": True}, {"op": "create", "at": "", "h": ["sha1"], "now": "2026-03-01 12:00:03", "dr": True}], "c13_equal_only": True}
    # ... and where one vanished file has the content of several new ones (renamed, and a copy added)
    cop = {"root": "root", "tree": {"a.txt": "same", "k.txt": "k"},
           "ops": [{"op": "create", "at": "", "h": ["md5"], "now": "2026-03-01 12:00:01"}, {"op": "mv", "src": "a.txt", "dst": "renamed.txt"}, {"op": "write", "path": "c/copy of a.txt", "data": "same"},
                   {"op": "write", "path": "another copy.txt", "data": "same"}, {"op": "create", "at": "", "h": ["md5"], "now": "2026-03-01 12:00:02", "dr": True}], "c13_equal_only": True}
    fixed = [dup] * 6 + [cop] * 6
    for i in range(n + len(fixed)):
        sc = fixed[i] if i < len(fixed) else scenario_for(ctx.seed * 1000003 + i)
        base = rt.mktemp("c13_")
        try:
            loc1, loc2 = rnd.sample(LOCATIONS, 2)
            order = rnd.randint(1, 10**6)
            spell = rnd.choice([None, "slash", "relative", "cwd", "dot", "updir", "symlink"])
            a, ea, ra = run_world(sc, os.path.join(base, "w1"), loc1, None)
            encl = rnd.choice([["*.txt"], ["*.mov", "*.bin"], ["s", "A", "*.txt"], ["*"]]) if rnd.random() < 0.3 else None
            # every fourth case puts the second world on another kind of file system (disk instead of memory): what
            # the file system reports about a DIRECTORY (its size, its link count) is no part of the tree
            base2 = base
            if i % 4 == 1:
                import tempfile
                try:
                    base2 = tempfile.mkdtemp(prefix="mhlv_c13_", dir="/var/tmp")
                    other_fs.append(base2)
                    dist["other_file_system"] = dist.get("other_file_system", 0) + 1
                except OSError:
                    base2 = base
            b, eb, rb = run_world(sc, os.path.join(base2, "w2"), loc2, None, spell, encl)
            dist["enclosing_volume"] = dist.get("enclosing_volume", 0) + (1 if encl else 0)
            c, ec, rc = run_world(sc, os.path.join(base, "w3"), loc1, order)
            evals += 3
            dist["locations"][loc2] = dist["locations"].get(loc2, 0) + 1
            dist["orders"] += 1
            dist["spellings"][str(spell)] = dist["spellings"].get(str(spell), 0) + 1
            if a != b or ea != eb:
                diffk = sorted(k for k in set(a) | set(b) if a.get(k) != b.get(k))
                fails.append({"what": f"sealing the same tree at {loc1!r} and at {loc2!r} (spelling {spell}) gives different ascmhl folders / exit codes: {diffk[:3]} exits {ea} vs {eb}" + (f" (the folder above the second location is a volume sealed with -i {encl})" if encl else ""), "replay": {"scenario": sc, "loc1": loc1, "loc2": loc2, "spell": spell, "enclosing": encl}})
            if a != c or ea != ec:
                diffk = sorted(k for k in set(a) | set(c) if a.get(k) != c.get(k))
                fails.append({"what": f"sealing the same tree under another directory enumeration order (seed {order}) gives different ascmhl folders / exit codes: {diffk[:3]} exits {ea} vs {ec}", "replay": {"scenario": sc, "loc1": loc1, "order_seed": order}})
            # a sealed tree copied elsewhere verifies as at the original place
            dst = os.path.join(base, "w4", rnd.choice(LOCATIONS))
            os.makedirs(os.path.dirname(dst))
            shutil.copytree(ra, dst, symlinks=True)
            x = rt.run("verify", [dst], "2026-03-01 13:00:00")
            y = rt.run("verify", [ra], "2026-03-01 13:00:00")
            evals += 1
            # (with several vanished files of equal content -dr accepts the deleted ones as renamed too; whether that
            # tree then verifies is not C13's question - the same answer at both places is)
            if (x.exit, x.exc) != (y.exit, y.exc) or (ea and ea[-1][1] == 0 and x.exit != 0 and not sc.get("c13_equal_only")):
                fails.append({"what": f"the sealed tree copied to {os.path.relpath(dst, base)!r} verifies with exit {x.exit} {x.exc or ''}, at its original place with {y.exit}", "replay": {"scenario": sc, "loc1": loc1, "copy": os.path.relpath(dst, base)}})
            if i < 2:
                samples.append({"tree": sc["tree"], "ops": sc["ops"], "loc1": loc1, "loc2": loc2, "order_seed": order, "spell": spell})
        finally:
            shutil.rmtree(base, ignore_errors=True)
            while other_fs:
                shutil.rmtree(other_fs.pop(), ignore_errors=True)
    for w in ("D5a", "D5b", "D19"):
        for msg in witnesses.ALL[w]():
            fails.append({"what": f"regression of fixed defect {w}: {msg}", "replay": {"witness": w}})
    cov = {"evaluations": evals, "distinct_nontrivial": n,
           "rule": "one case = one multi-operation scenario sealed (a) at location 1, (b) at another location with another spelling of the root path, (c) at location 1 under a seeded permutation of os.listdir/os.walk, then (d) copied to a third location and verified; byte comparison of all ascmhl folders under the same frozen clock, identical mtimes; non-trivial = at least one create with >= 2 entries",
           "samples": samples, "input_distribution": dist, "monitor": {"cases": evals, "failing": len(fails)}, "exhaustive": False}
    return fw.finish(ctx, cov, fails, [], assumptions=["frozen clock, patched host name, file and directory mtimes set equal in all worlds", "tmpfs / the sandbox file system preserves names byte for byte"])


def replay(ctx, path):
    print(open(path).read()[:3000])
    return run(ctx)
