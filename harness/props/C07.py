"""C07 — directory hashes follow the compositional definition."""
from . import _scn
import random
from .. import monitors as M, gen


def listing_fault_case():
    """a sub folder whose listing fails (no permission, a stale mount): the run may stop with the error, but it never
    records or prints directory hashes as if the folder were empty"""
    import os, glob
    from .. import rt, oracles as O
    fails = []
    with rt.tempdir("c07f_") as d:
        root = os.path.join(d, "root")
        tree = {"a.txt": "a", "locked/x.mov": "x", "locked/y.mov": "y", "open/z.mov": "z"}
        rt.mk(root, tree)
        bad = os.path.join(root, "locked")
        real_listdir, real_scandir = os.listdir, os.scandir

        def listdir(p="."):
            if os.path.abspath(os.fspath(p)) == bad:
                raise PermissionError(13, "Permission denied (injected)", bad)
            return real_listdir(p)

        def scandir(p="."):
            if os.path.abspath(os.fspath(p)) == bad:
                raise PermissionError(13, "Permission denied (injected)", bad)
            return real_scandir(p)

        os.listdir, os.scandir = listdir, scandir
        try:
            x = rt.run("create", [root, "-h", "md5"], "2026-03-01 12:00:01")
            y = rt.run("verify", [root, "-dh", "-co", "-h", "md5"], "2026-03-01 12:00:02")
        finally:
            os.listdir, os.scandir = real_listdir, real_scandir
        ms = glob.glob(os.path.join(root, "ascmhl", "*.mhl"))
        empty_md5 = rt.digest("md5", b"")
        if ms:
            m = rt.read_manifest(ms[0])
            for r in m["records"]:
                if r["kind"] == "dir" and r["path"] == "locked" and any(e["digest"] == empty_md5 for e in r["entries"]):
                    fails.append({"what": f"create (exit {x.exit}) on a tree whose folder 'locked' cannot be listed records the directory hash of an EMPTY folder for it ({empty_md5}); the folder holds two files", "replay": {"case": "listing fault"}})
            if x.exit == 0 and not any(r["path"].startswith("locked/") for r in m["records"]):
                fails.append({"what": "create exits 0 on a tree whose folder 'locked' cannot be listed and records none of its files", "replay": {"case": "listing fault"}})
        if y.exit == 0 and y.exc is None and "locked" in y.out and empty_md5 in y.out:
            fails.append({"what": f"verify -dh -co prints the hash of an empty folder for 'locked', which cannot be listed", "replay": {"case": "listing fault"}})
    return fails


def run(ctx):
    scs = _scn.standard_pool(ctx, ctx.scale(70, 1200), ctx.scale(30, 500))
    # content edits that keep length and modification time ("the content hash changes whenever the content of any
    # descendant file changes"): seal, rewrite one file in place, print the directory hashes
    rnd = random.Random(ctx.seed * 31 + 7)
    for i in range(ctx.scale(25, 300)):
        fs = gen.FsSim()
        gen.gen_tree(rnd, fs, max_depth=rnd.choice([1, 2, 3]))
        files = [p for p in sorted(fs.files) if fs.files[p]]
        if not files:
            continue
        ops = [{"op": "create", "at": "", "h": gen.fmt_subset(rnd, (1, 3)), "now": "2026-03-01 12:00:01"}]
        if rnd.random() < 0.4:
            ops.append({"op": "create", "at": "", "h": gen.fmt_subset(rnd, (1, 2)), "now": "2026-03-01 12:00:02"})
        p = rnd.choice(files)
        c = fs.files[p]
        c2 = c[:-1] + ("#" if c[-1] != "#" else "%")
        ops.append({"op": "write", "path": p, "data": gen.enc(c2), "mtime": 1760000000})
        for f in [None] + gen.fmt_subset(rnd, (1, 2)):
            op = {"op": "verifydh", "at": "", "co": True}
            if f:
                op["h"] = f
            ops.append(op)
        scs.append({"seed": i, "profile": "c07-inplace", "root": "root", "tree": gen.tree_dict(fs), "ops": ops})
    # patterns with a slash are read relative to the folder the command was given, also below nested histories
    for pats in (["reel/scratch.txt"], ["/reel/sub/take.mov", "reel/sub/x*"], ["sub/take.mov"], ["reel/sub"]):
        tree = {"reel/scratch.txt": "s", "reel/keep.txt": "k", "reel/sub/take.mov": "t", "reel/sub/x1.txt": "x", "sub/take.mov": "other", "top.txt": "top"}
        ops = [{"op": "create", "at": "reel", "h": ["md5"], "now": "2026-03-01 12:00:01"}, {"op": "create", "at": "", "h": ["md5", "c4"], "now": "2026-03-01 12:00:02", "i": pats},
               {"op": "create", "at": "", "h": ["md5"], "now": "2026-03-01 12:00:03"}, {"op": "verifydh", "at": "", "co": True}, {"op": "verifydh", "at": ""}, {"op": "verify", "at": ""}]
        scs.insert(0, {"profile": "c07-slash-patterns", "root": "root", "tree": tree, "ops": ops})
    # a folder re-included after a file pattern, and a negation given in a LATER run than the pattern it overrides: the
    # patterns act in the order in which they are recorded
    for i1, i2 in ((["*.tmp", "!keep/"], []), (["*.tmp"], ["!keep/"]), (["*.tmp"], ["!keep.tmp"]), (["*.tmp", "!keep.tmp"], ["*.bak"])):
        tree = {"keep/render.tmp": "r", "keep/sub/proxy.tmp": "p", "other/x.tmp": "x", "a.txt": "a", "keep.tmp": "k", "b.bak": "b"}
        ops = [{"op": "create", "at": "", "h": ["md5", "c4"], "now": "2026-03-01 12:00:01", "i": i1}, {"op": "create", "at": "", "h": ["md5"], "now": "2026-03-01 12:00:02", "i": i2},
               {"op": "verifydh", "at": "", "co": True}, {"op": "verifydh", "at": ""}]
        scs.insert(0, {"profile": "c07-negation-order", "impl_only": True, "root": "root", "tree": tree, "ops": ops})
    # entries that the history's own patterns (or -i on the verify command line) exclude do not contribute
    for i in range(ctx.scale(12, 150)):
        fs = gen.FsSim()
        gen.gen_tree(rnd, fs, max_depth=rnd.choice([1, 2]))
        d = rnd.choice(sorted(fs.dirs))
        fs.files[(d + "/" if d else "") + "scratch.tmp"] = "ignored content %d" % i
        fs.files["keep.bak"] = "ignored backup"
        fs.files["cache/thumb.bin"] = "thumbnail %d" % i
        fs.files[(d + "/" if d else "") + "cache/deep/t.bin"] = "deep thumbnail"
        fs.dirs.update({"cache"})
        pats = rnd.choice([["*.tmp"], ["*.tmp", "*.bak"], ["keep.bak"], ["cache/"], ["cache/", "*.tmp"], ["/cache"]])
        ops = [{"op": "create", "at": "", "h": gen.fmt_subset(rnd, (1, 2)), "now": "2026-03-01 12:00:01", "i": pats}, {"op": "verifydh", "at": "", "co": True}, {"op": "verifydh", "at": ""},
               {"op": "create", "at": "", "h": gen.fmt_subset(rnd, (1, 2)), "now": "2026-03-01 12:00:02"}, {"op": "verifydh", "at": "", "co": True, "i": ["*.bak"]}]
        scs.append({"seed": i, "profile": "c07-ignored", "root": "root", "tree": gen.tree_dict(fs), "ops": ops})
    return _scn.run_scn(ctx, scs, M.m_c07, extra_fails=listing_fault_case(), assumptions=["reference evaluation of the compositional definition with the libraries' one-shot digests (harness/oracles.py ref_dirhashes)"])


def replay(ctx, path):
    return _scn.replay_generic(ctx, path, M.m_c07)
