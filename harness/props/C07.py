"""C07 — directory hashes follow the compositional definition."""
from . import _scn
from .. import monitors as M


def run(ctx):
    scs = _scn.standard_pool(ctx, ctx.scale(70, 1200), ctx.scale(30, 500))
    return _scn.run_scn(ctx, scs, M.m_c07, assumptions=["reference evaluation of the compositional definition with the libraries' one-shot digests (harness/oracles.py ref_dirhashes)"])


def replay(ctx, path):
    return _scn.replay_generic(ctx, path, M.m_c07)
