"""C14 — commands touch nothing beyond what they document."""
import os, random, json, re
from . import _scn
from .. import gen, rt, scenario, audit, oracles as O, monitors as M

READONLY = ("verify", "verifydh", "verifypl", "diff", "info", "infosf")


def install_audit():
    """wrap Impl.run so that every command runs under the audit recorder"""
    if getattr(scenario.Impl, "_audited", False):
        return
    orig = scenario.Impl.run

    def run(self, op):
        rt.commands()  # (the tool is imported, and the harness's scratch home made, outside the recorded region)
        ev, io_ = audit.record(lambda: orig(self, op))
        lnk = os.path.join(self.base, "_lnk")
        # paths spelled through the harness's own symbolic link denote the same files
        ev = [tuple((self.base + x[len(lnk):]) if isinstance(x, str) and (x == lnk or x.startswith(lnk + os.sep)) else x for x in e) for e in ev]
        if io_ is not None:
            # keep only events below the scenario base that the harness itself did not cause (the -ii temp file)
            # ... and events in the harness's scratch HOME / import-time working directory: a command that resolves a path
            # against the wrong place ends up there
            home = rt._HOME or "\0"
            io_["audit"] = [e for e in ev if any(isinstance(x, str) and (x.startswith(self.base) or x.startswith(home) or not x.startswith("/")) for x in e[1:2]) and not any(isinstance(x, str) and x == self.iifile for x in e[1:])]
            # relative paths are relative to the cwd at the time; the harness only uses cwd inside the base
            io_["audit"] = [tuple([e[0]] + [os.path.join(self.base, x) if isinstance(x, str) and not x.startswith("/") and i == 0 and False else x for i, x in enumerate(e[1:])]) for e in io_["audit"]]
        return io_

    scenario.Impl.run = run
    scenario.Impl._audited = True


def monitor(sc, res):
    fails = []
    root = res.get("root", "")
    for st in res["steps"]:
        op, io_ = st["op"], st["impl"]
        if io_ is None:
            continue
        k = op["op"]
        desc = f"{k} {json.dumps({x: y for x, y in op.items() if x not in ('op', 'now')}, ensure_ascii=False)} (exit {io_['exit']}{' ' + io_['exc'] if io_['exc'] else ''})"
        mb, ma = io_["media_before"], io_["media_after"]
        ab, aa = io_["asc_before"], io_["asc_after"]
        ev = io_.get("audit", [])
        if k in READONLY or k == "flatten":
            if mb != ma:
                ch = [p for p in set(mb) | set(ma) if mb.get(p) != ma.get(p)]
                fails.append({"what": f"{desc} changed media entries {ch[:4]} (content, mode or mtime)", "replay": sc})
            if ab != aa:
                fails.append({"what": f"{desc} changed the ascmhl folders: {sorted(set(ab) ^ set(aa))[:4]}", "replay": sc})
            dest = op.get("_dest")
            for e in ev:
                paths = [os.path.normpath(x) for x in e[1:] if isinstance(x, str) and x.startswith("/")]
                if k == "flatten" and dest and all(p == dest or p.startswith(dest + os.sep) for p in paths):
                    continue
                fails.append({"what": f"{desc} performed a file-system mutation: {e}", "replay": sc})
        elif k == "create" and io_["exc"] is not None and sc.get("profile") == "c14-fault":
            # a run that dies of an input outside the stated domain (a name XML cannot carry): what it leaves of its OWN
            # new files is not judged; what was there before must still be there, byte for byte
            for p in ab:
                if p not in aa:
                    fails.append({"what": f"{desc} removed the existing file {p!r}", "replay": sc})
                elif ab[p] != aa[p] and not p.endswith("ascmhl_chain.xml"):
                    fails.append({"what": f"{desc} modified the existing file {p!r}", "replay": sc})
            if mb != ma and any(mb.get(p, (None,))[:2] != ma.get(p, (None,))[:2] for p in set(mb) | set(ma)):
                fails.append({"what": f"{desc} changed media content", "replay": sc})
        elif k == "create":
            at = op.get("at", "")
            # media: bytes, mode and mtime of every file unchanged; directories: only those that received a new ascmhl folder
            # may change their mtime
            new_asc_dirs = {os.path.dirname(os.path.dirname(p)) if False else p.split("/ascmhl/")[0] if "/ascmhl/" in p else "" for p in aa if p not in ab}
            got_new_folder = {d for d in O.history_roots(aa) - O.history_roots(ab)}
            for p in set(mb) | set(ma):
                b, a = mb.get(p), ma.get(p)
                if b == a:
                    continue
                if b is None or a is None:
                    fails.append({"what": f"{desc} created or removed media entry {p!r}", "replay": sc})
                    continue
                if b[0] != a[0] or b[1] != a[1]:
                    fails.append({"what": f"{desc} changed content or mode of {p!r}", "replay": sc})
                elif b[0] is not None:
                    fails.append({"what": f"{desc} changed the modification time of file {p!r}", "replay": sc})
                else:
                    pp = "" if p == "." else p
                    if pp not in got_new_folder:
                        fails.append({"what": f"{desc} changed the modification time of directory {p!r} which did not receive a new ascmhl folder", "replay": sc})
            # ascmhl folders: only in-scope histories, exactly new manifest + chain, nothing else left behind
            wr = M.written_by_hist(io_, at)
            if op.get("sf"):
                # histories in scope of `create -sf`: those that contain a named entry (the owner and its ancestors up
                # to the command root) and those below a named folder
                roots = O.history_roots(aa)
                targets = [((at + "/") if at else "") + x.rstrip("/") for x in op["sf"]]
                scope = {r for r in roots if O.within(r, at) and any(r == "" or t == r or t.startswith(r + "/") or r.startswith(t + "/") for t in targets)}
                scope.add(at)
                for h in wr:
                    if h not in scope:
                        fails.append({"what": f"{desc} wrote {wr[h][0][0]!r} into the ascmhl folder of history {h!r}, which contains none of the named files and no history that does", "replay": sc})
            elif at in wr:
                # folder mode: the histories in scope are those whose root folder the effective patterns do not exclude
                try:
                    vis = O.visible(ma, at, wr[at][0][1]["ignore"])
                    for h in wr:
                        if h != at and O.rel(h, at) not in vis:
                            fails.append({"what": f"{desc} wrote {wr[h][0][0]!r} into the ascmhl folder of history {h!r}, whose folder the effective patterns {wr[at][0][1]['ignore']} exclude", "replay": sc})
                except Exception:
                    pass
            for p in set(ab) | set(aa):
                if ab.get(p) == aa.get(p):
                    continue
                h = p.split("/ascmhl/")[0] if "/ascmhl/" in p else ""
                name = p.rsplit("/", 1)[-1]
                if not O.within(h, at):
                    fails.append({"what": f"{desc} touched {p!r} outside its scope", "replay": sc})
                if name == "ascmhl_chain.xml.tmp" and p in ab and p not in aa:
                    continue  # the chain writer's own temporary name: a stale one is consumed by the next write
                if p in ab and p not in aa:
                    fails.append({"what": f"{desc} removed the existing file {p!r}", "replay": sc})
                    continue
                if p in ab and name != "ascmhl_chain.xml":
                    fails.append({"what": f"{desc} modified existing file {p!r}", "replay": sc})
                if p not in ab and not (name == "ascmhl_chain.xml" or re.match(r"^\d{4,}_.*\.mhl$", name)):
                    fails.append({"what": f"{desc} left an extra file behind: {p!r}", "replay": sc})
            for e in ev:
                if e and e[0] in ("os.remove", "os.unlink", "remove", "unlink") and len(e) > 1 and isinstance(e[1], str):
                    relp = os.path.relpath(e[1], root)
                    if relp in ab and not relp.endswith(".tmp"):
                        fails.append({"what": f"{desc} removed the existing file {relp!r} on the way (even if it puts a file of that name back afterwards)", "replay": sc})
            allowed = [os.path.join(root, h, "ascmhl") if h else os.path.join(root, "ascmhl") for h in wr]
            for e in ev:
                paths = [os.path.normpath(x) for x in e[1:] if isinstance(x, str) and x.startswith("/")]
                ok = all(any(p == a or p.startswith(a + os.sep) for a in allowed) for p in paths)
                if not ok:
                    fails.append({"what": f"{desc} performed a file-system mutation outside the ascmhl folders of the histories it wrote: {e}", "replay": sc})
    return fails


def readonly_tools_case():
    """`hash` and `xsd-schema-check` (manifest, chain with -df, with and without -xsd, also with a schema folder that
    lacks the combined directory schema) leave every file and folder as it was, whatever they answer"""
    import hashlib, shutil, glob
    fails = []

    def snap(top):
        out = {}
        for dp, dns, fns in os.walk(top):
            for n in dns + fns:
                p = os.path.join(dp, n)
                st = os.lstat(p)
                out[os.path.relpath(p, top)] = (st.st_mode, st.st_mtime_ns, st.st_size if n in fns else None, hashlib.sha1(open(p, "rb").read()).hexdigest() if n in fns and os.path.isfile(p) else None)
        return out

    with rt.tempdir("c14t_") as d:
        root = os.path.join(d, "root")
        rt.mk(root, {"a.txt": "a", "s/b.txt": "b"})
        rt.run("create", [root, "-h", "md5"], "2026-03-01 12:00:01")
        rt.run("create", [root, "-h", "sha1"], "2026-03-01 12:00:02")
        xs = os.path.join(d, "schemas")
        os.makedirs(xs)
        for f in glob.glob(os.path.join(rt.REPO, "xsd", "*.xsd")):
            if "__combined" not in os.path.basename(f):
                shutil.copy(f, xs)
        man = sorted(glob.glob(os.path.join(root, "ascmhl", "*.mhl")))[0]
        chain = os.path.join(root, "ascmhl", "ascmhl_chain.xml")
        calls = [("hash", [os.path.join(root, "a.txt"), "-h", "md5"]), ("hash", [os.path.join(root, "s", "b.txt"), "-h", "c4"]),
                 ("xsd_schema_check", [man]), ("xsd_schema_check", [chain, "-df"]), ("xsd_schema_check", [man, "-xsd", os.path.join(xs, "ASCMHL.xsd")]),
                 ("xsd_schema_check", [chain, "-df", "-xsd", os.path.join(xs, "ASCMHLDirectory.xsd")]), ("xsd_schema_check", [chain, "-xsd", os.path.join(xs, "ASCMHL.xsd")])]
        for cmd, args in calls:
            before = snap(d)
            # (xsd-schema-check looks for its default schema relative to the working directory: run it from the checkout)
            x = rt.run(cmd, args, None, rt.REPO)
            after = snap(d)
            if before != after:
                ch = sorted(k for k in set(before) | set(after) if before.get(k) != after.get(k))
                fails.append({"what": f"{cmd.replace('_', '-')} {' '.join(os.path.relpath(a, d) if a.startswith('/') else a for a in args)} (exit {x.exit}) created, changed or removed {ch[:4]}", "replay": {"case": "readonly tools", "cmd": cmd, "args": [os.path.relpath(a, d) if a.startswith("/") else a for a in args]}})
    return fails


def run(ctx):
    install_audit()
    scs = _scn.standard_pool(ctx, ctx.scale(70, 1200), ctx.scale(30, 500))
    rnd = random.Random(ctx.seed + 14)
    for sc in scs:
        # add hash / flatten / verify -pl so that every command kind occurs
        if rnd.random() < 0.5:
            sc["ops"] += [{"op": "flatten", "at": "", "dest_rel": rnd.random() < 0.5}, {"op": "verifypl", "at": ""}]
        if rnd.random() < 0.25:
            sc["ops"] += [{"op": "flatten", "at": "", "dest_missing_parent": True, "impl_only": True}]
        if rnd.random() < 0.3:
            # leftovers of an interrupted create inside the ascmhl folder: no command but a later create may replace
            # its own temporary files, and read-only commands leave them alone
            k = next((i for i, o in enumerate(sc["ops"]) if o["op"] == "create" and not o.get("at")), None)
            if k is not None:
                stale = [{"op": "write", "path": "ascmhl/0099_stale_2026-01-01_000000Z.mhl.tmp", "data": "<hashlist"}, {"op": "write", "path": "ascmhl/ascmhl_chain.xml.tmp", "data": ""}]
                sc["ops"] = sc["ops"][: k + 1] + stale + [{"op": "verify", "at": ""}, {"op": "info", "at": ""}, {"op": "diff", "at": ""}, {"op": "verifydh", "at": ""}] + sc["ops"][k + 1 :]
        if rnd.random() < 0.3:
            # read-only commands on a tree that has no history yet
            sc["ops"] = [{"op": "verify", "at": ""}, {"op": "verifydh", "at": ""}, {"op": "diff", "at": ""}, {"op": "info", "at": ""}, {"op": "flatten", "at": ""}] + sc["ops"]
    # a create that fails half way (a name that XML cannot carry in the OUTER history, after the nested history has
    # already been committed): whatever it does about its own new files, it removes nothing that was there before
    for nflag in (False, True):
        scs.insert(0, {"profile": "c14-fault", "root": "root", "tree": {"A/x.txt": "x", "A/B/y.txt": "y", "bad\x01name.txt": "b", "t.txt": "t"},
                       "ops": [{"op": "create", "at": "A/B", "h": ["md5"], "now": "2026-03-01 12:00:01"}, {"op": "create", "at": "A", "h": ["md5"], "now": "2026-03-01 12:00:02"},
                               {"op": "create", "at": "A", "h": ["sha1"], "now": "2026-03-01 12:00:03"},
                               dict({"op": "create", "at": "", "h": ["md5"], "now": "2026-03-01 12:00:04", "impl_only": True}, **({"n": True} if nflag else {})),
                               {"op": "verify", "at": "A", "impl_only": True}, {"op": "info", "at": "A", "impl_only": True}]})
    # a nested history in a folder that the enclosing history ignores stays untouched by runs of the enclosing folder,
    # with rename detection and new files around it
    for dr in (True, False):
        tree = {"proxies/p.txt": "p", "proxies/q.txt": "q", "a.txt": "a", "s/b.txt": "b"}
        ops = [{"op": "create", "at": "proxies", "h": ["md5"], "now": "2026-03-01 12:00:01"}, {"op": "create", "at": "", "h": ["md5"], "now": "2026-03-01 12:00:02", "i": ["proxies"]},
               {"op": "write", "path": "new.txt", "data": "n"}, {"op": "mv", "src": "a.txt", "dst": "a2.txt"},
               dict({"op": "create", "at": "", "h": ["md5"], "now": "2026-03-01 12:00:03"}, **({"dr": True} if dr else {})), {"op": "verify", "at": ""}, {"op": "info", "at": ""}]
        scs.insert(0, {"profile": "c14-ignored-nested", "impl_only": True, "root": "root", "tree": tree, "ops": ops})
    # a folder whose name a shell would expand (~, $HOME) given as a relative path: the commands work on THAT folder
    for nm in ("~", "$HOME", "~root"):
        ops = [{"op": "create", "at": "", "h": ["md5"], "now": "2026-03-01 12:00:01", "spell": "relative"}, {"op": "verify", "at": "", "spell": "relative"}, {"op": "info", "at": "", "spell": "relative"},
               {"op": "diff", "at": "", "spell": "relative"}, {"op": "create", "at": "", "h": ["md5"], "now": "2026-03-01 12:00:02", "spell": "relative", "sf": ["a.txt"]}, {"op": "flatten", "at": "", "spell": "relative"},
               {"op": "verifypl", "at": "", "spell": "relative"}]
        scs.insert(0, {"profile": "c14-shell-name", "impl_only": True, "root": nm, "tree": {"a.txt": "a", "s/b.txt": "b"}, "ops": ops})
    # -sf names a file that lies OUTSIDE the root (beside it): whatever the run makes of it, nothing above the root changes
    scs.insert(0, {"profile": "c14-sf-outside", "impl_only": True, "root": "shoot/reel", "tree": {"a.txt": "a", "s/b.txt": "b", "../notes.txt": "outside the root"},
                   "ops": [{"op": "create", "at": "", "h": ["md5"], "now": "2026-03-01 12:00:01"}, {"op": "create", "at": "", "h": ["md5"], "now": "2026-03-01 12:00:02", "sf": ["../notes.txt", "a.txt"]},
                           {"op": "verify", "at": ""}]})
    # a packing list verified on a later day than it was written (and again a month later)
    scs.insert(0, {"profile": "c14-pl-later", "impl_only": True, "root": "root", "tree": {"a.txt": "a", "s/b.txt": "b"},
                   "ops": [{"op": "create", "at": "", "h": ["md5"], "now": "2026-03-01 12:00:01"}, {"op": "flatten", "at": "", "now": "2026-03-01 13:00:00"}, {"op": "verifypl", "at": "", "now": "2026-03-01 14:00:00"},
                           {"op": "verifypl", "at": "", "now": "2026-03-02 09:00:00"}, {"op": "verifypl", "at": "", "now": "2026-04-02 09:00:00"}]})
    # histories in states that no command of the current tool produces (the text chain of the first releases with or
    # without the XML chain, no chain at all, foreign files in the ascmhl folder): whatever the commands answer, the
    # read-only ones write nothing and flatten writes nothing into the source
    for hist in ("", "A"):
        for state in ([{"op": "legacychain", "hist": hist}], [{"op": "legacychain", "hist": hist, "keep_xml": True}], [{"op": "rmchain", "hist": hist}],
                      [{"op": "write", "path": (hist + "/" if hist else "") + "ascmhl/ascmhl_chain.xml.bak", "data": "<ascmhldirectory/>"}, {"op": "write", "path": (hist + "/" if hist else "") + "ascmhl/notes.txt", "data": "n"}]):
            ro = []
            for at in ("", "A"):
                ro += [{"op": "verify", "at": at}, {"op": "verifydh", "at": at}, {"op": "diff", "at": at}, {"op": "info", "at": at}, {"op": "infosf", "at": at, "file": "x.txt" if at else "A/x.txt"},
                       {"op": "verify", "at": at, "sf": "x.txt" if at else "t.txt"}, {"op": "flatten", "at": at}]
            scs.insert(0, {"profile": "c14-odd-state", "impl_only": True, "root": "root", "tree": {"A/x.txt": "x", "A/B/y.txt": "y", "t.txt": "t"},
                           "ops": [{"op": "create", "at": "A", "h": ["md5"], "now": "2026-03-01 12:00:01"}, {"op": "create", "at": "", "h": ["md5"], "now": "2026-03-01 12:00:02"},
                                   {"op": "create", "at": "", "h": ["sha1"], "now": "2026-03-01 12:00:03"}] + state + ro})
    return _scn.run_scn(ctx, scs, monitor, extra_fails=readonly_tools_case(), assumptions=["reading adopted: the modification time of a directory that RECEIVES a new ascmhl folder changes by the documented effect", "Python-level audit events (open for writing, mkdir, rename, remove, rmdir, utime, chmod, truncate, shutil.*) plus a full snapshot (type, bytes, mode, mtime) before/after every command"])


def replay(ctx, path):
    install_audit()
    return _scn.replay_generic(ctx, path, monitor)
