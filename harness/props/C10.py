"""C10 — manifests and chain files read back exactly what was written."""
import os, random, json, datetime, io, glob
import xml.etree.ElementTree as ET
from .. import rt, framework as fw, witnesses, gen, pool
from ..model import Driver
from . import _scn

STRINGS = ["plain", "with space", "ünïcödé", "x&y", "a<b>c", "q\"uote'", "日本語 ✓", "𝄞clef", "  lead", "trail  ", "two  spaces", "-", "--", "a@b", "semi;colon", "[br]", "li ne", "pa ra", "é", "é", "#hash", "100%", "tab-less", "x" * 200, "]]>", "<!--", "&amp;", "back\\slash", "c:\\win", "tail\\", "take..2.mov", "notes...txt", "day1..day2", "..hidden", "~tilde", "$VAR"]
FORMATS = ["md5", "sha1", "xxh128", "xxh3", "xxh64", "c4"]


def rstr(rnd, allow_none=False, nonempty=True):
    if allow_none and rnd.random() < 0.35:
        return None
    return rnd.choice(STRINGS)


def rpath(rnd):
    return "/".join(rnd.choice(STRINGS + ["dir", "sub", "file.txt"]).strip("/") or "x" for _ in range(rnd.randint(1, 3)))


def rdigest(rnd, fmt):
    n = {"md5": 16, "sha1": 20, "xxh128": 16, "xxh3": 8, "xxh64": 8}.get(fmt)
    if fmt == "c4":
        return rt.c4_of_bytes(rnd.randbytes(8))
    return rnd.randbytes(n).hex()


def rdate(rnd, micro):
    d = datetime.datetime(2026, rnd.randint(1, 12), rnd.randint(1, 28), rnd.randint(0, 23), rnd.randint(0, 59), rnd.randint(0, 59), rnd.randint(0, 999999) if micro and rnd.random() < 0.8 else 0)
    return d


# fixed-offset zones (POSIX TZ strings): the dates written must denote the same instants in any of them
TZS = [("UTC", "+00:00"), ("<-0330>3:30", "-03:30"), ("<+0545>-5:45", "+05:45"), ("<-0930>9:30", "-09:30"), ("<+1400>-14", "+14:00")]
CUR_TZ = ["+00:00"]


def iso_utc(d, keep_micro):
    d2 = d if keep_micro else d.replace(microsecond=0)
    return d2.isoformat() + CUR_TZ[0]


def gen_spec(rnd, nrec=None):
    """a random well-formed generation: (spec for the model, python-side description)"""
    nrec = rnd.randint(0, 5) if nrec is None else nrec
    recs = []
    used = set()
    for _ in range(nrec):
        p = rpath(rnd)
        if nrec > 20:
            p = "%s/%04d %s" % (p, len(used), rnd.choice(STRINGS))  # many distinct, longish paths: a manifest of several read blocks
        if p in used or p == ".":
            continue
        used.add(p)
        is_dir = rnd.random() < 0.35
        fmts = rnd.sample(FORMATS, rnd.randint(0 if is_dir else 1, 4))
        if is_dir:
            fmts = sorted(fmts)
        ents = []
        for f in fmts:
            hd = rdate(rnd, True)
            e = {"fmt": f, "digest": rdigest(rnd, f), "action": None if is_dir else rnd.choice(["original", "verified", "failed"]), "_hashdate": hd, "hashdate": iso_utc(hd, True), "shash": rdigest(rnd, f) if is_dir else None}
            ents.append(e)
        lm = rdate(rnd, True) if rnd.random() < 0.8 else None
        recs.append({"path": p, "isDir": is_dir, "size": None if is_dir else rnd.choice([0, 1, 7, 1024, 2**40 + 3]), "_lastmod": lm, "lastmod": iso_utc(lm, False) if lm else None,
                     "prev": rpath(rnd) if rnd.random() < 0.2 else None, "entries": ents})
    root = None
    if rnd.random() < 0.7:
        fmts = sorted(rnd.sample(FORMATS, rnd.randint(1, 3)))
        ents = []
        for f in fmts:
            hd = rdate(rnd, True)
            ents.append({"fmt": f, "digest": rdigest(rnd, f), "action": None, "_hashdate": hd, "hashdate": iso_utc(hd, True), "shash": rdigest(rnd, f)})
        root = {"path": "/abs/root", "isDir": True, "size": None, "lastmod": None, "prev": None, "entries": ents}
    authors = []
    for _ in range(rnd.choice([0, 1, 1, 2])):
        authors.append({"name": rstr(rnd, True), "role": rstr(rnd, True), "email": rnd.choice([None, "a@b.c", "é@x.yz", "erika@dit-cart", "a handle", "two@at@signs.org"]), "phone": rstr(rnd, True)})
    ign = [".DS_Store", "ascmhl", "ascmhl/"] + list(dict.fromkeys(rnd.sample(STRINGS + ["*.tmp", "tmp/"], rnd.randint(0, 3))))
    return {
        "creator": {"creationdate": iso_utc(rdate(rnd, False), False), "hostname": rstr(rnd), "toolName": "ascmhl", "toolVersion": rstr(rnd), "authors": authors, "location": rstr(rnd, True), "comment": rstr(rnd, True)},
        "process": rnd.choice(["in-place", "flatten"]),
        "roothash": root,
        "ignore": ign,
        "records": recs,
        "refs": [],
        "_nrefs": rnd.choice([0, 0, 1, 2]),
    }


def strip_private(x):
    if isinstance(x, dict):
        return {k: strip_private(v) for k, v in x.items() if not k.startswith("_")}
    if isinstance(x, list):
        return [strip_private(v) for v in x]
    return x


def build_python(spec, root):
    """the same generation as ascmhl objects; returns (hash_list, file_path)"""
    from ascmhl import hashlist as HL
    from ascmhl.ignore import MHLIgnoreSpec

    hl = HL.MHLHashList()
    c = spec["creator"]
    ci = HL.MHLCreatorInfo()
    ci.creation_date, ci.host_name, ci.location, ci.comment = c["creationdate"], c["hostname"], c["location"], c["comment"]
    ci.tool = HL.MHLTool(c["toolName"], c["toolVersion"])
    for a in c["authors"]:
        ci.authors.append(HL.MHLAuthor(a["name"], a["email"], a["phone"], a["role"]))
    hl.creator_info = ci
    hl.process_info.process = HL.MHLProcess(spec["process"])
    sp = MHLIgnoreSpec()
    sp._ignore_list = list(spec["ignore"])
    hl.process_info.ignore_spec = sp

    def media(r):
        mh = HL.MHLMediaHash()
        mh.path, mh.is_directory, mh.file_size = r["path"], r["isDir"], r["size"]
        mh.last_modification_date = r.get("_lastmod")
        mh.previous_path = r["prev"]
        for e in r["entries"]:
            he = HL.MHLHashEntry(e["fmt"], e["digest"], e["action"], e["_hashdate"])
            he.structure_hash_string = e["shash"]
            mh.append_hash_entry(he)
        return mh

    for r in spec["records"]:
        hl.append_hash(media(r))
    if spec["roothash"]:
        hl.process_info.root_media_hash = media(spec["roothash"])
    # referenced child manifests: real files so that the reference digest can be taken
    refs = []
    for i in range(spec["_nrefs"]):
        cdir = os.path.join(root, f"child {i}é", "ascmhl")
        os.makedirs(cdir, exist_ok=True)
        # (child histories in folders of the same name, at the same generation, sealed in the same second, have manifests
        # of the same file name: every second reference repeats the previous one's file name)
        fp = os.path.join(cdir, f"000{(i - i % 2) + 1}_child_2026-01-01_000000Z.mhl")
        with open(fp, "wb") as f:
            f.write(os.urandom(40))
        ch = HL.MHLHashList()
        ch.file_path = fp
        hl.referenced_hash_lists.append(ch)
        refs.append({"path": os.path.relpath(fp, root), "c4": rt.c4_of_bytes(open(fp, "rb").read())})
    spec["refs"] = refs
    os.makedirs(os.path.join(root, "ascmhl"), exist_ok=True)
    return hl, os.path.join(root, "ascmhl", "0001_root_2026-03-01_120000Z.mhl")


def infoset(path):
    def conv(e):
        kids = [conv(c) for c in e]
        text = e.text if not kids else None
        if text == "":
            text = None
        return {"tag": rt._lt(e), "attrs": {k.split("}")[-1]: v for k, v in e.attrib.items()}, "text": text, "children": kids}

    return conv(ET.parse(path).getroot())


def obj_of_parsed(hl):
    """the object graph returned by the tool's own reader, in the model's JSON shape"""

    def ent(e, is_dir):
        return {"fmt": e.hash_format, "digest": e.hash_string, "action": e.action, "hashdate": e.hash_date, "shash": e.structure_hash_string}

    def rec(m):
        return {"path": m.path, "isDir": bool(m.is_directory), "size": m.file_size, "lastmod": None if m.last_modification_date is None else "SET", "prev": m.previous_path, "entries": [ent(e, m.is_directory) for e in m.hash_entries]}

    ci = hl.creator_info
    return {
        "creator": {"creationdate": ci.creation_date, "hostname": ci.host_name, "toolName": ci.tool.name if ci.tool else None, "toolVersion": ci.tool.version if ci.tool else None,
                    "location": ci.location, "comment": ci.comment, "authors": [{"name": a.name, "role": a.role, "email": a.email, "phone": a.phone} for a in ci.authors]},
        "process": hl.process_info.process,
        "roothash": rec(hl.process_info.root_media_hash) if hl.process_info.root_media_hash is not None else None,
        "ignore": hl.process_info.ignore_spec.get_pattern_list(),
        "records": [rec(m) for m in hl.media_hashes],
        "refs": [{"path": r.path, "c4": r.reference_hash} for r in hl.hash_list_references],
    }


def same_instant(dt, iso):
    if dt is None or iso is None:
        return dt is None and iso is None
    return abs(dt.timestamp() - datetime.datetime.fromisoformat(iso).timestamp()) < 1e-6


def compare_objects(got, exp, where, out):
    """got: tool's parse (dates as datetime); exp: model's norm (dates as strings)"""

    def cmp_rec(g, e, w):
        for k in ("path", "isDir", "size", "prev"):
            if g[k] != e[k]:
                out.append(f"{w}.{k}: tool's reader {g[k]!r}, written {e[k]!r}")
        if len(g["entries"]) != len(e["entries"]):
            out.append(f"{w}.entries: tool's reader {len(g['entries'])} entries, written {len(e['entries'])}")
            return
        for a, b in zip(g["entries"], e["entries"]):
            for k in ("fmt", "digest", "action", "shash"):
                if a[k] != b[k]:
                    out.append(f"{w} {b['fmt']}.{k}: tool's reader {a[k]!r}, written {b[k]!r}")
            if not same_instant(a["hashdate"], b["hashdate"]):
                out.append(f"{w} {b['fmt']}.hashdate: tool's reader {a['hashdate']!r}, written {b['hashdate']!r}")

    for k in ("creationdate", "hostname", "toolName", "toolVersion", "location", "comment", "authors"):
        if got["creator"][k] != exp["creator"][k]:
            out.append(f"{where} creatorinfo.{k}: tool's reader {got['creator'][k]!r}, written {exp['creator'][k]!r}")
    for k in ("process", "ignore", "refs"):
        if got[k] != exp[k]:
            out.append(f"{where} {k}: tool's reader {got[k]!r}, written {exp[k]!r}")
    if (got["roothash"] is None) != (exp["roothash"] is None):
        out.append(f"{where} roothash presence: tool's reader {got['roothash'] is not None}, written {exp['roothash'] is not None}")
    elif got["roothash"]:
        cmp_rec(got["roothash"], exp["roothash"], where + " roothash")
    if [r["path"] for r in got["records"]] != [r["path"] for r in exp["records"]]:
        out.append(f"{where} record paths: tool's reader {[r['path'] for r in got['records']]!r}, written {[r['path'] for r in exp['records']]!r}")
    else:
        for g, e in zip(got["records"], exp["records"]):
            cmp_rec(g, e, f"{where} record {e['path']!r}")


def run(ctx):
    _scn.build_and_audit(ctx)
    rnd = random.Random(ctx.seed * 211 + 10)
    fails, corr, evals, samples = [], [], 0, []
    dist = {"records": 0, "dir_records": 0, "refs": 0, "authors": 0, "with_root": 0, "chains": 0}
    drv = None
    try:
        drv = Driver()
    except Exception as e:
        ctx.broken.append(f"model driver does not start: {e}")
    import ascmhl.hashlist_xml_parser as P
    import ascmhl.chain_xml_parser as CP
    from ascmhl.chain import MHLChain, MHLChainGeneration

    n = ctx.scale(250, 5000)
    import time as _time
    old_tz = os.environ.get("TZ")
    for i in range(n):
        tzname, suffix = TZS[i % len(TZS)] if i % 2 else TZS[0]
        os.environ["TZ"] = tzname
        _time.tzset()
        CUR_TZ[0] = suffix
        # every 50th generation is large (hundreds of records: a manifest that the reader receives in several blocks)
        spec = gen_spec(rnd, nrec=rnd.randint(250, 600) if i % 50 == 7 else None)
        with rt.tempdir("c10_") as d:
            root = os.path.join(d, "root")
            os.makedirs(root)
            try:
                hl, fp = build_python(spec, root)
                P.write_hash_list(hl, fp)
            except Exception as e:
                fails.append({"what": f"write_hash_list raised {type(e).__name__}: {e}", "replay": {"spec": strip_private(spec)}})
                continue
            evals += 1
            dist["records"] += len(spec["records"])
            dist["dir_records"] += sum(1 for r in spec["records"] if r["isDir"])
            dist["refs"] += len(spec["refs"])
            dist["authors"] += len(spec["creator"]["authors"])
            dist["with_root"] += int(spec["roothash"] is not None)
            mspec = strip_private(spec)
            model = drv.send({"op": "xml", "gen": mspec}) if drv else None
            # (a) independent reader vs the model's writer
            try:
                iset = infoset(fp)
            except Exception as e:
                fails.append({"what": f"the written manifest is not well-formed XML ({e}); records {[(r['path'], r.get('prev')) for r in mspec['records']][:4]}", "replay": {"spec": mspec}})
                continue
            if model and iset != model["tree"]:
                corr.append({"what": "the file read by an independent XML reader differs from the model's element tree: " + first_diff(iset, model["tree"]), "replay": {"spec": mspec}})
            # (b) the tool's own reader - every third file is read in ANOTHER zone than it was written in (a manifest
            # travels): the dates read are the instants written
            if i % 3 == 0:
                os.environ["TZ"] = TZS[(i // 3 + 2) % len(TZS)][0]
                _time.tzset()
                dist["read_in_other_zone"] = dist.get("read_in_other_zone", 0) + 1
            try:
                back = obj_of_parsed(P.parse(fp))
            except Exception as e:
                fails.append({"what": f"the tool's reader raised {type(e).__name__}: {e} on a file the tool wrote", "replay": {"spec": mspec}})
                continue
            problems = []
            exp = model["norm"] if model else None
            if exp:
                compare_objects(back, exp, "", problems)
                if model["parsed"] != model["norm"]:
                    corr.append({"what": "model: parse(toXml g) differs from norm g", "replay": {"spec": mspec}})
            # independent statement of the property, not through the model: every written value comes back
            direct = []
            compare_objects(back, direct_norm(mspec), "", direct)
            for pmsg in direct[:3]:
                fails.append({"what": "write -> own reader: " + pmsg.strip(), "replay": {"spec": mspec}})
            if exp and problems and not direct:
                corr.append({"what": "tool's reader vs model's norm: " + problems[0], "replay": {"spec": mspec}})
            # (c) independent reader extracts the same values as the tool's reader
            try:
                m = rt.read_manifest(fp)
            except Exception as e:
                fails.append({"what": f"the written manifest is not well-formed for an independent XML reader: {e}", "replay": {"spec": mspec}})
                continue
            ip = [r["path"] for r in m["records"]]
            if ip != [r["path"] for r in back["records"]]:
                fails.append({"what": f"independent reader sees record paths {ip!r}, the tool's reader {[r['path'] for r in back['records']]!r}", "replay": {"spec": mspec}})
            if i < 2:
                samples.append(mspec)
    if old_tz is None:
        os.environ.pop("TZ", None)
    else:
        os.environ["TZ"] = old_tz
    _time.tzset()
    CUR_TZ[0] = "+00:00"
    # chain files
    for i in range(ctx.scale(60, 1000)):
        with rt.tempdir("c10c_") as d:
            ad = os.path.join(d, "root", "ascmhl")
            os.makedirs(ad)
            ch = MHLChain(os.path.join(ad, "ascmhl_chain.xml"))
            same_seq = rnd.random() < 0.3
            ents = []
            for k in range(rnd.randint(0, 4)):
                # (a collection file lists every packing list with sequence number 1)
                e = {"seq": str(1 if same_seq else k + 1), "path": f"000{k+1}_{rnd.choice(STRINGS)}_2026-01-01_00000{k}Z.mhl", "fmt": "c4", "digest": rt.c4_of_bytes(rnd.randbytes(5))}
                ents.append(e)
                ch.append_generation(MHLChainGeneration(e["seq"], e["path"], "c4", e["digest"]))
            from ascmhl.hashlist import MHLHashList

            nh = MHLHashList()
            name = f"000{len(ents)+1}_{rnd.choice(STRINGS)}_2026-03-01_120000Z.mhl"
            nh.file_path = os.path.join(ad, name)
            with open(nh.file_path, "wb") as f:
                f.write(rnd.randbytes(30))
            nh.generation_number = 1 if same_seq else len(ents) + 1
            CP.write_chain(ch, nh)
            evals += 1
            dist["chains"] += 1
            exp = ents + [{"seq": str(1 if same_seq else len(ents) + 1), "path": name, "fmt": "c4", "digest": rt.c4_of_bytes(open(nh.file_path, "rb").read())}]
            try:
                back = [{"seq": g.generation_number, "path": g.ascmhl_filename, "fmt": g.hash_format, "digest": g.hash_string} for g in CP.parse(ch.file_path).generations]
            except Exception as e:
                back = f"the tool's own reader fails ({type(e).__name__}: {str(e)[:100]})"
            if back != exp:
                fails.append({"what": f"chain write -> own reader: {back} differs from what was written {exp}", "replay": {"chain": exp}})
            try:
                ind = rt.read_chain(ch.file_path)
            except Exception as e:
                ind = f"not well-formed for an independent reader ({e})"
            if ind != exp:
                fails.append({"what": f"chain read by an independent reader {ind} differs from what was written {exp}", "replay": {"chain": exp}})
            if drv:
                mo = drv.send({"op": "xmlchain", "entries": exp})
                if mo["parsed"] != exp:
                    corr.append({"what": f"model chain round trip differs: {mo['parsed']}", "replay": {"chain": exp}})
    if drv:
        drv.close()
    # the same under a process locale that is not UTF-8: the files declare UTF-8 and are UTF-8
    try:
        import subprocess
        with rt.tempdir("c10l_") as d:
            root = os.path.join(d, "root")
            rt.mk(root, {"a.txt": "a", "s/b.txt": "u"})  # (ASCII names: under such a locale Python itself cannot represent other names as text)
            env = dict(os.environ, LC_ALL="C", LANG="C", PYTHONUTF8="0", PYTHONCOERCECLOCALE="0")
            env.pop("PYTHONIOENCODING", None)
            pr = subprocess.run(["/venv/bin/python", os.path.join(rt.VERIF, "harness", "locale_case.py"), rt.REPO, root], capture_output=True, text=True, timeout=120, env=env)
            evals += 1
            line = [l for l in pr.stdout.split("\n") if l.startswith("{")]
            if not line:
                fails.append({"what": f"create under LC_ALL=C (UTF-8 mode off) with non-ASCII creator fields: no result, stderr {pr.stderr[-200:]!r}", "replay": {"case": "locale C"}})
            else:
                o = json.loads(line[-1])
                if o["exit"] != 0 or o["exc"] or not o.get("utf8") or not o.get("has_comment"):
                    fails.append({"what": f"create under LC_ALL=C (UTF-8 mode off, locale encoding {o.get('locale')}) with non-ASCII creator fields: {o}", "replay": {"case": "locale C"}})
    except Exception as e:
        ctx.notes.append(f"locale case not run: {e!r}")
    for w in ("D3", "D9", "D15"):
        for msg in witnesses.ALL[w]():
            fails.append({"what": f"regression of fixed defect {w}: {msg}", "replay": {"witness": w}})
    cov = {"evaluations": evals, "distinct_nontrivial": evals,
           "rule": "one evaluation = one random well-formed generation (or chain) built as ascmhl objects, written with write_hash_list / write_chain, read back by the tool's reader and by an independent ElementTree reader, and compared field by field with what was written and with the model's toXml / parse / norm; strings from a pool with XML specials, non-ASCII, astral, NFC/NFD, unicode line separators, leading/trailing/multiple spaces",
           "samples": samples, "input_distribution": dist, "monitor": {"cases": evals, "failing": len(fails)}, "exhaustive": False}
    return fw.finish(ctx, cov, fails, corr, assumptions=["text without control characters; TZ=UTC for the date strings", "the lexical XML layer (lxml/libxml2 escaping and encoding) is exercised, not modelled"])


def direct_norm(spec):
    """what must come back, stated without the model: everything written, minus last-modification dates"""
    def nrec(r, root=False):
        ents = r["entries"] if r["isDir"] else sorted(r["entries"], key=lambda e: e["fmt"])
        return {"path": "." if root else r["path"], "isDir": True if root else r["isDir"], "size": None if root else r["size"], "prev": r["prev"], "lastmod": None,
                "entries": [{"fmt": e["fmt"], "digest": e["digest"], "action": e["action"], "hashdate": e["hashdate"], "shash": e["shash"]} for e in ents]}

    c = spec["creator"]
    return {"creator": {k: (c[k] if c[k] != "" else None) for k in ("creationdate", "hostname", "toolName", "toolVersion", "location", "comment")} | {"authors": c["authors"]},
            "process": spec["process"], "roothash": nrec(spec["roothash"], True) if spec["roothash"] and spec["roothash"]["entries"] else None,
            "ignore": spec["ignore"], "records": [nrec(r) for r in spec["records"]], "refs": spec["refs"]}


def first_diff(a, b, path=""):
    if type(a) != type(b):
        return f"{path}: {a!r} vs {b!r}"
    if isinstance(a, dict):
        for k in sorted(set(a) | set(b)):
            if a.get(k) != b.get(k):
                return first_diff(a.get(k), b.get(k), path + "/" + str(k))
    if isinstance(a, list):
        if len(a) != len(b):
            return f"{path}: {len(a)} vs {len(b)} items ({[x.get('tag') if isinstance(x, dict) else x for x in a]} vs {[x.get('tag') if isinstance(x, dict) else x for x in b]})"
        for i, (x, y) in enumerate(zip(a, b)):
            if x != y:
                return first_diff(x, y, f"{path}[{i}]")
    return f"{path}: {a!r} vs {b!r}"


def replay(ctx, path):
    print(open(path).read()[:3000])
    return run(ctx)
