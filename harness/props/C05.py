"""C05 — any change to a chained manifest is detected before anything else happens."""
import random, json, os
from . import _scn
from .. import gen, oracles as O

EDITS = ["wipe", "flip", "flip_first", "flip_last", "insert", "delete", "truncate", "empty", "append", "cr_insert", "crlf", "bom", "trailing_space", "case", "swap", "swap", "remove", "rmchain"]
COMMANDS = ["create", "create_sf", "verify", "verifydh", "verifydh_co", "diff", "info", "infosf", "flatten"]


def base_world(rnd):
    tree = {"a.txt": "alpha", "s/b.txt": "beta", "s/t/c.txt": "gamma", "s/t/u/d.txt": "delta", "x/e.txt": "eps", ".px/cam/f.txt": "phi"}
    ops = []
    t = [0]

    # a nested history may live in a folder that the enclosing history ignores, or below a dot-folder: it is still a
    # history in scope, and its chain is checked like any other
    pats = rnd.sample(["x", "s", "t", "u", ".px", "x/", "cam", "s/t"], rnd.randint(1, 2)) if rnd.random() < 0.35 else []

    def create(at):
        t[0] += 1
        ops.append({"op": "create", "at": at, "h": gen.fmt_subset(rnd, (1, 2)), "now": "2026-03-01 12:00:%02d" % t[0]})
        if pats and rnd.random() < 0.8:
            ops[-1]["i"] = pats

    nested = rnd.sample(["s", "s/t", "s/t/u", "x", ".px/cam"], rnd.randint(0, 3))
    nested.sort(key=lambda d: -d.count("/")) if rnd.random() < 0.5 else rnd.shuffle(nested)
    for d in nested:
        for _ in range(rnd.randint(1, 2)):
            create(d)
    for _ in range(rnd.randint(1, 3)):
        create("")
    return tree, ops, [""] + nested


def build(seed):
    rnd = random.Random(seed)
    tree, ops, hists = base_world(rnd)
    hist = rnd.choice(hists)
    edit = rnd.choice(EDITS)
    cmd = rnd.choice(COMMANDS)
    if edit == "rmchain":
        ops.append({"op": "rmchain", "hist": hist, "leave_tmp": rnd.random() < 0.4})
        exp = 32
    elif edit == "wipe":
        # the folder is still there, everything in it is gone: an existing ascmhl folder without chain file
        ops.append({"op": "wipe", "hist": hist})
        exp = 32
    else:
        kind = {"flip_first": "flip", "flip_last": "flip"}.get(edit, edit)
        top = {"op": "tamper", "hist": hist, "gen": rnd.randint(0, 5), "kind": kind, "pos": 0 if edit == "flip_first" else (-1 if edit == "flip_last" else rnd.randint(0, 10**6)), "bit": rnd.randint(0, 7), "keep_mtime": rnd.random() < 0.7}
        ops.append(top)
        exp = 33 if edit == "remove" else 31
    c = {"create": {"op": "create", "at": "", "h": ["md5"], "now": "2026-03-01 12:30:00"},
         "create_sf": {"op": "create", "at": "", "h": ["md5"], "sf": ["a.txt"], "now": "2026-03-01 12:30:00"},
         "verify": {"op": "verify", "at": ""}, "verifydh": {"op": "verifydh", "at": ""}, "diff": {"op": "diff", "at": ""},
         "verifydh_co": dict({"op": "verifydh", "at": "", "co": True}, **({"h": rnd.choice(gen.FORMATS)} if rnd.random() < 0.5 else {})),
         "info": {"op": "info", "at": ""}, "infosf": {"op": "infosf", "at": "", "file": rnd.choice(["a.txt", "a.txt", "s/b.txt", "s/t/c.txt", "s/t/u/d.txt", "x/e.txt"])}, "flatten": {"op": "flatten", "at": ""}}[cmd]
    ops.append(c)
    return {"seed": seed, "profile": "c05", "root": "root", "tree": tree, "ops": ops, "c05": {"hist": hist, "edit": edit, "cmd": cmd, "expect": exp}}


def monitor(sc, res):
    meta = sc.get("c05")
    if not meta:
        return []
    fails = []
    st = res["steps"][-1]
    io_ = st["impl"]
    if io_ is None:
        return fails
    tam = res["steps"][-2]["op"]
    desc = f"{meta['edit']} of {tam.get('file', 'chain file')} in history '{meta['hist']}', then {meta['cmd']}"
    if io_["exc"] is not None:
        fails.append({"what": f"{desc}: aborted with {io_['exc']} instead of refusing with {meta['expect']}", "replay": sc})
    elif io_["exit"] != meta["expect"]:
        fails.append({"what": f"{desc}: exit {io_['exit']}, expected {meta['expect']}", "replay": sc})
    if io_["asc_before"] != io_["asc_after"] or io_["media_before"] != io_["media_after"]:
        ch = sorted(set(io_["asc_after"]) ^ set(io_["asc_before"])) or [k for k in io_["asc_after"] if io_["asc_after"][k] != io_["asc_before"].get(k)]
        fails.append({"what": f"{desc}: the refused command changed the tree: {ch[:4]}", "replay": sc})
    if meta["cmd"] == "flatten" and (io_.get("flatten_dest") or io_.get("flatten_dest_dirs")):
        fails.append({"what": f"{desc}: flatten wrote {sorted(io_.get('flatten_dest') or []) + [d + '/' for d in io_.get('flatten_dest_dirs') or []]} into its destination although the history is damaged (a refused command writes nothing)", "replay": sc})
    return fails


def duplicated_history_cases(ctx):
    """a nested history that exists twice below one root (a card and its copy, ascmhl folder included): the manifests have
    the same names and, until one is edited, the same bytes - each copy is still checked against its own chain.
    Runs on the implementation only (the model has no copy operation)."""
    from .. import pool
    rnd = random.Random(ctx.seed * 31 + 55)
    scs = []
    for i in range(ctx.scale(16, 200)):
        tree = {"card/a.txt": "alpha", "card/s/b.txt": "beta", "top.txt": "t"}
        ops = [{"op": "create", "at": "card", "h": ["md5"], "now": "2026-03-01 12:00:01"}]
        if rnd.random() < 0.5:
            ops.append({"op": "create", "at": "card", "h": ["sha1"], "now": "2026-03-01 12:00:02"})
        copy = rnd.choice(["card copy", "backup/card", "z"])
        ops.append({"op": "cptree", "src": "card", "dst": copy})
        if rnd.random() < 0.7:
            ops.append({"op": "create", "at": "", "h": ["md5"], "now": "2026-03-01 12:00:03"})
        victim = rnd.choice(["card", copy])
        edit = rnd.choice(["flip", "insert", "delete", "append", "remove", "swap"])
        ops.append({"op": "tamper", "hist": victim, "gen": rnd.randint(0, 3), "kind": edit, "pos": rnd.randint(0, 10**6), "bit": rnd.randint(0, 7), "keep_mtime": True})
        cmd = rnd.choice(COMMANDS)
        c = {"create": {"op": "create", "at": "", "h": ["md5"], "now": "2026-03-01 12:30:00"}, "create_sf": {"op": "create", "at": "", "h": ["md5"], "sf": ["top.txt"], "now": "2026-03-01 12:30:00"},
             "verify": {"op": "verify", "at": ""}, "verifydh": {"op": "verifydh", "at": ""}, "verifydh_co": {"op": "verifydh", "at": "", "co": True}, "diff": {"op": "diff", "at": ""}, "info": {"op": "info", "at": ""},
             "infosf": {"op": "infosf", "at": "", "file": "top.txt"}, "flatten": {"op": "flatten", "at": ""}}[cmd]
        ops.append(c)
        scs.append({"seed": i, "profile": "c05-duplicate", "impl_only": True, "root": "root", "tree": tree, "ops": ops, "c05": {"hist": victim, "edit": edit, "cmd": cmd, "expect": 33 if edit == "remove" else 31}})
    r = pool.run_pool(scs, monitor=monitor, with_model=False)
    return r["fails"]


def big_manifest_case():
    """a manifest of more than one read chunk (1 MiB): a change BEHIND the first chunk is a change"""
    import re, time
    from .. import rt
    fails = []
    with rt.tempdir("c05b_") as d:
        root = os.path.join(d, "card")
        os.makedirs(root)
        for i in range(4200):
            with open(os.path.join(root, "A001C%04d_210101_R1AB_a_rather_long_clip_name_as_cameras_write_them.mov" % i), "w") as f:
                f.write(str(i))
        x = rt.run("create", [root, "-h", "md5"], "2026-03-01 12:00:01")
        mp = [os.path.join(root, "ascmhl", n) for n in os.listdir(os.path.join(root, "ascmhl")) if n.endswith(".mhl")]
        if x.exit != 0 or len(mp) != 1:
            return [{"what": f"create of 4200 files exits {x.exit}", "replay": {"case": "big manifest"}}]
        b = open(mp[0], "rb").read()
        if len(b) <= 1024 * 1024 + 4096:
            return []  # (not large enough on this writer: nothing to judge)
        hits = [m for m in re.finditer(rb">([0-9a-f]{32})<", b) if m.start(1) > 1024 * 1024 + 2048]
        for m in (hits[0], hits[-1]):
            pos = m.start(1) + 5
            b2 = b[:pos] + (b"0" if b[pos:pos + 1] != b"0" else b"1") + b[pos + 1:]
            st = os.stat(mp[0])
            open(mp[0], "wb").write(b2)
            os.utime(mp[0], ns=(st.st_atime_ns, st.st_mtime_ns))
            for cmd, args in (("verify", [root]), ("info", [root]), ("create", [root, "-h", "md5"])):
                y = rt.run(cmd, args, "2026-03-01 12:00:09")
                if y.exit != 31:
                    fails.append({"what": f"{cmd} after changing one digit at byte {pos} of a {len(b)}-byte manifest (behind the first MiB): exit {y.exit} {y.exc or ''}, expected 31", "replay": {"case": "big manifest", "position": pos, "size": len(b)}})
            open(mp[0], "wb").write(b)
            os.utime(mp[0], ns=(st.st_atime_ns, st.st_mtime_ns))
    return fails


def run(ctx):
    n = ctx.scale(260, 4000)
    scs = [build(ctx.seed * 1000721 + i) for i in range(n)]
    combos = {(s["c05"]["edit"], s["c05"]["cmd"], s["c05"]["hist"] != "") for s in scs}
    return _scn.run_scn(ctx, scs, monitor, extra_fails=duplicated_history_cases(ctx) + big_manifest_case(), nontrivial=lambda scs: len({(s.get("c05", {}).get("edit"), s.get("c05", {}).get("cmd"), s.get("c05", {}).get("hist")) for s in scs}),
        extra_cov={"edit_x_command_x_nested_combinations": len(combos), "of": len(EDITS) * len(COMMANDS) * 2},
        rule="one evaluation = build a (nested) multi-generation history, damage ONE manifest or chain file (edit kind x position), run ONE history-reading command; distinct = distinct (edit kind, command, history) triples; snapshot of the whole tree before/after",
        assumptions=["a single fault per scenario (so the exit code is determined)", "the edited bytes differ from the original (by construction), so their SHA-512/C4 differs (observed: the tool reports 31)"])


def replay(ctx, path):
    return _scn.replay_generic(ctx, path, monitor)
